(* Soundness of signatures, part 2: Theorem A - content determines the plain value.
   Over a universe satisfying [univ_ok] (SoundnessDefs.v):
   - [body_determines_value] (A1): two analysed nodes with the same content are the same function of their parameter
     values (and have the same parameters);
   - [args_determined] (A2): two consistent argument contexts with the same argument content bind the same values;
   - [content_determines_value] (Theorem A) and [content_determines_value_known] (all arguments known). *)
From Coq Require Import List Ascii String ZArith NArith Bool Lia.
From DDS Require Import Base.Bytes Extracted.ConstHash L0_Hash.PyVal L0_Hash.DdsHash L1_Args.ArgCtx
     L3_Sig.Program L3_Sig.Sig L3_Sig.SigTree L3_Sig.SigTreeProofs
     L4_Eval.Stages L4_Eval.DdsEval L4_Eval.EvalSpec L4_Eval.EvalProofs L4_Eval.SoundnessDefs.
Import ListNotations.

(* ---------------------------------------------------------------------------------------------------------------- *)
(* 0. generic list facts                                                                                             *)
(* ---------------------------------------------------------------------------------------------------------------- *)
Lemma app_eq_len : forall (A : Type) (a a' b b' : list A),
  a ++ b = a' ++ b' -> List.length a = List.length a' -> a = a' /\ b = b'.
Proof.
  intros A. induction a as [|x a IH]; intros [|y a'] b b' Heq Hlen; cbn in Hlen; try discriminate Hlen.
  - split; [reflexivity|exact Heq].
  - cbn [app] in Heq. injection Heq as Hx Heq. subst y. injection Hlen as Hlen.
    destruct (IH a' b b' Heq Hlen) as [E1 E2]. subst. split; reflexivity.
Qed.

Lemma kw_lookup_map : forall (A B : Type) (f : A -> B) n (kw : list (bytes * A)),
  kw_lookup n (map (fun nk => (fst nk, f (snd nk))) kw) = option_map f (kw_lookup n kw).
Proof.
  intros A B f n. induction kw as [|[k v] r IH]; [reflexivity|].
  cbn [map kw_lookup fst snd]. destruct (bytes_eqb n k); [reflexivity|exact IH].
Qed.

Lemma pos_eval_map : forall en (pos : list (expr * aarg)),
  map (fun ea : expr * aarg => eval_expr en (fst ea)) pos = map (eval_expr en) (map fst pos).
Proof. intros en pos. rewrite map_map. reflexivity. Qed.

Lemma kw_eval_map : forall en (kw : list (bytes * (expr * aarg))),
  map (fun nk : bytes * (expr * aarg) => (fst nk, eval_expr en (fst (snd nk)))) kw =
  map (fun ne : bytes * expr => (fst ne, eval_expr en (snd ne))) (map (fun nk : bytes * (expr * aarg) => (fst nk, fst (snd nk))) kw).
Proof. intros en kw. rewrite map_map. reflexivity. Qed.

Section TheoremA.
  Variable hv : pyval -> hres.
  Variable hl : list bytes -> hres.
  Variable UVal : pyval -> Prop.
  Variable U : fn -> Prop.
  Variable RootOK : fn -> list (bytes * option bytes) -> list rv -> Prop.
  Hypothesis HU : univ_ok hv hl UVal U RootOK.

  Local Notation ConsU := (Cons hv hl RootOK).

  (* -------------------------------------------------------------------------------------------------------------- *)
  (* 1. shape of the content analysis                                                                                *)
  (* -------------------------------------------------------------------------------------------------------------- *)
  Lemma cvars_values : forall vars vars' vs,
    cvars hv vars = inr vs -> cvars hv vars' = inr vs ->
    Forall (fun nv => UVal (snd nv)) vars -> Forall (fun nv => UVal (snd nv)) vars' ->
    map snd vars = map snd vars'.
  Proof.
    induction vars as [|[n v] r IH]; intros [|[n' v'] r'] vs H1 H2 F1 F2.
    - reflexivity.
    - cbn [cvars] in H1, H2. injection H1 as H1. subst vs.
      destruct (hv v') as [h| | | | |]; try discriminate H2. destruct (cvars hv r'); discriminate H2.
    - cbn [cvars] in H1, H2. injection H2 as H2. subst vs.
      destruct (hv v) as [h| | | | |]; try discriminate H1. destruct (cvars hv r); discriminate H1.
    - cbn [cvars] in H1, H2.
      destruct (hv v) as [h| | | | |] eqn:Ev; try discriminate H1.
      destruct (cvars hv r) as [e|l] eqn:Er; [discriminate H1|]. injection H1 as H1. subst vs.
      destruct (hv v') as [h'| | | | |] eqn:Ev'; try discriminate H2.
      destruct (cvars hv r') as [e'|l'] eqn:Er'; [discriminate H2|]. injection H2 as Hn Hh Hl. subst n' h' l'.
      inversion F1 as [|? ? Fv Fr]; subst. inversion F2 as [|? ? Fv' Fr']; subst. cbn [snd] in Fv, Fv'.
      cbn [map snd]. f_equal.
      + exact (u_hv_inj _ _ _ _ _ HU v v' h Fv Fv' Ev Ev').
      + exact (IH r' l eq_refl Er' Fr Fr').
  Qed.

  (* an analysed call site: what the analysis does there *)
  Lemma cana_step_site : forall s g k lines a exts vs ch l R ch1 l1 R1,
    site_callee s = Some g -> site_end s = Some k ->
    cana_step hv hl s lines a exts vs (ch, l, R) = inr (ch1, l1, R1) ->
    exists ph named c R',
      clines hl (firstn k lines) = inr ph /\ site_named hv s = inr named /\
      cana hv hl g (named, Some (Content ph a l ch exts vs)) R = inr (c, R') /\ ch1 = ch ++ [c] /\ l1 = l.
  Proof.
    intros s g k lines a exts vs ch l R ch1 l1 R1 Hg Hk Hs.
    destruct s as [line eline g0 args|line g0 ex|g0|line eline p g0 pos kw|p]; cbn in Hg, Hk; try discriminate Hg;
      injection Hg as Hg; injection Hk as Hk; subst g0 k.
    - rewrite cana_step_SCall in Hs. unfold ccall_g in Hs.
      destruct (clines hl _) as [e|ph]; [discriminate Hs|].
      cbn [site_named]. destruct (scallee_ctx_plain hv g _) as [e|named]; [discriminate Hs|].
      destruct (cana hv hl g _ R) as [e|[c R']] eqn:Ec; [discriminate Hs|]. injection Hs as E1 E2 E3. subst.
      exists ph, named, c, R1. repeat split; try reflexivity. exact Ec.
    - rewrite cana_step_SRef in Hs. unfold ccall_g in Hs.
      destruct (clines hl _) as [e|ph]; [discriminate Hs|].
      cbn [site_named]. destruct (scallee_ctx_plain hv g _) as [e|named]; [discriminate Hs|].
      destruct (cana hv hl g _ R) as [e|[c R']] eqn:Ec; [discriminate Hs|]. injection Hs as E1 E2 E3. subst.
      exists ph, named, c, R1. repeat split; try reflexivity. exact Ec.
    - rewrite cana_step_SKeep in Hs. unfold ccall_g in Hs.
      destruct (clines hl _) as [e|ph]; [discriminate Hs|].
      cbn [site_named]. destruct (sarg_ctx_ast hv _ _ _ _) as [e|named]; [discriminate Hs|].
      destruct (cana hv hl g _ R) as [e|[c R']] eqn:Ec; [discriminate Hs|]. injection Hs as E1 E2 E3. subst.
      exists ph, named, c, R'. repeat split; try reflexivity. exact Ec.
  Qed.

  Lemma site_callee_acallee : forall s g, site_callee s = Some g -> List.length (acallee s) = 1.
  Proof. intros [| | | |] g Hg; cbn in Hg; try discriminate Hg; reflexivity. Qed.

  Lemma site_callee_end : forall s, (exists g, site_callee s = Some g) <-> (exists k, site_end s = Some k).
  Proof.
    intros [l e g a|l g ex|g|l e p g pos kw|p]; cbn; split; intros [x Hx]; try discriminate Hx; eexists; reflexivity.
  Qed.

  Lemma cana_step_ext : forall s lines a exts vs ch l R ch1 l1 R1,
    cana_step hv hl s lines a exts vs (ch, l, R) = inr (ch1, l1, R1) ->
    exists new, ch1 = ch ++ new /\ List.length new = List.length (acallee s).
  Proof.
    intros s lines a exts vs ch l R ch1 l1 R1 Hs.
    destruct (site_callee s) as [g|] eqn:Hg.
    - destruct (proj1 (site_callee_end s) (ex_intro _ g Hg)) as [k Hk].
      destruct (cana_step_site s g k lines a exts vs ch l R ch1 l1 R1 Hg Hk Hs) as (ph & named & c & R' & _ & _ & _ & E & _).
      exists [c]. split; [exact E|]. rewrite (site_callee_acallee s g Hg). reflexivity.
    - destruct s as [l0 e g a0|l0 g ex|g|l0 e p g pos kw|p]; cbn in Hg; try discriminate Hg.
      + rewrite cana_step_SApply in Hs. injection Hs as E1 E2 E3. subst. exists []. rewrite app_nil_r. split; reflexivity.
      + rewrite cana_step_SLoad in Hs. destruct (srlookup p R); [|discriminate Hs]. injection Hs as E1 E2 E3. subst.
        exists []. rewrite app_nil_r. split; reflexivity.
  Qed.

  Lemma cana_steps_ext : forall sts lines a exts vs ch l R ch1 l1 R1,
    cana_steps hv hl sts lines a exts vs (ch, l, R) = inr (ch1, l1, R1) ->
    exists new, ch1 = ch ++ new /\ List.length new = List.length (cs_of (list_of_steps sts)).
  Proof.
    induction sts as [|s r IH]; intros lines a exts vs ch l R ch1 l1 R1 Hs.
    - cbn in Hs. injection Hs as E1 E2 E3. subst. exists []. rewrite app_nil_r. split; reflexivity.
    - rewrite cana_steps_cons in Hs.
      destruct (cana_step hv hl s lines a exts vs (ch, l, R)) as [e|[[chm lm] Rm]] eqn:Em; [discriminate Hs|].
      destruct (cana_step_ext _ _ _ _ _ _ _ _ _ _ _ Em) as (n1 & E1 & L1).
      destruct (IH _ _ _ _ _ _ _ _ _ _ Hs) as (n2 & E2 & L2). subst.
      exists (n1 ++ n2). rewrite app_assoc. split; [reflexivity|].
      cbn [list_of_steps]. unfold cs_of in *. cbn [flat_map]. rewrite !app_length, L1, L2. reflexivity.
  Qed.

  Lemma cana_steps_app : forall l1 l2 lines a exts vs acc,
    cana_steps hv hl (steps_of (l1 ++ l2)) lines a exts vs acc =
    match cana_steps hv hl (steps_of l1) lines a exts vs acc with
    | inl e => inl e
    | inr acc' => cana_steps hv hl (steps_of l2) lines a exts vs acc'
    end.
  Proof.
    induction l1 as [|s r IH]; intros l2 lines a exts vs acc; [reflexivity|].
    cbn [app steps_of]. rewrite !cana_steps_cons.
    destruct (cana_step hv hl s lines a exts vs acc) as [e|acc']; [reflexivity|apply IH].
  Qed.

  Lemma pv_steps_app : forall l1 l2 en,
    pv_steps (steps_of (l1 ++ l2)) en =
    match pv_steps (steps_of l1) en with inl o => inl o | inr en' => pv_steps (steps_of l2) en' end.
  Proof.
    induction l1 as [|s r IH]; intros l2 en; [reflexivity|].
    cbn [app steps_of]. rewrite !pv_steps_cons. destruct (pv_step s en) as [o|en']; [reflexivity|apply IH].
  Qed.

  (* the content of a node records the hash of its source lines *)
  Lemma cana_lines : forall g A R c R1, cana hv hl g A R = inr (c, R1) ->
    exists lh a l ch e v, c = Content lh a l ch e v /\ hl (fn_lines g) = HOk lh.
  Proof.
    intros [name tag raises lines params annot is_class bds] A R c R1 Hc. rewrite cana_eq in Hc. cbn [fn_lines].
    destruct is_class.
    - destruct (cana_bodies hv hl bds lines A R) as [e|[ms R']]; [discriminate Hc|].
      unfold clines in Hc. destruct (hl lines) as [lh| | | | |] eqn:El; try discriminate Hc.
      injection Hc as E1 E2. subst. do 6 eexists. split; reflexivity.
    - destruct bds as [|[vars exts sts] r]; [discriminate Hc|]. rewrite cana_body_eq in Hc.
      destruct (cargs A) as [e|a]; [discriminate Hc|]. destruct (cvars hv vars) as [e|vs]; [discriminate Hc|].
      destruct (cana_steps hv hl sts lines a exts vs ([], [], R)) as [e|[[ch loads] R']]; [discriminate Hc|].
      unfold clines in Hc. destruct (hl lines) as [lh| | | | |] eqn:El; try discriminate Hc.
      injection Hc as E1 E2. subst. do 6 eexists. split; reflexivity.
  Qed.

  Lemma same_content_same_lines : forall g g' A A' R R' c R1 R1', U g -> U g' ->
    cana hv hl g A R = inr (c, R1) -> cana hv hl g' A' R' = inr (c, R1') -> fn_lines g = fn_lines g'.
  Proof.
    intros g g' A A' R R' c R1 R1' Ug Ug' H1 H2.
    destruct (cana_lines _ _ _ _ _ H1) as (lh & a & l & ch & e & v & E & Hl).
    destruct (cana_lines _ _ _ _ _ H2) as (lh' & a' & l' & ch' & e' & v' & E' & Hl').
    subst c. injection E' as E1 _ _ _ _ _. subst lh'.
    rewrite <- (firstn_all (fn_lines g)), <- (firstn_all (fn_lines g')).
    apply (u_hl_inj _ _ _ _ _ HU g g' _ _ lh Ug Ug'); rewrite firstn_all; assumption.
  Qed.

  (* -------------------------------------------------------------------------------------------------------------- *)
  (* 2. A1: the content determines the function                                                                      *)
  (* -------------------------------------------------------------------------------------------------------------- *)
  Definition linked (cs : list (option fn)) (ch : list content) : Prop :=
    Forall2 (fun og c => match og with
                         | Some g => U g /\ exists A R R1, cana hv hl g A R = inr (c, R1)
                         | None => True
                         end) cs ch.

  Definition A1_fn (g : fn) : Prop := U g -> forall g' A A' R R' c R1 R1', U g' ->
    cana hv hl g A R = inr (c, R1) -> cana hv hl g' A' R' = inr (c, R1') ->
    fn_params g = fn_params g' /\ forall pv, pv_fn g pv = pv_fn g' pv.

  Definition A1_body (b : body) : Prop := forall b' lines lines' A A' R R' c R1 R1',
    (forall g, In g (callees_l (body_steps b)) -> U g) -> (forall g, In g (callees_l (body_steps b')) -> U g) ->
    wf_body UVal b -> wf_body UVal b' ->
    skel_lsteps [] (body_steps b) = skel_lsteps [] (body_steps b') ->
    cana_body hv hl b lines A R = inr (c, R1) -> cana_body hv hl b' lines' A' R' = inr (c, R1') ->
    forall en en', e_params en = e_params en' -> pv_body b en = pv_body b' en'.

  Definition A1_steps (sts : steps) : Prop :=
    forall sts' cs cs' lines lines' a a' exts exts' vs vs' ch0 l0 R0 ch0' l0' R0' ch1 l1 R1 ch1' l1' R1',
    (forall g, In g (callees_l (list_of_steps sts)) -> U g) ->
    (forall g, In g (callees_l (list_of_steps sts')) -> U g) ->
    wf_lsteps UVal cs (list_of_steps sts) -> wf_lsteps UVal cs' (list_of_steps sts') ->
    skel_lsteps cs (list_of_steps sts) = skel_lsteps cs' (list_of_steps sts') ->
    cana_steps hv hl sts lines a exts vs (ch0, l0, R0) = inr (ch1, l1, R1) ->
    cana_steps hv hl sts' lines' a' exts' vs' (ch0', l0', R0') = inr (ch1', l1', R1') ->
    ch0 = ch0' -> ch1 = ch1' ->
    linked cs ch0 -> linked cs' ch0' ->
    forall en, pv_steps sts en = pv_steps sts' en.

  Definition A1_step (s : step) : Prop :=
    forall s' cs cs' lines lines' a a' exts exts' vs vs' ch l R ch' l' R' c1 l1 R1 c1' l1' R1',
    (forall g, In g (step_callee s) -> U g) -> (forall g, In g (step_callee s') -> U g) ->
    wf_step UVal cs s -> wf_step UVal cs' s' ->
    skel_step cs s = skel_step cs' s' ->
    cana_step hv hl s lines a exts vs (ch, l, R) = inr (c1, l1, R1) ->
    cana_step hv hl s' lines' a' exts' vs' (ch', l', R') = inr (c1', l1', R1') ->
    ch = ch' -> c1 = c1' ->
    linked cs ch -> linked cs' ch' ->
    (forall en, pv_step s en = pv_step s' en) /\ linked (cs ++ acallee s) c1 /\ linked (cs' ++ acallee s') c1'.

  Lemma skel_step_acallee_len : forall cs cs' s s', skel_step cs s = skel_step cs' s' ->
    List.length (acallee s) = List.length (acallee s').
  Proof.
    intros cs cs' [| | | |] [| | | |] H; cbn in H; try discriminate H; reflexivity.
  Qed.

  Lemma linked_app : forall cs ch cs2 ch2, linked cs ch -> linked cs2 ch2 -> linked (cs ++ cs2) (ch ++ ch2).
  Proof. intros cs ch cs2 ch2 H1 H2. unfold linked in *. apply Forall2_app; assumption. Qed.

  Lemma linked_nth : forall cs ch j g, linked cs ch -> nth_error cs j = Some (Some g) ->
    exists c, nth_error ch j = Some c /\ U g /\ exists A R R1, cana hv hl g A R = inr (c, R1).
  Proof.
    intros cs ch j g Hl. revert j. induction Hl as [|og c cs ch Hx _ IH]; intros j Hj.
    - destruct j; discriminate Hj.
    - destruct j as [|j].
      + cbn in Hj. injection Hj as Hj. subst og. exists c. split; [reflexivity|exact Hx].
      + cbn in Hj. destruct (IH j Hj) as (c0 & E & Hc). exists c0. split; [exact E|exact Hc].
  Qed.

  (* a call with the same argument expressions to two functions that agree *)
  Lemma pv_call_agree : forall g g' en pvo,
    (forall pv, pv_fn g pv = pv_fn g' pv) -> pv_call en g pvo = pv_call en g' pvo.
  Proof. intros g g' en [pv|] H; [|reflexivity]. unfold pv_call. rewrite H. reflexivity. Qed.

  Lemma A1_all :
    (forall f, A1_fn f) /\ (forall b, match b with BCons b0 _ => A1_body b0 | BNil => True end) /\
    (forall b, A1_body b) /\ (forall s, A1_steps s) /\ (forall s, A1_step s).
  Proof.
    apply prog_mutind.
    - (* Fn *)
      intros name tag raises lines params annot is_class bds IH Ug g' A A' R R' c R1 R1' Ug' H1 H2.
      pose proof (same_content_same_lines _ _ _ _ _ _ _ _ _ Ug Ug' H1 H2) as Hlines.
      pose proof (u_text _ _ _ _ _ HU _ _ Ug Ug' Hlines) as Hsk.
      assert (Hcl : forall g, In g (callees (Fn name tag raises lines params annot is_class bds)) -> U g)
        by (intros g Hg; exact (u_closed _ _ _ _ _ HU _ g Ug Hg)).
      assert (Hcl' : forall g, In g (callees g') -> U g)
        by (intros g Hg; exact (u_closed _ _ _ _ _ HU _ g Ug' Hg)).
      pose proof (u_wf _ _ _ _ _ HU _ Ug) as Hwf. pose proof (u_wf _ _ _ _ _ HU _ Ug') as Hwf'.
      destruct g' as [name' tag' raises' lines' params' annot' is_class' bds'].
      unfold skel in Hsk. cbn [fn_tag fn_raises fn_params fn_is_class fn_annot] in Hsk.
      injection Hsk as Etag Eraises Eparams Eclass Eannot Esteps. subst tag' raises' params' is_class' annot'.
      cbn [fn_params]. split; [reflexivity|]. intros pv. rewrite !pv_fn_eq.
      unfold first_steps, first_body in Esteps. cbn [fn_bodies] in Esteps.
      unfold callees, first_steps, first_body in Hcl, Hcl'. cbn [fn_bodies] in Hcl, Hcl'.
      destruct Hwf as (_ & _ & Hwfb). destruct Hwf' as (_ & _ & Hwfb').
      unfold first_body in Hwfb, Hwfb'. cbn [fn_bodies] in Hwfb, Hwfb'.
      destruct bds as [|b r]; destruct bds' as [|b' r']; cbn [option_map] in Esteps; try discriminate Esteps;
        [reflexivity|].
      injection Esteps as Esteps. cbn [option_map] in Hcl, Hcl'.
      rewrite cana_eq in H1, H2.
      assert (Hb : exists c1 Ra Ra', cana_body hv hl b lines A R = inr (c1, Ra) /\
                                     cana_body hv hl b' lines' A' R' = inr (c1, Ra')).
      { destruct is_class.
        - rewrite cana_bodies_cons in H1, H2.
          destruct (cana_body hv hl b lines A R) as [e|[c1 Ra]]; [discriminate H1|].
          destruct (cana_bodies hv hl r lines A Ra) as [e|[cs Rb]]; [discriminate H1|].
          destruct (clines hl lines) as [e|lh]; [discriminate H1|].
          destruct (cana_body hv hl b' lines' A' R') as [e|[c1' Ra']]; [discriminate H2|].
          destruct (cana_bodies hv hl r' lines' A' Ra') as [e|[cs' Rb']]; [discriminate H2|].
          destruct (clines hl lines') as [e|lh']; [discriminate H2|].
          injection H1 as E1 _. injection H2 as E2 _. rewrite <- E1 in E2. injection E2 as _ E2 _. subst c1'.
          exists c1, Ra, Ra'. split; reflexivity.
        - destruct (cana_body hv hl b lines A R) as [e|[c1 Ra]]; [discriminate H1|].
          destruct (cana_body hv hl b' lines' A' R') as [e|[c1' Ra']]; [discriminate H2|].
          injection H1 as E1 _. injection H2 as E2 _. subst. exists c, Ra, Ra'. split; reflexivity. }
      destruct Hb as (c1 & Ra & Ra' & Hb & Hb').
      rewrite (IH b' lines lines' A A' R R' c1 Ra Ra' Hcl Hcl' Hwfb Hwfb' Esteps Hb Hb'
                  (Env pv [] []) (Env pv [] []) eq_refl).
      reflexivity.
    - exact I.
    - intros b Hb r _. exact Hb.
    - (* Body *)
      intros vars exts sts IH [vars' exts' sts'] lines lines' A A' R R' c R1 R1' Hcl Hcl' [Hv Hw] [Hv' Hw'] Hsk H1 H2
             en en' Hen.
      cbn [body_steps body_vars] in *. rewrite cana_body_eq in H1, H2.
      destruct (cargs A) as [e|a]; [discriminate H1|]. destruct (cvars hv vars) as [e|vs] eqn:Ev; [discriminate H1|].
      destruct (cana_steps hv hl sts lines a exts vs ([], [], R)) as [e|[[ch loads] Ra]] eqn:Es; [discriminate H1|].
      destruct (clines hl lines) as [e|lh]; [discriminate H1|].
      destruct (cargs A') as [e|a']; [discriminate H2|]. destruct (cvars hv vars') as [e|vs'] eqn:Ev'; [discriminate H2|].
      destruct (cana_steps hv hl sts' lines' a' exts' vs' ([], [], R')) as [e|[[ch' loads'] Ra']] eqn:Es'; [discriminate H2|].
      destruct (clines hl lines') as [e|lh']; [discriminate H2|].
      injection H1 as E1 _. injection H2 as E2 _. rewrite <- E1 in E2. injection E2 as _ _ _ Ech _ Evs. subst ch' vs'.
      rewrite !pv_body_eq, Hen, (cvars_values vars vars' vs Ev Ev' Hv Hv').
      apply (IH sts' [] [] lines lines' a a' exts exts' vs vs [] [] R [] [] R' ch loads Ra ch loads' Ra'
                Hcl Hcl' Hw Hw' Hsk Es Es' eq_refl eq_refl); constructor.
    - (* SNil *)
      intros sts' cs cs' lines lines' a a' exts exts' vs vs' ch0 l0 R0 ch0' l0' R0' ch1 l1 R1 ch1' l1' R1'
             _ _ _ _ Hsk _ _ _ _ _ _ en.
      destruct sts' as [|s' r']; [reflexivity|discriminate Hsk].
    - (* SCons *)
      intros s IHs r IHr sts' cs cs' lines lines' a a' exts exts' vs vs' ch0 l0 R0 ch0' l0' R0' ch1 l1 R1 ch1' l1' R1'
             Hcl Hcl' Hw Hw' Hsk H1 H2 E0 E1 L L' en.
      destruct sts' as [|s' r']; [discriminate Hsk|].
      cbn [list_of_steps skel_lsteps wf_lsteps] in *. injection Hsk as Hsk1 Hsk2.
      destruct Hw as [Hws Hwr]. destruct Hw' as [Hws' Hwr'].
      rewrite cana_steps_cons in H1, H2.
      destruct (cana_step hv hl s lines a exts vs (ch0, l0, R0)) as [e|[[chm lm] Rm]] eqn:Em; [discriminate H1|].
      destruct (cana_step hv hl s' lines' a' exts' vs' (ch0', l0', R0')) as [e|[[chm' lm'] Rm']] eqn:Em'; [discriminate H2|].
      destruct (cana_step_ext _ _ _ _ _ _ _ _ _ _ _ Em) as (n1 & En1 & Ln1).
      destruct (cana_step_ext _ _ _ _ _ _ _ _ _ _ _ Em') as (n1' & En1' & Ln1').
      destruct (cana_steps_ext _ _ _ _ _ _ _ _ _ _ _ H1) as (n2 & En2 & _).
      destruct (cana_steps_ext _ _ _ _ _ _ _ _ _ _ _ H2) as (n2' & En2' & _).
      assert (Emid : chm = chm').
      { pose proof E1 as E1c. rewrite En2, En2', En1, En1', <- E0, <- !app_assoc in E1c. apply app_inv_head in E1c.
        apply app_eq_len in E1c; [|rewrite Ln1, Ln1'; exact (skel_step_acallee_len _ _ _ _ Hsk1)].
        destruct E1c as [E1c _]. rewrite En1, En1', <- E0, E1c. reflexivity. }
      unfold callees_l in Hcl, Hcl'. cbn [flat_map] in Hcl, Hcl'.
      destruct (IHs s' cs cs' lines lines' a a' exts exts' vs vs' ch0 l0 R0 ch0' l0' R0' chm lm Rm chm' lm' Rm'
                    (fun g Hg => Hcl g (in_or_app _ _ _ (or_introl Hg)))
                    (fun g Hg => Hcl' g (in_or_app _ _ _ (or_introl Hg)))
                    Hws Hws' Hsk1 Em Em' E0 Emid L L') as (Hpv & Lm & Lm').
      rewrite !pv_steps_cons, Hpv. destruct (pv_step s' en) as [o|en1]; [reflexivity|].
      apply (IHr r' (cs ++ acallee s) (cs' ++ acallee s') lines lines' a a' exts exts' vs vs' chm lm Rm chm' lm' Rm'
                 ch1 l1 R1 ch1' l1' R1'
                 (fun g Hg => Hcl g (in_or_app _ _ _ (or_intror Hg)))
                 (fun g Hg => Hcl' g (in_or_app _ _ _ (or_intror Hg)))
                 Hwr Hwr' Hsk2 H1 H2 Emid E1 Lm Lm').
    - (* SCall *)
      intros line eline g IHg args s' cs cs' lines lines' a a' exts exts' vs vs' ch l R ch' l' R' c1 l1 R1 c1' l1' R1'
             Hcl Hcl' Hw Hw' Hsk H1 H2 E0 E1 L L'.
      destruct s' as [line' eline' g' args'| | | |]; cbn [skel_step] in Hsk; try discriminate Hsk.
      injection Hsk as Hargs. subst args'.
      eapply cana_step_site in H1; [|reflexivity|reflexivity].
      eapply cana_step_site in H2; [|reflexivity|reflexivity].
      destruct H1 as (ph & named & c & Rc & _ & _ & Hc & Ec & _).
      destruct H2 as (ph' & named' & c' & Rc' & _ & _ & Hc' & Ec' & _).
      rewrite Ec, Ec', <- E0 in E1. apply app_inv_head in E1. injection E1 as E1. subst c' c1 c1' ch'.
      assert (Ug : U g) by (apply Hcl; left; reflexivity). assert (Ug' : U g') by (apply Hcl'; left; reflexivity).
      destruct (IHg Ug g' _ _ _ _ _ _ _ Ug' Hc Hc') as [Hp Hpv].
      split; [|split].
      + intros en. rewrite !pv_step_view. cbn [step_view pv_view]. rewrite <- Hp. apply pv_call_agree. exact Hpv.
      + apply linked_app; [exact L|]. constructor; [exact I|constructor].
      + apply linked_app; [exact L'|]. constructor; [exact I|constructor].
    - (* SRef *)
      intros line g IHg ex s' cs cs' lines lines' a a' exts exts' vs vs' ch l R ch' l' R' c1 l1 R1 c1' l1' R1'
             Hcl Hcl' Hw Hw' Hsk H1 H2 E0 E1 L L'.
      destruct s' as [|line' g' ex'| | |]; cbn [skel_step] in Hsk; try discriminate Hsk.
      injection Hsk as Hex. subst ex'.
      eapply cana_step_site in H1; [|reflexivity|reflexivity].
      eapply cana_step_site in H2; [|reflexivity|reflexivity].
      destruct H1 as (ph & named & c & Rc & _ & _ & Hc & Ec & _).
      destruct H2 as (ph' & named' & c' & Rc' & _ & _ & Hc' & Ec' & _).
      rewrite Ec, Ec', <- E0 in E1. apply app_inv_head in E1. injection E1 as E1. subst c' c1 c1' ch'.
      assert (Ug : U g) by (apply Hcl; left; reflexivity). assert (Ug' : U g') by (apply Hcl'; left; reflexivity).
      destruct (IHg Ug g' _ _ _ _ _ _ _ Ug' Hc Hc') as [Hp Hpv].
      split; [|split].
      + intros en. rewrite !pv_step_view. destruct ex; cbn [step_view pv_view]; [|reflexivity].
        rewrite <- Hp. apply pv_call_agree. exact Hpv.
      + apply linked_app; [exact L|]. constructor; [|constructor]. split; [exact Ug|]. do 3 eexists. exact Hc.
      + apply linked_app; [exact L'|]. constructor; [|constructor]. split; [exact Ug'|]. do 3 eexists. exact Hc'.
    - (* SApply *)
      intros g IHg s' cs cs' lines lines' a a' exts exts' vs vs' ch l R ch' l' R' c1 l1 R1 c1' l1' R1'
             Hcl Hcl' Hw Hw' Hsk H1 H2 E0 E1 L L'.
      destruct s' as [| |g'| |]; cbn [skel_step] in Hsk; try discriminate Hsk.
      injection Hsk as Hj.
      rewrite cana_step_SApply in H1, H2. injection H1 as A1 A2 A3. injection H2 as B1 B2 B3. subst.
      cbn [acallee]. rewrite !app_nil_r. split; [|split; assumption].
      cbn [wf_step] in Hw, Hw'. destruct Hw as (j & Fj & Nj). destruct Hw' as (j' & Fj' & Nj').
      rewrite Fj, Fj' in Hj. injection Hj as Hj. subst j'.
      destruct (linked_nth _ _ _ _ L Nj) as (c & Ec & Ug & A & Ra & Rb & Hc).
      destruct (linked_nth _ _ _ _ L' Nj') as (c' & Ec' & Ug' & A' & Ra' & Rb' & Hc').
      rewrite Ec in Ec'. injection Ec' as Ec'. subst c'.
      destruct (IHg Ug g' _ _ _ _ _ _ _ Ug' Hc Hc') as [Hp Hpv].
      intros en. rewrite !pv_step_view. cbn [step_view pv_view]. rewrite <- Hp. apply pv_call_agree. exact Hpv.
    - (* SKeep *)
      intros line eline p g IHg pos kw s' cs cs' lines lines' a a' exts exts' vs vs' ch l R ch' l' R' c1 l1 R1 c1' l1' R1'
             Hcl Hcl' Hw Hw' Hsk H1 H2 E0 E1 L L'.
      destruct s' as [| | |line' eline' p' g' pos' kw'|]; cbn [skel_step] in Hsk; try discriminate Hsk.
      injection Hsk as Hpath Hpos Hkw.
      eapply cana_step_site in H1; [|reflexivity|reflexivity].
      eapply cana_step_site in H2; [|reflexivity|reflexivity].
      destruct H1 as (ph & named & c & Rc & _ & _ & Hc & Ec & _).
      destruct H2 as (ph' & named' & c' & Rc' & _ & _ & Hc' & Ec' & _).
      rewrite Ec, Ec', <- E0 in E1. apply app_inv_head in E1. injection E1 as E1. subst c' c1 c1' ch'.
      assert (Ug : U g) by (apply Hcl; left; reflexivity). assert (Ug' : U g') by (apply Hcl'; left; reflexivity).
      destruct (IHg Ug g' _ _ _ _ _ _ _ Ug' Hc Hc') as [Hp Hpv].
      split; [|split].
      + intros en. rewrite !pv_step_view. cbn [step_view pv_view]. rewrite <- Hp.
        rewrite (pos_eval_map en pos), (pos_eval_map en pos'), (kw_eval_map en kw), (kw_eval_map en kw'), Hpos, Hkw.
        apply pv_call_agree. exact Hpv.
      + apply linked_app; [exact L|]. constructor; [exact I|constructor].
      + apply linked_app; [exact L'|]. constructor; [exact I|constructor].
    - (* SLoad *)
      intros p s' cs cs' lines lines' a a' exts exts' vs vs' ch l R ch' l' R' c1 l1 R1 c1' l1' R1'
             Hcl Hcl' Hw Hw' Hsk H1 H2 E0 E1 L L'.
      destruct s' as [| | | |p']; cbn [skel_step] in Hsk; try discriminate Hsk.
      rewrite cana_step_SLoad in H1, H2.
      destruct (srlookup p R); [|discriminate H1]. destruct (srlookup p' R'); [|discriminate H2].
      injection H1 as A1 A2 A3. injection H2 as B1 B2 B3. subst.
      cbn [acallee]. rewrite !app_nil_r. split; [|split; assumption].
      intros en. reflexivity.
  Qed.

  (* A1: two analysed nodes of the universe with the same content have the same parameters and the same plain value
     on every tuple of parameter values *)
  Theorem body_determines_value : forall g g' A A' R R' c R1 R1', U g -> U g' ->
    cana hv hl g A R = inr (c, R1) -> cana hv hl g' A' R' = inr (c, R1') ->
    fn_params g = fn_params g' /\ forall pv, pv_fn g pv = pv_fn g' pv.
  Proof. intros g g' A A' R R' c R1 R1' Ug Ug'. exact (proj1 A1_all g Ug g' A A' R R' c R1 R1' Ug'). Qed.

  (* -------------------------------------------------------------------------------------------------------------- *)
  (* 3. known arguments: entries read back as the bound values                                                       *)
  (* -------------------------------------------------------------------------------------------------------------- *)
  Lemma args_known_cons : forall n ho l, args_known ((n, ho) :: l) = true <-> ho <> None /\ args_known l = true.
  Proof.
    intros n ho l. unfold args_known. cbn [existsb snd]. destruct ho as [h|]; cbn [orb negb].
    - split; [intros H; split; [discriminate|exact H]|intros [_ H]; exact H].
    - split; [discriminate|intros [H _]; exfalso; apply H; reflexivity].
  Qed.

  Lemma kmatch_known : forall named pv, kmatch hv UVal named pv -> args_known named = true.
  Proof.
    intros named pv H. induction H as [|[n ho] v l pl Hx _ IH]; [reflexivity|].
    apply args_known_cons. split; [|exact IH]. destruct Hx as (h & w & E & _). cbn [snd] in E. rewrite E. discriminate.
  Qed.

  Lemma kmatch_inj : forall named pv pv', kmatch hv UVal named pv -> kmatch hv UVal named pv' -> pv = pv'.
  Proof.
    intros named pv pv' H. revert pv'. induction H as [|nh v l pl Hx _ IH]; intros pv' H'.
    - inversion H'. reflexivity.
    - inversion H' as [|? v' ? pl' Hx' Hr']; subst. f_equal; [|apply IH; exact Hr'].
      destruct Hx as (h & w & E & Hh & Uw & Ev). destruct Hx' as (h' & w' & E' & Hh' & Uw' & Ev').
      rewrite E in E'. injection E' as E'. subst h' v v'.
      rewrite (u_hv_inj _ _ _ _ _ HU w w' h Uw Uw' Hh Hh'). reflexivity.
  Qed.

  Lemma known_args_inj : forall named named', args_known named = true -> args_known named' = true ->
    known_args named = known_args named' -> named = named'.
  Proof.
    induction named as [|[n ho] r IH]; intros [|[n' ho'] r'] K K' E.
    - reflexivity.
    - apply args_known_cons in K'. destruct K' as [N' K']. destruct ho' as [h'|]; [|exfalso; apply N'; reflexivity].
      discriminate E.
    - apply args_known_cons in K. destruct K as [N K]. destruct ho as [h|]; [|exfalso; apply N; reflexivity].
      discriminate E.
    - apply args_known_cons in K. destruct K as [N K]. apply args_known_cons in K'. destruct K' as [N' K'].
      destruct ho as [h|]; [|exfalso; apply N; reflexivity]. destruct ho' as [h'|]; [|exfalso; apply N'; reflexivity].
      unfold known_args in E. cbn [flat_map snd fst app] in E. injection E as En Eh E. subst.
      f_equal. apply IH; assumption.
  Qed.

  Lemma cargs_known : forall named site, args_known named = true -> cargs (named, site) = inr (ArgsKnown (known_args named)).
  Proof.
    intros named site K. unfold args_known in K. apply negb_true_iff in K. unfold cargs. rewrite K. reflexivity.
  Qed.
  Lemma cargs_unknown : forall named site, args_known named = false ->
    cargs (named, site) = match site with None => inl ErrAssertCtx | Some c => inr (ArgsFromContext c) end.
  Proof.
    intros named site K. unfold args_known in K. apply negb_false_iff in K. unfold cargs. rewrite K. reflexivity.
  Qed.

  Lemma kw_lookup_In : forall (A : Type) n (kw : list (bytes * A)) v, kw_lookup n kw = Some v -> exists k, In (k, v) kw.
  Proof.
    intros A n. induction kw as [|[k x] r IH]; intros v H; [discriminate H|].
    cbn [kw_lookup] in H. destruct (bytes_eqb n k).
    - injection H as H. subst. exists k. left. reflexivity.
    - destruct (IH v H) as [k0 Hk]. exists k0. right. exact Hk.
  Qed.

  Lemma slot_kentry : forall en e a n ho, arg_ok UVal (e, a) -> sprocess_arg hv a = inr ho -> ho <> None ->
    kentry hv UVal (n, ho) (eval_expr en e).
  Proof.
    intros en e [v|] n ho Hok Hs Hn; cbn [arg_ok snd fst] in Hok; cbn [sprocess_arg] in Hs.
    - destruct Hok as [He [Uw Ew]]. subst e. unfold shash_opt in Hs.
      destruct (hv (subst_none v)) as [h| | | | |] eqn:Eh; try discriminate Hs. injection Hs as Hs. subst ho.
      exists h, (subst_none v). cbn [snd eval_expr]. rewrite Ew. repeat split; assumption.
    - injection Hs as Hs. subst ho. exfalso. apply Hn. reflexivity.
  Qed.

  Lemma default_kentry : forall d n ho, default_ok UVal d -> shash_opt hv (subst_default d) = inr ho ->
    kentry hv UVal (n, ho) (RVal d).
  Proof.
    intros d n ho [Uw Ew] Hs. unfold shash_opt in Hs.
    destruct (hv (subst_default d)) as [h| | | | |] eqn:Eh; try discriminate Hs. injection Hs as Hs. subst ho.
    exists h, (subst_default d). cbn [snd]. rewrite Ew. repeat split; assumption.
  Qed.

  (* dds.keep(p, g, pos..., kw...) and by-name mentions (no arguments) *)
  Lemma keep_kmatch : forall en (pos : list (expr * aarg)) (kw : list (bytes * (expr * aarg))) ps idx named pv,
    params_ok UVal ps -> Forall (arg_ok UVal) pos -> Forall (fun nk => arg_ok UVal (snd nk)) kw ->
    sarg_ctx_ast hv ps idx (map snd pos) (map (fun nk => (fst nk, snd (snd nk))) kw) = inr named ->
    bind_args ps idx (map (fun ea => eval_expr en (fst ea)) pos)
              (map (fun nk => (fst nk, eval_expr en (fst (snd nk)))) kw) = Some pv ->
    args_known named = true -> kmatch hv UVal named pv.
  Proof.
    intros en pos kw. induction ps as [|p r IH]; intros idx named pv Hps Hpos Hkw Hs Hb K.
    - cbn in Hs, Hb. injection Hs as Hs. injection Hb as Hb. subst. constructor.
    - inversion Hps as [|? ? Hp Hr]; subst.
      cbn [sarg_ctx_ast] in Hs. cbn [bind_args] in Hb.
      rewrite nth_error_map in Hs. rewrite nth_error_map in Hb.
      rewrite (kw_lookup_map _ _ (fun ea : expr * aarg => snd ea)) in Hs.
      rewrite (kw_lookup_map _ _ (fun ea : expr * aarg => eval_expr en (fst ea))) in Hb.
      set (slot := match option_map snd (nth_error pos idx) with
                   | Some a => sprocess_arg hv a
                   | None => match option_map (fun ea : expr * aarg => snd ea) (kw_lookup (p_name p) kw) with
                             | Some a => sprocess_arg hv a
                             | None => match p_default p with Some d => shash_opt hv (subst_default d) | None => inr None end
                             end
                   end) in Hs.
      assert (Hs' : exists ho l, slot = inr ho /\ sarg_ctx_ast hv r (S idx) (map snd pos)
                                   (map (fun nk : bytes * (expr * aarg) => (fst nk, snd (snd nk))) kw) = inr l /\
                                 named = (p_name p, ho) :: l).
      { destruct (p_kind p); try discriminate Hs;
          (destruct slot as [e|ho]; [discriminate Hs|];
           destruct (sarg_ctx_ast hv r (S idx) _ _) as [e|l]; [discriminate Hs|];
           injection Hs as Hs; exists ho, l; split; [reflexivity|split; [reflexivity|symmetry; exact Hs]]). }
      clear Hs. destruct Hs' as (ho & l & Hslot & Hrest & En). subst named.
      apply args_known_cons in K. destruct K as [Hn K].
      destruct (bind_args r (S idx) _ _) as [pl|] eqn:Eb.
      2:{ destruct (match option_map _ (nth_error pos idx) with Some v => Some v | None => _ end); discriminate Hb. }
      assert (Hv : exists v, pv = v :: pl /\ kentry hv UVal (p_name p, ho) v).
      { unfold slot in Hslot. clear slot.
        destruct (nth_error pos idx) as [[e a]|] eqn:En.
        - cbn [option_map snd fst] in Hslot, Hb. injection Hb as Hb. subst pv. eexists. split; [reflexivity|].
          apply slot_kentry with (a := a); [|exact Hslot|exact Hn].
          apply nth_error_In in En. exact (proj1 (Forall_forall _ _) Hpos _ En).
        - cbn [option_map] in Hslot, Hb.
          destruct (kw_lookup (p_name p) kw) as [[e a]|] eqn:Ek.
          + cbn [option_map snd fst] in Hslot, Hb. injection Hb as Hb. subst pv. eexists. split; [reflexivity|].
            apply slot_kentry with (a := a); [|exact Hslot|exact Hn].
            destruct (kw_lookup_In _ _ _ _ Ek) as [k0 Hk0].
            exact (proj1 (Forall_forall _ _) Hkw _ Hk0).
          + cbn [option_map] in Hslot, Hb. destruct (p_default p) as [d|].
            * injection Hb as Hb. subst pv. eexists. split; [reflexivity|]. apply default_kentry; assumption.
            * discriminate Hb. }
      destruct Hv as (v & Epv & Hv). subst pv. constructor; [exact Hv|].
      exact (IH (S idx) l pl Hr Hpos Hkw Hrest Eb K).
  Qed.

  Lemma nth_error_nil_none : forall (A : Type) i, @nth_error A [] i = None.
  Proof. intros A [|i]; reflexivity. Qed.

  Lemma sarg_ctx_ast_nil : forall ps idx pos kw, sarg_ctx_ast hv ps idx pos kw = inr [] -> ps = [].
  Proof.
    intros [|p r] idx pos kw Hs; [reflexivity|]. exfalso. cbn [sarg_ctx_ast] in Hs.
    set (slot := match nth_error pos idx with
                 | Some a => sprocess_arg hv a
                 | None => match kw_lookup (p_name p) kw with
                           | Some a => sprocess_arg hv a
                           | None => match p_default p with Some d => shash_opt hv (subst_default d) | None => inr None end
                           end
                 end) in Hs.
    destruct (p_kind p); try discriminate Hs;
      (destruct slot as [e|ho]; [discriminate Hs|]; destruct (sarg_ctx_ast hv r (S idx) pos kw); discriminate Hs).
  Qed.

  Lemma unbind_known : forall n l, args_known (unbind n l) = true -> unbind n l = l /\ (n = 0 \/ l = []).
  Proof.
    intros [|n] [|[k h] r] K; try (split; [reflexivity|auto]).
    exfalso. cbn [unbind] in K. apply args_known_cons in K. destruct K as [K _]. apply K. reflexivity.
  Qed.

  (* g(e...): the analysis does not look at the arguments; the parameters they bind are unknown (fix F30), so when
     every argument is known there is no explicit argument (or no parameter) *)
  Lemma call_kmatch : forall en g args named pv,
    params_ok UVal (fn_params g) ->
    scallee_ctx_plain hv g (List.length args) = inr named ->
    bind_args (fn_params g) 0 (map (eval_expr en) args) [] = Some pv ->
    args_known named = true -> kmatch hv UVal named pv.
  Proof.
    intros en g args named pv Hps Hs Hb K. unfold scallee_ctx_plain in Hs.
    destruct (sarg_ctx_ast hv (fn_params g) 0 [] []) as [e|named0] eqn:E0; [discriminate Hs|].
    injection Hs as Hs. subst named. destruct (unbind_known _ _ K) as [Eu [Hn|Hn]].
    - rewrite Eu in *. destruct args; [|discriminate Hn]. cbn [map] in Hb.
      apply (keep_kmatch en [] [] (fn_params g) 0 named0 pv Hps); try assumption; constructor.
    - subst named0. apply sarg_ctx_ast_nil in E0. rewrite E0 in Hb. cbn in Hb. injection Hb as Hb. subst pv.
      rewrite Eu. constructor.
  Qed.

  (* at a call site of a well-formed body *)
  Lemma site_kmatch : forall cs s g en named pv,
    wf_step UVal cs s -> site_callee s = Some g -> params_ok UVal (fn_params g) ->
    site_named hv s = inr named -> site_pv s en = Some pv -> args_known named = true ->
    kmatch hv UVal named pv.
  Proof.
    intros cs s g en named pv Hw Hg Hps Hn Hpv K.
    destruct s as [line eline g0 args|line g0 ex|g0|line eline p g0 pos kw|p]; cbn in Hg; try discriminate Hg;
      injection Hg as Hg; subst g0; cbn [site_named site_pv wf_step] in *.
    - apply (call_kmatch en g args named pv Hps); assumption.
    - apply (call_kmatch en g [] named pv Hps); assumption.
    - destruct Hw as [Hw1 Hw2]. apply (keep_kmatch en pos kw (fn_params g) 0 named pv Hps); assumption.
  Qed.

  (* -------------------------------------------------------------------------------------------------------------- *)
  (* 4. consistent nodes                                                                                             *)
  (* -------------------------------------------------------------------------------------------------------------- *)
  Lemma site_callee_in : forall s g, site_callee s = Some g -> In g (step_callee s).
  Proof. intros [| | | |] g H; cbn in H; try discriminate H; injection H as H; subst; left; reflexivity. Qed.

  Lemma first_steps_of : forall f vars exts sts, first_body f = Some (Body vars exts sts) ->
    first_steps f = Some (list_of_steps sts).
  Proof. intros f vars exts sts H. unfold first_steps. rewrite H. reflexivity. Qed.

  Lemma Cons_U : forall g A pv, ConsU g A pv -> U g.
  Proof.
    intros g A pv H. induction H as [f named pv Hr|f Af pvf vars exts sts af vs Rf pre s post ch loads R1 en g k ph named pv
                                       Hf IH Hfb Hl _ _ _ _ Hg _ _ _ _].
    - exact (proj1 (u_root _ _ _ _ _ HU _ _ _ Hr)).
    - apply (u_closed _ _ _ _ _ HU f g IH). unfold callees. rewrite (first_steps_of _ _ _ _ Hfb), Hl.
      rewrite callees_l_app. apply in_or_app. right. unfold callees_l. cbn [flat_map]. apply in_or_app. left.
      apply site_callee_in. exact Hg.
  Qed.

  Lemma Cons_kmatch : forall g named site pv, ConsU g (named, site) pv -> args_known named = true ->
    kmatch hv UVal named pv.
  Proof.
    intros g named site pv H K. inversion H as [f nm p0 Hr|f Af pvf vars exts sts af vs Rf pre s post ch loads R1 en g0 k ph nm p0
                                                  Hf Hfb Hl _ _ _ _ Hg _ _ Hn Hpv]; subst.
    - exact (proj2 (u_root _ _ _ _ _ HU _ _ _ Hr)).
    - pose proof (Cons_U _ _ _ Hf) as Uf. pose proof (Cons_U _ _ _ H) as Ug.
      destruct (u_wf _ _ _ _ _ HU f Uf) as (_ & _ & Hwb). rewrite Hfb in Hwb. destruct Hwb as [_ Hws].
      cbn [body_steps] in Hws. rewrite Hl in Hws. apply wf_lsteps_app in Hws. destruct Hws as [_ Hws].
      cbn [app wf_lsteps] in Hws. destruct Hws as [Hws _].
      apply (site_kmatch _ s g en named pv Hws Hg); try assumption.
      exact (proj1 (u_wf _ _ _ _ _ HU g Ug)).
  Qed.

  (* all arguments known: the entries alone determine the values *)
  Lemma args_determined_known : forall g g' named named' site site' pv pv' a,
    ConsU g (named, site) pv -> ConsU g' (named', site') pv' -> args_known named = true ->
    cargs (named, site) = inr a -> cargs (named', site') = inr a -> pv = pv'.
  Proof.
    intros g g' named named' site site' pv pv' a H H' K Ha Ha'.
    rewrite (cargs_known _ _ K) in Ha. injection Ha as Ha. subst a.
    destruct (args_known named') eqn:K'.
    - rewrite (cargs_known _ _ K') in Ha'. injection Ha' as Ha'.
      apply known_args_inj in Ha'; [|assumption|assumption]. subst named'.
      exact (kmatch_inj _ _ _ (Cons_kmatch _ _ _ _ H K) (Cons_kmatch _ _ _ _ H' K)).
    - rewrite (cargs_unknown _ _ K') in Ha'. destruct site'; discriminate Ha'.
  Qed.

  Lemma site_pv_skel : forall cs cs' s s' g g' en,
    skel_step cs s = skel_step cs' s' -> site_callee s = Some g -> site_callee s' = Some g' ->
    fn_params g = fn_params g' -> site_pv s en = site_pv s' en.
  Proof.
    intros cs cs' s s' g g' en Hsk Hg Hg' Hp.
    destruct s as [l e g0 args|l g0 ex|g0|l e p g0 pos kw|p]; cbn in Hg; try discriminate Hg; injection Hg as Hg; subst g0;
      destruct s' as [l' e' g0 args'|l' g0 ex'|g0|l' e' p' g0 pos' kw'|p']; cbn in Hg'; try discriminate Hg';
        injection Hg' as Hg'; subst g0; cbn [skel_step] in Hsk; try discriminate Hsk; cbn [site_pv]; rewrite <- Hp.
    - injection Hsk as Hsk. subst. reflexivity.
    - reflexivity.
    - injection Hsk as Hpath Hpos Hkw.
      rewrite (pos_eval_map en pos), (pos_eval_map en pos'), (kw_eval_map en kw), (kw_eval_map en kw'), Hpos, Hkw.
      reflexivity.
  Qed.

  Lemma clines_ok : forall ls h, clines hl ls = inr h -> hl ls = HOk h.
  Proof. intros ls h H. unfold clines in H. destruct (hl ls); try discriminate H. injection H as H. subst. reflexivity. Qed.

  (* A2: consistent argument contexts with the same argument content bind the same parameter values *)
  Theorem args_determined : forall g A pv, ConsU g A pv -> forall g' A' pv' a, ConsU g' A' pv' ->
    cargs A = inr a -> cargs A' = inr a -> fn_params g = fn_params g' -> pv = pv'.
  Proof.
    intros g A pv H.
    induction H as [f named pv Hr|f Af pvf vars exts sts af vs Rf pre s post ch loads R1 en g k ph named pv
                      Hf IH Hfb Hl Haf Hvs Hca Hpv Hg Hk Hph Hn Hspv]; intros g' A' pv' a H' Ha Ha' Hp.
    - destruct A' as [named' site'].
      apply (args_determined_known f g' named named' None site' pv pv' a (CRoot _ _ _ _ _ _ Hr) H'); try assumption.
      exact (kmatch_known _ _ (proj2 (u_root _ _ _ _ _ HU _ _ _ Hr))).
    - assert (Hthis : ConsU g (named, Some (Content ph af loads ch exts vs)) pv)
        by exact (CSite hv hl RootOK f Af pvf vars exts sts af vs Rf pre s post ch loads R1 en g k ph named pv
                        Hf Hfb Hl Haf Hvs Hca Hpv Hg Hk Hph Hn Hspv).
      destruct A' as [named' site'].
      destruct (args_known named) eqn:K.
      + exact (args_determined_known g g' named named' _ site' pv pv' a Hthis H' K Ha Ha').
      + rewrite (cargs_unknown _ _ K) in Ha. injection Ha as Ha. subst a.
        destruct (args_known named') eqn:K'; [rewrite (cargs_known _ _ K') in Ha'; discriminate Ha'|].
        rewrite (cargs_unknown _ _ K') in Ha'. destruct site' as [c'|]; [|discriminate Ha'].
        injection Ha' as Ha'. subst c'.
        inversion H' as [|f' Af' pvf' vars' exts' sts' af' vs' Rf' pre' s' post' ch' loads' R1' en' g0 k' ph' nm p0
                           Hf' Hfb' Hl' Haf' Hvs' Hca' Hpv' Hg' Hk' Hph' Hn' Hspv' E1 E2 E3]; subst.
        pose proof (Cons_U _ _ _ Hf) as Uf. pose proof (Cons_U _ _ _ Hf') as Uf'.
        (* the same source prefix, the same rank *)
        pose proof (u_hl_inj _ _ _ _ _ HU f f' k k' ph Uf Uf' (clines_ok _ _ Hph) (clines_ok _ _ Hph')) as Hlines.
        destruct (cana_steps_ext _ _ _ _ _ _ _ _ _ _ _ Hca) as (n1 & En1 & Ln1).
        destruct (cana_steps_ext _ _ _ _ _ _ _ _ _ _ _ Hca') as (n1' & En1' & Ln1').
        cbn [app] in En1, En1'. rewrite list_of_steps_of in Ln1, Ln1'.
        assert (Hrank : List.length (cs_of pre) = List.length (cs_of pre')) by (rewrite <- Ln1, <- Ln1', <- En1, <- En1'; reflexivity).
        pose proof (first_steps_of _ _ _ _ Hfb) as Hfs. rewrite Hl in Hfs.
        pose proof (first_steps_of _ _ _ _ Hfb') as Hfs'. rewrite Hl' in Hfs'.
        destruct (u_prefix _ _ _ _ _ HU f f' pre s post pre' s' post' k k' Uf Uf' Hfs Hfs' Hk Hk' Hlines Hrank) as [Hpf Hsk].
        (* the callers received the same values *)
        pose proof (IH f' Af' pvf' af Hf' Haf Haf' Hpf) as Epvf. subst pvf'.
        (* the same variable values *)
        destruct (u_wf _ _ _ _ _ HU f Uf) as (_ & _ & Hwb). rewrite Hfb in Hwb. destruct Hwb as [Hwv Hws].
        destruct (u_wf _ _ _ _ _ HU f' Uf') as (_ & _ & Hwb'). rewrite Hfb' in Hwb'. destruct Hwb' as [Hwv' Hws'].
        cbn [body_vars body_steps] in Hwv, Hws, Hwv', Hws'.
        pose proof (cvars_values _ _ _ Hvs Hvs' Hwv Hwv') as Evars.
        (* the same skeleton up to the call *)
        rewrite !skel_lsteps_app in Hsk. cbn [app] in Hsk.
        apply app_eq_len in Hsk.
        2:{ apply (f_equal (@List.length sk)) in Hsk. rewrite !app_length, !skel_lsteps_length in Hsk.
            rewrite !skel_lsteps_length. cbn [List.length] in Hsk. lia. }
        destruct Hsk as [Hskp Hsks]. cbn [skel_lsteps] in Hsks. injection Hsks as Hsks.
        (* the same environment at the call *)
        rewrite Hl in Hws. rewrite Hl' in Hws'.
        apply wf_lsteps_app in Hws. apply wf_lsteps_app in Hws'.
        assert (Hcl : forall g1, In g1 (callees_l pre) -> U g1).
        { intros g1 Hg1. apply (u_closed _ _ _ _ _ HU f g1 Uf). unfold callees. rewrite Hfs, callees_l_app.
          apply in_or_app. left. exact Hg1. }
        assert (Hcl' : forall g1, In g1 (callees_l pre') -> U g1).
        { intros g1 Hg1. apply (u_closed _ _ _ _ _ HU f' g1 Uf'). unfold callees. rewrite Hfs', callees_l_app.
          apply in_or_app. left. exact Hg1. }
        pose proof (proj1 (proj2 (proj2 (proj2 A1_all))) (steps_of pre) (steps_of pre') [] [] (fn_lines f) (fn_lines f')
                      af af exts exts vs vs [] [] Rf [] [] Rf' ch loads R1 ch loads R1') as HA1.
        rewrite !list_of_steps_of in HA1.
        specialize (HA1 Hcl Hcl' (proj1 Hws) (proj1 Hws') Hskp Hca Hca' eq_refl eq_refl (Forall2_nil _) (Forall2_nil _)
                        (Env pvf (map snd vars) [])).
        rewrite <- Evars in Hpv'. rewrite HA1, Hpv' in Hpv. injection Hpv as Hpv. subst en'.
        (* the same argument expressions, evaluated in the same environment *)
        rewrite (site_pv_skel _ _ _ _ _ _ en Hsks Hg Hg' Hp), Hspv' in Hspv. injection Hspv as Hspv. symmetry. exact Hspv.
  Qed.

  (* -------------------------------------------------------------------------------------------------------------- *)
  (* 5. Theorem A                                                                                                    *)
  (* -------------------------------------------------------------------------------------------------------------- *)
  (* the argument content inside the content of a node with a body *)
  Definition content_args (c : content) : arg_content := match c with Content _ a _ _ _ _ => a end.
  Definition node_args (is_class : bool) (c : content) : option arg_content :=
    if is_class then match c with Content _ _ _ (c1 :: _) _ _ => Some (content_args c1) | _ => None end
    else Some (content_args c).

  Lemma cana_node_args : forall g A R c R1 b r, cana hv hl g A R = inr (c, R1) -> fn_bodies g = BCons b r ->
    exists a, cargs A = inr a /\ node_args (fn_is_class g) c = Some a.
  Proof.
    intros [name tag raises lines params annot is_class bds] A R c R1 b r Hc Hb. cbn [fn_bodies fn_is_class] in *. subst bds.
    rewrite cana_eq in Hc. destruct b as [vars exts sts]. destruct is_class.
    - rewrite cana_bodies_cons, cana_body_eq in Hc.
      destruct (cargs A) as [e|a]; [discriminate Hc|]. destruct (cvars hv vars) as [e|vs]; [discriminate Hc|].
      destruct (cana_steps hv hl sts lines a exts vs ([], [], R)) as [e|[[ch loads] R']]; [discriminate Hc|].
      destruct (clines hl lines) as [e|lh]; [discriminate Hc|].
      destruct (cana_bodies hv hl r lines A R') as [e|[cs R'']]; [discriminate Hc|].
      injection Hc as E1 E2. subst. exists a. split; reflexivity.
    - rewrite cana_body_eq in Hc.
      destruct (cargs A) as [e|a]; [discriminate Hc|]. destruct (cvars hv vars) as [e|vs]; [discriminate Hc|].
      destruct (cana_steps hv hl sts lines a exts vs ([], [], R)) as [e|[[ch loads] R']]; [discriminate Hc|].
      destruct (clines hl lines) as [e|lh]; [discriminate Hc|].
      injection Hc as E1 E2. subst. exists a. split; reflexivity.
  Qed.

  (* THEOREM A.  Two analysed nodes of the universe whose parameter values are consistent with their argument contexts
     and whose contents are equal have the same plain value (returned tuple, raised exception or error). *)
  Theorem content_determines_value : forall g g' A A' pv pv' R R' c R1 R1',
    ConsU g A pv -> ConsU g' A' pv' ->
    cana hv hl g A R = inr (c, R1) -> cana hv hl g' A' R' = inr (c, R1') ->
    pv_fn g pv = pv_fn g' pv'.
  Proof.
    intros g g' A A' pv pv' R R' c R1 R1' H H' Hc Hc'.
    pose proof (Cons_U _ _ _ H) as Ug. pose proof (Cons_U _ _ _ H') as Ug'.
    destruct (body_determines_value g g' A A' R R' c R1 R1' Ug Ug' Hc Hc') as [Hp Hpv].
    pose proof (u_text _ _ _ _ _ HU _ _ Ug Ug' (same_content_same_lines _ _ _ _ _ _ _ _ _ Ug Ug' Hc Hc')) as Hsk.
    unfold skel in Hsk. injection Hsk as _ _ _ Ecl _ Efs.
    rewrite Hpv.
    destruct (fn_bodies g) as [|b r] eqn:Eb; destruct (fn_bodies g') as [|b' r'] eqn:Eb';
      unfold first_steps, first_body in Efs; rewrite Eb, Eb' in Efs; cbn [option_map] in Efs; try discriminate Efs.
    - destruct g' as [n t ra l p an cl bds]. cbn [fn_bodies] in Eb'. subst bds. reflexivity.
    - destruct (cana_node_args _ _ _ _ _ _ _ Hc Eb) as (a & Ha & Hna).
      destruct (cana_node_args _ _ _ _ _ _ _ Hc' Eb') as (a' & Ha' & Hna').
      rewrite Ecl, Hna' in Hna. injection Hna as Hna. subst a'.
      rewrite (args_determined g A pv H g' A' pv' a H' Ha Ha' Hp). reflexivity.
  Qed.

  (* THEOREM A, fragment where every argument is known (literals, defaults, top-level values): no call-site context
     is involved; consistency is just [kmatch]. *)
  Theorem content_determines_value_known : forall g g' named named' site site' pv pv' R R' c R1 R1',
    U g -> U g' -> kmatch hv UVal named pv -> kmatch hv UVal named' pv' ->
    cana hv hl g (named, site) R = inr (c, R1) -> cana hv hl g' (named', site') R' = inr (c, R1') ->
    pv_fn g pv = pv_fn g' pv'.
  Proof.
    intros g g' named named' site site' pv pv' R R' c R1 R1' Ug Ug' K K' Hc Hc'.
    destruct (body_determines_value g g' _ _ R R' c R1 R1' Ug Ug' Hc Hc') as [Hp Hpv].
    pose proof (u_text _ _ _ _ _ HU _ _ Ug Ug' (same_content_same_lines _ _ _ _ _ _ _ _ _ Ug Ug' Hc Hc')) as Hsk.
    unfold skel in Hsk. injection Hsk as _ _ _ Ecl _ Efs.
    rewrite Hpv.
    destruct (fn_bodies g) as [|b r] eqn:Eb; destruct (fn_bodies g') as [|b' r'] eqn:Eb';
      unfold first_steps, first_body in Efs; rewrite Eb, Eb' in Efs; cbn [option_map] in Efs; try discriminate Efs.
    - destruct g' as [n t ra l p an cl bds]. cbn [fn_bodies] in Eb'. subst bds. reflexivity.
    - destruct (cana_node_args _ _ _ _ _ _ _ Hc Eb) as (a & Ha & Hna).
      destruct (cana_node_args _ _ _ _ _ _ _ Hc' Eb') as (a' & Ha' & Hna').
      rewrite Ecl, Hna' in Hna. injection Hna as Hna. subst a'.
      rewrite (cargs_known _ _ (kmatch_known _ _ K)) in Ha. rewrite (cargs_known _ _ (kmatch_known _ _ K')) in Ha'.
      rewrite <- Ha in Ha'. injection Ha' as Ha'.
      apply known_args_inj in Ha'; [|exact (kmatch_known _ _ K')|exact (kmatch_known _ _ K)]. subst named'.
      rewrite (kmatch_inj _ _ _ K K'). reflexivity.
  Qed.
End TheoremA.
