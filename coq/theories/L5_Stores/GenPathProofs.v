(* path_segments REGENERATED from dds/store.py by harness/translate_py.py (Extracted/GenPath.v) is the hand-written
   model PathMap.path_segments.  Not regenerated. *)
From Coq Require Import List Ascii String Bool Arith.
From DDS Require Import Base.Bytes Base.PyRt L5_Stores.PathMap L5_Stores.PathMapProofs Extracted.GenPath.
Import ListNotations.

Lemma existsb_ext_eq : forall (A : Type) (f g : A -> bool), (forall a, f a = g a) ->
  forall l, existsb f l = existsb g l.
Proof.
  intros A f g H l. induction l as [|x r IH]; simpl; [reflexivity | rewrite H, IH; reflexivity].
Qed.

Theorem gen_path_segments_eq : forall p, gen_path_segments p = path_segments p.
Proof.
  intro p. unfold gen_path_segments, path_segments, segments. cbv zeta.
  (* the comprehension filters with the truth value of a segment *)
  rewrite (filter_ext _ nonempty) by (intro s; reflexivity).
  (* the forbidden segments are the regenerated constant of Extracted/ConstStore.v *)
  rewrite (existsb_ext_eq _ _ is_forbidden)
    by (intro s; unfold is_forbidden; rewrite forbidden_value; reflexivity).
  rewrite ?negb_involutive. reflexivity.
Qed.
