(* Rendering of store outputs for the correspondence harness; runners for the LRU wrapper over the spec. *)
From Coq Require Import List Ascii String Bool NArith ZArith.
From DDS Require Import Base.Bytes L4_Eval.Store L5_Stores.Lru.
Import ListNotations.
Local Open Scope string_scope.

Definition render_blob (v : blob) : string := match v with BNone => "N" | BVal b => "V:" ++ show b end.
Definition render_out (o : sout) : string :=
  match o with
  | RBool true => "B1" | RBool false => "B0"
  | RBlob v => render_blob v
  | RUnit => "U"
  | RPaths r => "P:" ++ String.concat "," (map (fun pk => show (fst pk) ++ "=" ++ show (snd pk)) r)
  | RErr => "E"
  end.
Definition render_outs (l : list sout) : string := String.concat ";" (map render_out l).

Definition run_bare (ops : list sop) : string := render_outs (run_ops spec_step sempty ops).
Definition run_lru (cap : option nat) (ops : list sop) : string :=
  render_outs (run_ops (lru_step sstate spec_step cap) ([], sempty) ops).

(* cache length after each operation *)
Fixpoint lru_lens (cap : option nat) (st : lstate sstate) (ops : list sop) : list nat :=
  match ops with
  | [] => []
  | o :: r => let st' := fst (lru_step sstate spec_step cap st o) in List.length (fst st') :: lru_lens cap st' r
  end.
Definition run_lru_lens (cap : option nat) (ops : list sop) : string :=
  String.concat ";" (map (fun n => show (dec_nat n)) (lru_lens cap ([], sempty) ops)).

Definition render_decode (r : option (option nat)) : string :=
  match r with
  | None => "nowrap"
  | Some None => "unbounded"
  | Some (Some n) => "cap:" ++ show (dec_nat n)
  end.
