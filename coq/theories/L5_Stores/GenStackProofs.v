(* The two regenerated pieces composed: LRUCacheStore (Extracted/GenLru.v) wrapped around MemoryStore (Extracted/GenMemStore.v) -
   what dds.set_store("memory", cache_objects=n) installs - answers every operation sequence as the dictionary does.  Not regenerated. *)
From Coq Require Import List Ascii String Bool Arith.
From DDS Require Import Base.Bytes Base.PyRt L4_Eval.Store L5_Stores.Lru L5_Stores.LruProofs Extracted.GenLru Extracted.GenMemStore
  L5_Stores.GenLruProofs L5_Stores.GenMemStoreProofs.
Import ListNotations.

Lemma gen_mem_has_pure : has_pure gen_mem_step.
Proof.
  unfold has_pure. intros. rewrite gen_mem_step_is_spec. apply spec_has_pure.
Qed.

Lemma lru_step_ext : forall (S : Type) (i1 i2 : S -> sop -> S * sout) cap, (forall s o, i1 s o = i2 s o) ->
  forall st o, lru_step S i1 cap st o = lru_step S i2 cap st o.
Proof.
  intros S i1 i2 cap H [c s] o. unfold lru_step, inner_has. destruct o; rewrite ?H; try reflexivity.
  - destruct (cget k c) as [[v|] c']; [reflexivity|]. destruct (i2 s (OFetch k)) as [s' out].
    destruct out as [| [|b] | | |]; rewrite ?H; reflexivity.
Qed.

Theorem gen_stack_is_dictionary : forall cap ops, consistent ops = true ->
  run_ops (gen_lru_step sstate gen_mem_step cap) ([], sempty) ops = run_ops spec_step sempty ops.
Proof.
  intros cap ops Hc.
  rewrite (gen_lru_run_eq sstate gen_mem_step cap gen_mem_has_pure ops [] sempty) by constructor.
  rewrite (run_ops_ext _ _ (lru_step sstate spec_step cap) (lru_step_ext sstate gen_mem_step spec_step cap gen_mem_step_is_spec)).
  apply lru_transparent. exact Hc.
Qed.
