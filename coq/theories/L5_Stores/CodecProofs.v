(* Proofs about the codec registry (C17). *)
From Coq Require Import List Ascii String Bool Arith.
From DDS Require Import Base.Bytes Extracted.ConstCodec L5_Stores.Codec.
Import ListNotations.

Lemma beq_refl : forall a, bytes_eqb a a = true.
Proof. intros a. unfold bytes_eqb. destruct (list_eq_dec ascii_dec a a); [reflexivity | congruence]. Qed.
Lemma beq_true : forall a b, bytes_eqb a b = true -> a = b.
Proof. intros a b Hab. unfold bytes_eqb in Hab. destruct (list_eq_dec ascii_dec a b); [assumption | discriminate]. Qed.
Lemma beq_false : forall a b, a <> b -> bytes_eqb a b = false.
Proof. intros a b Hab. unfold bytes_eqb. destruct (list_eq_dec ascii_dec a b); [contradiction | reflexivity]. Qed.

Lemma rget_rset_same : forall (A : Type) k (v : A) l, rget k (rset k v l) = Some v.
Proof.
  intros A k v l. induction l as [|[k' v'] t IH]; cbn [rset rget].
  - rewrite beq_refl. reflexivity.
  - destruct (bytes_eqb k k') eqn:E; cbn [rget]; [rewrite beq_refl; reflexivity | rewrite E; exact IH].
Qed.
Lemma rget_rset_other : forall (A : Type) k k2 (v : A) l, k2 <> k -> rget k2 (rset k v l) = rget k2 l.
Proof.
  intros A k k2 v l Hne. induction l as [|[k' v'] t IH]; cbn [rset rget].
  - rewrite (beq_false k2 k Hne). reflexivity.
  - destruct (bytes_eqb k k') eqn:E; cbn [rget].
    + apply beq_true in E. subst k'. rewrite (beq_false k2 k Hne). reflexivity.
    + destruct (bytes_eqb k2 k'); [reflexivity | exact IH].
Qed.

(* a file codec never rebinds a reference that is already bound *)
Theorem file_codec_never_rebinds : forall g ref types r c,
  select_by_ref g r = Some c -> select_by_ref (register g (RFile ref types)) r = Some c.
Proof.
  intros g ref types r c Hc. unfold select_by_ref, register in *. cbn [protocols].
  unfold rset_if_absent, cid in *.
  match goal with |- context [match ?X with Some _ => _ | None => _ end] => destruct X as [x|] eqn:E end.
  - exact Hc.
  - destruct (list_eq_dec ascii_dec r ref) as [->|Hne]; [congruence|].
    rewrite rget_rset_other by exact Hne. exact Hc.
Qed.

(* a codec registered under another reference leaves the binding alone *)
Theorem other_reference_preserved : forall g reg0 r,
  reg_ref reg0 <> r -> select_by_ref g r <> None -> select_by_ref (register g reg0) r = select_by_ref g r.
Proof.
  intros g reg0 r Hne Hb. destruct reg0 as [ref types|ref types]; cbn [reg_ref] in Hne.
  - destruct (select_by_ref g r) as [c|] eqn:E; [|congruence]. apply file_codec_never_rebinds. exact E.
  - unfold select_by_ref, register. cbn [protocols]. apply rget_rset_other. congruence.
Qed.

Definition rebinding (r : bytes) (x : reg) : bool := match x with RCodec ref _ => bytes_eqb ref r | RFile _ _ => false end.

(* C17: a blob is read back with the codec object that wrote it, whatever is registered or re-prioritised in between
   (in this or another process), as long as no CODEC is registered under the persisted reference itself *)
Theorem read_with_writer_codec : forall regs g r c,
  select_by_ref g r = Some c -> forallb (fun x => negb (rebinding r x)) regs = true ->
  select_by_ref (fold_left register regs g) r = Some c.
Proof.
  induction regs as [|x t IH]; intros g r c Hc Hn; cbn [fold_left]; [exact Hc|].
  cbn [forallb] in Hn. apply andb_prop in Hn. destruct Hn as [Hx Ht].
  apply IH; [|exact Ht].
  destruct x as [ref types|ref types].
  - apply file_codec_never_rebinds. exact Hc.
  - cbn [rebinding] in Hx. apply negb_true_iff in Hx.
    rewrite other_reference_preserved; [exact Hc | | congruence].
    cbn [reg_ref]. intros Heq. subst ref. rewrite beq_refl in Hx. discriminate.
Qed.

(* the writer's reference is bound right after the selection: every codec that can be selected by type is registered *)
Theorem default_references_bound :
  forallb (fun rt => match select_by_ref default_registry (bs (fst rt)) with Some (r, _) => bytes_eqb r (bs (fst rt)) | None => false end)
          c_default_file_codecs = true.
Proof. vm_compute. reflexivity. Qed.

(* the hypothesis is necessary: a codec registered under the persisted reference takes over old blobs *)
Example rebinding_takes_over :
  select_by_ref (register default_registry (RCodec (bs "local.string") [bs "str"])) (bs "local.string")
  <> select_by_ref default_registry (bs "local.string").
Proof. vm_compute. discriminate. Qed.

(* selection by type in the default registry *)
Example default_selection :
  run_select [] (bs "str") = "local.string"%string /\ run_select [] (bs "bytes") = "local.bytes"%string /\
  run_select [] (bs "bytearray") = "local.bytes"%string /\ run_select [] (bs "NoneType") = "local.pickle"%string /\
  run_select [] (bs "dict") = "local.pickle"%string /\ run_select [] (bs "pandas.core.frame.DataFrame") = "local.pandas"%string.
Proof. vm_compute. repeat split; reflexivity. Qed.
