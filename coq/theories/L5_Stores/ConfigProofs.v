(* Proofs about local-store configurations (C16). *)
From Coq Require Import List Ascii String Bool Arith Lia.
From DDS Require Import Base.Bytes Extracted.ConstConfig L5_Stores.PathMap L5_Stores.PathMapProofs L5_Stores.Config.
Import ListNotations.

Lemma dirs_made_absolute : c_dirs_made_absolute = true.
Proof. reflexivity. Qed.

(* splitting: a trailing "/" adds one empty component, which [segments] drops *)
Lemma split_slash_app_slash : forall l cur, split_slash (l ++ ["/"%char]) cur = split_slash l cur ++ [[]].
Proof.
  induction l as [|c r IH]; intros cur; cbn [app split_slash].
  - reflexivity.
  - destruct (Ascii.eqb c "/") eqn:E; rewrite IH; reflexivity.
Qed.

(* a trailing separator does not change the directory a configuration denotes *)
Theorem comps_trailing_slash : forall d, comps (d ++ ["/"%char]) = comps d.
Proof.
  intros d. unfold comps, segments. rewrite split_slash_app_slash, filter_app.
  cbn [filter nonempty List.length Nat.eqb negb]. apply app_nil_r.
Qed.

Lemma is_abs_app : forall d x, d <> [] -> is_abs (d ++ x) = is_abs d.
Proof. intros d x Hd. destruct d; [congruence | reflexivity]. Qed.

Theorem abspath_trailing_slash : forall cwd d, d <> [] -> abspath cwd (d ++ ["/"%char]) = abspath cwd d.
Proof. intros cwd d Hd. unfold abspath. rewrite comps_trailing_slash, is_abs_app by exact Hd. reflexivity. Qed.

(* an absolute directory does not depend on the working directory; a relative one is resolved from it, once *)
Theorem abspath_absolute : forall cwd1 cwd2 d, is_abs d = true -> abspath cwd1 d = abspath cwd2 d.
Proof. intros cwd1 cwd2 d Ha. unfold abspath. rewrite Ha. reflexivity. Qed.
Theorem abspath_relative : forall cwd d, is_abs d = false -> abspath cwd d = resolve (cwd ++ comps d).
Proof. intros cwd d Ha. unfold abspath. rewrite Ha. reflexivity. Qed.

(* the store object never looks at the working directory again: two stores built from spellings that denote the same
   directories are the same store *)
Theorem same_dirs_same_store : forall cwd1 cwd2 i1 d1 i2 d2,
  abspath cwd1 i1 = abspath cwd2 i2 -> abspath cwd1 d1 = abspath cwd2 d2 -> make_store cwd1 i1 d1 = make_store cwd2 i2 d2.
Proof. intros cwd1 cwd2 i1 d1 i2 d2 Hi Hd. unfold make_store. rewrite Hi, Hd. reflexivity. Qed.

(* two data views on one internal directory: the blobs are the same names, the link names never coincide *)
Theorem views_share_blobs : forall root d1 d2 k, blob_name (LStore root d1) k = blob_name (LStore root d2) k.
Proof. reflexivity. Qed.

Lemma is_prefix_of_app : forall a b c, a ++ b = c -> is_prefix_of a c = true.
Proof.
  induction a as [|x r IH]; intros b c Hc; [reflexivity|]. destruct c as [|y t]; [discriminate|].
  cbn in Hc. inversion Hc; subst. cbn [is_prefix_of]. rewrite bytes_eqb_refl. cbn. eapply IH. reflexivity.
Qed.

Lemma app_eq_prefix : forall (a b c d : list bytes), a ++ b = c ++ d -> is_prefix_of a c = true \/ is_prefix_of c a = true.
Proof.
  induction a as [|x r IH]; intros b c d Hc; [left; reflexivity|].
  destruct c as [|y t]; [right; reflexivity|].
  cbn in Hc. inversion Hc; subst. cbn [is_prefix_of]. rewrite bytes_eqb_refl. cbn. eapply IH. eassumption.
Qed.

Theorem views_independent : forall root d1 d2 segs1 segs2,
  is_prefix_of d1 d2 = false -> is_prefix_of d2 d1 = false ->
  link_name (LStore root d1) segs1 <> link_name (LStore root d2) segs2.
Proof.
  intros root d1 d2 s1 s2 H1 H2 Heq. unfold link_name in Heq. cbn [ls_data] in Heq.
  destruct (app_eq_prefix _ _ _ _ Heq) as [Hp|Hp]; congruence.
Qed.

Example abspath_examples :
  abspath [bs "home"; bs "u"] (bs "store/int/") = [bs "home"; bs "u"; bs "store"; bs "int"] /\
  abspath [bs "home"; bs "u"] (bs "./store//int") = [bs "home"; bs "u"; bs "store"; bs "int"] /\
  abspath [bs "home"; bs "u"] (bs "/tmp/x/../int") = [bs "tmp"; bs "int"] /\
  abspath [bs "other"] (bs "/tmp/x/../int") = [bs "tmp"; bs "int"].
Proof. vm_compute. repeat split; reflexivity. Qed.
