(* CodecRegistry.add_codec / add_file_codec / get_codec REGENERATED from dds/codec.py by harness/translate_py.py
   (Extracted/GenCodec.v) are the hand-written model Codec.register / select_by_type / select_by_ref.  Not regenerated. *)
From Coq Require Import List Ascii String Bool Arith.
From DDS Require Import Base.Bytes Base.PyRt Extracted.ConstCodec L5_Stores.Codec L5_Stores.CodecProofs Extracted.GenCodec.
Import ListNotations.

(* the codec object handed to a registration method: identified by (reference, registration index) *)
Definition reg_types (r : reg) : list bytes := match r with RFile _ t | RCodec _ t => t end.
Definition obj_of (g : registry) (r : reg) : cobj := CObj (reg_ref r, next g) (reg_types r).

Theorem gen_add_codec_is_register : forall g ref types,
  register g (RCodec ref types) =
  Registry (fst (gen_add_codec (obj_of g (RCodec ref types)) (handled g) (protocols g)))
           (snd (gen_add_codec (obj_of g (RCodec ref types)) (handled g) (protocols g))) (S (next g)).
Proof. intros g ref types. reflexivity. Qed.

Theorem gen_add_file_codec_is_register : forall g ref types,
  register g (RFile ref types) =
  Registry (fst (gen_add_file_codec (obj_of g (RFile ref types)) (handled g) (protocols g)))
           (snd (gen_add_file_codec (obj_of g (RFile ref types)) (handled g) (protocols g))) (S (next g)).
Proof.
  intros [h p n] ref types. unfold register, gen_add_file_codec, obj_of, co_ref, dict_contains, rset_if_absent, is_some.
  cbn [co_id co_types reg_ref reg_types fst snd handled protocols next]. unfold cid in *.
  destruct (rget ref p) as [c|] eqn:E; cbn [fst snd]; reflexivity.
Qed.

(* get_codec(obj_type, None) and get_codec(obj_type, "") : by type, with the fallback to the codec of object *)
Theorem gen_get_by_type : forall g t, gen_get_codec (Some t) None (handled g) (protocols g) = select_by_type g t.
Proof.
  intros g t. unfold gen_get_codec, select_by_type, get_or, opt_nonempty.
  destruct (rget t (handled g)) as [c|]; [reflexivity|]. destruct (rget object_type (handled g)); reflexivity.
Qed.
Theorem gen_get_empty_ref_by_type : forall g t, gen_get_codec (Some t) (Some []) (handled g) (protocols g) = select_by_type g t.
Proof.
  intros g t. unfold gen_get_codec, select_by_type, get_or, opt_nonempty.
  destruct (rget t (handled g)) as [c|]; [reflexivity|]. destruct (rget object_type (handled g)); reflexivity.
Qed.
(* get_codec(_, ref) with a reference: by reference only, whatever the type *)
Theorem gen_get_by_ref : forall g ot r, r <> [] -> gen_get_codec ot (Some r) (handled g) (protocols g) = select_by_ref g r.
Proof.
  intros g ot r Hr. unfold gen_get_codec, select_by_ref, opt_nonempty, opt_get, dict_contains, is_some.
  destruct r as [|a r]; [congruence|]. destruct (rget (a :: r) (protocols g)); reflexivity.
Qed.
Theorem gen_get_nothing : forall h p, gen_get_codec None None h p = None.
Proof. reflexivity. Qed.

(* hence the theorems of CodecProofs.v speak about the regenerated code: a blob is read back with the codec object bound
   to its persisted reference when it was written, whatever file codecs were registered in between *)
Corollary gen_read_with_writer_codec : forall regs g r c ot, r <> [] ->
  gen_get_codec ot (Some r) (handled g) (protocols g) = Some c ->
  forallb (fun x => negb (rebinding r x)) regs = true ->
  let g' := fold_left register regs g in
  gen_get_codec ot (Some r) (handled g') (protocols g') = Some c.
Proof.
  intros regs g r c ot Hr Hc Hn g'. rewrite gen_get_by_ref in * by exact Hr.
  unfold g'. apply read_with_writer_codec; assumption.
Qed.

(* a whole registration history through the regenerated methods: CodecRegistry.__init__ followed by any add_codec / add_file_codec calls *)
Definition gen_register (g : registry) (r : reg) : registry :=
  let hp := match r with
            | RCodec _ _ => gen_add_codec (obj_of g r) (handled g) (protocols g)
            | RFile _ _ => gen_add_file_codec (obj_of g r) (handled g) (protocols g)
            end in
  Registry (fst hp) (snd hp) (S (next g)).

Lemma gen_register_is_register : forall g r, gen_register g r = register g r.
Proof.
  intros g [ref types|ref types]; unfold gen_register; symmetry;
    [apply gen_add_file_codec_is_register | apply gen_add_codec_is_register].
Qed.

Theorem gen_registrations_are_model : forall regs g, fold_left gen_register regs g = fold_left register regs g.
Proof.
  induction regs as [|r t IH]; intro g; cbn [fold_left]; [reflexivity|].
  rewrite gen_register_is_register. apply IH.
Qed.

(* the default registry (_build_default_registry: the four file codecs of Extracted/ConstCodec.v, in order) built by the regenerated methods *)
Corollary gen_default_registry : fold_left gen_register default_regs empty_registry = default_registry.
Proof. unfold default_registry. apply gen_registrations_are_model. Qed.

(* end to end on the regenerated code: whatever is registered later (no codec under the persisted reference itself), in this or another
   process starting from the default registry, get_codec(_, ref) keeps answering the codec object that wrote the blob *)
Corollary gen_read_with_writer_codec_history : forall before after r c ot, r <> [] ->
  let g := fold_left gen_register before default_registry in
  gen_get_codec ot (Some r) (handled g) (protocols g) = Some c ->
  forallb (fun x => negb (rebinding r x)) after = true ->
  let g' := fold_left gen_register after g in
  gen_get_codec ot (Some r) (handled g') (protocols g') = Some c.
Proof.
  intros before after r c ot Hr g Hc Hn g'. unfold g'. rewrite gen_registrations_are_model.
  apply gen_read_with_writer_codec; assumption.
Qed.
