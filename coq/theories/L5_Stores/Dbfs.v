(* Model of the commit logic of dds/codecs/databricks.py: DBFSStore.sync_paths over a key-value file system (the
   dbutils.fs operations head / put / cp), commit-type decoding of dds._api.set_store, legacy codec aliases. *)
From Coq Require Import List Ascii String Bool Arith.
From DDS Require Import Base.Bytes Extracted.ConstDbfs L4_Eval.Store.
Import ListNotations.
Local Open Scope string_scope.

Inductive ctype := CFull | CLink | CNone.
Definition ctype_of_member (m : string) : option ctype :=
  if String.eqb m "FULL" then Some CFull else if String.eqb m "LINK_ONLY" then Some CLink
  else if String.eqb m "NO_COMMIT" then Some CNone else None.

Fixpoint slookup (k : string) (l : list (string * string)) : option string :=
  match l with [] => None | (a, b) :: r => if String.eqb k a then Some b else slookup k r end.

(* set_store: upper-cased name, documented aliases, then membership in the enumeration *)
Definition decode_commit_type (upper_name : option string) : option ctype :=
  let n := match upper_name with None => "FULL" | Some s => s end in
  let n' := match slookup n c_commit_aliases with Some m => m | None => n end in
  if existsb (String.eqb n') c_commit_members then ctype_of_member n' else None.

(* remote file system: uri -> content *)
Definition rfs := list (bytes * bytes).
Definition record_of (key : bytes) : bytes := (bs "{""redirection_key"": """ ++ key ++ bs """}")%list.

Record dstore := DStore { d_internal : bytes; d_data : bytes; d_ct : ctype }.
Definition slashb : bytes := bs "/".
Definition blob_uri (s : dstore) (k : bytes) : bytes := (d_internal s ++ bs "/blobs/" ++ k)%list.
Definition obj_uri (s : dstore) (segs : list bytes) : bytes := (d_data s ++ slashb ++ join slashb segs)%list.
Definition redir_uri (s : dstore) (segs : list bytes) : bytes := (d_data s ++ bs "/_dds_meta/" ++ join slashb segs)%list.

(* one (path, key) of sync_paths; the blob content is read from the internal directory *)
Definition sync_one (s : dstore) (fs : rfs) (item : list bytes * bytes) : rfs :=
  let '(segs, key) := item in
  match d_ct s with
  | CNone => fs
  | ct =>
    match alookup (redir_uri s segs) fs with
    | Some r => if bytes_eqb r (record_of key) then fs
                else let fs1 := match ct, alookup (blob_uri s key) fs with
                                | CFull, Some c => aupdate (obj_uri s segs) c fs | _, _ => fs end in
                     aupdate (redir_uri s segs) (record_of key) fs1
    | None => let fs1 := match ct, alookup (blob_uri s key) fs with
                         | CFull, Some c => aupdate (obj_uri s segs) c fs | _, _ => fs end in
              aupdate (redir_uri s segs) (record_of key) fs1
    end
  end.

(* fetch_paths: the key named by the redirect record (None = the dbutils error is raised) *)
Definition fetch_record (s : dstore) (fs : rfs) (segs : list bytes) : option bytes := alookup (redir_uri s segs) fs.

(* legacy references: the kind of codec each class implements *)
Definition kind_of_class (c : string) : string :=
  if String.eqb c "StringLocalFileCodec" then "string" else if String.eqb c "BytesFileCodec" then "bytes"
  else if String.eqb c "PickleLocalFileCodec" then "pickle" else "?".
Definition kind_of_ref (r : string) : string :=
  if String.eqb r "dbfs.string" then "string" else if String.eqb r "dbfs.bytes" then "bytes"
  else if String.eqb r "dbfs.pickle" then "pickle" else "??".
Definition legacy_kind_preserving : bool :=
  forallb (fun rc => String.eqb (kind_of_ref (fst rc)) (kind_of_class (snd rc))) c_legacy_aliases
  && Nat.eqb (List.length c_legacy_aliases) 3.
