(* Proofs about the path-to-location mapping of the stores (C08). *)
From Coq Require Import List Ascii String Bool Arith Lia.
From DDS Require Import Base.Bytes Extracted.ConstStore L5_Stores.PathMap.
Import ListNotations.

Lemma forbidden_value : forbidden = [bs "."; bs ".."].
Proof. vm_compute. reflexivity. Qed.

Lemma bytes_eqb_true : forall a b, bytes_eqb a b = true -> a = b.
Proof. intros a b Hab. unfold bytes_eqb in Hab. destruct (list_eq_dec ascii_dec a b); [assumption | discriminate]. Qed.
Lemma bytes_eqb_refl : forall a, bytes_eqb a a = true.
Proof. intros a. unfold bytes_eqb. destruct (list_eq_dec ascii_dec a a); [reflexivity | congruence]. Qed.

Lemma path_segments_some : forall p s, path_segments p = Some s ->
  s = segments p /\ s <> [] /\ no_dots s = true.
Proof.
  intros p s Hs. unfold path_segments in Hs.
  destruct (Nat.eqb (List.length (segments p)) 0) eqn:E1; cbn [orb] in Hs; [discriminate|].
  destruct (existsb is_forbidden (segments p)) eqn:E2; [discriminate|].
  inversion Hs; subst. split; [reflexivity|]. split.
  - intros Hn. rewrite Hn in E1. cbn in E1. discriminate.
  - unfold no_dots. rewrite E2. reflexivity.
Qed.

(* two paths with different sequences of non-empty segments never share a location *)
Theorem loc_injective : forall d p q l,
  loc_of d p = Some l -> loc_of d q = Some l -> segments p = segments q.
Proof.
  intros d p q l Hp Hq. unfold loc_of in *.
  destruct (path_segments p) as [sp|] eqn:Ep; [|discriminate].
  destruct (path_segments q) as [sq|] eqn:Eq; [|discriminate].
  inversion Hp; inversion Hq; subst.
  apply path_segments_some in Ep. apply path_segments_some in Eq.
  destruct Ep as [-> _]. destruct Eq as [-> _].
  match goal with Hx : _ ++ _ = _ ++ _ |- _ => apply app_inv_head in Hx; symmetry; exact Hx end.
Qed.

Lemma resolve_from_no_dots : forall comps stack,
  no_dots comps = true -> resolve_from stack comps = rev stack ++ comps.
Proof.
  induction comps as [|c r IH]; intros stack Hn; cbn [resolve_from].
  - rewrite app_nil_r. reflexivity.
  - unfold no_dots in Hn. cbn [existsb] in Hn. rewrite negb_orb in Hn. apply andb_prop in Hn. destruct Hn as [Hc Hr].
    unfold is_forbidden in Hc. rewrite forbidden_value in Hc. cbn [existsb] in Hc.
    rewrite !negb_orb in Hc. cbn [negb] in Hc. rewrite andb_true_r in Hc.
    apply andb_prop in Hc. destruct Hc as [H1 H2].
    apply negb_true_iff in H1. apply negb_true_iff in H2. rewrite H1, H2.
    rewrite IH by (unfold no_dots; exact Hr). cbn [rev]. rewrite <- app_assoc. reflexivity.
Qed.

Lemma no_dots_app : forall a b, no_dots a = true -> no_dots b = true -> no_dots (a ++ b) = true.
Proof.
  intros a b Ha Hb. unfold no_dots in *. rewrite existsb_app, negb_orb.
  rewrite Ha, Hb. reflexivity.
Qed.

(* every name created for a path resolves strictly inside the data directory (which itself contains no dots) *)
Theorem loc_contained : forall d p l,
  no_dots d = true -> loc_of d p = Some l ->
  exists s, s <> [] /\ resolve l = resolve d ++ s /\ resolve d = d.
Proof.
  intros d p l Hd Hl. unfold loc_of in Hl.
  destruct (path_segments p) as [s|] eqn:Ep; [|discriminate]. inversion Hl; subst.
  apply path_segments_some in Ep. destruct Ep as [_ [Hne Hs]].
  exists s. split; [exact Hne|]. unfold resolve.
  rewrite (resolve_from_no_dots (d ++ s) []) by (apply no_dots_app; assumption).
  rewrite (resolve_from_no_dots d []) by exact Hd. cbn [rev app]. split; reflexivity.
Qed.

(* paths with a "." or ".." segment, and paths without any segment, are refused *)
Theorem dots_rejected : forall d p, existsb is_forbidden (segments p) = true -> loc_of d p = None.
Proof.
  intros d p Hf. unfold loc_of, path_segments. rewrite Hf, orb_true_r. reflexivity.
Qed.

Example loc_example :
  loc_of [bs "data"] (bs "/a b//c/.x/") = Some [bs "data"; bs "a b"; bs "c"; bs ".x"].
Proof. vm_compute. reflexivity. Qed.
Example loc_rejects_dotdot : loc_of [bs "data"] (bs "/a/../b") = None /\ loc_of [bs "data"] (bs "/") = None.
Proof. vm_compute. split; reflexivity. Qed.

(* the pinned mapping is refuted on both counts (finding F06, fixed by d39b068) *)
Theorem pinned_alias_refuted : forall d, loc_of_pinned d (bs "/a/b/c") = loc_of_pinned d (bs "/ab/c").
Proof. intros d. vm_compute. reflexivity. Qed.
Theorem pinned_escape_refuted : resolve (loc_of_pinned [bs "data"] (bs "/../x")) = [bs "x"].
Proof. vm_compute. reflexivity. Qed.
