(* Faithful model of dds/codec.py: CodecRegistry (handled types: codecs override, file codecs first-wins; protocols by
   reference: codecs override, file codecs first-wins) and of the selection done by the stores when writing / reading. *)
From Coq Require Import List Ascii String Bool Arith.
From DDS Require Import Base.Bytes Extracted.ConstCodec.
Import ListNotations.

(* a codec is identified by its reference; registrations carry the types it declares *)
Inductive reg := RFile (ref : bytes) (types : list bytes) | RCodec (ref : bytes) (types : list bytes).
Definition reg_ref (r : reg) : bytes := match r with RFile x _ | RCodec x _ => x end.

(* the identity of the codec object bound to a type / a reference: (reference, registration index) *)
Definition cid := (bytes * nat)%type.
Record registry := Registry { handled : list (bytes * cid); protocols : list (bytes * cid); next : nat }.

Fixpoint rget {A} (k : bytes) (l : list (bytes * A)) : option A :=
  match l with [] => None | (k', v) :: r => if bytes_eqb k k' then Some v else rget k r end.
Fixpoint rset {A} (k : bytes) (v : A) (l : list (bytes * A)) : list (bytes * A) :=
  match l with
  | [] => [(k, v)]
  | (k', v') :: r => if bytes_eqb k k' then (k, v) :: r else (k', v') :: rset k v r
  end.
Definition rset_if_absent {A} (k : bytes) (v : A) (l : list (bytes * A)) : list (bytes * A) :=
  match rget k l with Some _ => l | None => rset k v l end.

Definition register (g : registry) (r : reg) : registry :=
  let id := (reg_ref r, next g) in
  match r with
  | RCodec ref types =>      (* add_codec: overrides *)
    Registry (fold_left (fun h t => rset t id h) types (handled g)) (rset ref id (protocols g)) (S (next g))
  | RFile ref types =>       (* add_file_codec: only where nothing is bound yet *)
    Registry (fold_left (fun h t => rset_if_absent t id h) types (handled g)) (rset_if_absent ref id (protocols g)) (S (next g))
  end.

Definition empty_registry : registry := Registry [] [] 0.
(* _build_default_registry: the four file codecs in order, then the legacy alias *)
Definition default_regs : list reg :=
  map (fun rt => RFile (bs (fst rt)) (map bs (snd rt))) c_default_file_codecs.
Definition default_registry : registry := fold_left register default_regs empty_registry.

Definition object_type : bytes := bs "object".
(* get_codec(obj_type, None): the codec of the type, else the codec of "object" *)
Definition select_by_type (g : registry) (t : bytes) : option cid :=
  match rget t (handled g) with Some c => Some c | None => rget object_type (handled g) end.
(* get_codec(None, ref) *)
Definition select_by_ref (g : registry) (ref : bytes) : option cid := rget ref (protocols g).

Definition run_select (regs : list reg) (t : bytes) : string :=
  match select_by_type (fold_left register regs default_registry) t with
  | Some (ref, _) => show ref
  | None => "none"
  end.
