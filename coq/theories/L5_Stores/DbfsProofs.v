(* Proofs about the DBFS store (C19). *)
From Coq Require Import List Ascii String Bool Arith.
From DDS Require Import Base.Bytes Extracted.ConstDbfs L4_Eval.Store L5_Stores.Dbfs.
Import ListNotations.
Local Open Scope string_scope.

(* every documented commit type is accepted, in the documented meaning; the member names too; default = full *)
Theorem documented_types_accepted :
  decode_commit_type (Some "FULL") = Some CFull /\ decode_commit_type (Some "LINKS_ONLY") = Some CLink /\
  decode_commit_type (Some "NONE") = Some CNone /\ decode_commit_type None = Some CFull /\
  decode_commit_type (Some "LINK_ONLY") = Some CLink /\ decode_commit_type (Some "NO_COMMIT") = Some CNone /\
  decode_commit_type (Some "EVERYTHING") = None.
Proof. vm_compute. repeat split; reflexivity. Qed.

(* legacy references decode with the codec of the same kind (regenerated table) *)
Theorem legacy_aliases_kind_preserving : legacy_kind_preserving = true.
Proof. vm_compute. reflexivity. Qed.

Lemma beqb_refl : forall a, bytes_eqb a a = true.
Proof. intros a. unfold bytes_eqb. destruct (list_eq_dec ascii_dec a a); [reflexivity | congruence]. Qed.
Lemma beqb_true : forall a b, bytes_eqb a b = true -> a = b.
Proof. intros a b Hab. unfold bytes_eqb in Hab. destruct (list_eq_dec ascii_dec a b); [assumption | discriminate]. Qed.
Lemma alookup_aupdate_same : forall (A : Type) k (v : A) l, alookup k (aupdate k v l) = Some v.
Proof.
  intros A k v l. induction l as [|[k' v'] t IH]; cbn [aupdate alookup].
  - rewrite beqb_refl. reflexivity.
  - destruct (bytes_eqb k k') eqn:E; cbn [alookup]; [rewrite beqb_refl; reflexivity | rewrite E; exact IH].
Qed.
Lemma alookup_aupdate_other : forall (A : Type) k k2 (v : A) l, k2 <> k -> alookup k2 (aupdate k v l) = alookup k2 l.
Proof.
  intros A k k2 v l Hne. induction l as [|[k' v'] t IH]; cbn [aupdate alookup].
  - destruct (bytes_eqb k2 k) eqn:E; [apply beqb_true in E; congruence | reflexivity].
  - destruct (bytes_eqb k k') eqn:E; cbn [alookup].
    + apply beqb_true in E. subst k'. destruct (bytes_eqb k2 k) eqn:E2; [apply beqb_true in E2; congruence | reflexivity].
    + destruct (bytes_eqb k2 k'); [reflexivity | exact IH].
Qed.

(* 'none' writes nothing *)
Theorem commit_none : forall i d fs item, sync_one (DStore i d CNone) fs item = fs.
Proof. intros i d fs [segs key]. reflexivity. Qed.

(* after a 'full' or 'links only' commit the redirect record of the path names the committed key: load works *)
Theorem commit_writes_record : forall i d ct fs segs key,
  ct <> CNone -> fetch_record (DStore i d ct) (sync_one (DStore i d ct) fs (segs, key)) segs = Some (record_of key).
Proof.
  intros i d ct fs segs key Hct. unfold fetch_record, sync_one. cbn [d_ct].
  destruct ct; [| |congruence];
  (destruct (alookup (redir_uri _ segs) fs) as [r|] eqn:E;
   [destruct (bytes_eqb r (record_of key)) eqn:Er; [apply beqb_true in Er; subst r; exact E | apply alookup_aupdate_same]
   | apply alookup_aupdate_same]).
Qed.

(* 'full' also leaves a byte-identical copy of the blob at the path, 'links only' never touches it *)
Theorem commit_full_copies : forall i d fs segs key c,
  alookup (blob_uri (DStore i d CFull) key) fs = Some c ->
  alookup (redir_uri (DStore i d CFull) segs) fs = None ->
  obj_uri (DStore i d CFull) segs <> redir_uri (DStore i d CFull) segs ->
  alookup (obj_uri (DStore i d CFull) segs) (sync_one (DStore i d CFull) fs (segs, key)) = Some c.
Proof.
  intros i d fs segs key c Hb Hr Hne. unfold sync_one. cbn [d_ct]. rewrite Hr, Hb.
  rewrite alookup_aupdate_other by exact Hne. apply alookup_aupdate_same.
Qed.

Theorem commit_links_no_copy : forall i d fs segs key u,
  u <> redir_uri (DStore i d CLink) segs ->
  alookup u (sync_one (DStore i d CLink) fs (segs, key)) = alookup u fs.
Proof.
  intros i d fs segs key u Hne. unfold sync_one. cbn [d_ct].
  destruct (alookup (redir_uri _ segs) fs) as [r|] eqn:E.
  - destruct (bytes_eqb r (record_of key)); [reflexivity | apply alookup_aupdate_other; exact Hne].
  - apply alookup_aupdate_other; exact Hne.
Qed.
