(* Proofs about histories of the DBFS store (C19b): blob writes and multi-path sync_paths calls. *)
From Coq Require Import List Ascii String Bool Arith.
From DDS Require Import Base.Bytes L4_Eval.Store L5_Stores.Dbfs L5_Stores.DbfsProofs L5_Stores.DbfsHist.
Import ListNotations.
Local Open Scope string_scope.
Local Open Scope list_scope.

Lemma bytes_dec : forall a b : bytes, {a = b} + {a <> b}.
Proof. exact (list_eq_dec ascii_dec). Qed.

(* ---- separation of the three kinds of uri ---- *)

Lemma is_prefix_app : forall (a b x y : bytes), a ++ x = b ++ y -> is_prefix a b = true \/ is_prefix b a = true.
Proof.
  induction a as [|c a IH]; intros b x y H.
  - left. reflexivity.
  - destruct b as [|d b].
    + right. reflexivity.
    + cbn [app] in H. injection H as Hc Ht. subst d. cbn [is_prefix]. rewrite Ascii.eqb_refl. cbn [andb].
      exact (IH b x y Ht).
Qed.

Lemma blob_uri_split : forall s k, blob_uri s k = (d_internal s ++ slashb) ++ (bs "blobs/" ++ k).
Proof. intros s k. unfold blob_uri. rewrite <- app_assoc. reflexivity. Qed.
Lemma obj_uri_split : forall s p, obj_uri s p = (d_data s ++ slashb) ++ join slashb p.
Proof. intros s p. unfold obj_uri. rewrite <- app_assoc. reflexivity. Qed.
Lemma redir_uri_split : forall s p, redir_uri s p = (d_data s ++ slashb) ++ (bs "_dds_meta/" ++ join slashb p).
Proof. intros s p. unfold redir_uri. rewrite <- app_assoc. reflexivity. Qed.

Lemma apart_ne : forall s x y, dirs_apart s = true -> (d_internal s ++ slashb) ++ x <> (d_data s ++ slashb) ++ y.
Proof.
  intros s x y Hap H. unfold dirs_apart in Hap. apply andb_prop in Hap. destruct Hap as [H1 H2].
  apply negb_true_iff in H1. apply negb_true_iff in H2.
  apply is_prefix_app in H. destruct H as [H | H]; congruence.
Qed.

Lemma blob_ne_obj : forall s k p, dirs_apart s = true -> blob_uri s k <> obj_uri s p.
Proof. intros s k p Hap. rewrite blob_uri_split, obj_uri_split. apply apart_ne. exact Hap. Qed.
Lemma blob_ne_redir : forall s k p, dirs_apart s = true -> blob_uri s k <> redir_uri s p.
Proof. intros s k p Hap. rewrite blob_uri_split, redir_uri_split. apply apart_ne. exact Hap. Qed.

Lemma slash_free_app_slash : forall a x, slash_free (a ++ "/"%char :: x) = false.
Proof.
  intros a x. unfold slash_free. rewrite forallb_app.
  replace (forallb (fun c : ascii => negb (Ascii.eqb c "/"%char)) ("/"%char :: x)) with false by reflexivity.
  apply andb_false_r.
Qed.

Lemma slash_free_tail : forall c a, slash_free (c :: a) = true -> slash_free a = true.
Proof. intros c a H. unfold slash_free in *. cbn [forallb] in H. apply andb_prop in H. apply H. Qed.
Lemma slash_free_head : forall a, slash_free ("/"%char :: a) = false.
Proof. intros a. reflexivity. Qed.

Lemma slash_free_split : forall a b x y, slash_free a = true -> slash_free b = true ->
  a ++ "/"%char :: x = b ++ "/"%char :: y -> a = b.
Proof.
  induction a as [|c a IH]; intros b x y Ha Hb H.
  - destruct b as [|d b]; [reflexivity|]. cbn [app] in H. injection H as Hd _. subst d.
    rewrite slash_free_head in Hb. discriminate.
  - destruct b as [|d b].
    + cbn [app] in H. injection H as Hc _. subst c. rewrite slash_free_head in Ha. discriminate.
    + cbn [app] in H. injection H as Hc Ht. subst d. f_equal.
      apply (IH b x y); [exact (slash_free_tail _ _ Ha) | exact (slash_free_tail _ _ Hb) | exact Ht].
Qed.

Lemma join_cons : forall h r,
  join slashb (h :: r) = match r with [] => h | _ :: _ => h ++ "/"%char :: join slashb r end.
Proof. intros h [|x r]; reflexivity. Qed.

(* the copy of a well-formed path is never the record of any path: its first segment is not the reserved directory *)
Lemma obj_ne_redir : forall s p q, wf_path p = true -> obj_uri s p <> redir_uri s q.
Proof.
  intros s p q Hp H. unfold obj_uri, redir_uri in H. apply app_inv_head in H.
  change (slashb ++ join slashb p) with ("/"%char :: join slashb p) in H.
  change (bs "/_dds_meta/" ++ join slashb q) with ("/"%char :: (reserved ++ "/"%char :: join slashb q)) in H.
  injection H as H.
  destruct p as [|h r]; [discriminate|].
  cbn [wf_path] in Hp. apply andb_prop in Hp. destruct Hp as [Hall Hres].
  cbn [forallb] in Hall. apply andb_prop in Hall. destruct Hall as [Hh _].
  assert (Hsf : slash_free h = true). { destruct h as [|c h]; [discriminate | exact Hh]. }
  rewrite join_cons in H. destruct r as [|x r].
  - assert (H' : h = reserved ++ "/"%char :: join slashb q) by exact H.
    rewrite H' in Hsf. rewrite slash_free_app_slash in Hsf. discriminate.
  - assert (H' : h ++ "/"%char :: join slashb (x :: r) = reserved ++ "/"%char :: join slashb q) by exact H.
    apply slash_free_split in H'; [|exact Hsf|reflexivity]. subst h. rewrite beqb_refl in Hres. discriminate.
Qed.

Lemma redir_uri_key : forall s p q, seg_key p = seg_key q -> redir_uri s p = redir_uri s q.
Proof. intros s p q H. unfold redir_uri. unfold seg_key in H. rewrite H. reflexivity. Qed.
Lemma obj_uri_key : forall s p q, seg_key p = seg_key q -> obj_uri s p = obj_uri s q.
Proof. intros s p q H. unfold obj_uri. unfold seg_key in H. rewrite H. reflexivity. Qed.
Lemma redir_uri_inj : forall s p q, redir_uri s p = redir_uri s q -> seg_key p = seg_key q.
Proof. intros s p q H. unfold redir_uri in H. apply app_inv_head in H. apply app_inv_head in H. exact H. Qed.
Lemma obj_uri_inj : forall s p q, obj_uri s p = obj_uri s q -> seg_key p = seg_key q.
Proof. intros s p q H. unfold obj_uri in H. apply app_inv_head in H. apply app_inv_head in H. exact H. Qed.

Lemma record_of_inj : forall k1 k2, record_of k1 = record_of k2 -> k1 = k2.
Proof. intros k1 k2 H. unfold record_of in H. apply app_inv_head in H. apply app_inv_tail in H. exact H. Qed.

(* ---- one item of sync_paths ---- *)

Lemma sync_one_record : forall s fs segs key, d_ct s <> CNone ->
  alookup (redir_uri s segs) (sync_one s fs (segs, key)) = Some (record_of key).
Proof.
  intros [i d ct] fs segs key Hct. cbn [d_ct] in Hct. exact (commit_writes_record i d ct fs segs key Hct).
Qed.

Lemma sync_one_other : forall s fs segs key u,
  u <> redir_uri s segs -> (d_ct s = CFull -> u <> obj_uri s segs) ->
  alookup u (sync_one s fs (segs, key)) = alookup u fs.
Proof.
  intros s fs segs key u Hr Ho. unfold sync_one.
  destruct (d_ct s) eqn:Hct; [| |reflexivity].
  - specialize (Ho eq_refl).
    destruct (alookup (redir_uri s segs) fs) as [r|] eqn:Er.
    + destruct (bytes_eqb r (record_of key)); [reflexivity|].
      rewrite alookup_aupdate_other by exact Hr.
      destruct (alookup (blob_uri s key) fs) as [c|]; [|reflexivity].
      apply alookup_aupdate_other. exact Ho.
    + rewrite alookup_aupdate_other by exact Hr.
      destruct (alookup (blob_uri s key) fs) as [c|]; [|reflexivity].
      apply alookup_aupdate_other. exact Ho.
  - destruct (alookup (redir_uri s segs) fs) as [r|] eqn:Er.
    + destruct (bytes_eqb r (record_of key)); [reflexivity|].
      apply alookup_aupdate_other. exact Hr.
    + apply alookup_aupdate_other. exact Hr.
Qed.

Lemma sync_one_full_cases : forall s fs segs key, d_ct s = CFull -> sync_one_ok s fs (segs, key) = true ->
  (sync_one s fs (segs, key) = fs /\ alookup (redir_uri s segs) fs = Some (record_of key)) \/
  (exists c, alookup (blob_uri s key) fs = Some c /\
             sync_one s fs (segs, key) = aupdate (redir_uri s segs) (record_of key) (aupdate (obj_uri s segs) c fs)).
Proof.
  intros s fs segs key Hct Hok. unfold sync_one_ok in Hok. unfold sync_one. rewrite Hct in *.
  destruct (alookup (redir_uri s segs) fs) as [r|] eqn:Er.
  - destruct (bytes_eqb r (record_of key)) eqn:Eb.
    + left. apply beqb_true in Eb. subst r. split; reflexivity.
    + right. destruct (alookup (blob_uri s key) fs) as [c|]; [|discriminate]. exists c. split; reflexivity.
  - right. destruct (alookup (blob_uri s key) fs) as [c|]; [|discriminate]. exists c. split; reflexivity.
Qed.

(* ---- what a history writes (no side condition) ---- *)

Definition written (s : dstore) (u c : bytes) : Prop :=
  (exists k, u = blob_uri s k) \/
  (d_ct s <> CNone /\ exists p k, u = redir_uri s p /\ c = record_of k) \/
  (d_ct s = CFull /\ exists p, u = obj_uri s p).

Lemma sync_one_entries : forall s fs segs key u c,
  alookup u (sync_one s fs (segs, key)) = Some c -> alookup u fs = Some c \/ written s u c.
Proof.
  intros s fs segs key u c H.
  destruct (bytes_dec u (redir_uri s segs)) as [Er | Er].
  - destruct (d_ct s) eqn:Hct.
    + right. right. left. subst u. rewrite sync_one_record in H by congruence.
      split; [congruence|]. exists segs, key. split; congruence.
    + right. right. left. subst u. rewrite sync_one_record in H by congruence.
      split; [congruence|]. exists segs, key. split; congruence.
    + left. unfold sync_one in H. rewrite Hct in H. exact H.
  - destruct (d_ct s) eqn:Hct.
    + destruct (bytes_dec u (obj_uri s segs)) as [Eo | Eo].
      * right. right. right. split; [exact Hct|]. exists segs. exact Eo.
      * left. rewrite sync_one_other in H; [exact H | exact Er | intros _; exact Eo].
    + left. rewrite sync_one_other in H; [exact H | exact Er | intros Hc; congruence].
    + left. rewrite sync_one_other in H; [exact H | exact Er | intros Hc; congruence].
Qed.

Lemma sync_paths_entries : forall s items fs fs' b u c,
  sync_paths s fs items = (fs', b) -> alookup u fs' = Some c -> alookup u fs = Some c \/ written s u c.
Proof.
  intros s items. induction items as [|[segs key] r IH]; intros fs fs' b u c Hsp Hu.
  - cbn [sync_paths] in Hsp. injection Hsp as Hfs _. subst fs'. left. exact Hu.
  - cbn [sync_paths] in Hsp. destruct (sync_one_ok s fs (segs, key)).
    + destruct (IH _ _ _ _ _ Hsp Hu) as [H1 | H1]; [|right; exact H1].
      exact (sync_one_entries _ _ _ _ _ _ H1).
    + injection Hsp as Hfs _. subst fs'. left. exact Hu.
Qed.

Lemma drun_entries : forall s ops fs fs' oks u c,
  drun s fs ops = (fs', oks) -> alookup u fs' = Some c -> alookup u fs = Some c \/ written s u c.
Proof.
  intros s ops. induction ops as [|o r IH]; intros fs fs' oks u c Hrun Hu.
  - cbn [drun] in Hrun. injection Hrun as Hfs _. subst fs'. left. exact Hu.
  - cbn [drun] in Hrun. destruct (dstep s fs o) as [fs1 ok] eqn:Est.
    destruct (drun s fs1 r) as [fs2 oks'] eqn:Er. injection Hrun as Hfs _. subst fs2.
    destruct (IH _ _ _ _ _ Er Hu) as [H1 | H1]; [|right; exact H1].
    destruct o as [k0 c0 | items]; cbn [dstep] in Est.
    + injection Est as Hfs1 _. subst fs1.
      destruct (bytes_dec u (blob_uri s k0)) as [Eu | Eu].
      * right. left. exists k0. exact Eu.
      * left. rewrite alookup_aupdate_other in H1 by exact Eu. exact H1.
    + exact (sync_paths_entries _ _ _ _ _ _ _ Est H1).
Qed.

Theorem links_only_writes_only_records : forall s ops fs oks,
  d_ct s = CLink -> drun s [] ops = (fs, oks) ->
  forall u c, alookup u fs = Some c ->
    (exists k, u = blob_uri s k) \/ (exists p k, u = redir_uri s p /\ c = record_of k).
Proof.
  intros s ops fs oks Hct Hrun u c Hu.
  destruct (drun_entries _ _ _ _ _ _ _ Hrun Hu) as [H | [H | [[_ H] | [H _]]]].
  - discriminate.
  - left. exact H.
  - right. exact H.
  - congruence.
Qed.

Theorem none_writes_only_blobs : forall s ops fs oks,
  d_ct s = CNone -> drun s [] ops = (fs, oks) ->
  forall u c, alookup u fs = Some c -> exists k, u = blob_uri s k.
Proof.
  intros s ops fs oks Hct Hrun u c Hu.
  destruct (drun_entries _ _ _ _ _ _ _ Hrun Hu) as [H | [H | [[H _] | [H _]]]].
  - discriminate.
  - exact H.
  - congruence.
  - congruence.
Qed.

Theorem full_writes_only_records_and_copies : forall s ops fs oks,
  d_ct s = CFull -> drun s [] ops = (fs, oks) ->
  forall u c, alookup u fs = Some c ->
    (exists k, u = blob_uri s k) \/ (exists p k, u = redir_uri s p /\ c = record_of k) \/ (exists p, u = obj_uri s p).
Proof.
  intros s ops fs oks Hct Hrun u c Hu.
  destruct (drun_entries _ _ _ _ _ _ _ Hrun Hu) as [H | [H | [[_ H] | [_ H]]]].
  - discriminate.
  - left. exact H.
  - right. left. exact H.
  - right. right. exact H.
Qed.

(* ---- admissible histories complete ---- *)

Lemma hist_completes : forall s ops fs fs' oks,
  hist_ok s fs ops = true -> drun s fs ops = (fs', oks) -> forallb (fun b : bool => b) oks = true.
Proof.
  intros s ops. induction ops as [|o r IH]; intros fs fs' oks Hh Hrun.
  - cbn [drun] in Hrun. injection Hrun as _ Hoks. subst oks. reflexivity.
  - cbn [drun] in Hrun. destruct (dstep s fs o) as [fs1 ok] eqn:Est.
    destruct (drun s fs1 r) as [fs2 oks'] eqn:Er. injection Hrun as _ Hoks. subst oks.
    cbn [hist_ok] in Hh. rewrite Est in Hh. cbn [fst] in Hh. apply andb_prop in Hh. destruct Hh as [Hop Hrest].
    cbn [forallb]. rewrite (IH _ _ _ Hrest Er). rewrite andb_true_r.
    destruct o as [k0 c0 | items]; cbn [dstep] in Est.
    + injection Est as _ Hok. subst ok. reflexivity.
    + cbn [op_ok] in Hop. rewrite Est in Hop. cbn [snd] in Hop. apply andb_prop in Hop. apply Hop.
Qed.

Theorem admissible_history_completes : forall s ops fs oks,
  hist_ok s [] ops = true -> drun s [] ops = (fs, oks) -> forallb (fun b : bool => b) oks = true.
Proof. intros s ops fs oks Hh Hrun. exact (hist_completes _ _ _ _ _ Hh Hrun). Qed.

(* ---- blobs are never touched by commits ---- *)

Lemma sync_paths_keeps_blob : forall s items fs fs' b k,
  dirs_apart s = true -> sync_paths s fs items = (fs', b) -> alookup (blob_uri s k) fs' = alookup (blob_uri s k) fs.
Proof.
  intros s items. induction items as [|[segs key] r IH]; intros fs fs' b k Hap Hsp.
  - cbn [sync_paths] in Hsp. injection Hsp as Hfs _. subst fs'. reflexivity.
  - cbn [sync_paths] in Hsp. destruct (sync_one_ok s fs (segs, key)).
    + rewrite (IH _ _ _ k Hap Hsp). apply sync_one_other.
      * apply blob_ne_redir. exact Hap.
      * intros _. apply blob_ne_obj. exact Hap.
    + injection Hsp as Hfs _. subst fs'. reflexivity.
Qed.

Lemma blob_rewrite_same : forall s fs k0 c0 u,
  op_ok s fs (DBlob k0 c0) = true -> forall c, alookup u fs = Some c -> alookup u (aupdate (blob_uri s k0) c0 fs) = Some c.
Proof.
  intros s fs k0 c0 u Hop c Hu. cbn [op_ok] in Hop.
  destruct (bytes_dec u (blob_uri s k0)) as [Eu | Eu].
  - subst u. rewrite Hu in Hop. apply beqb_true in Hop. subst c0. apply alookup_aupdate_same.
  - rewrite alookup_aupdate_other by exact Eu. exact Hu.
Qed.

Lemma hist_keeps_blob : forall s ops fs fs' oks k c,
  dirs_apart s = true -> hist_ok s fs ops = true -> drun s fs ops = (fs', oks) ->
  alookup (blob_uri s k) fs = Some c -> alookup (blob_uri s k) fs' = Some c.
Proof.
  intros s ops. induction ops as [|o r IH]; intros fs fs' oks k c Hap Hh Hrun Hb.
  - cbn [drun] in Hrun. injection Hrun as Hfs _. subst fs'. exact Hb.
  - cbn [drun] in Hrun. destruct (dstep s fs o) as [fs1 ok] eqn:Est.
    destruct (drun s fs1 r) as [fs2 oks'] eqn:Er. injection Hrun as Hfs _. subst fs2.
    cbn [hist_ok] in Hh. rewrite Est in Hh. cbn [fst] in Hh. apply andb_prop in Hh. destruct Hh as [Hop Hrest].
    apply (IH _ _ _ k c Hap Hrest Er).
    destruct o as [k0 c0 | items]; cbn [dstep] in Est.
    + injection Est as Hfs1 _. subst fs1. apply (blob_rewrite_same _ _ _ _ _ Hop). exact Hb.
    + rewrite (sync_paths_keeps_blob _ _ _ _ _ k Hap Est). exact Hb.
Qed.

Lemma hist_blob_in : forall s ops fs fs' oks k c,
  dirs_apart s = true -> hist_ok s fs ops = true -> drun s fs ops = (fs', oks) ->
  In (DBlob k c) ops -> alookup (blob_uri s k) fs' = Some c.
Proof.
  intros s ops. induction ops as [|o r IH]; intros fs fs' oks k c Hap Hh Hrun Hin.
  - destruct Hin.
  - cbn [drun] in Hrun. destruct (dstep s fs o) as [fs1 ok] eqn:Est.
    destruct (drun s fs1 r) as [fs2 oks'] eqn:Er. injection Hrun as Hfs _. subst fs2.
    cbn [hist_ok] in Hh. rewrite Est in Hh. cbn [fst] in Hh. apply andb_prop in Hh. destruct Hh as [Hop Hrest].
    destruct Hin as [Ho | Hin].
    + subst o. cbn [dstep] in Est. injection Est as Hfs1 _. subst fs1.
      apply (hist_keeps_blob _ _ _ _ _ k c Hap Hrest Er). apply alookup_aupdate_same.
    + exact (IH _ _ _ k c Hap Hrest Er Hin).
Qed.

Theorem commits_never_touch_blobs : forall s ops fs oks,
  dirs_apart s = true -> hist_ok s [] ops = true -> drun s [] ops = (fs, oks) ->
  forall k c, In (DBlob k c) ops -> alookup (blob_uri s k) fs = Some c.
Proof. intros s ops fs oks Hap Hh Hrun k c Hin. exact (hist_blob_in _ _ _ _ _ k c Hap Hh Hrun Hin). Qed.

(* ---- the store refines the path dictionary ---- *)

Definition Ref (s : dstore) (fs : rfs) (m : list (bytes * bytes)) : Prop :=
  forall p, wf_path p = true -> fetch_record s fs p = option_map record_of (alookup (seg_key p) m).

Lemma sync_one_ref : forall s fs m segs key,
  d_ct s <> CNone -> wf_path segs = true -> Ref s fs m ->
  Ref s (sync_one s fs (segs, key)) (aupdate (seg_key segs) key m).
Proof.
  intros s fs m segs key Hct Hwf HR p Hp. unfold fetch_record.
  destruct (bytes_dec (seg_key p) (seg_key segs)) as [E | E].
  - rewrite (redir_uri_key s p segs E). rewrite E. rewrite alookup_aupdate_same. cbn [option_map].
    apply sync_one_record. exact Hct.
  - rewrite alookup_aupdate_other by exact E. rewrite sync_one_other.
    + exact (HR p Hp).
    + intros H. apply redir_uri_inj in H. exact (E H).
    + intros _ H. symmetry in H. exact (obj_ne_redir s segs p Hwf H).
Qed.

Lemma abs_sync_cons : forall m it r, abs_sync m (it :: r) = abs_sync (aupdate (seg_key (fst it)) (snd it) m) r.
Proof. intros m it r. reflexivity. Qed.

Lemma sync_paths_ref : forall s items fs m fs',
  d_ct s <> CNone -> forallb wf_path (map fst items) = true -> Ref s fs m ->
  sync_paths s fs items = (fs', true) -> Ref s fs' (abs_sync m items).
Proof.
  intros s items. induction items as [|[segs key] r IH]; intros fs m fs' Hct Hwf HR Hsp.
  - cbn [sync_paths] in Hsp. injection Hsp as Hfs. subst fs'. exact HR.
  - cbn [sync_paths] in Hsp. cbn [map fst forallb] in Hwf. apply andb_prop in Hwf. destruct Hwf as [Hw1 Hw2].
    destruct (sync_one_ok s fs (segs, key)); [|discriminate].
    rewrite abs_sync_cons. cbn [fst snd].
    apply (IH _ _ _ Hct Hw2 (sync_one_ref _ _ _ _ key Hct Hw1 HR) Hsp).
Qed.

Lemma op_ok_sync : forall s fs items fs' b,
  op_ok s fs (DSync items) = true -> sync_paths s fs items = (fs', b) ->
  forallb wf_path (map fst items) = true /\ b = true.
Proof.
  intros s fs items fs' b Hop Hsp. cbn [op_ok] in Hop. rewrite Hsp in Hop. cbn [snd] in Hop.
  apply andb_prop in Hop. destruct Hop as [Hop Hb]. apply andb_prop in Hop. destruct Hop as [Hwf _].
  split; assumption.
Qed.

Lemma blob_ref : forall s fs m k0 c0, dirs_apart s = true -> Ref s fs m -> Ref s (aupdate (blob_uri s k0) c0 fs) m.
Proof.
  intros s fs m k0 c0 Hap HR p Hp. unfold fetch_record. rewrite alookup_aupdate_other.
  - exact (HR p Hp).
  - intros H. symmetry in H. exact (blob_ne_redir s k0 p Hap H).
Qed.

Lemma hist_ref : forall s ops fs m fs' oks,
  d_ct s <> CNone -> dirs_apart s = true -> Ref s fs m ->
  hist_ok s fs ops = true -> drun s fs ops = (fs', oks) -> Ref s fs' (abs_run m ops).
Proof.
  intros s ops. induction ops as [|o r IH]; intros fs m fs' oks Hct Hap HR Hh Hrun.
  - cbn [drun] in Hrun. injection Hrun as Hfs _. subst fs'. exact HR.
  - cbn [drun] in Hrun. destruct (dstep s fs o) as [fs1 ok] eqn:Est.
    destruct (drun s fs1 r) as [fs2 oks'] eqn:Er. injection Hrun as Hfs _. subst fs2.
    cbn [hist_ok] in Hh. rewrite Est in Hh. cbn [fst] in Hh. apply andb_prop in Hh. destruct Hh as [Hop Hrest].
    destruct o as [k0 c0 | items]; cbn [dstep] in Est; cbn [abs_run].
    + injection Est as Hfs1 _. subst fs1.
      apply (IH _ _ _ _ Hct Hap (blob_ref _ _ _ k0 c0 Hap HR) Hrest Er).
    + destruct (op_ok_sync _ _ _ _ _ Hop Est) as [Hwf Hb]. subst ok.
      apply (IH _ _ _ _ Hct Hap (sync_paths_ref _ _ _ _ _ Hct Hwf HR Est) Hrest Er).
Qed.

Lemma ref_empty : forall s, Ref s [] [].
Proof. intros s p Hp. reflexivity. Qed.

Theorem sync_refines_dictionary : forall s ops fs oks,
  d_ct s <> CNone -> dirs_apart s = true -> hist_ok s [] ops = true -> drun s [] ops = (fs, oks) ->
  forall p, wf_path p = true ->
    fetch_record s fs p = option_map record_of (alookup (seg_key p) (abs_run [] ops)).
Proof. intros s ops fs oks Hct Hap Hh Hrun. exact (hist_ref _ _ _ _ _ _ Hct Hap (ref_empty s) Hh Hrun). Qed.

(* ---- 'full' keeps a byte-identical copy beside every record ---- *)

Definition Cop (s : dstore) (fs : rfs) (m : list (bytes * bytes)) : Prop :=
  forall p k, wf_path p = true -> alookup (seg_key p) m = Some k ->
    exists c, alookup (blob_uri s k) fs = Some c /\ alookup (obj_uri s p) fs = Some c.

Lemma sync_one_cop : forall s fs m segs key,
  d_ct s = CFull -> dirs_apart s = true -> wf_path segs = true -> sync_one_ok s fs (segs, key) = true ->
  Ref s fs m -> Cop s fs m ->
  Cop s (sync_one s fs (segs, key)) (aupdate (seg_key segs) key m).
Proof.
  intros s fs m segs key Hct Hap Hwf Hok HR HC p k Hp Hk.
  destruct (sync_one_full_cases _ _ _ _ Hct Hok) as [[Hfs Hrec] | [c [Hblob Hfs]]]; rewrite Hfs.
  - destruct (bytes_dec (seg_key p) (seg_key segs)) as [E | E].
    + rewrite E in Hk. rewrite alookup_aupdate_same in Hk. injection Hk as Hk. subst k.
      specialize (HR p Hp). unfold fetch_record in HR. rewrite (redir_uri_key s p segs E) in HR.
      rewrite Hrec in HR. destruct (alookup (seg_key p) m) as [k0|] eqn:Em; cbn [option_map] in HR; [|discriminate].
      assert (Hk0 : key = k0) by (apply record_of_inj; congruence). subst k0. exact (HC p key Hp Em).
    + rewrite alookup_aupdate_other in Hk by exact E. exact (HC p k Hp Hk).
  - assert (Hbl : forall k', alookup (blob_uri s k')
                    (aupdate (redir_uri s segs) (record_of key) (aupdate (obj_uri s segs) c fs))
                  = alookup (blob_uri s k') fs).
    { intros k'. rewrite alookup_aupdate_other by (apply blob_ne_redir; exact Hap).
      apply alookup_aupdate_other. apply blob_ne_obj. exact Hap. }
    destruct (bytes_dec (seg_key p) (seg_key segs)) as [E | E].
    + rewrite E in Hk. rewrite alookup_aupdate_same in Hk. injection Hk as Hk. subst k.
      exists c. split.
      * rewrite Hbl. exact Hblob.
      * rewrite (obj_uri_key s p segs E).
        rewrite alookup_aupdate_other by (apply obj_ne_redir; exact Hwf). apply alookup_aupdate_same.
    + rewrite alookup_aupdate_other in Hk by exact E.
      destruct (HC p k Hp Hk) as [c' [Hb' Ho']]. exists c'. split.
      * rewrite Hbl. exact Hb'.
      * rewrite alookup_aupdate_other by (apply obj_ne_redir; exact Hp).
        rewrite alookup_aupdate_other; [exact Ho'|].
        intros H. apply obj_uri_inj in H. exact (E H).
Qed.

Lemma sync_paths_cop : forall s items fs m fs',
  d_ct s = CFull -> dirs_apart s = true -> forallb wf_path (map fst items) = true -> Ref s fs m -> Cop s fs m ->
  sync_paths s fs items = (fs', true) -> Cop s fs' (abs_sync m items).
Proof.
  intros s items. induction items as [|[segs key] r IH]; intros fs m fs' Hct Hap Hwf HR HC Hsp.
  - cbn [sync_paths] in Hsp. injection Hsp as Hfs. subst fs'. exact HC.
  - cbn [sync_paths] in Hsp. cbn [map fst forallb] in Hwf. apply andb_prop in Hwf. destruct Hwf as [Hw1 Hw2].
    destruct (sync_one_ok s fs (segs, key)) eqn:Hok; [|discriminate].
    rewrite abs_sync_cons. cbn [fst snd].
    assert (Hne : d_ct s <> CNone) by congruence.
    apply (IH _ _ _ Hct Hap Hw2 (sync_one_ref _ _ _ _ key Hne Hw1 HR)
              (sync_one_cop _ _ _ _ _ Hct Hap Hw1 Hok HR HC) Hsp).
Qed.

Lemma blob_cop : forall s fs m k0 c0,
  dirs_apart s = true -> op_ok s fs (DBlob k0 c0) = true -> Cop s fs m -> Cop s (aupdate (blob_uri s k0) c0 fs) m.
Proof.
  intros s fs m k0 c0 Hap Hop HC p k Hp Hk. destruct (HC p k Hp Hk) as [c [Hb Ho]]. exists c. split.
  - exact (blob_rewrite_same _ _ _ _ _ Hop c Hb).
  - exact (blob_rewrite_same _ _ _ _ _ Hop c Ho).
Qed.

Lemma hist_cop : forall s ops fs m fs' oks,
  d_ct s = CFull -> dirs_apart s = true -> Ref s fs m -> Cop s fs m ->
  hist_ok s fs ops = true -> drun s fs ops = (fs', oks) -> Cop s fs' (abs_run m ops).
Proof.
  intros s ops. induction ops as [|o r IH]; intros fs m fs' oks Hct Hap HR HC Hh Hrun.
  - cbn [drun] in Hrun. injection Hrun as Hfs _. subst fs'. exact HC.
  - cbn [drun] in Hrun. destruct (dstep s fs o) as [fs1 ok] eqn:Est.
    destruct (drun s fs1 r) as [fs2 oks'] eqn:Er. injection Hrun as Hfs _. subst fs2.
    cbn [hist_ok] in Hh. rewrite Est in Hh. cbn [fst] in Hh. apply andb_prop in Hh. destruct Hh as [Hop Hrest].
    assert (Hne : d_ct s <> CNone) by congruence.
    destruct o as [k0 c0 | items]; cbn [dstep] in Est; cbn [abs_run].
    + injection Est as Hfs1 _. subst fs1.
      apply (IH _ _ _ _ Hct Hap (blob_ref _ _ _ k0 c0 Hap HR) (blob_cop _ _ _ _ _ Hap Hop HC) Hrest Er).
    + destruct (op_ok_sync _ _ _ _ _ Hop Est) as [Hwf Hb]. subst ok.
      apply (IH _ _ _ _ Hct Hap (sync_paths_ref _ _ _ _ _ Hne Hwf HR Est)
                (sync_paths_cop _ _ _ _ _ Hct Hap Hwf HR HC Est) Hrest Er).
Qed.

Lemma cop_empty : forall s, Cop s [] [].
Proof. intros s p k Hp Hk. discriminate. Qed.

Theorem full_keeps_identical_copies : forall s ops fs oks,
  d_ct s = CFull -> dirs_apart s = true -> hist_ok s [] ops = true -> drun s [] ops = (fs, oks) ->
  forall p k, wf_path p = true -> alookup (seg_key p) (abs_run [] ops) = Some k ->
    exists c, alookup (blob_uri s k) fs = Some c /\ alookup (obj_uri s p) fs = Some c.
Proof.
  intros s ops fs oks Hct Hap Hh Hrun.
  exact (hist_cop _ _ _ _ _ _ Hct Hap (ref_empty s) (cop_empty s) Hh Hrun).
Qed.

(* ---- non-vacuity and the two findings ---- *)

Theorem hypotheses_satisfiable :
  let s := DStore (bs "dbfs:/s/internal") (bs "dbfs:/s/data") CFull in
  dirs_apart s = true /\
  hist_ok s [] [DBlob (bs "k1") (bs "one"); DBlob (bs "k2") (bs "two");
                DSync [([bs "x"], bs "k1"); ([bs "d"; bs "y"], bs "k1")];
                DSync [([bs "x"], bs "k2"); ([bs "z"], bs "k1")]] = true.
Proof. vm_compute. split; reflexivity. Qed.

Theorem reserved_first_segment_refuted :
  exists s ops p k,
    d_ct s = CFull /\ dirs_apart s = true /\ forallb (fun b : bool => b) (snd (drun s [] ops)) = true /\
    wf_path p = true /\ alookup (seg_key p) (abs_run [] ops) = Some k /\
    fetch_record s (fst (drun s [] ops)) p <> Some (record_of k).
Proof.
  exists (DStore (bs "dbfs:/s/internal") (bs "dbfs:/s/data") CFull).
  exists [DBlob (bs "k1") (bs "one"); DBlob (bs "k2") (bs "two");
          DSync [([bs "x"], bs "k1")]; DSync [([bs "_dds_meta"; bs "x"], bs "k2")]].
  exists [bs "x"]. exists (bs "k1").
  split; [reflexivity|]. split; [vm_compute; reflexivity|]. split; [vm_compute; reflexivity|].
  split; [vm_compute; reflexivity|]. split; [vm_compute; reflexivity|].
  intros H. vm_compute in H. discriminate.
Qed.

Theorem links_then_full_leaves_no_copy_refuted :
  exists i d ops1 ops2 p k,
    let s1 := DStore i d CLink in let s2 := DStore i d CFull in
    let fs1 := fst (drun s1 [] ops1) in let fs2 := fst (drun s2 fs1 ops2) in
    dirs_apart s2 = true /\ hist_ok s1 [] ops1 = true /\ hist_ok s2 fs1 ops2 = true /\
    wf_path p = true /\ In (DSync [(p, k)]) ops2 /\ fetch_record s2 fs2 p = Some (record_of k) /\
    alookup (obj_uri s2 p) fs2 = None.
Proof.
  exists (bs "dbfs:/s/internal"). exists (bs "dbfs:/s/data").
  exists [DBlob (bs "k1") (bs "one"); DSync [([bs "x"], bs "k1")]].
  exists [DSync [([bs "x"], bs "k1")]].
  exists [bs "x"]. exists (bs "k1").
  cbv zeta.
  split; [vm_compute; reflexivity|]. split; [vm_compute; reflexivity|]. split; [vm_compute; reflexivity|].
  split; [vm_compute; reflexivity|]. split; [left; reflexivity|].
  split; [vm_compute; reflexivity|]. vm_compute. reflexivity.
Qed.
