(* Model of how a local-store configuration denotes directories (dds/store.py: LocalFileStore.__init__ makes both
   directories absolute once, with os.path.abspath = normpath(join(cwd, d))). *)
From Coq Require Import List Ascii String Bool Arith.
From DDS Require Import Base.Bytes Extracted.ConstStore Extracted.ConstConfig L5_Stores.PathMap.
Import ListNotations.

Definition is_abs (d : bytes) : bool := match d with c :: _ => Ascii.eqb c "/"%char | [] => false end.
(* components of a directory string: empty components (doubled or trailing slashes) vanish *)
Definition comps (d : bytes) : list bytes := segments d.
(* os.path.abspath: relative names are joined to the working directory; "." and ".." are resolved lexically *)
Definition abspath (cwd : list bytes) (d : bytes) : list bytes :=
  resolve ((if is_abs d then [] else cwd) ++ comps d).

(* the store object: both directories resolved at construction; nothing later depends on the working directory *)
Record lstore := LStore { ls_root : list bytes; ls_data : list bytes }.
Definition make_store (cwd : list bytes) (internal_dir data_dir : bytes) : lstore :=
  LStore (abspath cwd internal_dir) (abspath cwd data_dir).

Definition blob_name (s : lstore) (k : bytes) : list bytes := ls_root s ++ [bs "blobs"; k].
Definition link_name (s : lstore) (segs : list bytes) : list bytes := ls_data s ++ segs.

Fixpoint is_prefix_of (a b : list bytes) : bool :=
  match a, b with
  | [], _ => true
  | x :: r, y :: t => bytes_eqb x y && is_prefix_of r t
  | _ :: _, [] => false
  end.
