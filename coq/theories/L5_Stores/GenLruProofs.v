(* The definitions REGENERATED from dds/_lru_store.py by harness/translate_py.py (Extracted/GenLru.v) are the
   hand-written model of Lru.v.  This file is not regenerated: it keeps compiling as long as the translation of the
   current Python source is semantically the model, and breaks when the behaviour of the source changes.

   Two hypotheses appear, both about inputs on which the model is NOT the Python code (reported in DESIGN):
   - [NoDup (map fst c)]: the list stands for a dictionary.  On a list with a repeated key, Lru.cget answers the value
     found before the move, the code (D.move_to_end(k); return D[k]) the value found after it.
   - [has_pure inner]: has_blob of the wrapped store answers a boolean and leaves the store unchanged.  Lru.lru_step
     (fetch_blob, inner fetch answered None) drops the state reached by has_blob and reads a raised exception as False;
     the code keeps the state and propagates the exception. *)
From Coq Require Import List Ascii String Bool NArith ZArith Arith Lia.
From DDS Require Import Base.Bytes Base.PyRt L4_Eval.Store L5_Stores.Lru L5_Stores.LruProofs Extracted.GenLru.
Import ListNotations.

(* ------------------------------------------------------------------ *)
(* association lists with distinct keys                                *)
(* ------------------------------------------------------------------ *)

Lemma alookup_notin : forall (A : Type) k (l : list (bytes * A)), ~ In k (map fst l) -> alookup k l = None.
Proof.
  intros A k l. induction l as [|[k' v'] r IH]; simpl; intro N.
  - reflexivity.
  - destruct (bytes_eqb k k') eqn:E.
    + apply bytes_eqb_eq in E. exfalso. apply N. left. symmetry. exact E.
    + apply IH. intro H. apply N. right. exact H.
Qed.

Lemma alookup_app_none : forall (A : Type) k (l l' : list (bytes * A)),
  alookup k l = None -> alookup k (l ++ l') = alookup k l'.
Proof.
  intros A k l l'. induction l as [|[k' v'] r IH]; simpl; intro H.
  - reflexivity.
  - destruct (bytes_eqb k k'); [discriminate H | apply IH; exact H].
Qed.

Lemma keys_cremove_incl : forall k c x, In x (map fst (cremove k c)) -> In x (map fst c).
Proof.
  intros k c x. induction c as [|[k' v'] r IH]; simpl; intro H.
  - exact H.
  - destruct (bytes_eqb k k'); simpl in *.
    + right. exact H.
    + destruct H as [H|H]; [left; exact H | right; apply IH; exact H].
Qed.

Lemma nodup_cremove : forall k c, NoDup (map fst c) -> NoDup (map fst (cremove k c)).
Proof.
  intros k c. induction c as [|[k' v'] r IH]; simpl; intro ND.
  - exact ND.
  - inversion ND as [|x l Hnin Hnd]; subst. destruct (bytes_eqb k k'); simpl.
    + exact Hnd.
    + constructor.
      * intro H. apply Hnin. apply (keys_cremove_incl k r). exact H.
      * apply IH. exact Hnd.
Qed.

Lemma notin_cremove : forall k c, NoDup (map fst c) -> ~ In k (map fst (cremove k c)).
Proof.
  intros k c. induction c as [|[k' v'] r IH]; simpl; intro ND.
  - intro H. exact H.
  - inversion ND as [|x l Hnin Hnd]; subst. destruct (bytes_eqb k k') eqn:E; simpl.
    + apply bytes_eqb_eq in E. subst k'. exact Hnin.
    + intros [H|H].
      * apply bytes_eqb_neq in E. apply E. symmetry. exact H.
      * apply (IH Hnd). exact H.
Qed.

Lemma nodup_snoc : forall (A : Type) (l : list A) x, NoDup l -> ~ In x l -> NoDup (l ++ [x]).
Proof.
  intros A l x. induction l as [|y r IH]; simpl; intros ND N.
  - constructor; [intro H; exact H | constructor].
  - inversion ND as [|z l' Hnin Hnd]; subst. constructor.
    + intro H. apply in_app_or in H. destruct H as [H|[H|[]]].
      * apply Hnin. exact H.
      * apply N. left. symmetry. exact H.
    + apply IH; [exact Hnd | intro H; apply N; right; exact H].
Qed.

Lemma nodup_move : forall k v c, NoDup (map fst c) -> NoDup (map fst (cremove k c ++ [(k, v)])).
Proof.
  intros k v c ND. rewrite map_app. simpl. apply nodup_snoc.
  - apply nodup_cremove. exact ND.
  - apply notin_cremove. exact ND.
Qed.

Lemma nodup_evict : forall n (c : cache), NoDup (map fst c) -> NoDup (map fst (evict n c)).
Proof.
  intro n. induction n as [|m IH]; simpl; intros c ND.
  - exact ND.
  - apply IH. destruct c as [|x r]; simpl.
    + constructor.
    + inversion ND; assumption.
Qed.

Lemma nodup_cget : forall k c, NoDup (map fst c) -> NoDup (map fst (snd (cget k c))).
Proof.
  intros k c ND. unfold cget. destruct (alookup k c) as [v|]; simpl.
  - apply nodup_move. exact ND.
  - exact ND.
Qed.

Lemma nodup_cput : forall cap k v c, NoDup (map fst c) -> NoDup (map fst (cput cap k v c)).
Proof.
  intros cap k v c ND. unfold cput. destruct cap as [n|].
  - apply nodup_evict. apply nodup_move. exact ND.
  - apply nodup_move. exact ND.
Qed.

(* ------------------------------------------------------------------ *)
(* LRUCache.get                                                        *)
(* ------------------------------------------------------------------ *)

Theorem gen_cget_eq : forall k c, NoDup (map fst c) -> gen_cget k c = cget k c.
Proof.
  intros k c ND.
  unfold gen_cget, cget, od_contains, od_move_to_end, od_getitem.
  destruct (alookup k c) as [v|] eqn:L; cbn.
  - rewrite alookup_app_none by (apply alookup_notin; apply notin_cremove; exact ND).
    cbn. rewrite bytes_eqb_refl. reflexivity.
  - reflexivity.
Qed.

(* ------------------------------------------------------------------ *)
(* LRUCache.put                                                        *)
(* ------------------------------------------------------------------ *)

Lemma cremove_aupdate : forall k (v : blob) c, cremove k (aupdate k v c) = cremove k c.
Proof.
  intros k v c. induction c as [|[k' v'] r IH]; simpl.
  - rewrite bytes_eqb_refl. reflexivity.
  - destruct (bytes_eqb k k') eqn:E; simpl.
    + rewrite bytes_eqb_refl. reflexivity.
    + rewrite E. rewrite IH. reflexivity.
Qed.

(* D[k] = v; D.move_to_end(k) *)
Lemma set_then_move : forall k v c, od_move_to_end k (od_setitem k v c) = cremove k c ++ [(k, v)].
Proof.
  intros k v c. unfold od_move_to_end, od_setitem.
  rewrite alookup_aupdate_same. rewrite cremove_aupdate. reflexivity.
Qed.

(* while len(D) > n: D.popitem(last=False) *)
Lemma trim_eq : forall (test : cache -> bool) (body : cache -> cache) n,
  (forall c, test c = Nat.ltb n (List.length c)) -> (forall c, body c = tl c) ->
  forall fuel c, List.length c <= fuel -> while_fuel fuel test body c = evict (List.length c - n) c.
Proof.
  intros test body n Ht Hb fuel. induction fuel as [|f IH]; intros c Hl; simpl.
  - destruct c as [|x r]; simpl in *; [reflexivity | lia].
  - rewrite Ht. destruct (Nat.ltb n (List.length c)) eqn:E.
    + apply Nat.ltb_lt in E. destruct c as [|x r]; [simpl in E; lia|].
      change (List.length (x :: r)) with (S (List.length r)) in *.
      replace (S (List.length r) - n) with (S (List.length r - n)) by lia.
      rewrite Hb. change (tl (x :: r)) with r. rewrite IH by lia. reflexivity.
    + apply Nat.ltb_ge in E. replace (List.length c - n) with 0 by lia. reflexivity.
Qed.

Lemma no_trim : forall (test : cache -> bool) (body : cache -> cache),
  (forall c, test c = false) -> forall fuel c, while_fuel fuel test body c = c.
Proof.
  intros test body Ht fuel c. destruct fuel as [|f]; simpl; [reflexivity | rewrite Ht; reflexivity].
Qed.

Theorem gen_cput_eq : forall cap k v c, gen_cput cap k v c = cput cap k v c.
Proof.
  intros cap k v c. unfold gen_cput, cput. cbv zeta. rewrite set_then_move.
  destruct cap as [n|].
  - apply trim_eq; [intro; reflexivity | intro; reflexivity | lia].
  - apply no_trim. intro. reflexivity.
Qed.

(* ------------------------------------------------------------------ *)
(* LRUCacheStore                                                       *)
(* ------------------------------------------------------------------ *)

Definition has_pure {S : Type} (inner : S -> sop -> S * sout) : Prop :=
  forall s k, exists b, inner s (OHas k) = (s, RBool b).

Lemma spec_has_pure : has_pure spec_step.
Proof. intros s k. eexists. reflexivity. Qed.

Lemma run_ops_step : forall (St : Type) (step : St -> sop -> St * sout) s o r,
  run_ops step s (o :: r) = let '(s', out) := step s o in out :: run_ops step s' r.
Proof. reflexivity. Qed.

Section Wrapped.
  Variable S : Type.
  Variable inner : S -> sop -> S * sout.
  Variable cap : option nat.

  (* has_blob, store_blob, sync_paths, fetch_paths: no hypothesis on the wrapped store *)
  Theorem gen_lru_step_eq_nofetch : forall c s o, (forall k, o <> OFetch k) -> NoDup (map fst c) ->
    gen_lru_step S inner cap (c, s) o = lru_step S inner cap (c, s) o.
  Proof.
    intros c s o Hn ND. destruct o as [k|k|k v|ps|ps]; cbn [gen_lru_step].
    - unfold gen_has_blob. cbn. rewrite (gen_cget_eq k c ND).
      destruct (cget k c) as [[w|] c']; cbn; [reflexivity|].
      destruct (inner s (OHas k)) as [s' out]. destruct out; reflexivity.
    - exfalso. apply (Hn k). reflexivity.
    - unfold gen_store_blob. cbn. destruct (inner s (OPut k v)) as [s' out]. destruct out; reflexivity.
    - unfold gen_sync_paths. cbn. destruct (inner s (OSync ps)) as [s' out]. destruct out; reflexivity.
    - unfold gen_fetch_paths. cbn. destruct (inner s (OFetchPaths ps)) as [s' out]. destruct out; reflexivity.
  Qed.

  Hypothesis Hhas : has_pure inner.

  Theorem gen_lru_step_eq : forall c s o, NoDup (map fst c) ->
    gen_lru_step S inner cap (c, s) o = lru_step S inner cap (c, s) o.
  Proof.
    intros c s o ND. destruct o as [k|k|k v|ps|ps];
      try (apply gen_lru_step_eq_nofetch; [intros k' E; discriminate E | exact ND]).
    cbn [gen_lru_step]. unfold gen_fetch_blob. cbn. rewrite (gen_cget_eq k c ND).
    destruct (cget k c) as [[w|] c']; cbn; [reflexivity|].
    destruct (inner s (OFetch k)) as [s' out].
    destruct out as [b|[|b]| | |]; cbn; rewrite ?gen_cput_eq; try reflexivity.
    unfold inner_has. destruct (Hhas s' k) as [b Hb]. rewrite Hb. cbn.
    destruct b; cbn; rewrite ?gen_cput_eq; reflexivity.
  Qed.

  (* the cache stays a dictionary *)
  Lemma lru_step_nodup : forall c s o, NoDup (map fst c) ->
    NoDup (map fst (fst (fst (lru_step S inner cap (c, s) o)))).
  Proof.
    intros c s o ND. destruct o as [k|k|k v|ps|ps]; cbn.
    - pose proof (nodup_cget k c ND) as Hg. destruct (cget k c) as [[w|] c']; cbn in *; [exact Hg|].
      destruct (inner s (OHas k)) as [s' out]. exact Hg.
    - pose proof (nodup_cget k c ND) as Hg. destruct (cget k c) as [[w|] c']; cbn in *; [exact Hg|].
      destruct (inner s (OFetch k)) as [s' out].
      destruct out as [b|[|b]| | |]; cbn; try exact Hg.
      + destruct (inner_has S inner s' k); cbn; [apply nodup_cput; exact Hg | exact Hg].
      + apply nodup_cput. exact Hg.
    - destruct (inner s (OPut k v)) as [s' out]. exact ND.
    - destruct (inner s (OSync ps)) as [s' out]. exact ND.
    - destruct (inner s (OFetchPaths ps)) as [s' out]. exact ND.
  Qed.

  Theorem gen_lru_run_eq : forall ops c s, NoDup (map fst c) ->
    run_ops (gen_lru_step S inner cap) (c, s) ops = run_ops (lru_step S inner cap) (c, s) ops.
  Proof.
    intro ops. induction ops as [|o r IH]; intros c s ND.
    - reflexivity.
    - rewrite !run_ops_step. rewrite (gen_lru_step_eq c s o ND).
      pose proof (lru_step_nodup c s o ND) as Hn.
      destruct (lru_step S inner cap (c, s) o) as [[c' s'] out]. cbn in Hn. cbv beta iota.
      f_equal. apply IH. exact Hn.
  Qed.
End Wrapped.

(* the instance the property C12 talks about: the store specification, from the empty cache; no hypothesis is left *)
Theorem gen_lru_run_spec_eq : forall cap ops s,
  run_ops (gen_lru_step sstate spec_step cap) ([], s) ops = run_ops (lru_step sstate spec_step cap) ([], s) ops.
Proof.
  intros cap ops s. apply gen_lru_run_eq.
  - exact spec_has_pure.
  - constructor.
Qed.
