(* MemoryStore REGENERATED from dds/store.py by harness/translate_py.py (Extracted/GenMemStore.v) IS the dictionary
   specification of a store (L4_Eval/Store.v: spec_step), operation for operation.  Not regenerated. *)
From Coq Require Import List Ascii String Bool Arith Lia.
From DDS Require Import Base.Bytes Base.PyRt L4_Eval.Store Extracted.GenMemStore.
Import ListNotations.

Lemma mbeq_true : forall a b, bytes_eqb a b = true -> a = b.
Proof. intros a b H. unfold bytes_eqb in H. destruct (list_eq_dec ascii_dec a b); [assumption | discriminate]. Qed.

Lemma aupdate_absent : forall (A : Type) k (v : A) l, alookup k l = None -> aupdate k v l = l ++ [(k, v)].
Proof.
  intros A k v l. induction l as [|[k' v'] r IH]; cbn [alookup aupdate app]; intro H; [reflexivity|].
  destruct (bytes_eqb k k'); [discriminate|]. rewrite IH by exact H. reflexivity.
Qed.
Lemma aupdate_same : forall (A : Type) k (v : A) l, alookup k l = Some v -> aupdate k v l = l.
Proof.
  intros A k v l. induction l as [|[k' v'] r IH]; cbn [alookup aupdate]; intro H; [discriminate|].
  destruct (bytes_eqb k k') eqn:E.
  - apply mbeq_true in E. subst k'. injection H as ->. reflexivity.
  - rewrite IH by exact H. reflexivity.
Qed.
Lemma alookup_snoc : forall (A : Type) q k (v : A) l,
  alookup q (l ++ [(k, v)]) = match alookup q l with Some x => Some x | None => if bytes_eqb q k then Some v else None end.
Proof.
  intros A q k v l. induction l as [|[k' v'] r IH]; cbn [alookup app]; [reflexivity|].
  destruct (bytes_eqb q k'); [reflexivity | exact IH].
Qed.

(* every binding of acc is a binding of ps *)
Definition sub_of (ps acc : list (dpath * key)) : Prop := forall q k, alookup q acc = Some k -> alookup q ps = Some k.

Lemma fetch_paths_eq : forall (b : list (key * blob)) ps l acc, sub_of ps acc ->
  spec_fetch_paths (SState b ps) l acc =
  if Nat.eqb (List.length (filter (fun p => negb (dict_has p ps)) l)) 0
  then Some (fold_left upd_pair (lookup_pairs l ps) acc) else None.
Proof.
  intros b ps l. induction l as [|p r IH]; intros acc Hsub; cbn [spec_fetch_paths filter lookup_pairs flat_map paths]; [reflexivity|].
  unfold dict_has, is_some. destruct (alookup p ps) as [k|] eqn:Ep; cbn [negb].
  - cbn [app fold_left]. unfold upd_pair at 2. cbn [fst snd].
    assert (Hacc : match alookup p acc with Some _ => acc | None => acc ++ [(p, k)] end = aupdate p k acc).
    { destruct (alookup p acc) as [k'|] eqn:Ea.
      - pose proof (Hsub _ _ Ea) as Hk. rewrite Ep in Hk. injection Hk as <-. symmetry. apply aupdate_same. exact Ea.
      - symmetry. apply aupdate_absent. exact Ea. }
    rewrite Hacc. apply IH.
    intros q k2 Hq. destruct (alookup p acc) as [k'|] eqn:Ea.
    + pose proof (Hsub _ _ Ea) as Hk. rewrite Ep in Hk. injection Hk as <-.
      rewrite (aupdate_same _ _ _ _ Ea) in Hq. apply Hsub. exact Hq.
    + rewrite (aupdate_absent _ _ _ _ Ea), alookup_snoc in Hq.
      destruct (alookup q acc) as [x|] eqn:Eq; [injection Hq as <-; apply Hsub; exact Eq|].
      destruct (bytes_eqb q p) eqn:Eqp; [|discriminate]. apply mbeq_true in Eqp. subst q. injection Hq as <-. exact Ep.
  - cbn [List.length Nat.eqb]. reflexivity.
Qed.

(* the regenerated MemoryStore is the dictionary specification, step for step *)
Theorem gen_mem_step_is_spec : forall s o, gen_mem_step s o = spec_step s o.
Proof.
  intros [b ps] o. destruct o as [k|k|k v|ps0|l]; cbn [gen_mem_step spec_step].
  - unfold gen_mem_has_blob, dict_has, is_some. cbn [blobs paths]. reflexivity.
  - unfold gen_mem_fetch_blob, dict_get_blob, spec_fetch. cbn [blobs paths]. reflexivity.
  - reflexivity.
  - reflexivity.
  - unfold gen_mem_fetch_paths. cbv zeta. cbn [blobs paths].
    rewrite (fetch_paths_eq b ps l []) by (intros q k H; discriminate H).
    unfold od_of_pairs, dpath, key in *.
    match goal with |- context [Nat.eqb ?X 0] => destruct (Nat.eqb X 0) end; reflexivity.
Qed.

Lemma run_ops_ext : forall (S : Type) (f g : S -> sop -> S * sout), (forall s o, f s o = g s o) ->
  forall ops s, run_ops f s ops = run_ops g s ops.
Proof.
  intros S f g H. induction ops as [|o r IH]; intro s; cbn [run_ops]; [reflexivity|].
  rewrite H. destruct (g s o) as [s' out]. f_equal. apply IH.
Qed.

(* hence every operation sequence on the regenerated MemoryStore answers as the dictionary does *)
Theorem gen_mem_run_is_spec : forall ops s, run_ops gen_mem_step s ops = run_ops spec_step s ops.
Proof. intros ops s. apply run_ops_ext. exact gen_mem_step_is_spec. Qed.
