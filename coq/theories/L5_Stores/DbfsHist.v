(* Histories of the DBFS store (dds/codecs/databricks.py): blobs written into the internal directory and calls of
   DBFSStore.sync_paths with several (path, key) items, over the key-value file system of Dbfs.v.
   [sync_one_ok] is false exactly where the real sync_paths raises out of the loop (commit type 'full' has to copy a blob
   that is not in the internal directory: dbutils.fs.head of the metadata raises); the items before it stay committed.
   Executable: the harness (harness/c19.py, histories) evaluates [drun] with vm_compute and compares the whole data directory
   and the per-call outcome with the real store over the fake dbutils. *)
From Coq Require Import List Ascii String Bool Arith.
From DDS Require Import Base.Bytes L4_Eval.Store L5_Stores.Dbfs.
Import ListNotations.
Local Open Scope string_scope.

Definition sync_one_ok (s : dstore) (fs : rfs) (item : list bytes * bytes) : bool :=
  let '(segs, key) := item in
  match d_ct s with
  | CFull =>
    let copy_ok := match alookup (blob_uri s key) fs with Some _ => true | None => false end in
    match alookup (redir_uri s segs) fs with
    | Some r => if bytes_eqb r (record_of key) then true else copy_ok
    | None => copy_ok
    end
  | _ => true
  end.

(* sync_paths: the loop over the ordered dictionary; (state, false) = an exception left the loop at that item *)
Fixpoint sync_paths (s : dstore) (fs : rfs) (items : list (list bytes * bytes)) : rfs * bool :=
  match items with
  | [] => (fs, true)
  | it :: r => if sync_one_ok s fs it then sync_paths s (sync_one s fs it) r else (fs, false)
  end.

Inductive dop :=
| DBlob (key content : bytes)                       (* store_blob: the blob (and its metadata) in the internal directory *)
| DSync (items : list (list bytes * bytes)).        (* sync_paths *)

Definition dstep (s : dstore) (fs : rfs) (o : dop) : rfs * bool :=
  match o with
  | DBlob k c => (aupdate (blob_uri s k) c fs, true)
  | DSync items => sync_paths s fs items
  end.

Fixpoint drun (s : dstore) (fs : rfs) (ops : list dop) : rfs * list bool :=
  match ops with
  | [] => (fs, [])
  | o :: r => let '(fs1, ok) := dstep s fs o in let '(fs2, oks) := drun s fs1 r in (fs2, ok :: oks)
  end.

(* ---- the dictionary the store is meant to implement: path (as segments) -> key, last commit wins *)
Definition seg_key (segs : list bytes) : bytes := join slashb segs.
Definition abs_sync (m : list (bytes * bytes)) (items : list (list bytes * bytes)) : list (bytes * bytes) :=
  fold_left (fun acc it => aupdate (seg_key (fst it)) (snd it) acc) items m.
Fixpoint abs_run (m : list (bytes * bytes)) (ops : list dop) : list (bytes * bytes) :=
  match ops with
  | [] => m
  | DBlob _ _ :: r => abs_run m r
  | DSync items :: r => abs_run (abs_sync m items) r
  end.

(* ---- well-formed histories (all decidable) *)
Definition slash_free (b : bytes) : bool := forallb (fun c => negb (Ascii.eqb c "/"%char)) b.
Definition wf_seg (b : bytes) : bool := match b with [] => false | _ => slash_free b end.
Definition reserved : bytes := bs "_dds_meta".
Definition wf_path (p : list bytes) : bool :=
  match p with [] => false | h :: _ => forallb wf_seg p && negb (bytes_eqb h reserved) end.

Fixpoint is_prefix (a b : bytes) : bool :=
  match a, b with
  | [], _ => true
  | x :: a', y :: b' => Ascii.eqb x y && is_prefix a' b'
  | _ :: _, [] => false
  end.
(* the internal and the data directory are not inside one another *)
Definition dirs_apart (s : dstore) : bool :=
  negb (is_prefix (d_internal s ++ slashb)%list (d_data s ++ slashb)%list) && negb (is_prefix (d_data s ++ slashb)%list (d_internal s ++ slashb)%list).

Fixpoint nodup_paths (ps : list (list bytes)) : bool :=
  match ps with
  | [] => true
  | p :: r => negb (existsb (fun q => bytes_eqb (seg_key p) (seg_key q)) r) && nodup_paths r
  end.

(* one operation is admissible in state fs: blobs are write-once (content addressed: a key is only ever written with one
   content), the paths of one sync_paths call are well formed and pairwise different (keys of an ordered dictionary), and
   the call completes *)
Definition op_ok (s : dstore) (fs : rfs) (o : dop) : bool :=
  match o with
  | DBlob k c => match alookup (blob_uri s k) fs with None => true | Some c' => bytes_eqb c c' end
  | DSync items => forallb wf_path (map fst items) && nodup_paths (map fst items) && snd (sync_paths s fs items)
  end.
Fixpoint hist_ok (s : dstore) (fs : rfs) (ops : list dop) : bool :=
  match ops with
  | [] => true
  | o :: r => op_ok s fs o && hist_ok s (fst (dstep s fs o)) r
  end.

(* ---- rendering for the correspondence harness: every entry of the file system as hex(uri)=hex(content), in list order *)
Definition show_fs (fs : rfs) : string :=
  show (join (bs ";") (map (fun e => (tohex (fst e) ++ bs "=" ++ tohex (snd e))%list) fs)).
Definition show_oks (l : list bool) : string := show (map (fun b : bool => if b then "1"%char else "0"%char) l).
Definition run_show (s : dstore) (ops : list dop) : string :=
  let '(fs, oks) := drun s [] ops in (show_oks oks ++ "|" ++ show_fs fs)%string.
