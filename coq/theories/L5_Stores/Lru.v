(* Faithful model of dds/_lru_store.py: LRUCache (an OrderedDict, oldest entry first) and LRUCacheStore
   wrapped around any store given by its step function. *)
From Coq Require Import List Ascii String Bool NArith ZArith.
From DDS Require Import Base.Bytes L4_Eval.Store.
Import ListNotations.

Definition cache := list (key * blob).   (* oldest first *)

Fixpoint cremove (k : key) (c : cache) : cache :=
  match c with
  | [] => []
  | (k', v) :: r => if bytes_eqb k k' then r else (k', v) :: cremove k r
  end.

(* LRUCache.get: on a hit the entry moves to the end *)
Definition cget (k : key) (c : cache) : option blob * cache :=
  match alookup k c with
  | None => (None, c)
  | Some v => (Some v, cremove k c ++ [(k, v)])
  end.

(* capacity: None = unbounded (sys.maxsize // 2), Some n = n entries *)
Fixpoint evict (n : nat) (c : cache) : cache :=
  match n with O => c | S m => evict m (tl c) end.
Definition cput (cap : option nat) (k : key) (v : blob) (c : cache) : cache :=
  let c' := cremove k c ++ [(k, v)] in
  match cap with
  | None => c'
  | Some n => evict (List.length c' - n) c'
  end.

Section Wrapped.
  Variable S : Type.
  Variable inner : S -> sop -> S * sout.
  Variable cap : option nat.

  Definition lstate := (cache * S)%type.

  Definition inner_has (s : S) (k : key) : bool :=
    match snd (inner s (OHas k)) with RBool b => b | _ => false end.

  Definition lru_step (st : lstate) (o : sop) : lstate * sout :=
    let '(c, s) := st in
    match o with
    | OHas k =>
        match cget k c with
        | (Some _, c') => ((c', s), RBool true)
        | (None, c') => let '(s', out) := inner s (OHas k) in ((c', s'), out)
        end
    | OFetch k =>
        match cget k c with
        | (Some v, c') => ((c', s), RBlob v)
        | (None, c') =>
            let '(s', out) := inner s (OFetch k) in
            match out with
            | RBlob BNone =>
                (* fix (F13): a miss of the inner store is not cached; a None-valued blob is *)
                if inner_has s' k then ((cput cap k BNone c', s'), out) else ((c', s'), out)
            | RBlob v => ((cput cap k v c', s'), out)
            | _ => ((c', s'), out)
            end
        end
    | _ => let '(s', out) := inner s o in ((c, s'), out)
    end.
End Wrapped.

(* cache_objects decoding of dds._api.set_store *)
Inductive cache_opt := CNone | CBool (b : bool) | CInt (z : Z).
Definition decode_cache_objects (default_size : nat) (o : cache_opt) : option (option nat) :=
  (* None = no wrapper; Some None = unbounded wrapper; Some (Some n) = wrapper of capacity n *)
  match o with
  | CNone => None
  | CBool true => Some (Some default_size)
  | CBool false => None
  | CInt z => if (z <? 0)%Z then Some None else if (0 <? z)%Z then Some (Some (Z.to_nat z)) else None
  end.
