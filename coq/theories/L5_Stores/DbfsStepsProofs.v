(* Proofs about the write-level model of the DBFS store (C19c): the order of the writes inside one operation. *)
From Coq Require Import List Ascii String Bool Arith.
From DDS Require Import Base.Bytes L4_Eval.Store L5_Stores.Dbfs L5_Stores.DbfsProofs L5_Stores.DbfsHist
  L5_Stores.DbfsHistProofs L5_Stores.DbfsSteps.
Import ListNotations.
Local Open Scope string_scope.
Local Open Scope list_scope.

(* ---- the metadata uris are apart from every other kind of uri ---- *)

Lemma all_hex_app_r : forall a b, all_hex (a ++ b) = true -> all_hex b = true.
Proof. intros a b H. unfold all_hex in *. rewrite forallb_app in H. apply andb_prop in H. apply H. Qed.

Lemma blob_ne_meta : forall s k' k, all_hex k' = true -> blob_uri s k' <> meta_uri s k.
Proof.
  intros s k' k Hh H. unfold meta_uri, blob_uri in H. rewrite <- !app_assoc in H.
  apply app_inv_head in H. apply app_inv_head in H. subst k'. apply all_hex_app_r in Hh.
  vm_compute in Hh. discriminate.
Qed.

Lemma meta_uri_inj : forall s k1 k2, meta_uri s k1 = meta_uri s k2 -> k1 = k2.
Proof.
  intros s k1 k2 H. unfold meta_uri in H. apply app_inv_tail in H. unfold blob_uri in H.
  apply app_inv_head in H. apply app_inv_head in H. exact H.
Qed.

Lemma meta_uri_split : forall s k, meta_uri s k = (d_internal s ++ slashb) ++ (bs "blobs/" ++ k ++ bs ".meta").
Proof. intros s k. unfold meta_uri. rewrite blob_uri_split. rewrite <- !app_assoc. reflexivity. Qed.

Lemma meta_ne_obj : forall s k p, dirs_apart s = true -> meta_uri s k <> obj_uri s p.
Proof. intros s k p Hap. rewrite meta_uri_split, obj_uri_split. apply apart_ne. exact Hap. Qed.
Lemma meta_ne_redir : forall s k p, dirs_apart s = true -> meta_uri s k <> redir_uri s p.
Proof. intros s k p Hap. rewrite meta_uri_split, redir_uri_split. apply apart_ne. exact Hap. Qed.

(* ---- lookups after one write ---- *)

Lemma alookup_aupdate : forall (A : Type) u k (v : A) l,
  alookup u (aupdate k v l) = if bytes_eqb u k then Some v else alookup u l.
Proof.
  intros A u k v l. destruct (bytes_eqb u k) eqn:E.
  - apply beqb_true in E. subst u. apply alookup_aupdate_same.
  - apply alookup_aupdate_other. intros Hu. subst u. rewrite beqb_refl in E. discriminate.
Qed.

Lemma aupdate_keeps : forall u k (v : bytes) (fs : rfs) c,
  alookup u fs = Some c -> exists c', alookup u (aupdate k v fs) = Some c'.
Proof.
  intros u k v fs c H. rewrite alookup_aupdate. destruct (bytes_eqb u k); [exists v; reflexivity | exists c; exact H].
Qed.

(* the uri a write goes to *)
Definition target (s : dstore) (w : wstep) : bytes :=
  match w with
  | WBlob k _ => blob_uri s k
  | WMeta k => meta_uri s k
  | WCopy p _ => obj_uri s p
  | WRecord p _ => redir_uri s p
  end.

Lemma apply_step_other : forall s fs w u, u <> target s w -> alookup u (apply_step s fs w) = alookup u fs.
Proof.
  intros s fs w u Hu. destruct w as [k c | k | p k | p k]; cbn [apply_step target] in *.
  - apply alookup_aupdate_other. exact Hu.
  - apply alookup_aupdate_other. exact Hu.
  - destruct (alookup (blob_uri s k) fs) as [c|]; [|reflexivity]. apply alookup_aupdate_other. exact Hu.
  - apply alookup_aupdate_other. exact Hu.
Qed.

(* no write removes an entry *)
Lemma apply_step_keeps : forall s fs w u c,
  alookup u fs = Some c -> exists c', alookup u (apply_step s fs w) = Some c'.
Proof.
  intros s fs w u c H. destruct w as [k c0 | k | p k | p k]; cbn [apply_step].
  - exact (aupdate_keeps _ _ _ _ _ H).
  - exact (aupdate_keeps _ _ _ _ _ H).
  - destruct (alookup (blob_uri s k) fs) as [c1|]; [exact (aupdate_keeps _ _ _ _ _ H) | exists c; exact H].
  - exact (aupdate_keeps _ _ _ _ _ H).
Qed.

Lemma apply_steps_keeps : forall s ws fs u c,
  alookup u fs = Some c -> exists c', alookup u (apply_steps s fs ws) = Some c'.
Proof.
  intros s ws. induction ws as [|w r IH]; intros fs u c H.
  - exists c. exact H.
  - cbn [apply_steps fold_left]. destruct (apply_step_keeps s fs w u c H) as [c1 H1].
    exact (IH _ _ _ H1).
Qed.

Lemma run_steps_keeps : forall s ops fs u c,
  alookup u fs = Some c -> exists c', alookup u (run_steps s fs ops) = Some c'.
Proof.
  intros s ops. induction ops as [|o r IH]; intros fs u c H.
  - exists c. exact H.
  - cbn [run_steps]. destruct (apply_steps_keeps s (steps_of_op s fs o) fs u c H) as [c1 H1].
    exact (IH _ _ _ H1).
Qed.

Lemma apply_steps_app : forall s fs a b, apply_steps s fs (a ++ b) = apply_steps s (apply_steps s fs a) b.
Proof. intros s fs a b. unfold apply_steps. apply fold_left_app. Qed.

(* ---- step lists in which every write is legal in the state it is made in; invariants along them ---- *)

Section StepsOk.
  Variable s : dstore.
  Variable ok : rfs -> wstep -> Prop.

  Fixpoint steps_ok (fs : rfs) (ws : list wstep) : Prop :=
    match ws with
    | [] => True
    | w :: r => ok fs w /\ steps_ok (apply_step s fs w) r
    end.

  Lemma steps_ok_app : forall a b fs,
    steps_ok fs a -> steps_ok (apply_steps s fs a) b -> steps_ok fs (a ++ b).
  Proof.
    induction a as [|w a IH]; intros b fs Ha Hb.
    - exact Hb.
    - cbn [app steps_ok]. destruct Ha as [Hw Ha]. split; [exact Hw|].
      apply IH; [exact Ha | exact Hb].
  Qed.

  Lemma steps_ok_firstn : forall n ws fs, steps_ok fs ws -> steps_ok fs (firstn n ws).
  Proof.
    induction n as [|n IH]; intros ws fs H.
    - exact I.
    - destruct ws as [|w r]; [exact I|]. cbn [firstn steps_ok]. destruct H as [Hw Hr].
      split; [exact Hw | exact (IH _ _ Hr)].
  Qed.

  Variable Inv : rfs -> Prop.
  Hypothesis Hpres : forall fs w, Inv fs -> ok fs w -> Inv (apply_step s fs w).

  Lemma steps_ok_inv : forall ws fs, Inv fs -> steps_ok fs ws -> Inv (apply_steps s fs ws).
  Proof.
    induction ws as [|w r IH]; intros fs Hi Hs.
    - exact Hi.
    - cbn [apply_steps fold_left]. destruct Hs as [Hw Hr]. apply IH; [exact (Hpres _ _ Hi Hw) | exact Hr].
  Qed.

  Hypothesis Hop : forall fs o, op_wf o = true -> steps_ok fs (steps_of_op s fs o).

  Lemma run_steps_inv : forall ops fs, ops_wf ops = true -> Inv fs -> Inv (run_steps s fs ops).
  Proof.
    induction ops as [|o r IH]; intros fs Hwf Hi.
    - exact Hi.
    - cbn [run_steps]. cbn [ops_wf forallb] in Hwf. apply andb_prop in Hwf. destruct Hwf as [Ho Hr].
      apply IH; [exact Hr|]. apply steps_ok_inv; [exact Hi | exact (Hop _ _ Ho)].
  Qed.

  Lemma run_interrupted_inv : forall ops last n,
    ops_wf (ops ++ [last]) = true -> Inv [] -> Inv (run_interrupted s ops last n).
  Proof.
    intros ops last n Hwf Hi. unfold ops_wf in Hwf. rewrite forallb_app in Hwf. apply andb_prop in Hwf.
    destruct Hwf as [Hops Hlast]. cbn [forallb] in Hlast. apply andb_prop in Hlast. destruct Hlast as [Hlast _].
    unfold run_interrupted. cbv zeta. apply steps_ok_inv.
    - apply run_steps_inv; [exact Hops | exact Hi].
    - apply steps_ok_firstn. exact (Hop _ _ Hlast).
  Qed.
End StepsOk.

Lemma steps_of_item_cases : forall s fs p k,
  steps_of_item s fs (p, k) = [] \/ steps_of_item s fs (p, k) = [WCopy p k; WRecord p k] \/
  steps_of_item s fs (p, k) = [WRecord p k].
Proof.
  intros s fs p k. unfold steps_of_item. destruct (d_ct s).
  - destruct (alookup (redir_uri s p) fs) as [r|]; [destruct (bytes_eqb r (record_of k))|]; cbn [negb]; auto.
  - destruct (alookup (redir_uri s p) fs) as [r|]; [destruct (bytes_eqb r (record_of k))|]; cbn [negb]; auto.
  - left. reflexivity.
Qed.

(* ---- the commit marker comes after the data ---- *)

Definition Inv1 (s : dstore) (fs : rfs) : Prop :=
  forall k, all_hex k = true -> has_blob s fs k = true -> exists c, alookup (blob_uri s k) fs = Some c.

Definition ok1 (s : dstore) (fs : rfs) (w : wstep) : Prop :=
  match w with
  | WBlob k _ => all_hex k = true
  | WMeta k => exists c, alookup (blob_uri s k) fs = Some c
  | WCopy _ _ => True
  | WRecord _ _ => True
  end.

Lemma has_blob_other : forall s fs w k, meta_uri s k <> target s w -> has_blob s (apply_step s fs w) k = has_blob s fs k.
Proof. intros s fs w k H. unfold has_blob. rewrite apply_step_other by exact H. reflexivity. Qed.

Lemma inv1_pres : forall s, dirs_apart s = true ->
  forall fs w, Inv1 s fs -> ok1 s fs w -> Inv1 s (apply_step s fs w).
Proof.
  intros s Hap fs w Hi Hw k Hk Hhas.
  destruct (bytes_dec (meta_uri s k) (target s w)) as [E | E].
  - destruct w as [k0 c0 | k0 | p k0 | p k0]; cbn [target ok1] in *.
    + exfalso. symmetry in E. exact (blob_ne_meta s k0 k Hw E).
    + apply meta_uri_inj in E. subst k0. destruct Hw as [c Hc].
      exact (apply_step_keeps s fs (WMeta k) _ c Hc).
    + exfalso. exact (meta_ne_obj s k p Hap E).
    + exfalso. exact (meta_ne_redir s k p Hap E).
  - rewrite has_blob_other in Hhas by exact E. destruct (Hi k Hk Hhas) as [c Hc].
    exact (apply_step_keeps s fs w _ c Hc).
Qed.

Lemma items_ok1 : forall s items fs, steps_ok s (ok1 s) fs (steps_of_items s fs items).
Proof.
  intros s items. induction items as [|[p k] r IH]; intros fs.
  - exact I.
  - cbn [steps_of_items]. destruct (sync_one_ok s fs (p, k)); [|exact I]. cbv zeta.
    apply steps_ok_app; [|apply IH].
    destruct (steps_of_item_cases s fs p k) as [H | [H | H]]; rewrite H; cbn [steps_ok ok1]; auto.
Qed.

Lemma op_ok1 : forall s fs o, op_wf o = true -> steps_ok s (ok1 s) fs (steps_of_op s fs o).
Proof.
  intros s fs o Hwf. destruct o as [k c | items]; cbn [steps_of_op].
  - unfold op_wf in Hwf. cbn [op_keys forallb] in Hwf. apply andb_prop in Hwf. destruct Hwf as [Hk _].
    apply andb_prop in Hk. destruct Hk as [Hk _].
    cbn [steps_ok ok1 apply_step]. split; [exact Hk|]. split; [|exact I].
    exists c. apply alookup_aupdate_same.
  - apply items_ok1.
Qed.

Lemma inv1_empty : forall s, Inv1 s [].
Proof. intros s k Hk H. discriminate. Qed.

Theorem marker_after_data : forall s ops last n,
  dirs_apart s = true -> ops_wf (ops ++ [last]) = true ->
  forall k, all_hex k = true -> has_blob s (run_interrupted s ops last n) k = true ->
    exists c, alookup (blob_uri s k) (run_interrupted s ops last n) = Some c.
Proof.
  intros s ops last n Hap Hwf.
  exact (run_interrupted_inv s (ok1 s) (Inv1 s) (inv1_pres s Hap) (op_ok1 s) ops last n Hwf (inv1_empty s)).
Qed.

(* ---- 'full': the copy is written before the record ---- *)

Definition Inv2 (s : dstore) (fs : rfs) : Prop :=
  forall p k, wf_path p = true -> fetch_record s fs p = Some (record_of k) ->
    exists c, alookup (obj_uri s p) fs = Some c.

Definition ok2 (s : dstore) (fs : rfs) (w : wstep) : Prop :=
  match w with
  | WBlob _ _ => True
  | WMeta _ => True
  | WCopy p _ => wf_path p = true
  | WRecord p _ => exists c, alookup (obj_uri s p) fs = Some c
  end.

Lemma inv2_pres : forall s, dirs_apart s = true ->
  forall fs w, Inv2 s fs -> ok2 s fs w -> Inv2 s (apply_step s fs w).
Proof.
  intros s Hap fs w Hi Hw q k Hq Hrec. unfold fetch_record in Hrec.
  destruct (bytes_dec (redir_uri s q) (target s w)) as [E | E].
  - destruct w as [k0 c0 | k0 | p k0 | p k0]; cbn [target ok2] in *.
    + exfalso. symmetry in E. exact (blob_ne_redir s k0 q Hap E).
    + exfalso. symmetry in E. exact (meta_ne_redir s k0 q Hap E).
    + exfalso. symmetry in E. exact (obj_ne_redir s p q Hw E).
    + apply redir_uri_inj in E. rewrite (obj_uri_key s q p E). destruct Hw as [c Hc].
      exact (apply_step_keeps s fs (WRecord p k0) _ c Hc).
  - rewrite apply_step_other in Hrec by exact E. destruct (Hi q k Hq Hrec) as [c Hc].
    exact (apply_step_keeps s fs w _ c Hc).
Qed.

Lemma item_ok2 : forall s fs p k, d_ct s = CFull -> wf_path p = true -> sync_one_ok s fs (p, k) = true ->
  steps_ok s (ok2 s) fs (steps_of_item s fs (p, k)).
Proof.
  intros s fs p k Hct Hp Hok. unfold steps_of_item. unfold sync_one_ok in Hok. rewrite Hct in *.
  assert (Hstale : (exists c, alookup (blob_uri s k) fs = Some c) ->
                   steps_ok s (ok2 s) fs [WCopy p k; WRecord p k]).
  { intros [c Hc]. cbn [steps_ok ok2 apply_step]. split; [exact Hp|]. split; [|exact I].
    rewrite Hc. exists c. apply alookup_aupdate_same. }
  destruct (alookup (redir_uri s p) fs) as [r|].
  - destruct (bytes_eqb r (record_of k)); cbn [negb]; [exact I|].
    apply Hstale. destruct (alookup (blob_uri s k) fs) as [c|]; [exists c; reflexivity | discriminate].
  - apply Hstale. destruct (alookup (blob_uri s k) fs) as [c|]; [exists c; reflexivity | discriminate].
Qed.

Lemma items_ok2 : forall s items fs, d_ct s = CFull -> forallb wf_path (map fst items) = true ->
  steps_ok s (ok2 s) fs (steps_of_items s fs items).
Proof.
  intros s items. induction items as [|[p k] r IH]; intros fs Hct Hwf.
  - exact I.
  - cbn [map fst forallb] in Hwf. apply andb_prop in Hwf. destruct Hwf as [Hp Hr].
    cbn [steps_of_items]. destruct (sync_one_ok s fs (p, k)) eqn:Hok; [|exact I]. cbv zeta.
    apply steps_ok_app; [exact (item_ok2 s fs p k Hct Hp Hok) | exact (IH _ Hct Hr)].
Qed.

Lemma op_ok2 : forall s, d_ct s = CFull -> forall fs o, op_wf o = true -> steps_ok s (ok2 s) fs (steps_of_op s fs o).
Proof.
  intros s Hct fs o Hwf. destruct o as [k c | items]; cbn [steps_of_op].
  - cbn [steps_ok ok2]. auto.
  - unfold op_wf in Hwf. apply andb_prop in Hwf. destruct Hwf as [_ Hp]. cbn [op_paths] in Hp.
    exact (items_ok2 s items fs Hct Hp).
Qed.

Lemma inv2_empty : forall s, Inv2 s [].
Proof. intros s p k Hp H. discriminate. Qed.

Theorem copy_before_record : forall s ops last n,
  d_ct s = CFull -> dirs_apart s = true -> ops_wf (ops ++ [last]) = true ->
  forall p k, wf_path p = true -> fetch_record s (run_interrupted s ops last n) p = Some (record_of k) ->
    exists c, alookup (obj_uri s p) (run_interrupted s ops last n) = Some c.
Proof.
  intros s ops last n Hct Hap Hwf.
  exact (run_interrupted_inv s (ok2 s) (Inv2 s) (inv2_pres s Hap) (op_ok2 s Hct) ops last n Hwf (inv2_empty s)).
Qed.

(* ---- complete operations: the history model, metadata files aside ---- *)

Definition nonmeta (s : dstore) (u : bytes) : Prop := forall k, u <> meta_uri s k.
Definition Rel (s : dstore) (fs1 fs2 : rfs) : Prop := forall u, nonmeta s u -> alookup u fs1 = alookup u fs2.

Lemma blob_nonmeta : forall s k, all_hex k = true -> nonmeta s (blob_uri s k).
Proof. intros s k Hk k'. exact (blob_ne_meta s k k' Hk). Qed.
Lemma redir_nonmeta : forall s p, dirs_apart s = true -> nonmeta s (redir_uri s p).
Proof. intros s p Hap k H. symmetry in H. exact (meta_ne_redir s k p Hap H). Qed.

Lemma rel_aupdate : forall s fs1 fs2 u v, Rel s fs1 fs2 -> Rel s (aupdate u v fs1) (aupdate u v fs2).
Proof.
  intros s fs1 fs2 u v HR u' Hu'. rewrite !alookup_aupdate. destruct (bytes_eqb u' u); [reflexivity | exact (HR u' Hu')].
Qed.
Lemma rel_meta : forall s fs1 fs2 k v, Rel s fs1 fs2 -> Rel s (aupdate (meta_uri s k) v fs1) fs2.
Proof. intros s fs1 fs2 k v HR u Hu. rewrite alookup_aupdate_other by exact (Hu k). exact (HR u Hu). Qed.

Lemma steps_item_sync_one : forall s fs it, apply_steps s fs (steps_of_item s fs it) = sync_one s fs it.
Proof.
  intros s fs [p k]. unfold steps_of_item, sync_one. destruct (d_ct s).
  - destruct (alookup (redir_uri s p) fs) as [r|]; [destruct (bytes_eqb r (record_of k))|]; reflexivity.
  - destruct (alookup (redir_uri s p) fs) as [r|]; [destruct (bytes_eqb r (record_of k))|]; reflexivity.
  - reflexivity.
Qed.

Lemma rel_sync_one : forall s fs1 fs2 p k, dirs_apart s = true -> all_hex k = true -> Rel s fs1 fs2 ->
  Rel s (sync_one s fs1 (p, k)) (sync_one s fs2 (p, k)).
Proof.
  intros s fs1 fs2 p k Hap Hk HR. unfold sync_one.
  rewrite <- (HR (redir_uri s p) (redir_nonmeta s p Hap)). rewrite <- (HR (blob_uri s k) (blob_nonmeta s k Hk)).
  destruct (d_ct s); [| |exact HR].
  - destruct (alookup (redir_uri s p) fs1) as [r|]; [destruct (bytes_eqb r (record_of k)); [exact HR|]|];
      (destruct (alookup (blob_uri s k) fs1) as [c|]; repeat apply rel_aupdate; exact HR).
  - destruct (alookup (redir_uri s p) fs1) as [r|]; [destruct (bytes_eqb r (record_of k)); [exact HR|]|];
      (destruct (alookup (blob_uri s k) fs1) as [c|]; repeat apply rel_aupdate; exact HR).
Qed.

Lemma rel_sync_one_ok : forall s fs1 fs2 p k, dirs_apart s = true -> all_hex k = true -> Rel s fs1 fs2 ->
  sync_one_ok s fs1 (p, k) = sync_one_ok s fs2 (p, k).
Proof.
  intros s fs1 fs2 p k Hap Hk HR. unfold sync_one_ok.
  rewrite <- (HR (redir_uri s p) (redir_nonmeta s p Hap)). rewrite <- (HR (blob_uri s k) (blob_nonmeta s k Hk)).
  reflexivity.
Qed.

Lemma rel_items : forall s items fs1 fs2, dirs_apart s = true -> forallb all_hex (map snd items) = true ->
  Rel s fs1 fs2 -> Rel s (apply_steps s fs1 (steps_of_items s fs1 items)) (fst (sync_paths s fs2 items)).
Proof.
  intros s items. induction items as [|[p k] r IH]; intros fs1 fs2 Hap Hwf HR.
  - exact HR.
  - cbn [map snd forallb] in Hwf. apply andb_prop in Hwf. destruct Hwf as [Hk Hr].
    cbn [steps_of_items sync_paths]. rewrite <- (rel_sync_one_ok s fs1 fs2 p k Hap Hk HR).
    destruct (sync_one_ok s fs1 (p, k)); [|exact HR]. cbv zeta.
    rewrite apply_steps_app. rewrite steps_item_sync_one.
    apply IH; [exact Hap | exact Hr | exact (rel_sync_one s fs1 fs2 p k Hap Hk HR)].
Qed.

Lemma drun_fst_cons : forall s fs o r, fst (drun s fs (o :: r)) = fst (drun s (fst (dstep s fs o)) r).
Proof.
  intros s fs o r. cbn [drun]. destruct (dstep s fs o) as [fs1 ok]. cbn [fst].
  destruct (drun s fs1 r) as [fs2 oks]. reflexivity.
Qed.

Lemma rel_run : forall s ops fs1 fs2, dirs_apart s = true -> ops_wf ops = true -> Rel s fs1 fs2 ->
  Rel s (run_steps s fs1 ops) (fst (drun s fs2 ops)).
Proof.
  intros s ops. induction ops as [|o r IH]; intros fs1 fs2 Hap Hwf HR.
  - exact HR.
  - cbn [ops_wf forallb] in Hwf. apply andb_prop in Hwf. destruct Hwf as [Ho Hr].
    cbn [run_steps]. rewrite drun_fst_cons. apply IH; [exact Hap | exact Hr |].
    destruct o as [k c | items]; cbn [steps_of_op dstep fst].
    + cbn [apply_steps fold_left apply_step]. apply rel_meta. apply rel_aupdate. exact HR.
    + unfold op_wf in Ho. apply andb_prop in Ho. destruct Ho as [Hk _]. cbn [op_keys] in Hk.
      exact (rel_items s items fs1 fs2 Hap Hk HR).
Qed.

Theorem steps_refine_histories : forall s ops,
  dirs_apart s = true -> ops_wf ops = true ->
  forall u, (forall k, u <> meta_uri s k) ->
    alookup u (run_steps s [] ops) = alookup u (fst (drun s [] ops)).
Proof.
  intros s ops Hap Hwf u Hu.
  assert (H0 : Rel s [] []) by (intros u' _; reflexivity).
  exact (rel_run s ops [] [] Hap Hwf H0 u Hu).
Qed.

(* ---- every completed store_blob leaves the marker ---- *)

Lemma completed_blob_from : forall s ops fs k c, In (DBlob k c) ops -> has_blob s (run_steps s fs ops) k = true.
Proof.
  intros s ops. induction ops as [|o r IH]; intros fs k c Hin.
  - destruct Hin.
  - cbn [run_steps]. destruct Hin as [Ho | Hin].
    + subst o. cbn [steps_of_op apply_steps fold_left apply_step]. unfold has_blob.
      destruct (run_steps_keeps s r (aupdate (meta_uri s k) meta_content (aupdate (blob_uri s k) c fs))
                  (meta_uri s k) meta_content (alookup_aupdate_same _ _ _ _)) as [c' Hc'].
      rewrite Hc'. reflexivity.
    + exact (IH _ k c Hin).
Qed.

Theorem completed_blob_is_present : forall s ops,
  dirs_apart s = true -> ops_wf ops = true ->
  forall k c, In (DBlob k c) ops -> has_blob s (run_steps s [] ops) k = true.
Proof. intros s ops _ _ k c Hin. exact (completed_blob_from s ops [] k c Hin). Qed.

(* ---- the opposite order is refuted; non-vacuity ---- *)

Theorem marker_first_refuted :
  let s := DStore (bs "dbfs:/s/internal") (bs "dbfs:/s/data") CFull in
  let k := bs "abc0" in
  let fs := apply_steps s [] (firstn 1 [WMeta k; WBlob k (bs "v")]) in
  has_blob s fs k = true /\ alookup (blob_uri s k) fs = None.
Proof. cbv zeta. vm_compute. split; reflexivity. Qed.

Theorem hypotheses_satisfiable_steps :
  let s := DStore (bs "dbfs:/s/internal") (bs "dbfs:/s/data") CFull in
  let ops := [DBlob (bs "abc0") (bs "one"); DSync [([bs "x"], bs "abc0")]] in
  let last := DSync [([bs "d"; bs "y"], bs "abc0"); ([bs "x"], bs "abc0")] in
  dirs_apart s = true /\ ops_wf (ops ++ [last]) = true /\
  has_blob s (run_interrupted s ops last 1) (bs "abc0") = true /\
  fetch_record s (run_interrupted s ops last 1) [bs "d"; bs "y"] = None /\
  fetch_record s (run_interrupted s ops last 2) [bs "d"; bs "y"] = Some (record_of (bs "abc0")).
Proof. cbv zeta. vm_compute. repeat split; reflexivity. Qed.
