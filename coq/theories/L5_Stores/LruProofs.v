(* Proofs about the LRU cache wrapper model (Lru.v): transparency over the store specification under
   content addressing, boundedness for any inner store, decoding of the cache_objects option. *)
From Coq Require Import List Ascii String Bool NArith ZArith Lia.
From DDS Require Import Base.Bytes L4_Eval.Store L5_Stores.Lru.
Import ListNotations.

(* ------------------------------------------------------------------ *)
(* equality tests reflect equality                                     *)
(* ------------------------------------------------------------------ *)

Lemma bytes_eqb_eq : forall a b, bytes_eqb a b = true <-> a = b.
Proof.
  intros a b. unfold bytes_eqb.
  destruct (list_eq_dec ascii_dec a b) as [E|E]; split; intro H;
    try assumption; try reflexivity; try discriminate H.
  contradiction.
Qed.

Lemma bytes_eqb_refl : forall a, bytes_eqb a a = true.
Proof. intro a. apply bytes_eqb_eq. reflexivity. Qed.

Lemma bytes_eqb_neq : forall a b, bytes_eqb a b = false <-> a <> b.
Proof.
  intros a b. split.
  - intros H E. apply bytes_eqb_eq in E. rewrite E in H. discriminate H.
  - intro N. destruct (bytes_eqb a b) eqn:E; [|reflexivity].
    apply bytes_eqb_eq in E. contradiction.
Qed.

Lemma blob_eqb_eq : forall a b, blob_eqb a b = true <-> a = b.
Proof.
  intros [|x] [|y]; simpl; split; intro H; try reflexivity; try discriminate H.
  - apply bytes_eqb_eq in H. subst y. reflexivity.
  - injection H as H. apply bytes_eqb_eq. exact H.
Qed.

(* ------------------------------------------------------------------ *)
(* association lists                                                   *)
(* ------------------------------------------------------------------ *)

Lemma alookup_aupdate_same : forall (A : Type) k (v : A) l,
  alookup k (aupdate k v l) = Some v.
Proof.
  intros A k v l. induction l as [|[k' v'] r IH]; simpl.
  - rewrite bytes_eqb_refl. reflexivity.
  - destruct (bytes_eqb k k') eqn:E; simpl.
    + rewrite bytes_eqb_refl. reflexivity.
    + rewrite E. exact IH.
Qed.

Lemma alookup_aupdate_other : forall (A : Type) k k' (v : A) l,
  k' <> k -> alookup k' (aupdate k v l) = alookup k' l.
Proof.
  intros A k k' v l N. apply bytes_eqb_neq in N.
  induction l as [|[k2 v2] r IH]; simpl.
  - rewrite N. reflexivity.
  - destruct (bytes_eqb k k2) eqn:E; simpl.
    + apply bytes_eqb_eq in E. subst k2. rewrite N. reflexivity.
    + rewrite IH. reflexivity.
Qed.

(* re-storing the value a key already has does not change any lookup *)
Lemma alookup_aupdate_id : forall (A : Type) k (v : A) l k',
  alookup k l = Some v -> alookup k' (aupdate k v l) = alookup k' l.
Proof.
  intros A k v l k' L. destruct (bytes_eqb k' k) eqn:E.
  - apply bytes_eqb_eq in E. subst k'. rewrite alookup_aupdate_same. symmetry. exact L.
  - apply bytes_eqb_neq in E. apply alookup_aupdate_other. exact E.
Qed.

Lemma alookup_In : forall (A : Type) k (v : A) l, alookup k l = Some v -> In (k, v) l.
Proof.
  intros A k v l. induction l as [|[k' v'] r IH]; simpl; intro L.
  - discriminate L.
  - destruct (bytes_eqb k k') eqn:E.
    + apply bytes_eqb_eq in E. subst k'. injection L as L. subst v'. left. reflexivity.
    + right. apply IH. exact L.
Qed.

Lemma In_alookup_nodup : forall (A : Type) k (v : A) l,
  NoDup (map fst l) -> In (k, v) l -> alookup k l = Some v.
Proof.
  intros A k v l. induction l as [|[k' v'] r IH]; simpl; intros ND HIn.
  - contradiction.
  - inversion ND as [|x xs Hnot ND']; subst.
    destruct HIn as [HEq|HIn].
    + injection HEq as Hk Hv. subst k' v'. rewrite bytes_eqb_refl. reflexivity.
    + destruct (bytes_eqb k k') eqn:E.
      * apply bytes_eqb_eq in E. subst k'. exfalso. apply Hnot.
        apply (in_map fst) in HIn. exact HIn.
      * apply IH; assumption.
Qed.

(* ------------------------------------------------------------------ *)
(* cache operations: membership                                        *)
(* ------------------------------------------------------------------ *)

Lemma In_cremove : forall k c x, In x (cremove k c) -> In x c.
Proof.
  intros k c x. induction c as [|[k' v'] r IH]; simpl; intro H.
  - contradiction.
  - destruct (bytes_eqb k k').
    + right. exact H.
    + destruct H as [H|H]; [left; exact H | right; apply IH; exact H].
Qed.

Lemma In_evict : forall n c (x : key * blob), In x (evict n c) -> In x c.
Proof.
  intros n. induction n as [|m IH]; simpl; intros c x H.
  - exact H.
  - apply IH in H. destruct c as [|y r]; simpl in H.
    + contradiction.
    + right. exact H.
Qed.

(* evict yields a suffix *)
Lemma evict_suffix : forall n (c : cache), exists pre, c = pre ++ evict n c.
Proof.
  intros n. induction n as [|m IH]; simpl; intro c.
  - exists []. reflexivity.
  - destruct c as [|y r]; simpl.
    + destruct (IH []) as [pre Hpre]. exists pre. exact Hpre.
    + destruct (IH r) as [pre Hpre]. exists (y :: pre). simpl. rewrite <- Hpre. reflexivity.
Qed.

Lemma In_cput : forall cap k v c x, In x (cput cap k v c) -> x = (k, v) \/ In x c.
Proof.
  intros cap k v c x H.
  assert (Hbase : In x (cremove k c ++ [(k, v)])).
  { unfold cput in H. destruct cap as [n|]; [apply In_evict in H|]; exact H. }
  apply in_app_or in Hbase. destruct Hbase as [Hc|Hl].
  - right. apply In_cremove in Hc. exact Hc.
  - left. simpl in Hl. destruct Hl as [Hl|[]]. symmetry. exact Hl.
Qed.

(* ------------------------------------------------------------------ *)
(* the cache invariant                                                 *)
(* ------------------------------------------------------------------ *)

(* the invariant as first proposed: phrased through [alookup] *)
Definition cache_ok (c : cache) (s : sstate) : Prop :=
  forall k v, alookup k c = Some v -> alookup k (blobs s) = Some v.

(* the inductive invariant: every ENTRY of the cache is what the store holds *)
Definition cache_ok_in (c : cache) (s : sstate) : Prop :=
  forall k v, In (k, v) c -> alookup k (blobs s) = Some v.

Lemma cache_ok_in_cache_ok : forall c s, cache_ok_in c s -> cache_ok c s.
Proof. intros c s H k v L. apply H. apply alookup_In. exact L. Qed.

Lemma cache_ok_nodup_in : forall c s, NoDup (map fst c) -> cache_ok c s -> cache_ok_in c s.
Proof. intros c s ND H k v HIn. apply H. apply In_alookup_nodup; assumption. Qed.

Lemma cache_ok_in_nil : forall s, cache_ok_in [] s.
Proof. intros s k v H. contradiction. Qed.

Lemma cget_hit_ok : forall c s k v c',
  cache_ok_in c s -> cget k c = (Some v, c') ->
  alookup k (blobs s) = Some v /\ cache_ok_in c' s.
Proof.
  intros c s k v c' Hok G. unfold cget in G.
  destruct (alookup k c) as [w|] eqn:L; [|discriminate G].
  injection G as Hv Hc. subst w c'.
  assert (Hkv : alookup k (blobs s) = Some v) by (apply Hok; apply alookup_In; exact L).
  split; [exact Hkv|].
  intros k2 v2 HIn. apply in_app_or in HIn. destruct HIn as [HIn|HIn].
  - apply Hok. apply In_cremove in HIn. exact HIn.
  - simpl in HIn. destruct HIn as [HIn|[]]. injection HIn as Hk2 Hv2. subst k2 v2. exact Hkv.
Qed.

Lemma cget_miss : forall c k c', cget k c = (None, c') -> c' = c /\ alookup k c = None.
Proof.
  intros c k c' G. unfold cget in G.
  destruct (alookup k c) as [w|] eqn:L; [discriminate G|].
  injection G as Hc. split; [symmetry; exact Hc | reflexivity].
Qed.

Lemma cput_ok : forall cap c s k v,
  cache_ok_in c s -> alookup k (blobs s) = Some v -> cache_ok_in (cput cap k v c) s.
Proof.
  intros cap c s k v Hok Hkv k2 v2 HIn. apply In_cput in HIn. destruct HIn as [HEq|HIn].
  - injection HEq as Hk2 Hv2. subst k2 v2. exact Hkv.
  - apply Hok. exact HIn.
Qed.

(* ------------------------------------------------------------------ *)
(* one step of the wrapper simulates one step of the specification     *)
(* ------------------------------------------------------------------ *)

(* a put never changes the value of a key the store already holds *)
Definition put_safe (s : sstate) (o : sop) : Prop :=
  forall k v v', o = OPut k v -> alookup k (blobs s) = Some v' -> v = v'.

Lemma lru_step_sim : forall cap c s o,
  cache_ok_in c s -> put_safe s o ->
  exists c',
    lru_step sstate spec_step cap (c, s) o = ((c', fst (spec_step s o)), snd (spec_step s o))
    /\ cache_ok_in c' (fst (spec_step s o)).
Proof.
  intros cap c s o Hok Hsafe. destruct o as [k|k|k v|ps|ps].
  - (* OHas *)
    simpl. destruct (cget k c) as [[w|] c'] eqn:G.
    + destruct (cget_hit_ok _ _ _ _ _ Hok G) as [Hkv Hok'].
      exists c'. rewrite Hkv. split; [reflexivity | exact Hok'].
    + destruct (cget_miss _ _ _ G) as [Hc _]. subst c'.
      exists c. split; [reflexivity | exact Hok].
  - (* OFetch *)
    simpl. destruct (cget k c) as [[w|] c'] eqn:G.
    + destruct (cget_hit_ok _ _ _ _ _ Hok G) as [Hkv Hok'].
      exists c'. unfold spec_fetch. rewrite Hkv. split; [reflexivity | exact Hok'].
    + destruct (cget_miss _ _ _ G) as [Hc _]. subst c'.
      unfold spec_fetch, inner_has. simpl.
      destruct (alookup k (blobs s)) as [[|b]|] eqn:L.
      * exists (cput cap k BNone c). split; [reflexivity|]. apply cput_ok; assumption.
      * exists (cput cap k (BVal b) c). split; [reflexivity|]. apply cput_ok; assumption.
      * exists c. split; [reflexivity | exact Hok].
  - (* OPut *)
    simpl. exists c. split; [reflexivity|].
    intros k2 v2 HIn. simpl.
    assert (Hk2 : alookup k2 (blobs s) = Some v2) by (apply Hok; exact HIn).
    destruct (bytes_eqb k2 k) eqn:E.
    + apply bytes_eqb_eq in E. subst k2.
      rewrite (Hsafe k v v2 eq_refl Hk2). apply alookup_aupdate_same.
    + apply bytes_eqb_neq in E. rewrite alookup_aupdate_other by exact E. exact Hk2.
  - (* OSync *)
    simpl. exists c. split; [reflexivity | exact Hok].
  - (* OFetchPaths *)
    simpl. exists c. split; [reflexivity | exact Hok].
Qed.

(* ------------------------------------------------------------------ *)
(* consistency: [seen] and the store agree on every lookup             *)
(* ------------------------------------------------------------------ *)

Definition agree (seen : list (key * blob)) (s : sstate) : Prop :=
  forall k, alookup k seen = alookup k (blobs s).

Lemma consistent_step : forall seen s o ops,
  agree seen s -> consistent_from seen (o :: ops) = true ->
  put_safe s o /\
  exists seen', agree seen' (fst (spec_step s o)) /\ consistent_from seen' ops = true.
Proof.
  intros seen s o ops Hag Hc. destruct o as [k|k|k v|ps|ps];
    try (split; [intros k0 v0 v0' HEq; discriminate HEq | exists seen; split; [exact Hag | exact Hc]]).
  simpl in Hc. destruct (alookup k seen) as [w|] eqn:L.
  - apply andb_true_iff in Hc. destruct Hc as [Hvw Hc]. apply blob_eqb_eq in Hvw. subst w.
    assert (Hkv : alookup k (blobs s) = Some v) by (rewrite <- Hag; exact L).
    split.
    + intros k0 v0 v0' HEq Hk0. injection HEq as Hk Hv. subst k0 v0.
      rewrite Hkv in Hk0. injection Hk0 as Hk0. exact Hk0.
    + exists seen. split; [|exact Hc].
      intro k2. simpl. rewrite alookup_aupdate_id by exact Hkv. apply Hag.
  - assert (Hkn : alookup k (blobs s) = None) by (rewrite <- Hag; exact L).
    split.
    + intros k0 v0 v0' HEq Hk0. injection HEq as Hk Hv. subst k0 v0.
      rewrite Hkn in Hk0. discriminate Hk0.
    + exists ((k, v) :: seen). split; [|exact Hc].
      intro k2. simpl. destruct (bytes_eqb k2 k) eqn:E.
      * apply bytes_eqb_eq in E. subst k2. rewrite alookup_aupdate_same. reflexivity.
      * apply bytes_eqb_neq in E. rewrite alookup_aupdate_other by exact E. apply Hag.
Qed.

Lemma lru_transparent_aux : forall cap ops c s seen,
  cache_ok_in c s -> agree seen s -> consistent_from seen ops = true ->
  run_ops (lru_step sstate spec_step cap) (c, s) ops = run_ops spec_step s ops.
Proof.
  intros cap ops. induction ops as [|o r IH]; intros c s seen Hok Hag Hc.
  - reflexivity.
  - destruct (consistent_step _ _ _ _ Hag Hc) as [Hsafe [seen' [Hag' Hc']]].
    destruct (lru_step_sim cap c s o Hok Hsafe) as [c' [Hstep Hok']].
    change (run_ops (lru_step sstate spec_step cap) (c, s) (o :: r))
      with (let '(s', out) := lru_step sstate spec_step cap (c, s) o in
            out :: run_ops (lru_step sstate spec_step cap) s' r).
    change (run_ops spec_step s (o :: r))
      with (let '(s', out) := spec_step s o in out :: run_ops spec_step s' r).
    rewrite Hstep. destruct (spec_step s o) as [s2 out2]. simpl in *.
    f_equal. apply (IH c' s2 seen'); assumption.
Qed.

(* 1. transparency from any state whose cache entries are all held by the store.
   Stated with [cache_ok_in]: the [alookup]-phrased [cache_ok] is not inductive when a cache list
   repeats a key (see [cache_ok_alookup_insufficient] below). *)
Theorem lru_transparent_gen : forall cap ops c s,
  cache_ok_in c s -> consistent_from (blobs s) ops = true ->
  run_ops (lru_step sstate spec_step cap) (c, s) ops = run_ops spec_step s ops.
Proof.
  intros cap ops c s Hok Hc. apply (lru_transparent_aux cap ops c s (blobs s)).
  - exact Hok.
  - intro k. reflexivity.
  - exact Hc.
Qed.

(* the [alookup]-phrased invariant suffices when the cache list has no repeated key *)
Theorem lru_transparent_gen_nodup : forall cap ops c s,
  NoDup (map fst c) -> cache_ok c s -> consistent_from (blobs s) ops = true ->
  run_ops (lru_step sstate spec_step cap) (c, s) ops = run_ops spec_step s ops.
Proof.
  intros cap ops c s ND Hok Hc. apply lru_transparent_gen; [|exact Hc].
  apply cache_ok_nodup_in; assumption.
Qed.

(* ... and not otherwise: a cache list [(k,v1);(k,v2)] over a store holding k->v1 satisfies
   [cache_ok], the first hit moves (k,v1) to the end, the second hit answers v2 *)
Example cache_ok_alookup_insufficient : exists cap c s ops,
  cache_ok c s /\ consistent_from (blobs s) ops = true /\
  run_ops (lru_step sstate spec_step cap) (c, s) ops <> run_ops spec_step s ops.
Proof.
  exists None.
  exists [(bs "k"%string, BVal (bs "1"%string)); (bs "k"%string, BVal (bs "2"%string))].
  exists (SState [(bs "k"%string, BVal (bs "1"%string))] []).
  exists [OFetch (bs "k"%string); OFetch (bs "k"%string)].
  split; [|split].
  - intros k v L. simpl in *.
    destruct (bytes_eqb k ["k"%char]) eqn:E; [exact L | discriminate L].
  - reflexivity.
  - vm_compute. intro H. discriminate H.
Qed.

(* 2. the instance the property talks about *)
Theorem lru_transparent : forall cap ops, consistent ops = true ->
  run_ops (lru_step sstate spec_step cap) ([], sempty) ops = run_ops spec_step sempty ops.
Proof.
  intros cap ops Hc. apply lru_transparent_gen.
  - apply cache_ok_in_nil.
  - exact Hc.
Qed.

(* ------------------------------------------------------------------ *)
(* 3. boundedness                                                      *)
(* ------------------------------------------------------------------ *)

Lemma length_cremove_le : forall k c, List.length (cremove k c) <= List.length c.
Proof.
  intros k c. induction c as [|[k' v'] r IH]; simpl.
  - lia.
  - destruct (bytes_eqb k k'); simpl; lia.
Qed.

Lemma length_cremove_hit : forall k c v,
  alookup k c = Some v -> List.length (cremove k c) + 1 = List.length c.
Proof.
  intros k c v. induction c as [|[k' v'] r IH]; simpl; intro L.
  - discriminate L.
  - (* [key] and [bytes] are convertible but distinct atoms for lia *)
    destruct (bytes_eqb k k'); simpl; unfold key in *.
    + lia.
    + pose proof (IH L) as HIH. lia.
Qed.

Lemma length_evict : forall m (c : cache), List.length (evict m c) = List.length c - m.
Proof.
  intros m. induction m as [|m' IH]; simpl; intro c.
  - lia.
  - rewrite IH. destruct c as [|y r]; simpl; lia.
Qed.

Lemma cget_length : forall k c, List.length (snd (cget k c)) = List.length c.
Proof.
  intros k c. unfold cget. destruct (alookup k c) as [v|] eqn:L; simpl.
  - rewrite app_length. simpl. apply (length_cremove_hit k c v). exact L.
  - reflexivity.
Qed.

Lemma cput_length : forall n k v c, List.length (cput (Some n) k v c) <= n.
Proof.
  intros n k v c. unfold cput. rewrite length_evict. lia.
Qed.

Lemma lru_step_bounded : forall (St : Type) (inner : St -> sop -> St * sout) n st o,
  List.length (fst st) <= n ->
  List.length (fst (fst (lru_step St inner (Some n) st o))) <= n.
Proof.
  intros St inner n [c s] o Hlen. simpl in Hlen.
  destruct o as [k|k|k v|ps|ps].
  - simpl. pose proof (cget_length k c) as Hg.
    destruct (cget k c) as [[w|] c']; simpl in Hg.
    + simpl. lia.
    + destruct (inner s (OHas k)) as [s' out]. simpl. lia.
  - simpl. pose proof (cget_length k c) as Hg.
    destruct (cget k c) as [[w|] c']; simpl in Hg.
    + simpl. lia.
    + destruct (inner s (OFetch k)) as [s' out].
      destruct out as [b|[|b]| | |]; simpl; try lia.
      * destruct (inner_has St inner s' k); simpl; [apply cput_length | lia].
      * apply cput_length.
  - simpl. destruct (inner s (OPut k v)) as [s' out]. simpl. exact Hlen.
  - simpl. destruct (inner s (OSync ps)) as [s' out]. simpl. exact Hlen.
  - simpl. destruct (inner s (OFetchPaths ps)) as [s' out]. simpl. exact Hlen.
Qed.

Theorem lru_bounded : forall (S : Type) (inner : S -> sop -> S * sout) n ops st,
  List.length (fst st) <= n ->
  List.length (fst (fold_left (fun st o => fst (lru_step S inner (Some n) st o)) ops st)) <= n.
Proof.
  intros St inner n ops. induction ops as [|o r IH]; intros st Hlen.
  - exact Hlen.
  - simpl. apply IH. apply lru_step_bounded. exact Hlen.
Qed.

(* ------------------------------------------------------------------ *)
(* 4. option decoding of set_store                                     *)
(* ------------------------------------------------------------------ *)

Theorem decode_spec : forall d,
  decode_cache_objects d CNone = None /\ decode_cache_objects d (CBool false) = None /\
  decode_cache_objects d (CInt 0) = None /\ decode_cache_objects d (CBool true) = Some (Some d) /\
  (forall z, (0 < z)%Z -> decode_cache_objects d (CInt z) = Some (Some (Z.to_nat z))) /\
  (forall z, (z < 0)%Z -> decode_cache_objects d (CInt z) = Some None).
Proof.
  intro d. repeat split.
  - intros z Hz. unfold decode_cache_objects.
    destruct (z <? 0)%Z eqn:E1.
    + apply Z.ltb_lt in E1. lia.
    + destruct (0 <? z)%Z eqn:E2; [reflexivity|]. apply Z.ltb_ge in E2. lia.
  - intros z Hz. unfold decode_cache_objects.
    destruct (z <? 0)%Z eqn:E1; [reflexivity|]. apply Z.ltb_ge in E1. lia.
Qed.

(* ------------------------------------------------------------------ *)
(* 5, 6. non-vacuity and necessity of content addressing                *)
(* ------------------------------------------------------------------ *)

Example consistent_example :
  consistent [OFetch (bs "k"); OPut (bs "k") (BVal (bs "v")); OHas (bs "k"); OFetch (bs "k");
              OPut (bs "k") (BVal (bs "v")); OPut (bs "n") BNone; OFetch (bs "n")] = true.
Proof. vm_compute. reflexivity. Qed.

Example inconsistent_breaks_transparency : exists ops,
  run_ops (lru_step sstate spec_step (Some 1)) ([], sempty) ops <> run_ops spec_step sempty ops.
Proof.
  exists [OPut (bs "k"%string) (BVal (bs "1"%string)); OFetch (bs "k"%string);
          OPut (bs "k"%string) (BVal (bs "2"%string)); OFetch (bs "k"%string)].
  vm_compute. intro H. discriminate H.
Qed.

Print Assumptions lru_transparent_gen.
Print Assumptions lru_transparent.
Print Assumptions lru_bounded.
Print Assumptions decode_spec.
