(* Several processes share ONE inner store, each through its OWN LRU cache wrapper (Lru.v), and their
   operations interleave arbitrarily.  Under content addressing every client still gets exactly the
   answers the bare shared store gives for the same global operation sequence, and every cache stays
   bounded.  Without content addressing two clients can disagree with the bare store. *)
From Coq Require Import List Ascii String Bool Arith Lia.
From DDS Require Import Base.Bytes L4_Eval.Store L5_Stores.Lru L5_Stores.LruProofs.
Import ListNotations.

(* ------------------------------------------------------------------ *)
(* the model                                                           *)
(* ------------------------------------------------------------------ *)

(* one cache per client (clients are numbered by position), one shared inner store *)
Definition mstate := (list cache * sstate)%type.
(* an operation issued by a client *)
Definition mop := (nat * sop)%type.

(* replace position i (a list shorter than i+1 is left unchanged) *)
Fixpoint set_nth {A : Type} (i : nat) (x : A) (l : list A) {struct l} : list A :=
  match l with
  | [] => []
  | y :: r => match i with O => x :: r | S j => y :: set_nth j x r end
  end.

(* Client i runs one step of ITS wrapper (its own cache) against the shared inner state; both its cache
   and the inner state are written back.  CHOICE for an out-of-range client index: it has no cache and
   talks to the bare store directly.  The main theorems below nevertheless carry (or do not need) the
   hypothesis "client < number of clients", so they do not depend on this choice. *)
Definition multi_step (cap : option nat) (st : mstate) (io : mop) : mstate * sout :=
  let '(cs, s) := st in
  let '(i, o) := io in
  match nth_error cs i with
  | Some c =>
      let '((c', s'), out) := lru_step sstate spec_step cap (c, s) o in
      ((set_nth i c' cs, s'), out)
  | None =>
      let '(s', out) := spec_step s o in ((cs, s'), out)
  end.

(* the outputs of a global sequence, in order *)
Fixpoint multi_run (cap : option nat) (st : mstate) (ops : list mop) : list sout :=
  match ops with
  | [] => []
  | io :: r => let '(st', out) := multi_step cap st io in out :: multi_run cap st' r
  end.

(* the final state of a global sequence *)
Definition multi_exec (cap : option nat) (st : mstate) (ops : list mop) : mstate :=
  fold_left (fun st io => fst (multi_step cap st io)) ops st.

(* n clients, all with an empty cache, over the empty store *)
Definition minit (n : nat) : mstate := (repeat ([] : cache) n, sempty).

(* every operation is issued by one of the n clients *)
Definition clients_below (n : nat) (ops : list mop) : Prop :=
  Forall (fun io => fst io < n) ops.

(* the invariant: every entry of every client's cache is what the shared store holds *)
Definition all_ok (cs : list cache) (s : sstate) : Prop :=
  Forall (fun c => cache_ok_in c s) cs.

(* ------------------------------------------------------------------ *)
(* set_nth                                                             *)
(* ------------------------------------------------------------------ *)

Lemma set_nth_length : forall (A : Type) i (x : A) l, List.length (set_nth i x l) = List.length l.
Proof.
  intros A i x l. revert i. induction l as [|y r IH]; intros i; simpl.
  - reflexivity.
  - destruct i as [|j]; simpl; [reflexivity|]. rewrite IH. reflexivity.
Qed.

Lemma Forall_set_nth : forall (A : Type) (P : A -> Prop) i x l,
  Forall P l -> P x -> Forall P (set_nth i x l).
Proof.
  intros A P i x l HF Hx. revert i. induction HF as [|y r Hy HF IH]; intros i; simpl.
  - constructor.
  - destruct i as [|j]; constructor; try assumption. apply IH.
Qed.

Lemma Forall_nth_error : forall (A : Type) (P : A -> Prop) l i x,
  Forall P l -> nth_error l i = Some x -> P x.
Proof.
  intros A P l i x HF E. apply nth_error_In in E.
  rewrite Forall_forall in HF. apply HF. exact E.
Qed.

(* ------------------------------------------------------------------ *)
(* a step of the shared store keeps every OTHER client's cache valid    *)
(* ------------------------------------------------------------------ *)

(* the inner blobs only change by OPut k v, and v is what the store already holds for k (put_safe) *)
Lemma cache_ok_in_spec_step : forall c s o,
  cache_ok_in c s -> put_safe s o -> cache_ok_in c (fst (spec_step s o)).
Proof.
  intros c s o Hok Hsafe. destruct o as [k|k|k v|ps|ps]; simpl; try exact Hok.
  intros k2 v2 HIn. simpl.
  assert (Hk2 : alookup k2 (blobs s) = Some v2) by (apply Hok; exact HIn).
  destruct (bytes_eqb k2 k) eqn:E.
  - apply bytes_eqb_eq in E. subst k2.
    rewrite (Hsafe k v v2 eq_refl Hk2). apply alookup_aupdate_same.
  - apply bytes_eqb_neq in E. rewrite alookup_aupdate_other by exact E. exact Hk2.
Qed.

Lemma all_ok_spec_step : forall cs s o,
  all_ok cs s -> put_safe s o -> all_ok cs (fst (spec_step s o)).
Proof.
  intros cs s o Hall Hsafe. unfold all_ok in *.
  rewrite Forall_forall in *. intros c HIn.
  apply cache_ok_in_spec_step; [apply Hall; exact HIn | exact Hsafe].
Qed.

Lemma all_ok_repeat_nil : forall n s, all_ok (repeat ([] : cache) n) s.
Proof.
  intros n s. unfold all_ok. rewrite Forall_forall. intros c HIn.
  apply repeat_spec in HIn. subst c. apply cache_ok_in_nil.
Qed.

(* ------------------------------------------------------------------ *)
(* one global step simulates one step of the bare shared store          *)
(* ------------------------------------------------------------------ *)

Lemma multi_step_sim : forall cap cs s i o,
  all_ok cs s -> put_safe s o ->
  exists cs',
    multi_step cap (cs, s) (i, o) = ((cs', fst (spec_step s o)), snd (spec_step s o))
    /\ all_ok cs' (fst (spec_step s o))
    /\ List.length cs' = List.length cs.
Proof.
  intros cap cs s i o Hall Hsafe. unfold multi_step.
  destruct (nth_error cs i) as [c|] eqn:E.
  - assert (Hc : cache_ok_in c s) by (exact (Forall_nth_error _ _ _ _ _ Hall E)).
    destruct (lru_step_sim cap c s o Hc Hsafe) as [c' [Hstep Hok']].
    rewrite Hstep. exists (set_nth i c' cs). split; [reflexivity|]. split.
    + apply Forall_set_nth; [|exact Hok'].
      apply all_ok_spec_step; assumption.
    + apply set_nth_length.
  - exists cs. destruct (spec_step s o) as [s2 out2] eqn:Es. simpl.
    split; [reflexivity|]. split; [|reflexivity].
    replace s2 with (fst (spec_step s o)) by (rewrite Es; reflexivity).
    apply all_ok_spec_step; assumption.
Qed.

Lemma multi_run_cons : forall cap st io r,
  multi_run cap st (io :: r) =
  let '(st', out) := multi_step cap st io in out :: multi_run cap st' r.
Proof. reflexivity. Qed.

Lemma run_ops_cons : forall s o r,
  run_ops spec_step s (o :: r) =
  let '(s', out) := spec_step s o in out :: run_ops spec_step s' r.
Proof. reflexivity. Qed.

Lemma lru_multi_transparent_aux : forall cap ops cs s seen,
  all_ok cs s -> agree seen s -> consistent_from seen (map snd ops) = true ->
  multi_run cap (cs, s) ops = run_ops spec_step s (map snd ops).
Proof.
  intros cap ops. induction ops as [|[i o] r IH]; intros cs s seen Hall Hag Hc.
  - reflexivity.
  - change (map snd ((i, o) :: r)) with (o :: map snd r) in *.
    destruct (consistent_step _ _ _ _ Hag Hc) as [Hsafe [seen' [Hag' Hc']]].
    destruct (multi_step_sim cap cs s i o Hall Hsafe) as [cs' [Hstep [Hall' _]]].
    rewrite multi_run_cons, run_ops_cons. rewrite Hstep.
    destruct (spec_step s o) as [s2 out2]. simpl in *.
    f_equal. apply (IH cs' s2 seen'); assumption.
Qed.

(* ------------------------------------------------------------------ *)
(* 1. transparency                                                     *)
(* ------------------------------------------------------------------ *)

(* From ANY state in which every entry of every cache is what the shared store holds, and for ANY
   interleaving (the client indices are unconstrained: an index without a cache talks to the bare
   store).  Content addressing is required relative to what the store already holds. *)
Theorem lru_multi_transparent_gen : forall cap ops cs s,
  all_ok cs s -> consistent_from (blobs s) (map snd ops) = true ->
  multi_run cap (cs, s) ops = run_ops spec_step s (map snd ops).
Proof.
  intros cap ops cs s Hall Hc. apply (lru_multi_transparent_aux cap ops cs s (blobs s)).
  - exact Hall.
  - intro k. reflexivity.
  - exact Hc.
Qed.

(* the [alookup]-phrased invariant [cache_ok] suffices when no cache list repeats a key (it is not
   inductive otherwise: LruProofs.cache_ok_alookup_insufficient) *)
Theorem lru_multi_transparent_gen_nodup : forall cap ops cs s,
  Forall (fun c => NoDup (map fst c) /\ cache_ok c s) cs ->
  consistent_from (blobs s) (map snd ops) = true ->
  multi_run cap (cs, s) ops = run_ops spec_step s (map snd ops).
Proof.
  intros cap ops cs s HF Hc. apply lru_multi_transparent_gen; [|exact Hc].
  unfold all_ok. rewrite Forall_forall in *. intros c HIn.
  destruct (HF c HIn) as [ND Hok]. apply cache_ok_nodup_in; assumption.
Qed.

(* the instance the property talks about: n clients starting with empty caches over the empty store,
   every operation issued by one of them *)
Theorem lru_multi_transparent : forall cap n ops,
  clients_below n ops -> consistent (map snd ops) = true ->
  multi_run cap (minit n) ops = run_ops spec_step sempty (map snd ops).
Proof.
  intros cap n ops _ Hc. unfold minit. apply lru_multi_transparent_gen.
  - apply all_ok_repeat_nil.
  - exact Hc.
Qed.

Lemma multi_exec_cons : forall cap st io r,
  multi_exec cap st (io :: r) = multi_exec cap (fst (multi_step cap st io)) r.
Proof. reflexivity. Qed.

(* the shared store itself ends in the state the bare store would be in, and no client appears or
   disappears *)
Theorem lru_multi_inner_state : forall cap ops cs s,
  all_ok cs s -> consistent_from (blobs s) (map snd ops) = true ->
  snd (multi_exec cap (cs, s) ops) = fold_left (fun s o => fst (spec_step s o)) (map snd ops) s
  /\ List.length (fst (multi_exec cap (cs, s) ops)) = List.length cs
  /\ all_ok (fst (multi_exec cap (cs, s) ops)) (snd (multi_exec cap (cs, s) ops)).
Proof.
  intros cap ops cs s Hall Hc.
  assert (Hag : agree (blobs s) s) by (intro k; reflexivity).
  revert Hc Hag. generalize (blobs s) as seen. intros seen Hc Hag.
  revert cs s seen Hall Hc Hag.
  induction ops as [|[i o] r IH]; intros cs s seen Hall Hc Hag.
  - simpl. split; [reflexivity|]. split; [reflexivity | exact Hall].
  - change (map snd ((i, o) :: r)) with (o :: map snd r) in *.
    destruct (consistent_step _ _ _ _ Hag Hc) as [Hsafe [seen' [Hag' Hc']]].
    destruct (multi_step_sim cap cs s i o Hall Hsafe) as [cs' [Hstep [Hall' Hlen]]].
    rewrite multi_exec_cons, Hstep. cbn [fst fold_left].
    rewrite <- Hlen. apply (IH cs' (fst (spec_step s o)) seen'); assumption.
Qed.

(* ------------------------------------------------------------------ *)
(* 2. boundedness of every client's cache                              *)
(* ------------------------------------------------------------------ *)

Definition all_bounded (n : nat) (cs : list cache) : Prop :=
  Forall (fun c : cache => List.length c <= n) cs.

Lemma multi_step_bounded : forall n st io,
  all_bounded n (fst st) -> all_bounded n (fst (fst (multi_step (Some n) st io))).
Proof.
  intros n [cs s] [i o] HF. simpl in HF. unfold multi_step.
  destruct (nth_error cs i) as [c|] eqn:E.
  - assert (Hc : List.length c <= n) by (exact (Forall_nth_error _ _ _ _ _ HF E)).
    pose proof (lru_step_bounded sstate spec_step n (c, s) o Hc) as Hb.
    destruct (lru_step sstate spec_step (Some n) (c, s) o) as [[c' s'] out]. simpl in *.
    apply Forall_set_nth; assumption.
  - destruct (spec_step s o) as [s' out]. simpl. exact HF.
Qed.

Lemma multi_step_clients : forall cap st io,
  List.length (fst (fst (multi_step cap st io))) = List.length (fst st).
Proof.
  intros cap [cs s] [i o]. unfold multi_step.
  destruct (nth_error cs i) as [c|].
  - destruct (lru_step sstate spec_step cap (c, s) o) as [[c' s'] out]. simpl.
    apply set_nth_length.
  - destruct (spec_step s o) as [s' out]. reflexivity.
Qed.

(* for ANY global sequence (content addressing is not needed), from caches of at most n entries:
   every client's cache has at most n entries afterwards, and the number of clients is unchanged *)
Theorem lru_multi_bounded : forall n ops st,
  all_bounded n (fst st) ->
  all_bounded n (fst (multi_exec (Some n) st ops))
  /\ List.length (fst (multi_exec (Some n) st ops)) = List.length (fst st).
Proof.
  intros n ops. unfold multi_exec. induction ops as [|io r IH]; intros st HF.
  - split; [exact HF | reflexivity].
  - simpl. destruct (IH (fst (multi_step (Some n) st io))) as [Hb Hl].
    + apply multi_step_bounded. exact HF.
    + split; [exact Hb|]. rewrite Hl. apply multi_step_clients.
Qed.

(* the instance from the initial state: each of the m clients holds at most n entries *)
Corollary lru_multi_bounded_init : forall n m ops,
  all_bounded n (fst (multi_exec (Some n) (minit m) ops))
  /\ List.length (fst (multi_exec (Some n) (minit m) ops)) = m.
Proof.
  intros n m ops. destruct (lru_multi_bounded n ops (minit m)) as [Hb Hl].
  - unfold minit, all_bounded. simpl. rewrite Forall_forall. intros c HIn.
    apply repeat_spec in HIn. subst c. simpl. lia.
  - split; [exact Hb|]. rewrite Hl. unfold minit. simpl. apply repeat_length.
Qed.

(* ------------------------------------------------------------------ *)
(* 3. non-vacuity, and necessity of content addressing                  *)
(* ------------------------------------------------------------------ *)

(* a consistent two-client history in which both caches are really used *)
Example multi_consistent_example :
  let ops := [(1, OPut (bs "k") (BVal (bs "1"))); (0, OFetch (bs "k")); (1, OFetch (bs "k"));
              (0, OPut (bs "k") (BVal (bs "1"))); (0, OFetch (bs "k")); (1, OHas (bs "k"));
              (0, OFetch (bs "absent")); (1, OPut (bs "n") BNone); (0, OFetch (bs "n"))] in
  clients_below 2 ops /\ consistent (map snd ops) = true /\
  fst (multi_exec (Some 1) (minit 2) ops) = [[(bs "n", BNone)]; [(bs "k", BVal (bs "1"))]].
Proof.
  split; [|split].
  - repeat constructor.
  - vm_compute. reflexivity.
  - vm_compute. reflexivity.
Qed.

(* Without content addressing two clients disagree with the bare store: client 0 fetches k (and caches
   the value), client 1 overwrites k with another value, client 0 fetches k again and is answered from
   its own cache.  Whatever the capacity >= 1 (here: unbounded). *)
Example lru_multi_needs_content_addressing : exists ops,
  clients_below 2 ops /\
  multi_run None (minit 2) ops <> run_ops spec_step sempty (map snd ops).
Proof.
  exists [(1, OPut (bs "k"%string) (BVal (bs "1"%string))); (0, OFetch (bs "k"%string));
          (1, OPut (bs "k"%string) (BVal (bs "2"%string))); (0, OFetch (bs "k"%string))].
  split.
  - repeat constructor.
  - vm_compute. intro H. discriminate H.
Qed.

Print Assumptions lru_multi_transparent_gen.
Print Assumptions lru_multi_transparent_gen_nodup.
Print Assumptions lru_multi_transparent.
Print Assumptions lru_multi_inner_state.
Print Assumptions lru_multi_bounded.
Print Assumptions lru_multi_bounded_init.
Print Assumptions lru_multi_needs_content_addressing.
