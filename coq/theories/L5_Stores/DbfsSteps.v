(* The DBFS store at the granularity of single dbutils write calls (dds/codecs/databricks.py): store_blob uploads the blob and
   then puts its metadata (the commit marker that has_blob tests); sync_paths under 'full' copies the blob to the data
   directory and then puts the redirect record, under 'links only' it only puts the record.  A fault or a kill can stop an
   operation after any of its writes.  The harness (harness/c19.py, write traces) compares [show_steps (steps_of_op ..)] with
   the sequence of mutating dbutils calls the real store makes for the same operation. *)
From Coq Require Import List Ascii String Bool Arith.
From DDS Require Import Base.Bytes L4_Eval.Store L5_Stores.Dbfs L5_Stores.DbfsHist.
Import ListNotations.
Local Open Scope string_scope.

Definition meta_uri (s : dstore) (k : bytes) : bytes := (blob_uri s k ++ bs ".meta")%list.
Definition meta_content : bytes := bs "{meta}".     (* protocol reference and timestamp: not interpreted here *)

Inductive wstep :=
| WBlob (k c : bytes)               (* cp <local file> -> blobs/k *)
| WMeta (k : bytes)                 (* put blobs/k.meta *)
| WCopy (p : list bytes) (k : bytes)   (* cp blobs/k -> <data>/p *)
| WRecord (p : list bytes) (k : bytes). (* put <data>/_dds_meta/p *)

Definition apply_step (s : dstore) (fs : rfs) (w : wstep) : rfs :=
  match w with
  | WBlob k c => aupdate (blob_uri s k) c fs
  | WMeta k => aupdate (meta_uri s k) meta_content fs
  | WCopy p k => match alookup (blob_uri s k) fs with Some c => aupdate (obj_uri s p) c fs | None => fs end
  | WRecord p k => aupdate (redir_uri s p) (record_of k) fs
  end.
Definition apply_steps (s : dstore) (fs : rfs) (ws : list wstep) : rfs := fold_left (apply_step s) ws fs.

(* the writes of one (path, key) of sync_paths in state fs *)
Definition steps_of_item (s : dstore) (fs : rfs) (item : list bytes * bytes) : list wstep :=
  let '(p, k) := item in
  let stale := match alookup (redir_uri s p) fs with Some r => negb (bytes_eqb r (record_of k)) | None => true end in
  match d_ct s with
  | CNone => []
  | CFull => if stale then [WCopy p k; WRecord p k] else []
  | CLink => if stale then [WRecord p k] else []
  end.
(* sync_paths: the items in order, each in the state its predecessors left (the call stops at the first item that raises) *)
Fixpoint steps_of_items (s : dstore) (fs : rfs) (items : list (list bytes * bytes)) : list wstep :=
  match items with
  | [] => []
  | it :: r => if sync_one_ok s fs it
               then let ws := steps_of_item s fs it in (ws ++ steps_of_items s (apply_steps s fs ws) r)%list
               else []
  end.
Definition steps_of_op (s : dstore) (fs : rfs) (o : dop) : list wstep :=
  match o with
  | DBlob k c => [WBlob k c; WMeta k]
  | DSync items => steps_of_items s fs items
  end.

(* a history of complete operations *)
Fixpoint run_steps (s : dstore) (fs : rfs) (ops : list dop) : rfs :=
  match ops with
  | [] => fs
  | o :: r => run_steps s (apply_steps s fs (steps_of_op s fs o)) r
  end.
(* ... followed by an operation that stops after its first n writes (fault, kill) *)
Definition run_interrupted (s : dstore) (ops : list dop) (last : dop) (n : nat) : rfs :=
  let fs := run_steps s [] ops in apply_steps s fs (firstn n (steps_of_op s fs last)).

(* the state without the metadata files: what DbfsHist.v tracks *)
Definition is_meta (u : bytes) : bool :=
  let m := bs ".meta" in
  let n := List.length u in bytes_eqb (skipn (n - List.length m) u) m.
Definition erase_meta (fs : rfs) : rfs := filter (fun e => negb (is_meta (fst e))) fs.

(* has_blob: the metadata is the commit marker *)
Definition has_blob (s : dstore) (fs : rfs) (k : bytes) : bool :=
  match alookup (meta_uri s k) fs with Some _ => true | None => false end.

(* ---- rendering for the harness *)
Definition show_step (s : dstore) (w : wstep) : bytes :=
  match w with
  | WBlob k _ => (bs "cp>" ++ tohex (blob_uri s k))%list
  | WMeta k => (bs "put>" ++ tohex (meta_uri s k))%list
  | WCopy p k => (bs "cp>" ++ tohex (obj_uri s p))%list
  | WRecord p k => (bs "put>" ++ tohex (redir_uri s p))%list
  end.
Definition show_steps (s : dstore) (ws : list wstep) : bytes := join (bs ",") (map (show_step s) ws).
(* the writes of every operation of a history, one group per operation *)
Fixpoint trace_groups (s : dstore) (fs : rfs) (ops : list dop) : list bytes :=
  match ops with
  | [] => []
  | o :: r => let ws := steps_of_op s fs o in show_steps s ws :: trace_groups s (apply_steps s fs ws) r
  end.
Definition run_trace (s : dstore) (ops : list dop) : string := show (join (bs ";") (trace_groups s [] ops)).

(* ---- side conditions (decidable) *)
Definition op_keys (o : dop) : list bytes :=
  match o with DBlob k _ => [k] | DSync items => map snd items end.
Definition op_paths (o : dop) : list (list bytes) :=
  match o with DBlob _ _ => [] | DSync items => map fst items end.
(* keys are hexadecimal digests (in particular none ends with ".meta") and paths are well formed *)
Definition op_wf (o : dop) : bool := forallb all_hex (op_keys o) && forallb wf_path (op_paths o).
Definition ops_wf (ops : list dop) : bool := forallb op_wf ops.
