(* The decoding of set_store(cache_objects=...) REGENERATED from dds/_api.py by harness/translate_py.py
   (Extracted/GenCacheOpt.v) is the hand-written model Lru.decode_cache_objects, and it never raises on a
   cache_opt (None, a bool, an int).  Not regenerated.
   The model has no input for "a value of another type" (the code raises DDSException): see DESIGN. *)
From Coq Require Import List ZArith Bool.
From DDS Require Import Base.Bytes Base.PyRt L5_Stores.Lru Extracted.GenCacheOpt.

Theorem gen_decode_cache_objects_eq : forall d o,
  gen_decode_cache_objects d o = DVal (decode_cache_objects d o).
Proof.
  (* None / True / False / 0 / a positive int / a negative int: every comparison with 0 computes *)
  intros d o. destruct o as [|[|]|[|p|p]]; reflexivity.
Qed.
