(* Faithful model of how the stores map a dds path to a location (dds/store.py: path_segments, LocalFileStore.sync_paths /
   fetch_paths; dds/codecs/databricks.py), and of how the file system resolves the resulting name. *)
From Coq Require Import List Ascii String Bool Arith.
From DDS Require Import Base.Bytes Extracted.ConstStore.
Import ListNotations.

Fixpoint split_slash (l : bytes) (cur : bytes) : list bytes :=
  match l with
  | [] => [rev cur]
  | c :: r => if Ascii.eqb c "/"%char then rev cur :: split_slash r [] else split_slash r (c :: cur)
  end.
Definition nonempty (s : bytes) : bool := negb (Nat.eqb (List.length s) 0).
(* [s for s in path.split("/") if s] *)
Definition segments (p : bytes) : list bytes := filter nonempty (split_slash p []).

Definition forbidden : list bytes := map bs c_forbidden_segments.     (* ".", ".." *)
Definition is_forbidden (s : bytes) : bool := existsb (bytes_eqb s) forbidden.

(* path_segments: None = DDSException STORE_PATH_NOT_SUPPORTED *)
Definition path_segments (p : bytes) : option (list bytes) :=
  let s := segments p in
  if Nat.eqb (List.length s) 0 || existsb is_forbidden s then None else Some s.

(* the name handed to the file system: os.path.join(data_root, *segments), as a list of components *)
Definition loc_of (data_root : list bytes) (p : bytes) : option (list bytes) :=
  match path_segments p with Some s => Some (data_root ++ s) | None => None end.

(* how the kernel resolves a list of components lexically (no symbolic links on the way): "." stays, ".." goes up *)
Fixpoint resolve_from (stack : list bytes) (comps : list bytes) : list bytes :=
  match comps with
  | [] => rev stack
  | c :: r =>
    if bytes_eqb c (bs ".") then resolve_from stack r
    else if bytes_eqb c (bs "..") then resolve_from (tl stack) r
    else resolve_from (c :: stack) r
  end.
Definition resolve (comps : list bytes) : list bytes := resolve_from [] comps.

(* the pinned implementation (before fix d39b068): os.path.split followed by the removal of every "/" *)
Definition strip_slash (s : bytes) : bytes := filter (fun c => negb (Ascii.eqb c "/"%char)) s.
Definition os_path_split (p : bytes) : bytes * bytes :=
  (* head = everything before the last "/" (with trailing slashes removed unless it is all slashes), tail = the rest *)
  let parts := split_slash p [] in
  let tail := last parts [] in
  let head_parts := removelast parts in
  (join (bs "/") head_parts, tail).
Definition loc_of_pinned (data_root : list bytes) (p : bytes) : list bytes :=
  let '(h, t) := os_path_split p in data_root ++ [strip_slash h; strip_slash t].

Definition no_dots (l : list bytes) : bool := negb (existsb is_forbidden l).
