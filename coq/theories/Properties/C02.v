(* C02 - nothing is recomputed unless something it depends on changed.  Proofs: L3_Sig/SigProofs.v *)
From Coq Require Import List ZArith NArith.
From DDS Require Import Base.Bytes L0_Hash.PyVal L1_Args.ArgCtx L3_Sig.Program L3_Sig.Sig L4_Eval.Stages L4_Eval.DdsEval
     L3_Sig.SigSpec L3_Sig.SigProofs.
Import ListNotations.

(* Re-evaluation: when every requested key already has a blob, running the pipeline inside the evaluation executes only
   bodies reached through plain calls - no body behind a dds.keep or a data function - and writes nothing. *)
Theorem C02_rerun_executes_no_kept_body : forall f pvals s sp,
  all_keys_present sp s -> paths_in_fn sp f ->
  let '(o, s') := exec_fn (Dds sp) f pvals s in
  s_blobs s' = s_blobs s /\ exists l, s_log s' = s_log s ++ l /\ incl l (plain_tags_fn f).
Proof. exact rerun_executes_no_kept_body. Qed.
Print Assumptions C02_rerun_executes_no_kept_body.

(* A kept root that is in the store is served without executing anything. *)
Theorem C02_root_hit_executes_nothing : forall H mx c f sty pos kw s x sp v,
  analysis H mx c f sty pos kw s = inr (x, sp) -> has_stage Eval (c_stages c) = true ->
  blookup (fi_sig x) (s_blobs s) = Some v ->
  fst (dds_call H mx c f sty pos kw s) = Ret v /\ s_log (snd (dds_call H mx c f sty pos kw s)) = s_log s /\
  s_blobs (snd (dds_call H mx c f sty pos kw s)) = s_blobs s.
Proof. exact root_hit_executes_nothing. Qed.
Print Assumptions C02_root_hit_executes_nothing.

(* Locality: the signatures are a function of the program tree (the dependency cone of DESIGN.md 4.1) only.  What is not
   in the tree cannot matter: unrelated definitions, order of definitions, non-accepted code, the hash seed...  What IS
   in the tree but must not matter: *)
(* (a) where the code lives - every function may get another canonical path (module moved, renamed, copied) *)
Theorem C02_signatures_independent_of_location : forall H mx r f A R x R',
  ana H mx f A R = inr (x, R') ->
  exists x', ana H mx (rename_fn r f) A R = inr (x', R') /\ all_store_paths x' = all_store_paths x /\ fi_sig x' = fi_sig x.
Proof. exact store_paths_name_independent. Qed.
Print Assumptions C02_signatures_independent_of_location.

(* (b) the call site, for a callee whose parameters are all bound to hashable values - in particular zero-argument data
   functions: an edit outside their own cone cannot change their signature or that of anything below them *)
Theorem C02_context_free_when_args_known : forall H mx f named k1 k2 R,
  all_known named = true -> ana H mx f (named, k1) R = ana H mx f (named, k2) R.
Proof. exact ctx_free_when_args_known. Qed.
Print Assumptions C02_context_free_when_args_known.
