(* C08 (translator route) - MemoryStore regenerated from /repo's source (Extracted/GenMemStore.v) IS the dictionary
   specification of a store (L4_Eval/Store.v), for every operation and every operation sequence. *)
From Coq Require Import List ZArith String.
From DDS Require Import Base.Bytes Base.PyRt L4_Eval.Store Extracted.GenMemStore L5_Stores.GenMemStoreProofs.
Import ListNotations.
Local Open Scope string_scope.

Theorem GEN_memory_store_step : forall s o, gen_mem_step s o = spec_step s o.
Proof. exact gen_mem_step_is_spec. Qed.
Print Assumptions GEN_memory_store_step.

Theorem GEN_memory_store_is_dictionary : forall ops s,
  run_ops gen_mem_step s ops = run_ops spec_step s ops.
Proof. exact gen_mem_run_is_spec. Qed.
Print Assumptions GEN_memory_store_is_dictionary.

(* non-vacuity: a sequence with an overwrite, a commit, a query with a repeated path and a query of a missing path *)
Example GEN_memory_store_example :
  run_ops gen_mem_step sempty [OPut (bs "k") (BVal (bs "v")); OSync [(bs "/p", bs "k"); (bs "/q", bs "k")]; OFetchPaths [bs "/q"; bs "/p"; bs "/q"];
                                OFetchPaths [bs "/p"; bs "/zz"]; OFetch (bs "k"); OFetch (bs "absent"); OHas (bs "k")]
  = [RUnit; RUnit; RPaths [(bs "/q", bs "k"); (bs "/p", bs "k")]; RErr; RBlob (BVal (bs "v")); RBlob BNone; RBool true].
Proof. vm_compute. reflexivity. Qed.
