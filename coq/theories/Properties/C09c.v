(* C09 (c) - soundness of signatures for programs WITH dds.load.
   Proofs: L4_Eval/SoundnessLoadA.v (plain meaning with loads, Theorem A with loads), L4_Eval/SoundnessLoad.v (the
   evaluation state machine, histories, corollaries, findings, example).  Nothing is an Axiom: hypotheses are premises,
   bundled in [luniv_ok] (Theorem A) and [lbase_ok] (evaluation, histories).

   THE PLAIN MEANING WITH LOADS.  [pvl_fn f pvals kept] threads [kept : path -> option value] = the value most recently
   kept at each path in program order: dds.keep(p, ..) and data-function calls update it, dds.load(p) reads it (absent:
   the plain program fails).  It is exactly DdsEval.exec_fn Plain seen through the s_kept component of the state
   (C09_plain_with_loads_is_reference).  An evaluation starts from [kept0 s]: what the committed paths of the store serve.

   HYPOTHESES IN WORDS, beyond those of C01c ([univ_ok] without call_args_ok: closed, wf_fn, text -> skeleton, prefix ->
   skeleton, injective line / value hashing; the skeleton now includes the decorator path of a function and the literal
   paths of dds.keep / dds.load):
   [luniv_ok] (Theorem A with loads)
   - l_wf: SoundnessLoadA.lwf_fn, for every function of the universe:
       * no apply(g) (executed a second time, never analysed: its loads would read another environment);
       * dds.keep(p, g, ..): g is not itself a data function (one node, two paths);
       * a by-name mention of g that is not a call registers no path (reg_fn g = []).  FINDING F33 (found by this proof,
         reproduced on the real library, REPAIRED by a fix in /repo): the analysis walks the mention as a pseudo-call,
         registers the paths kept below g and accepts a later dds.load of one of them; nothing produces the path.  The load
         used to return None silently; since the fix dds.load of a requested path that has no blob yet raises
         LOAD_BEFORE_STORE (the model follows: DdsEval.exec_step).  C09_byname_producer_rejected.  The program is now
         rejected, but its outcome is still not the plain one (plainly: the error of a never-produced path), so the
         hypothesis stays.
       * the methods of a class other than the first register no path (analysed, not executed: same phenomenon);
       * a body does not keep a path after loading it (such an evaluation is rejected or keeps a path twice anyway).
   - l_root / l_ext_fun / l_ext_leaf: the references fetched from the store for a top-level call are served by the
     store, a stored signature denotes one value and is a leaf of signature terms (discharged by the store invariant).
   [lbase_ok] (evaluation machine) adds
   - b_kwf: kept nodes are FLAT - nothing is kept below a kept node (RESTRICTION of this development, see below);
   - b_root: the top-level function is not itself stored (dds.eval of a plain function).  FINDING F34 (found by this
     proof, reproduced, REPAIRED by the same fix): dds.keep('/p', f) at top level where f loads '/p' was accepted and the
     load returned None; it now fails with LOAD_BEFORE_STORE and changes nothing.  C09_root_keep_self_load_rejected.
     Plainly f reads the previously committed value, so the outcome is still not the plain one: the hypothesis stays.
   - b_root_text: the text of a top-level function is not the text of a kept function of the universe;
   - b_inj: injective rendering on the signature terms of the universe (the cryptographic idealisation);
   - per evaluation, decidable on the analysed tree: b_coherent (no path kept with two signatures: F12/F26) and
     b_ext_disjoint (a path whose reference is fetched from the store is not produced by the evaluation: true with the
     whole-tree pre-pass; the pinned behaviour is F08 / F10b).
   WHAT REMAINS: kept nodes with kept nodes below them (needs a closure invariant of the store: the blobs of the nodes
   below a stored node are stored - true of the model, not proved), stored top-level functions (same invariant), apply(g).
   Suspects: by-name pseudo-call producing a path - F33 (repaired); a path loaded twice around a re-keep - needs the path
   kept twice: F12, excluded by b_coherent; a path kept LATER than it is loaded - rejected (C09_load_before_keep_rejected);
   loads in classes - fine in the first method, the other methods must register nothing; dangling committed path -
   excluded by the invariant [PathsOK], which the theorem maintains (F33 / F34 were the ways to create one). *)
From Coq Require Import List String ZArith NArith.
From DDS Require Import Base.Bytes L0_Hash.PyVal L0_Hash.DdsHash L1_Args.ArgCtx L3_Sig.Program L3_Sig.Sig L3_Sig.SigTree
     L3_Sig.SigTreeProofs L4_Eval.Stages L4_Eval.DdsEval L4_Eval.EvalSpec L4_Eval.EvalProofs
     L4_Eval.SoundnessDefs L4_Eval.SoundnessA L4_Eval.Soundness L4_Eval.SoundnessLoadA L4_Eval.SoundnessLoad.
Import ListNotations.

(* 1. The plain meaning with loads is the reference execution of DdsEval.v. *)
Theorem C09_plain_with_loads_is_reference : forall f pvals s k, klink s k ->
  fst (exec_fn Plain f pvals s) = fst (pvl_fn f pvals k) /\
  klink (snd (exec_fn Plain f pvals s)) (snd (pvl_fn f pvals k)) /\
  same_store s (snd (exec_fn Plain f pvals s)).
Proof. exact exec_plain_pvl. Qed.
Print Assumptions C09_plain_with_loads_is_reference.

(* frame properties: what an analysis / an execution leaves alone *)
Theorem C09_analysis_frame : forall hv hl f A R c R1, cana hv hl f A R = inr (c, R1) ->
  forall p, ~ In p (reg_fn f) -> srlookup p R1 = srlookup p R.
Proof. exact cana_frame. Qed.
Print Assumptions C09_analysis_frame.
Theorem C09_execution_frame : forall f pv k p, ~ In p (reg_fn f) -> snd (pvl_fn f pv k) p = k p.
Proof. exact pvl_frame. Qed.
Print Assumptions C09_execution_frame.

(* 2. THEOREM A WITH LOADS: the content (which records, for every load, the path and the signature found there)
   determines the plain outcome, for consistent nodes ([LCons]: as Cons, plus the resolved references R and the kept
   environment k at the node). *)
Theorem C09_content_determines_value_loads : forall hv hl UVal U RootL Ext, luniv_ok hv hl UVal U RootL Ext ->
  forall g g' A A' R R' pv pv' k k' c R1 R1',
  LCons hv hl RootL g A R pv k -> LCons hv hl RootL g' A' R' pv' k' ->
  cana hv hl g A R = inr (c, R1) -> cana hv hl g' A' R' = inr (c, R1') ->
  fst (pvl_fn g pv k) = fst (pvl_fn g' pv' k').
Proof. exact content_determines_value_loads. Qed.
Print Assumptions C09_content_determines_value_loads.

(* every resolved reference of a consistent node is served - by the store or by a consistent producer node - and a
   signature serves one value *)
Theorem C09_references_served : forall hv hl UVal U RootL Ext, luniv_ok hv hl UVal U RootL Ext ->
  forall g A R pv k, LCons hv hl RootL g A R pv k -> Resp hv hl RootL Ext R k.
Proof. exact LCons_Resp. Qed.
Print Assumptions C09_references_served.
Theorem C09_served_functional : forall hv hl UVal U RootL Ext, luniv_ok hv hl UVal U RootL Ext ->
  forall sg v v', Served hv hl RootL Ext sg v -> Served hv hl RootL Ext sg v' -> v = v'.
Proof. exact Served_functional. Qed.
Print Assumptions C09_served_functional.

(* 3. a store key denotes one value *)
Theorem C09_denotation_functional : forall H mx UVal U RootCall, lbase_ok H mx UVal U RootCall ->
  forall k v v', Den H mx RootCall k v -> Den H mx RootCall k v' -> v = v'.
Proof. exact Den_fun. Qed.
Print Assumptions C09_denotation_functional.

(* top-level calls, with loads *)
Theorem C09_call_loads : forall H mx UVal U RootCall, lbase_ok H mx UVal U RootCall ->
  forall j c f sty pos kw s, RootCall f sty pos kw -> SOK H mx U RootCall j s -> PathsOK s ->
  SOK H mx U RootCall (S (S j)) (snd (dds_call H mx c f sty pos kw s)) /\ PathsOK (snd (dds_call H mx c f sty pos kw s)) /\
  forall x sp pv, analysis H mx c f sty pos kw s = inr (x, sp) -> has_stage Eval (c_stages c) = true ->
                  bind_args (fn_params f) 0 (map RVal pos) (map (fun nv : bytes * pyval => (fst nv, RVal (snd nv))) kw) = Some pv ->
                  fst (dds_call H mx c f sty pos kw s) = fst (pvl_fn f pv (kept0 s)).
Proof. exact call_loads. Qed.
Print Assumptions C09_call_loads.

(* COROLLARY C WITH LOADS (C01_end_to_end without h_noloads). *)
Theorem C09_end_to_end_loads : forall H mx UVal U RootCall, lbase_ok H mx UVal U RootCall ->
  forall l, Forall (in_universe RootCall) l ->
  StoreOK (Den H mx RootCall) (run_calls H mx l st_empty) /\ PathsOK (run_calls H mx l st_empty) /\
  forall l1 c f sty pos kw l2, l = l1 ++ (c, f, sty, pos, kw) :: l2 ->
    let s := run_calls H mx l1 st_empty in
    (forall o, analysis H mx c f sty pos kw s = inl o -> dds_call H mx c f sty pos kw s = (o, s)) /\
    (forall x sp pv, analysis H mx c f sty pos kw s = inr (x, sp) -> has_stage Eval (c_stages c) = true ->
                     bind_args (fn_params f) 0 (map RVal pos) (map (fun nv : bytes * pyval => (fst nv, RVal (snd nv))) kw) = Some pv ->
                     fst (dds_call H mx c f sty pos kw s) = fst (pvl_fn f pv (kept0 s))).
Proof. exact C09_end_to_end_loads_lemma. Qed.
Print Assumptions C09_end_to_end_loads.

(* 4 (a). A load sees the latest keep. *)
Theorem C09_load_sees_latest_keep : forall l e p g pos kw mid en k en1 k1 en2 k2,
  pvl_step (SKeep l e p g pos kw) en k = (inr en1, k1) ->
  ~ In p (reg_steps mid) -> pvl_steps mid en1 k1 = (inr en2, k2) ->
  exists v, e_locals en1 = e_locals en ++ [v] /\ pvl_step (SLoad p) en2 k2 = (inr (add_local en2 v), k2).
Proof. exact load_sees_latest_keep. Qed.
Print Assumptions C09_load_sees_latest_keep.

Theorem C09_load_sees_latest_keep_in_callee : forall p v h pv k, k p = Some v ->
  forall vars exts pre post, fn_bodies h = BCons (Body vars exts (steps_of (pre ++ SLoad p :: post))) BNil ->
  ~ In p (reg_l pre) ->
  forall en1 k1, pvl_steps (steps_of pre) (Env pv (map snd vars) []) k = (inr en1, k1) ->
  pvl_step (SLoad p) en1 k1 = (inr (add_local en1 v), k1).
Proof. exact load_sees_latest_keep_in_callee. Qed.
Print Assumptions C09_load_sees_latest_keep_in_callee.

Theorem C09_data_function_call_sets_kept : forall l e g args p en k en1 k1, fn_annot g = Some p ->
  pvl_step (SCall l e g args) en k = (inr en1, k1) ->
  exists v, e_locals en1 = e_locals en ++ [v] /\ k1 p = Some v.
Proof. exact data_call_sets_kept. Qed.
Print Assumptions C09_data_function_call_sets_kept.

(* ... and the memoised load reads exactly that value (also when the keep was served from the store: the invariant J is
   maintained by the walk in both cases) *)
Theorem C09_memoised_load_reads_kept : forall H sp s k R p sg en, J H sp s k R -> srlookup p R = Some sg ->
  exists v, k p = Some v /\ exec_step (Dds sp) (SLoad p) en s = (inr (add_local en v), s).
Proof. exact dds_load_reads_kept. Qed.
Print Assumptions C09_memoised_load_reads_kept.

(* 4 (b). A kept reader is served from the store iff the signatures found at the paths it loads are unchanged. *)
Theorem C09_reader_key_iff_loaded_signature : forall H mx UVal U RootCall, lbase_ok H mx UVal U RootCall ->
  forall m g A R pv kk x R1 g' A' R' pv' kk' x' R1' lh a l l' ch exts vars Rc Rc',
  LCons (hv0 H mx) (hl0 H mx) (RootLm H mx RootCall (DenN H mx RootCall m)) g A R pv kk ->
  LCons (hv0 H mx) (hl0 H mx) (RootLm H mx RootCall (DenN H mx RootCall m)) g' A' R' pv' kk' ->
  sana (hv0 H mx) (hl0 H mx) g (skey A) R = inr (x, R1) -> sana (hv0 H mx) (hl0 H mx) g' (skey A') R' = inr (x', R1') ->
  cana (hv0 H mx) (hl0 H mx) g A R = inr (Content lh a l ch exts vars, Rc) ->
  cana (hv0 H mx) (hl0 H mx) g' A' R' = inr (Content lh a l' ch exts vars, Rc') ->
  (render H (sfi_sig x) = render H (sfi_sig x') <-> l = l').
Proof. exact reader_key_iff. Qed.
Print Assumptions C09_reader_key_iff_loaded_signature.

Theorem C09_kept_served_or_executed : forall sp en s g q pv key,
  blookup q sp = Some key ->
  (forall v, blookup key (s_blobs s) = Some v ->
     EvalProofs.kept_call (Dds sp) en s g q pv = (inr (add_local en v), s)) /\
  (blookup key (s_blobs s) = None ->
     EvalProofs.kept_call (Dds sp) en s g q pv =
     match exec_fn (Dds sp) g pv s with
     | (Ret v, s') => (inr (add_local en v), st_put key v s')
     | (o, s') => (inl o, s')
     end).
Proof. exact kept_served_or_executed. Qed.
Print Assumptions C09_kept_served_or_executed.

(* 5. NON-VACUITY.  A producer data function ('/d', two versions), a kept reader that loads '/d', dds.eval(main):
   every hypothesis holds ... *)
Theorem C09_universe_example : lbase_ok sx_H None lx_UVal lx_U lx_RootCall.
Proof. exact lx_universe_ok. Qed.
Print Assumptions C09_universe_example.

(* ... and in the history v1, v2, v1 each call returns the plain outcome with loads of its version; the reader is
   executed again exactly when the producer changed (log: p1 rd main / p2 rd main / main). *)
Theorem C09_universe_example_history :
  StoreOK (Den sx_H None lx_RootCall) (run_calls sx_H None lx_history st_empty) /\
  PathsOK (run_calls sx_H None lx_history st_empty) /\
  (let s1 := run_calls sx_H None [lx_callc lx_main1] st_empty in
   fst (dds_call sx_H None lx_cfg lx_main2 StEval [] [] s1) = fst (pvl_fn lx_main2 [] (kept0 s1))) /\
  (let s2 := run_calls sx_H None [lx_callc lx_main1; lx_callc lx_main2] st_empty in
   fst (dds_call sx_H None lx_cfg lx_main1 StEval [] [] s2) = fst (pvl_fn lx_main1 [] (kept0 s2))) /\
  fst (pvl_fn lx_main2 [] (kept0 (run_calls sx_H None [lx_callc lx_main1] st_empty))) =
    Ret (RTup [RVal (VStr (bs "main")); RTup [RVal (VStr (bs "p2"))]; RTup [RVal (VStr (bs "rd")); RTup [RVal (VStr (bs "p2"))]]]) /\
  s_log (run_calls sx_H None lx_history st_empty) = [bs "p1"; bs "rd"; bs "main"; bs "p2"; bs "rd"; bs "main"; bs "main"].
Proof. exact lx_end_to_end. Qed.
Print Assumptions C09_universe_example_history.

(* REGRESSION THEOREMS of the findings F33 / F34 (by computation, on the programs that exhibited them): the evaluations
   now fail with the DDS error LOAD_BEFORE_STORE and change nothing. *)
Theorem C09_byname_producer_rejected :
  dds_call sx_H None lx_cfg fa_f StEval [] [] st_empty = (DdsErr "LOAD_BEFORE_STORE", st_empty) /\
  fst (pvl_fn fa_f [] (kept0 st_empty)) = DdsErr "NONE" /\
  ~ lwf_step (SRef 1 fa_g false).
Proof. exact byname_producer_rejected. Qed.
Print Assumptions C09_byname_producer_rejected.

Theorem C09_root_keep_self_load_rejected :
  let s1 := snd (dds_call sx_H None lx_cfg fb_old (StKeep (bs "/p")) [] [] st_empty) in
  dds_call sx_H None lx_cfg fb_f (StKeep (bs "/p")) [] [] s1 = (DdsErr "LOAD_BEFORE_STORE", s1) /\
  kept0 s1 (bs "/p") = Some (RTup [RVal (VStr (bs "old"))]) /\
  fst (pvl_fn fb_f [] (kept0 s1)) = Ret (RTup [RVal (VStr (bs "f")); RTup [RVal (VStr (bs "old"))]]).
Proof. exact root_keep_self_load_rejected. Qed.
Print Assumptions C09_root_keep_self_load_rejected.

(* a load of a path kept later in the same function is rejected and changes nothing *)
Theorem C09_load_before_keep_rejected :
  let s1 := snd (dds_call sx_H None lx_cfg fa_h (StKeep (bs "/q")) [] [] st_empty) in
  dds_call sx_H None lx_cfg fc_f StEval [] [] s1 = (DdsErr "LOAD_BEFORE_STORE", s1).
Proof. exact load_before_keep_rejected. Qed.
Print Assumptions C09_load_before_keep_rejected.
