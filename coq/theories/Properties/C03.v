(* C03 - signatures depend only on program content, never on the environment.
   Proofs: L0_Hash/CommutProofs.v, L3_Sig/SigProofs.v, L4_Eval/EvalProofs.v.
   The model-side content of the property: the signature map of an evaluation is the value of the closed Gallina function
   [analysis] applied to the program tree, the arguments and the committed paths read by dds.load - it has no access to a
   process, a hash seed, a working directory, a file location, a store kind or an option.  The theorems below state the
   independences that are NOT immediate from this. *)
From Coq Require Import List Permutation ZArith NArith.
From DDS Require Import Base.Bytes L0_Hash.PyVal L0_Hash.DdsHash L0_Hash.CommutProofs L1_Args.ArgCtx L3_Sig.Program L3_Sig.Sig
     L4_Eval.Stages L4_Eval.DdsEval L3_Sig.SigSpec L3_Sig.SigProofs L4_Eval.EvalProofs.
Import ListNotations.

(* dict / set iteration order (hence the hash seed) cannot matter: the commutative hash is permutation invariant *)
Theorem C03_commutative_hash_order_free : forall H l1 l2, Permutation l1 l2 -> dds_hash_commut H l1 = dds_hash_commut H l2.
Proof. exact commut_perm. Qed.
Print Assumptions C03_commutative_hash_order_free.

(* on-disk / module location of the code cannot matter *)
Theorem C03_location_free : forall H mx r f A R, ana H mx (rename_fn r f) A R = map_ana r (ana H mx f A R).
Proof. exact sig_name_independent. Qed.
Print Assumptions C03_location_free.

(* the store matters only through the committed paths that the evaluation loads: prior evaluations that did not commit
   (or committed the same bindings) cannot change a signature; blobs never matter *)
Theorem C03_store_only_through_committed_paths : forall H mx c f sty pos kw s1 s2,
  s_paths s1 = s_paths s2 -> analysis H mx c f sty pos kw s1 = analysis H mx c f sty pos kw s2.
Proof. exact analysis_paths_only. Qed.
Print Assumptions C03_store_only_through_committed_paths.

(* what the generated bodies do at run time (logging, raising, argument expressions) is invisible to the analysis *)
Theorem C03_execution_info_free : forall H mx f A R, ana H mx (strip_fn f) A R = ana H mx f A R.
Proof. exact sig_ignores_exec_info. Qed.
Print Assumptions C03_execution_info_free.
