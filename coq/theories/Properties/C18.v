(* C18 - graph export is faithful and does not perturb the evaluation.
   Model: L7_Graph/Structure.v (dds/_plotting.py:_structure, mutable dictionaries included); specification:
   L7_Graph/GraphSpec.v (computed from the interaction tree alone); proofs: L7_Graph/GraphProofs.v.
   The exported graph is a function of the interaction tree that the analysis computes anyway and of the references
   fetched before it (structure x R): the result and the signatures of the evaluation cannot depend on the option - tied
   by the correspondence (with / without export).  Edges are keyed by (signature, signature), as in the code. *)
From Coq Require Import List String.
From DDS Require Import Base.Bytes L3_Sig.Sig L7_Graph.Structure L7_Graph.GraphSpec L7_Graph.GraphProofs.
Import ListNotations.

(* Every kept occurrence has a node carrying its signature ... *)
Theorem C18_every_kept_signature_is_a_node : forall x R n,
  In n (kept_nodes x) -> exists p, alook (snd n) (g_nodes (final_state x R)) = Some (p, snd n).
Proof. exact kept_sig_is_node. Qed.
Print Assumptions C18_every_kept_signature_is_a_node.

(* ... and appears under its own path when no two kept occurrences or fetched references share a signature under different
   paths (see C18_two_paths_one_signature_refuted for what happens otherwise: known finding F15). *)
Theorem C18_every_kept_path_is_a_node : forall x R,
  sig_determines_path x R -> forall n, In n (kept_nodes x) -> In n (fst (structure x R)).
Proof. exact kept_path_is_node. Qed.
Print Assumptions C18_every_kept_path_is_a_node.

(* Solid edges: exactly the pairs (u, v) such that the function kept at v reaches the keep of u without crossing another
   kept function. *)
Theorem C18_solid_edges_exact : forall x R k,
  In k (keys_of_type EDirect (final_state x R)) <-> In k (solid_spec x).
Proof. exact solid_exact. Qed.
Print Assumptions C18_solid_edges_exact.

(* Dashed edges only come from loads: a dashed edge into v is labelled with a path that the function kept at v loads. *)
Theorem C18_dashed_edges_are_loads : forall x R k e,
  In (k, e) (edges_of_type EIndirect (final_state x R)) -> In (e_from e, snd k) (dashed_spec x).
Proof. exact dashed_sound. Qed.
Print Assumptions C18_dashed_edges_are_loads.

(* Any further (dotted) edge joins a head node of an earlier sibling call to a head node of a later sibling call that takes
   arguments. *)
Theorem C18_dotted_edges_are_call_order : forall x R k,
  In k (keys_of_type EImplicit (final_state x R)) -> In k (dotted_allowed x).
Proof. exact dotted_sound. Qed.
Print Assumptions C18_dotted_edges_are_call_order.

(* No edge joins a signature to itself (after fix 84d99a8), provided no kept function has the signature of one of its own
   head nodes or loaded references (signatures are digests of strictly larger content). *)
Theorem C18_no_self_loop : forall x R k e,
  no_self_sig x R -> In (k, e) (g_deps (final_state x R)) -> fst k <> snd k.
Proof. exact no_self_loop. Qed.
Print Assumptions C18_no_self_loop.

(* Known finding F15: two paths kept with one signature share a node - the first path is missing from the graph. *)
Theorem C18_two_paths_one_signature_refuted : exists x n,
  In n (kept_nodes x) /\ ~ In (fst n) (map fst (fst (structure x []))).
Proof. exact two_paths_one_sig_refuted. Qed.
Print Assumptions C18_two_paths_one_signature_refuted.

(* Known finding F23: the same path kept with two signatures (the callee of a keep is also analysed as a by-name reference,
   with another call-site context) yields a drawn graph (nodes named by path) with a cycle, although the graph keyed by
   signature has none. *)
Theorem C18_path_cycle_refuted : exists x a b,
  In (a, b) (path_edges (structure x [])) /\ In (b, a) (path_edges (structure x [])) /\ a <> b.
Proof. exact path_cycle_refuted. Qed.
Print Assumptions C18_path_cycle_refuted.
