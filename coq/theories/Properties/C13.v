(* C13 - a kept call's signature depends on the argument binding, not on its spelling.  Proofs: L1_Args/ArgProofs.v *)
From Coq Require Import List ZArith NArith.
From DDS Require Import Base.Bytes L0_Hash.PyVal L0_Hash.DdsHash L0_Hash.Norm L0_Hash.HashSpec L1_Args.ArgCtx L1_Args.ArgSpec
     L1_Args.ArgProofs.
Import ListNotations.

(* All spellings (positional, keyword, reordered keywords, explicit or omitted defaults) of one binding share one
   argument signature, whether the values are passed directly or seen as literals in the source. *)
Theorem C13_spelling_invariant : forall H mx ps pos1 kw1 pos2 kw2 b,
  all_pok ps = true -> bind ps 0 pos1 kw1 = Some b -> bind ps 0 pos2 kw2 = Some b ->
  arg_ctx_rt H mx ps 0 pos1 kw1 = arg_ctx_rt H mx ps 0 pos2 kw2 /\
  arg_ctx_ast H mx ps 0 (lits pos1) (kwlits kw1) = arg_ctx_rt H mx ps 0 pos2 kw2.
Proof. exact spelling_invariant. Qed.
Print Assumptions C13_spelling_invariant.

(* The argument signature is a function of the binding alone. *)
Theorem C13_by_binding : forall H mx ps pos kw b,
  all_pok ps = true -> bind ps 0 pos kw = Some b ->
  arg_ctx_rt H mx ps 0 pos kw = named_of_binding H mx b /\
  arg_ctx_ast H mx ps 0 (lits pos) (kwlits kw) = named_of_binding H mx b.
Proof. intros H mx ps pos kw b Hp Hb; split; [exact (rt_by_binding H mx ps pos kw b Hp Hb) | exact (ast_by_binding H mx ps pos kw b Hp Hb)]. Qed.
Print Assumptions C13_by_binding.

(* Different bindings get different argument signatures, up to what value hashing identifies (C05) and the
   None marker; any other coincidence is a digest collision. *)
Theorem C13_binding_injective : forall H mx, (forall x, hex64 (H x)) -> forall b1 b2 l,
  map fst b1 = map fst b2 ->
  Forall (fun nv => clean (subst_none (snd nv)) = true) b1 ->
  Forall (fun nv => clean (subst_none (snd nv)) = true) b2 ->
  named_of_binding H mx b1 = inr l -> named_of_binding H mx b2 = inr l ->
  Forall2 (fun x y => fst x = fst y /\ norm (subst_none (snd x)) = norm (subst_none (snd y))) b1 b2 \/ H_collision H.
Proof. exact binding_injective. Qed.
Print Assumptions C13_binding_injective.

(* The full statement is REFUTED for the marker string (known finding F04-marker): f(a, b=None) called as f(1) and
   as f(1, "__none__"). *)
Theorem C13_marker_refuted : exists ps pos1 pos2 b1 b2,
  all_pok ps = true /\ bind ps 0 pos1 [] = Some b1 /\ bind ps 0 pos2 [] = Some b2 /\ b1 <> b2 /\
  forall H mx, arg_ctx_rt H mx ps 0 pos1 [] = arg_ctx_rt H mx ps 0 pos2 [].
Proof. exact marker_collision. Qed.
Print Assumptions C13_marker_refuted.

Theorem C13_constants_ok : arg_constants_ok = true.
Proof. vm_compute. reflexivity. Qed.
Print Assumptions C13_constants_ok.
