(* C11 - ill-formed evaluations are rejected before anything runs, whatever the order.
   Proofs: L4_Eval/OverlapProofs.v (overlap), L4_Eval/EvalProofs.v (purity of a rejected evaluation). *)
From Coq Require Import List Permutation String.
Local Open Scope string_scope.
From DDS Require Import Base.Bytes L4_Eval.Overlap L4_Eval.OverlapProofs.
Import ListNotations.

(* Overlap detection: the verdict is "rejected" exactly when some kept path is a strict segment-prefix of another,
   for every number of paths and every order. *)
Theorem C11_overlap_iff : forall paths,
  NoDup paths -> forallb normal paths = true ->
  (non_terminal_leaves paths <> [] <->
   exists p q, In p paths /\ In q paths /\ strict_prefix (segs p) (segs q) = true).
Proof. exact overlap_iff. Qed.
Print Assumptions C11_overlap_iff.

Theorem C11_overlap_order_independent : forall l1 l2, Permutation l1 l2 -> NoDup l1 -> forallb normal l1 = true ->
  (non_terminal_leaves l1 <> [] <-> non_terminal_leaves l2 <> []).
Proof. exact overlap_perm. Qed.
Print Assumptions C11_overlap_order_independent.

(* the case missed before fix abf3f8a *)
Theorem C11_nonadjacent : non_terminal_leaves [[bs "f"]; [bs "g"]; [bs "f"; bs "h"]] <> [].
Proof. exact overlap_nonadjacent. Qed.
Print Assumptions C11_nonadjacent.
