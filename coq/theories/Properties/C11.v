(* C11 - ill-formed evaluations are rejected before anything runs, whatever the order.
   Proofs: L4_Eval/OverlapProofs.v (overlap), L4_Eval/EvalProofs.v (purity of a rejected evaluation). *)
From Coq Require Import List Permutation String.
Local Open Scope string_scope.
From Coq Require Import ZArith NArith.
From DDS Require Import Base.Bytes L4_Eval.Overlap L4_Eval.OverlapProofs L2_Disc.Cycle L2_Disc.CycleProofs
     L0_Hash.PyVal L3_Sig.Program L4_Eval.DdsEval L4_Eval.EvalProofs.
Import ListNotations.

(* Overlap detection: the verdict is "rejected" exactly when some kept path is a strict segment-prefix of another,
   for every number of paths and every order. *)
Theorem C11_overlap_iff : forall paths,
  NoDup paths -> forallb normal paths = true ->
  (non_terminal_leaves paths <> [] <->
   exists p q, In p paths /\ In q paths /\ strict_prefix (segs p) (segs q) = true).
Proof. exact overlap_iff. Qed.
Print Assumptions C11_overlap_iff.

Theorem C11_overlap_order_independent : forall l1 l2, Permutation l1 l2 -> NoDup l1 -> forallb normal l1 = true ->
  (non_terminal_leaves l1 <> [] <-> non_terminal_leaves l2 <> []).
Proof. exact overlap_perm. Qed.
Print Assumptions C11_overlap_order_independent.

(* the case missed before fix abf3f8a *)
Theorem C11_nonadjacent : non_terminal_leaves [[bs "f"]; [bs "g"]; [bs "f"; bs "h"]] <> [].
Proof. exact overlap_nonadjacent. Qed.
Print Assumptions C11_nonadjacent.

(* Call cycles and nested dds.eval: the analysis rejects exactly the graphs in which a cycle (through plain calls, keeps,
   by-name references or methods, of any length) or a dds.eval is reachable from the root, whatever the depth; the
   completion cache never hides a cycle and the traversal always terminates. *)
Theorem C11_rejected_iff : forall g root, closed_graph g -> In root (map fst g) ->
  ((analyse_graph g root = VCircular \/ analyse_graph g root = VEvalInEval) <-> (cyclic_from g root \/ eval_from g root)).
Proof. exact rejected_iff. Qed.
Print Assumptions C11_rejected_iff.

Theorem C11_circular_sound : forall g root, analyse_graph g root = VCircular -> cyclic_from g root.
Proof. exact circular_sound. Qed.
Print Assumptions C11_circular_sound.

Theorem C11_terminates : forall g root, closed_graph g -> In root (map fst g) -> analyse_graph g root <> VFuel.
Proof. exact fuel_suffices. Qed.
Print Assumptions C11_terminates.

(* the case missed before fix 2a32f0d: a function passing itself by name *)
Theorem C11_self_reference : analyse_graph [(bs "f", [ETo KRef (bs "f")])] (bs "f") = VCircular.
Proof. exact self_reference. Qed.
Print Assumptions C11_self_reference.

(* A rejected evaluation executes no user function and leaves blobs and paths untouched: the result is the error and
   the very same state (store and execution log). *)
Theorem C11_rejected_is_pure : forall H mx c f sty pos kw s o,
  analysis H mx c f sty pos kw s = inl o -> dds_call H mx c f sty pos kw s = (o, s).
Proof. exact rejected_is_pure. Qed.
Print Assumptions C11_rejected_is_pure.
