(* C16 - every usable local-store configuration works; data dirs are independent views.
   Proofs: L5_Stores/ConfigProofs.v (what a configuration denotes), L5_Stores/LruProofs.v (cache_objects decoding).
   That a store on given directories round-trips keep/load is C08 (dictionary refinement, tie) + C06/C07. *)
From Coq Require Import List ZArith Ascii String.
From DDS Require Import Base.Bytes L5_Stores.PathMap L5_Stores.Config L5_Stores.ConfigProofs L5_Stores.Lru L5_Stores.LruProofs.
Import ListNotations.

(* Spellings: a trailing separator never matters; an absolute directory does not depend on the working directory; a
   relative one is resolved from the working directory of the moment the store is created. *)
Theorem C16_trailing_separator : forall cwd d, d <> [] -> abspath cwd (d ++ ["/"%char]) = abspath cwd d.
Proof. exact abspath_trailing_slash. Qed.
Print Assumptions C16_trailing_separator.

Theorem C16_absolute_independent_of_cwd : forall cwd1 cwd2 d, is_abs d = true -> abspath cwd1 d = abspath cwd2 d.
Proof. exact abspath_absolute. Qed.
Print Assumptions C16_absolute_independent_of_cwd.

(* After creation the store never consults the working directory (its state is the pair of resolved directories):
   configurations that denote the same directories give the same store, whatever the later working directory. *)
Theorem C16_same_directories_same_store : forall cwd1 cwd2 i1 d1 i2 d2,
  abspath cwd1 i1 = abspath cwd2 i2 -> abspath cwd1 d1 = abspath cwd2 d2 -> make_store cwd1 i1 d1 = make_store cwd2 i2 d2.
Proof. exact same_dirs_same_store. Qed.
Print Assumptions C16_same_directories_same_store.

(* Two stores sharing one internal directory share every blob name, and - when neither data directory lies inside the
   other - never share a link name: independent views of the paths. *)
Theorem C16_views_share_blobs : forall root d1 d2 k, blob_name (LStore root d1) k = blob_name (LStore root d2) k.
Proof. exact views_share_blobs. Qed.
Print Assumptions C16_views_share_blobs.

Theorem C16_views_independent : forall root d1 d2 segs1 segs2,
  is_prefix_of d1 d2 = false -> is_prefix_of d2 d1 = false ->
  link_name (LStore root d1) segs1 <> link_name (LStore root d2) segs2.
Proof. exact views_independent. Qed.
Print Assumptions C16_views_independent.

(* cache_objects in {None, False, True, 0, -1, n} *)
Theorem C16_cache_objects_decoding : forall d,
  decode_cache_objects d CNone = None /\ decode_cache_objects d (CBool false) = None /\
  decode_cache_objects d (CInt 0) = None /\ decode_cache_objects d (CBool true) = Some (Some d) /\
  (forall z, (0 < z)%Z -> decode_cache_objects d (CInt z) = Some (Some (Z.to_nat z))) /\
  (forall z, (z < 0)%Z -> decode_cache_objects d (CInt z) = Some None).
Proof. exact decode_spec. Qed.
Print Assumptions C16_cache_objects_decoding.
