(* C15 - restricting the stages makes an evaluation a side-effect-free dry run.  Proofs: L4_Eval/StageProofs.v *)
From Coq Require Import List String Arith.
From DDS Require Import Base.Bytes L4_Eval.Stages L4_Eval.StageProofs.
Import ListNotations.

(* The accepted stage lists are exactly the prefixes of the stage order, spelled with names or enum members. *)
Theorem C15_parse_prefix_iff : forall l r,
  List.length l <= List.length all_phases ->
  (parse_stages (Some l) = POk r <-> (r = firstn (List.length l) all_phases /\ Forall2 denotes l r)).
Proof. exact parse_prefix_iff. Qed.
Print Assumptions C15_parse_prefix_iff.

Theorem C15_default_is_all : parse_stages None = POk all_phases.
Proof. exact parse_none. Qed.
Print Assumptions C15_default_is_all.

(* Gates: the first n stages contain EVAL iff n >= 3 and PATH_COMMIT iff n = 5. *)
Theorem C15_gates : forall n,
  let st := firstn n all_phases in
  (has_stage Eval st = Nat.leb 3 n) /\ (has_stage PathCommit st = Nat.leb 5 n).
Proof. exact gates_of_prefix. Qed.
Print Assumptions C15_gates.

Theorem C15_constants_ok : stage_constants_ok = true.
Proof. exact stage_constants. Qed.
Print Assumptions C15_constants_ok.
