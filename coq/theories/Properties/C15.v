(* C15 - restricting the stages makes an evaluation a side-effect-free dry run.  Proofs: L4_Eval/StageProofs.v *)
From Coq Require Import List String Arith.
From Coq Require Import ZArith NArith.
From DDS Require Import Base.Bytes L4_Eval.Stages L4_Eval.StageProofs L0_Hash.PyVal L3_Sig.Program L3_Sig.Sig L4_Eval.DdsEval
     L4_Eval.EvalSpec L4_Eval.EvalProofs.
Import ListNotations.

(* The accepted stage lists are exactly the prefixes of the stage order, spelled with names or enum members. *)
Theorem C15_parse_prefix_iff : forall l r,
  List.length l <= List.length all_phases ->
  (parse_stages (Some l) = POk r <-> (r = firstn (List.length l) all_phases /\ Forall2 denotes l r)).
Proof. exact parse_prefix_iff. Qed.
Print Assumptions C15_parse_prefix_iff.

Theorem C15_default_is_all : parse_stages None = POk all_phases.
Proof. exact parse_none. Qed.
Print Assumptions C15_default_is_all.

(* Gates: the first n stages contain EVAL iff n >= 3 and PATH_COMMIT iff n = 5. *)
Theorem C15_gates : forall n,
  let st := firstn n all_phases in
  (has_stage Eval st = Nat.leb 3 n) /\ (has_stage PathCommit st = Nat.leb 5 n).
Proof. exact gates_of_prefix. Qed.
Print Assumptions C15_gates.

Theorem C15_constants_ok : stage_constants_ok = true.
Proof. exact stage_constants. Qed.
Print Assumptions C15_constants_ok.

(* An evaluation restricted before EVAL runs no user code, writes no blob and commits no path: the state (store and
   execution log) is unchanged and the result is None. *)
Theorem C15_analysis_only_pure : forall H mx c f sty pos kw s,
  has_stage Eval (c_stages c) = false ->
  snd (dds_call H mx c f sty pos kw s) = s /\
  (forall x sp, analysis H mx c f sty pos kw s = inr (x, sp) -> fst (dds_call H mx c f sty pos kw s) = Ret (RVal VNone)).
Proof. exact analysis_only_pure. Qed.
Print Assumptions C15_analysis_only_pure.

(* One that stops before PATH_COMMIT leaves every path as it was. *)
Theorem C15_no_commit_keeps_paths : forall H mx c f sty pos kw s,
  has_stage PathCommit (c_stages c) = false -> s_paths (snd (dds_call H mx c f sty pos kw s)) = s_paths s.
Proof. exact no_commit_keeps_paths. Qed.
Print Assumptions C15_no_commit_keeps_paths.

(* The signatures computed by a later evaluation are the same as if the restricted run had not happened: the analysis
   reads the store only through its committed paths, which a restricted run does not change; the values returned later
   are the plain values because the store stays sound (C01_history_sound covers restricted calls). *)
Theorem C15_signatures_unaffected : forall H mx c f sty pos kw s1 s2,
  s_paths s1 = s_paths s2 -> analysis H mx c f sty pos kw s1 = analysis H mx c f sty pos kw s2.
Proof. exact analysis_paths_only. Qed.
Print Assumptions C15_signatures_unaffected.
