(* C17 (translator route) - CodecRegistry.add_codec / add_file_codec / get_codec regenerated from /repo's source
   (Extracted/GenCodec.v) equal the model of L5_Stores/Codec.v, so C17's theorems are about the regenerated code. *)
From Coq Require Import List ZArith String.
From DDS Require Import Base.Bytes Base.PyRt L5_Stores.Codec L5_Stores.CodecProofs Extracted.GenCodec L5_Stores.GenCodecProofs.
Import ListNotations.
Local Open Scope string_scope.

Theorem GEN_add_codec : forall g ref types,
  register g (RCodec ref types) =
  Registry (fst (gen_add_codec (obj_of g (RCodec ref types)) (handled g) (protocols g)))
           (snd (gen_add_codec (obj_of g (RCodec ref types)) (handled g) (protocols g))) (S (next g)).
Proof. exact gen_add_codec_is_register. Qed.
Print Assumptions GEN_add_codec.

Theorem GEN_add_file_codec : forall g ref types,
  register g (RFile ref types) =
  Registry (fst (gen_add_file_codec (obj_of g (RFile ref types)) (handled g) (protocols g)))
           (snd (gen_add_file_codec (obj_of g (RFile ref types)) (handled g) (protocols g))) (S (next g)).
Proof. exact gen_add_file_codec_is_register. Qed.
Print Assumptions GEN_add_file_codec.

Theorem GEN_get_codec_by_type : forall g t, gen_get_codec (Some t) None (handled g) (protocols g) = select_by_type g t.
Proof. exact gen_get_by_type. Qed.
Print Assumptions GEN_get_codec_by_type.

Theorem GEN_get_codec_empty_ref : forall g t, gen_get_codec (Some t) (Some []) (handled g) (protocols g) = select_by_type g t.
Proof. exact gen_get_empty_ref_by_type. Qed.
Print Assumptions GEN_get_codec_empty_ref.

Theorem GEN_get_codec_by_ref : forall g ot r, r <> [] -> gen_get_codec ot (Some r) (handled g) (protocols g) = select_by_ref g r.
Proof. exact gen_get_by_ref. Qed.
Print Assumptions GEN_get_codec_by_ref.

Theorem GEN_read_with_writer_codec : forall regs g r c ot, r <> [] ->
  gen_get_codec ot (Some r) (handled g) (protocols g) = Some c ->
  forallb (fun x => negb (rebinding r x)) regs = true ->
  let g' := fold_left register regs g in
  gen_get_codec ot (Some r) (handled g') (protocols g') = Some c.
Proof. exact gen_read_with_writer_codec. Qed.
Print Assumptions GEN_read_with_writer_codec.

Theorem GEN_registrations : forall regs g, fold_left gen_register regs g = fold_left register regs g.
Proof. exact gen_registrations_are_model. Qed.
Print Assumptions GEN_registrations.

Theorem GEN_default_registry : fold_left gen_register default_regs empty_registry = default_registry.
Proof. exact gen_default_registry. Qed.
Print Assumptions GEN_default_registry.

Theorem GEN_read_with_writer_codec_history : forall before after r c ot, r <> [] ->
  let g := fold_left gen_register before default_registry in
  gen_get_codec ot (Some r) (handled g) (protocols g) = Some c ->
  forallb (fun x => negb (rebinding r x)) after = true ->
  let g' := fold_left gen_register after g in
  gen_get_codec ot (Some r) (handled g') (protocols g') = Some c.
Proof. exact gen_read_with_writer_codec_history. Qed.
Print Assumptions GEN_read_with_writer_codec_history.

(* non-vacuity: a str result is written with local.string from the default registry; a user file codec for str and a user codec for
   another reference are registered afterwards; the reference still reads with the codec object that wrote it *)
Example GEN_read_with_writer_codec_example :
  let after := [RFile (bs "user.text") [bs "str"]; RCodec (bs "user.bin") [bs "bytes"]] in
  let g' := fold_left gen_register after default_registry in
  gen_get_codec None (Some (bs "local.string")) (handled default_registry) (protocols default_registry) = Some (bs "local.string", 0)
  /\ gen_get_codec None (Some (bs "local.string")) (handled g') (protocols g') = Some (bs "local.string", 0)
  /\ gen_get_codec (Some (bs "bytes")) None (handled g') (protocols g') = Some (bs "user.bin", 5).
Proof. vm_compute. repeat split; reflexivity. Qed.
