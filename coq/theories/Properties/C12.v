(* C12 - the in-memory object cache is invisible and bounded.  Proofs: L5_Stores/LruProofs.v *)
From Coq Require Import List ZArith.
From DDS Require Import Base.Bytes L4_Eval.Store L5_Stores.Lru L5_Stores.LruProofs.
Import ListNotations.

(* Transparency: for every capacity (bounded or unbounded) and every operation sequence that respects content
   addressing, the wrapped store answers every presence check, fetch and path query exactly like the bare store -
   absent keys and None-valued blobs included. *)
Theorem C12_transparent : forall cap ops, consistent ops = true ->
  run_ops (lru_step sstate spec_step cap) ([], sempty) ops = run_ops spec_step sempty ops.
Proof. exact lru_transparent. Qed.
Print Assumptions C12_transparent.

(* ... from any reachable state as well *)
Theorem C12_transparent_from : forall cap ops c s,
  cache_ok_in c s -> consistent_from (blobs s) ops = true ->
  run_ops (lru_step sstate spec_step cap) (c, s) ops = run_ops spec_step s ops.
Proof. exact lru_transparent_gen. Qed.
Print Assumptions C12_transparent_from.

(* Boundedness, whatever the wrapped store does. *)
Theorem C12_bounded : forall (S : Type) (inner : S -> sop -> S * sout) n ops st,
  List.length (fst st) <= n ->
  List.length (fst (fold_left (fun st o => fst (lru_step S inner (Some n) st o)) ops st)) <= n.
Proof. exact lru_bounded. Qed.
Print Assumptions C12_bounded.

(* Option decoding of set_store(cache_objects=...). *)
Theorem C12_decode : forall d,
  decode_cache_objects d CNone = None /\ decode_cache_objects d (CBool false) = None /\
  decode_cache_objects d (CInt 0) = None /\ decode_cache_objects d (CBool true) = Some (Some d) /\
  (forall z, (0 < z)%Z -> decode_cache_objects d (CInt z) = Some (Some (Z.to_nat z))) /\
  (forall z, (z < 0)%Z -> decode_cache_objects d (CInt z) = Some None).
Proof. exact decode_spec. Qed.
Print Assumptions C12_decode.

(* The content-addressing hypothesis is necessary (the documented idempotence contract of store_blob). *)
Theorem C12_needs_content_addressing : exists ops,
  run_ops (lru_step sstate spec_step (Some 1)) ([], sempty) ops <> run_ops spec_step sempty ops.
Proof. exact inconsistent_breaks_transparency. Qed.
Print Assumptions C12_needs_content_addressing.
