(* C05 - value hashing is total, deterministic and collision-free on supported values.
   Statements only; proofs are in L0_Hash/HashProofs.v.  H is the digest (sha256 hexdigest in the code). *)
From Coq Require Import List ZArith NArith.
From DDS Require Import Base.Bytes L0_Hash.PyVal L0_Hash.DdsHash L0_Hash.Norm L0_Hash.HashSpec L0_Hash.HashProofs.
Import ListNotations.

(* Totality: hashing ends with a signature or a coded DDS error, never a low-level exception, for every value,
   every nesting, every size and every setting of hash.max_sequence_size. *)
Theorem C05_total : forall H mx v, coded_or_ok (dds_hash H mx v).
Proof. exact hash_total. Qed.
Print Assumptions C05_total.

(* ... and it is a signature whenever the value is built from supported types and respects the size bound. *)
Theorem C05_total_ok : forall H v,
  supported v = true ->
  (exists s, dds_hash H None v = HOk s) /\
  (forall m, (N.of_nat (max_width v) <= m)%N -> exists s, dds_hash H (Some m) v = HOk s).
Proof. intros H v Hs; split; [exact (hash_ok_unbounded H v Hs) | intros m Hm; exact (hash_ok_bounded H m v Hs Hm)]. Qed.
Print Assumptions C05_total_ok.

(* The documented identifications (list = tuple, bool = int, path / date = text form) share one signature. *)
Theorem C05_documented_identifications : forall H mx v1 v2,
  norm_doc v1 = norm_doc v2 -> dds_hash H mx v1 = dds_hash H mx v2.
Proof. exact hash_doc_same. Qed.
Print Assumptions C05_documented_identifications.

(* Collision freedom on clean values: equal signatures imply equal normal forms, or exhibit a digest collision. *)
Theorem C05_collision_free_clean : forall H, (forall b, hex64 (H b)) -> forall mx v1 v2 s,
  clean v1 = true -> clean v2 = true ->
  dds_hash H mx v1 = HOk s -> dds_hash H mx v2 = HOk s ->
  norm v1 = norm v2 \/ H_collision H.
Proof. exact hash_inj_clean. Qed.
Print Assumptions C05_collision_free_clean.

(* [norm] is exact: a value and its normal form are indistinguishable. *)
Theorem C05_norm_exact : forall H v, dds_hash H None (norm v) = dds_hash H None v.
Proof. exact hash_norm. Qed.
Print Assumptions C05_norm_exact.

(* The full statement of the property (only documented identifications collide) is REFUTED by the faithful model:
   known finding F03 (dict = list of pairs; see also the collide_* lemmas for the non-clean classes). *)
Theorem C05_documented_only_refuted : exists v1 v2,
  clean v1 = true /\ clean v2 = true /\ norm_doc v1 <> norm_doc v2 /\
  forall H, dds_hash H None v1 = dds_hash H None v2 /\ dds_hash H (Some 10000%N) v1 = dds_hash H (Some 10000%N) v2.
Proof. exact documented_only_refuted. Qed.
Print Assumptions C05_documented_only_refuted.

(* the regenerated side conditions on the constants of dds/fun_args.py *)
Theorem C05_constants_ok : hash_constants_ok = true.
Proof. vm_compute. reflexivity. Qed.
Print Assumptions C05_constants_ok.
