(* C07 - processes sharing a local store never observe partial or foreign results.
   Same transition system as C06 (L6_Conc/LocalProgs.v): [reachable] ranges over every interleaving of the system calls of
   any number of processes (torn writes included).  Proofs: L6_Conc/CrashProofs.v. *)
From Coq Require Import List String.
From DDS Require Import Base.Bytes L6_Conc.FsOps L6_Conc.LocalProgs L6_Conc.ConcSpec L6_Conc.CrashProofs.
Import ListNotations.

(* Every fetch that returns, returns nothing or the complete value of its key, under every interleaving. *)
Theorem C07_readers_see_complete_values : forall root data enc menc s0 s p r,
  init_ok root data enc menc s0 -> reachable root data enc menc s0 s ->
  In p (s_procs s) -> In r (p_outs p) -> good_result enc menc r.
Proof. exact readers_complete. Qed.
Print Assumptions C07_readers_see_complete_values.

(* No reader step fails because of what other processes do: has_blob / fetch_blob / fetch_paths never raise a low-level
   error (they answer absent / DDS error or the value). *)
Theorem C07_readers_never_fail : forall root data enc menc s0 s i p n,
  init_ok root data enc menc s0 -> reachable root data enc menc s0 s ->
  nth_error (s_procs s) i = Some p -> reader_pc (p_pc p) = true ->
  p_pc (snd (pstep root data enc menc (s_fs s) p n)) <> PFailed.
Proof. exact readers_never_fail. Qed.
Print Assumptions C07_readers_never_fail.

(* No writer step fails because of what other processes do, once the store directories exist and the committed locations
   of all processes are pairwise prefix-free (dds rejects overlapping paths): store_blob and sync_paths of a live process
   never reach the failed state. *)
Theorem C07_writers_never_fail : forall root data enc menc s0 s i p n,
  init_ok root data enc menc s0 -> writers_ok root data s0 -> reachable_nospawn root data enc menc s0 s ->
  nth_error (s_procs s) i = Some p -> p_pc p <> PFailed ->
  p_pc (snd (pstep root data enc menc (s_fs s) p n)) <> PFailed.
Proof. exact writers_never_fail. Qed.
Print Assumptions C07_writers_never_fail.

(* Once every process has finished (or crashed), the store serves a complete blob for every committed path, and a path that
   only one key was ever committed to serves exactly that key. *)
Theorem C07_quiescent_correct : forall root data enc menc s0 s,
  init_ok root data enc menc s0 -> LinkLive root enc menc (s_fs s0) -> disciplined root enc menc s0 ->
  reachable_nospawn root data enc menc s0 s -> LinkLive root enc menc (s_fs s).
Proof. exact links_live. Qed.
Print Assumptions C07_quiescent_correct.

Theorem C07_last_committer_wins : forall root data enc menc s0 s s' i p n loc k items,
  init_ok root data enc menc s0 -> reachable root data enc menc s0 s ->
  nth_error (s_procs s) i = Some p -> p_pc p = PSP_replace loc k items ->
  s' = fst (pstep root data enc menc (s_fs s) p n) -> p_pc (snd (pstep root data enc menc (s_fs s) p n)) <> PFailed ->
  s' loc = Some (NLink (blob root k)).
Proof. exact commit_installs. Qed.
Print Assumptions C07_last_committer_wins.

(* The hypotheses of C07_writers_never_fail are jointly satisfiable by a system that commits a location. *)
Theorem C07_nonvacuous : exists root data enc menc s0,
  init_ok root data enc menc s0 /\ writers_ok root data s0 /\ exists loc, commits s0 loc.
Proof. exact (ex_intro _ _ (ex_intro _ _ (ex_intro _ _ (ex_intro _ _ (ex_intro _ _ example_writers_ok))))). Qed.
Print Assumptions C07_nonvacuous.
