(* C12 / C08 (translator route, composed) - what dds.set_store("memory", cache_objects=n) installs: the LRUCacheStore regenerated from
   dds/_lru_store.py wrapped around the MemoryStore regenerated from dds/store.py.  For every capacity (None = unbounded) and every
   operation sequence that respects content addressing it answers exactly as the dictionary specification does. *)
From Coq Require Import List ZArith String.
From DDS Require Import Base.Bytes Base.PyRt L4_Eval.Store L5_Stores.Lru Extracted.GenLru Extracted.GenMemStore L5_Stores.GenStackProofs.
Import ListNotations.
Local Open Scope string_scope.

Theorem GEN_cached_memory_store_is_dictionary : forall cap ops, consistent ops = true ->
  run_ops (gen_lru_step sstate gen_mem_step cap) ([], sempty) ops = run_ops spec_step sempty ops.
Proof. exact gen_stack_is_dictionary. Qed.
Print Assumptions GEN_cached_memory_store_is_dictionary.

(* non-vacuity: capacity 1, two keys fetched alternately (evictions), a None-valued blob, an absent key, a commit and path queries *)
Example GEN_cached_memory_store_example :
  let ops := [OPut (bs "k1") (BVal (bs "v1")); OPut (bs "k2") BNone; OFetch (bs "k1"); OFetch (bs "k2"); OFetch (bs "k1"); OFetch (bs "zz");
              OHas (bs "zz"); OHas (bs "k2"); OSync [(bs "/p", bs "k1")]; OFetchPaths [bs "/p"]; OFetchPaths [bs "/q"]] in
  consistent ops = true /\
  run_ops (gen_lru_step sstate gen_mem_step (Some 1)) ([], sempty) ops
  = [RUnit; RUnit; RBlob (BVal (bs "v1")); RBlob BNone; RBlob (BVal (bs "v1")); RBlob BNone; RBool false; RBool true; RUnit;
     RPaths [(bs "/p", bs "k1")]; RErr].
Proof. vm_compute. split; reflexivity. Qed.
