(* C14 - exactly the accepted modules are tracked.  Proofs: L2_Disc/AcceptProofs.v *)
From Coq Require Import List String.
From DDS Require Import Base.Bytes Extracted.ConstAccept L2_Disc.Accept L2_Disc.AcceptProofs.
Import ListNotations.

(* A canonical path is authorised iff one of its dotted prefixes is an accepted package - for every nesting depth
   and every number of accepted packages. *)
Theorem C14_authorized_iff : forall parts accepted,
  is_authorized_path parts accepted = true <->
  exists m, m <= List.length parts /\ mem (dotted (firstn m parts)) accepted = true.
Proof. exact authorized_iff. Qed.
Print Assumptions C14_authorized_iff.

Theorem C14_submodules_accepted : forall pkg rest accepted,
  mem (dotted pkg) accepted = true -> is_authorized_path (pkg ++ rest) accepted = true.
Proof. exact authorized_submodule. Qed.
Print Assumptions C14_submodules_accepted.

Theorem C14_more_packages_never_hide : forall parts acc more,
  is_authorized_path parts acc = true -> is_authorized_path parts (acc ++ more) = true.
Proof. exact authorized_monotone. Qed.
Print Assumptions C14_more_packages_never_hide.

(* The implementation before fix 3f7d20f (bound = number of accepted packages) violated the statement. *)
Theorem C14_pinned_refuted : exists parts accepted,
  is_authorized_path_pinned parts accepted = false /\ mem (dotted (firstn 1 parts)) accepted = true.
Proof. exact pinned_refuted. Qed.
Print Assumptions C14_pinned_refuted.

(* regenerated obligations: the loop really ranges over every prefix of the path, defaults as documented *)
Definition accept_constants_ok : bool :=
  String.eqb c_authorized_loop "range(len(cp._path.parts) + 1)"
  && String.eqb c_authorized_test "'.'.join(cp._path.parts[:idx]) in self.whitelisted_packages"
  && (if list_eq_dec string_dec c_default_accepted ["__global__"; "__main__"; "dds"]%string then true else false).
Theorem C14_constants_ok : accept_constants_ok = true.
Proof. vm_compute. reflexivity. Qed.
Print Assumptions C14_constants_ok.
