(* C13 (translator route) - the loop bodies of get_arg_ctx and get_arg_ctx_ast (with the nested process_arg) regenerated from
   /repo's source (Extracted/GenArgCtx.v) equal the model of L1_Args/ArgCtx.v, for every digest function and size bound:
   C13's theorems (spelling_invariant, by_binding, binding_injective) speak about the regenerated code. *)
From Coq Require Import List ZArith NArith.
From DDS Require Import Base.Bytes Base.PyRt L0_Hash.PyVal L0_Hash.DdsHash L1_Args.ArgCtx Extracted.GenArgCtx L1_Args.GenArgCtxProofs.
Import ListNotations.

Theorem GEN_get_arg_ctx : forall (H : bytes -> bytes) (maxlen : option N) ps pos kw,
  gen_get_arg_ctx H maxlen ps pos kw = arg_ctx_rt H maxlen ps 0 pos kw.
Proof. exact gen_get_arg_ctx_eq. Qed.
Print Assumptions GEN_get_arg_ctx.

Theorem GEN_process_arg : forall (H : bytes -> bytes) (maxlen : option N) a,
  gen_process_arg H maxlen a = process_arg H maxlen a.
Proof. exact gen_process_arg_eq. Qed.
Print Assumptions GEN_process_arg.

Theorem GEN_get_arg_ctx_ast : forall (H : bytes -> bytes) (maxlen : option N) ps pos kw,
  gen_get_arg_ctx_ast H maxlen ps pos kw = arg_ctx_ast H maxlen ps 0 pos kw.
Proof. exact gen_get_arg_ctx_ast_eq. Qed.
Print Assumptions GEN_get_arg_ctx_ast.
