(* C08 - stores round-trip blobs and paths; distinct paths never alias or escape.
   Proofs: L5_Stores/PathMapProofs.v (locations), L5_Stores/LruProofs.v (cache-wrapped store = bare store).
   The round-trip of each store implementation against the dictionary specification (L4_Eval/Store.v) is established by
   the lock-step correspondence (all four stores), not by a refinement proof: see DESIGN.md. *)
From Coq Require Import List String.
From DDS Require Import Base.Bytes L4_Eval.Store L5_Stores.PathMap L5_Stores.PathMapProofs L5_Stores.Lru L5_Stores.LruProofs.
Import ListNotations.

(* Absolute paths that differ in their sequence of non-empty segments never share a location. *)
Theorem C08_locations_injective : forall d p q l,
  loc_of d p = Some l -> loc_of d q = Some l -> segments p = segments q.
Proof. exact loc_injective. Qed.
Print Assumptions C08_locations_injective.

(* Every name created for a path resolves strictly inside the data directory. *)
Theorem C08_locations_contained : forall d p l,
  no_dots d = true -> loc_of d p = Some l ->
  exists s, s <> [] /\ resolve l = resolve d ++ s /\ resolve d = d.
Proof. exact loc_contained. Qed.
Print Assumptions C08_locations_contained.

(* "." and ".." segments (and the path without segments) are refused instead of being handed to the file system. *)
Theorem C08_dots_rejected : forall d p, existsb is_forbidden (segments p) = true -> loc_of d p = None.
Proof. exact dots_rejected. Qed.
Print Assumptions C08_dots_rejected.

(* The cache-wrapped store answers like the bare dictionary for every operation sequence (content-addressed). *)
Theorem C08_cached_store_is_dictionary : forall cap ops, consistent ops = true ->
  run_ops (lru_step sstate spec_step cap) ([], sempty) ops = run_ops spec_step sempty ops.
Proof. exact lru_transparent. Qed.
Print Assumptions C08_cached_store_is_dictionary.

(* The mapping before fix d39b068 is refuted on both counts. *)
Theorem C08_pinned_alias_refuted : forall d, loc_of_pinned d (bs "/a/b/c"%string) = loc_of_pinned d (bs "/ab/c"%string).
Proof. exact pinned_alias_refuted. Qed.
Print Assumptions C08_pinned_alias_refuted.
Theorem C08_pinned_escape_refuted : resolve (loc_of_pinned [bs "data"%string] (bs "/../x"%string)) = [bs "x"%string].
Proof. exact pinned_escape_refuted. Qed.
Print Assumptions C08_pinned_escape_refuted.
