(* C19 - the DBFS store honours its commit type and keeps legacy blobs readable.  Proofs: L5_Stores/DbfsProofs.v *)
From Coq Require Import List String.
From DDS Require Import Base.Bytes L4_Eval.Store L5_Stores.Dbfs L5_Stores.DbfsProofs.
Import ListNotations.
Local Open Scope string_scope.

Theorem C19_documented_types_accepted :
  decode_commit_type (Some "FULL") = Some CFull /\ decode_commit_type (Some "LINKS_ONLY") = Some CLink /\
  decode_commit_type (Some "NONE") = Some CNone /\ decode_commit_type None = Some CFull /\
  decode_commit_type (Some "LINK_ONLY") = Some CLink /\ decode_commit_type (Some "NO_COMMIT") = Some CNone /\
  decode_commit_type (Some "EVERYTHING") = None.
Proof. exact documented_types_accepted. Qed.
Print Assumptions C19_documented_types_accepted.

Theorem C19_commit_none_writes_nothing : forall i d fs item, sync_one (DStore i d CNone) fs item = fs.
Proof. exact commit_none. Qed.
Print Assumptions C19_commit_none_writes_nothing.

Theorem C19_commit_writes_record : forall i d ct fs segs key,
  ct <> CNone -> fetch_record (DStore i d ct) (sync_one (DStore i d ct) fs (segs, key)) segs = Some (record_of key).
Proof. exact commit_writes_record. Qed.
Print Assumptions C19_commit_writes_record.

Theorem C19_full_leaves_identical_copy : forall i d fs segs key c,
  alookup (blob_uri (DStore i d CFull) key) fs = Some c ->
  alookup (redir_uri (DStore i d CFull) segs) fs = None ->
  obj_uri (DStore i d CFull) segs <> redir_uri (DStore i d CFull) segs ->
  alookup (obj_uri (DStore i d CFull) segs) (sync_one (DStore i d CFull) fs (segs, key)) = Some c.
Proof. exact commit_full_copies. Qed.
Print Assumptions C19_full_leaves_identical_copy.

Theorem C19_links_only_writes_just_the_record : forall i d fs segs key u,
  u <> redir_uri (DStore i d CLink) segs ->
  alookup u (sync_one (DStore i d CLink) fs (segs, key)) = alookup u fs.
Proof. exact commit_links_no_copy. Qed.
Print Assumptions C19_links_only_writes_just_the_record.

Theorem C19_legacy_aliases_kind_preserving : legacy_kind_preserving = true.
Proof. exact legacy_aliases_kind_preserving. Qed.
Print Assumptions C19_legacy_aliases_kind_preserving.
