(* C19 (histories) - over every admissible history of blob writes and multi-path sync_paths calls the DBFS store refines
   the path dictionary, 'full' keeps a byte-identical copy beside every record, 'links only' writes only records, 'none'
   writes nothing outside the internal directory, and commits never touch blobs.
   Proofs: L5_Stores/DbfsHistProofs.v.  The two _refuted theorems are the findings F35 and F36 (known_findings.json). *)
From Coq Require Import List String Bool.
From DDS Require Import Base.Bytes L4_Eval.Store L5_Stores.Dbfs L5_Stores.DbfsHist L5_Stores.DbfsHistProofs.
Import ListNotations.
Local Open Scope string_scope.

(* load works whenever the record exists - and the record of a path names the key of its last commit, in every history *)
Theorem C19b_sync_refines_dictionary : forall s ops fs oks,
  d_ct s <> CNone -> dirs_apart s = true -> hist_ok s [] ops = true -> drun s [] ops = (fs, oks) ->
  forall p, wf_path p = true ->
    fetch_record s fs p = option_map record_of (alookup (seg_key p) (abs_run [] ops)).
Proof. exact sync_refines_dictionary. Qed.
Print Assumptions C19b_sync_refines_dictionary.

(* 'full': in every reachable state each committed path has a byte-identical copy of the blob its record names *)
Theorem C19b_full_keeps_identical_copies : forall s ops fs oks,
  d_ct s = CFull -> dirs_apart s = true -> hist_ok s [] ops = true -> drun s [] ops = (fs, oks) ->
  forall p k, wf_path p = true -> alookup (seg_key p) (abs_run [] ops) = Some k ->
    exists c, alookup (blob_uri s k) fs = Some c /\ alookup (obj_uri s p) fs = Some c.
Proof. exact full_keeps_identical_copies. Qed.
Print Assumptions C19b_full_keeps_identical_copies.

(* 'links only' writes just records (any history, no side condition) *)
Theorem C19b_links_only_writes_only_records : forall s ops fs oks,
  d_ct s = CLink -> drun s [] ops = (fs, oks) ->
  forall u c, alookup u fs = Some c ->
    (exists k, u = blob_uri s k) \/ (exists p k, u = redir_uri s p /\ c = record_of k).
Proof. exact links_only_writes_only_records. Qed.
Print Assumptions C19b_links_only_writes_only_records.

(* 'none' writes nothing but blobs (any history, no side condition) *)
Theorem C19b_none_writes_only_blobs : forall s ops fs oks,
  d_ct s = CNone -> drun s [] ops = (fs, oks) ->
  forall u c, alookup u fs = Some c -> exists k, u = blob_uri s k.
Proof. exact none_writes_only_blobs. Qed.
Print Assumptions C19b_none_writes_only_blobs.

(* 'full' writes blobs, records and copies of blobs only (any history, no side condition) *)
Theorem C19b_full_writes_only_records_and_copies : forall s ops fs oks,
  d_ct s = CFull -> drun s [] ops = (fs, oks) ->
  forall u c, alookup u fs = Some c ->
    (exists k, u = blob_uri s k) \/ (exists p k, u = redir_uri s p /\ c = record_of k) \/ (exists p, u = obj_uri s p).
Proof. exact full_writes_only_records_and_copies. Qed.
Print Assumptions C19b_full_writes_only_records_and_copies.

(* commits never modify a blob: what store_blob wrote is what every later state serves *)
Theorem C19b_commits_never_touch_blobs : forall s ops fs oks,
  dirs_apart s = true -> hist_ok s [] ops = true -> drun s [] ops = (fs, oks) ->
  forall k c, In (DBlob k c) ops -> alookup (blob_uri s k) fs = Some c.
Proof. exact commits_never_touch_blobs. Qed.
Print Assumptions C19b_commits_never_touch_blobs.

(* an admissible history never raises *)
Theorem C19b_admissible_history_completes : forall s ops fs oks,
  hist_ok s [] ops = true -> drun s [] ops = (fs, oks) -> forallb (fun b : bool => b) oks = true.
Proof. exact admissible_history_completes. Qed.
Print Assumptions C19b_admissible_history_completes.

(* non-vacuity: a concrete three-path history over two commits is admissible *)
Theorem C19b_hypotheses_satisfiable :
  let s := DStore (bs "dbfs:/s/internal") (bs "dbfs:/s/data") CFull in
  dirs_apart s = true /\
  hist_ok s [] [DBlob (bs "k1") (bs "one"); DBlob (bs "k2") (bs "two");
                DSync [([bs "x"], bs "k1"); ([bs "d"; bs "y"], bs "k1")];
                DSync [([bs "x"], bs "k2"); ([bs "z"], bs "k1")]] = true.
Proof. exact hypotheses_satisfiable. Qed.
Print Assumptions C19b_hypotheses_satisfiable.

(* F35: the well-formedness hypothesis the proof needs is not checked by the code: a path whose first segment is the reserved
   directory name destroys the record of another path under 'full' *)
Theorem C19b_reserved_first_segment_refuted :
  exists s ops p k,
    d_ct s = CFull /\ dirs_apart s = true /\ forallb (fun b : bool => b) (snd (drun s [] ops)) = true /\
    wf_path p = true /\ alookup (seg_key p) (abs_run [] ops) = Some k /\
    fetch_record s (fst (drun s [] ops)) p <> Some (record_of k).
Proof. exact reserved_first_segment_refuted. Qed.
Print Assumptions C19b_reserved_first_segment_refuted.

(* F36: a store first used with 'links only' and then with 'full': the path is committed, its record is up to date, and
   'full' never leaves the copy *)
Theorem C19b_links_then_full_leaves_no_copy_refuted :
  exists i d ops1 ops2 p k,
    let s1 := DStore i d CLink in let s2 := DStore i d CFull in
    let fs1 := fst (drun s1 [] ops1) in let fs2 := fst (drun s2 fs1 ops2) in
    dirs_apart s2 = true /\ hist_ok s1 [] ops1 = true /\ hist_ok s2 fs1 ops2 = true /\
    wf_path p = true /\ In (DSync [(p, k)]) ops2 /\ fetch_record s2 fs2 p = Some (record_of k) /\
    alookup (obj_uri s2 p) fs2 = None.
Proof. exact links_then_full_leaves_no_copy_refuted. Qed.
Print Assumptions C19b_links_then_full_leaves_no_copy_refuted.
