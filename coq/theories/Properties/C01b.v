(* C01 (b) - the ideal digest model of DESIGN.md 4.4 for signatures (L3).
   C01 is relative to the soundness of signatures: a signature must not be shared by two nodes that depend on different
   things.  Mathematically no injectivity statement about XOR-folds of SHA-256 digests is true; what IS proved here is
   that nothing the signature is meant to depend on is dropped or confused by the way dds combines the pieces:
   - L3_Sig/SigTree.v: [sana] is the analysis of Sig.v ([ana]) computed in a free term algebra [dg] - every
     dds_hash_commut is kept as an uninterpreted [DComb] of its keyed entries (same keys, same order), value hashes and
     hashes of source lines are abstract leaves ([hv], [hl] : any functions), a signature found in the store is a leaf;
   - L3_Sig/SigTreeProofs.v: [content] is the explicit description of what a node depends on (hash of its source
     lines; its arguments: name and hash of every literal / default, or, when an argument is only known at run time,
     the call site = the enclosing function up to the call; the paths loaded with the signature found there; the
     contents of its interactions, in order; the external names; the tracked variables with the hash of their value);
     [content_of] computes it from the program by the same recursion as the analysis; [skey A] is the argument context
     handed to [sana]: the named arguments of A and the term of its call site.
   The signature TERM is an injective function of the content.  The only hypotheses are the ones visible in the
   statements; the key prefixes are the constants regenerated from dds/introspect.py (Extracted/ConstSig.v) and their
   non-confusability is proved by computation (key_disjoint), with one recorded exception: k_arg "context" IS
   k_arg_context (an argument named "context" and the call-site context have the same key; the two entries remain
   different terms only because a value hash is a leaf and a context is a combination).
   What remains trusted (DESIGN.md 4.4 / 7): that rendering terms with SHA-256 and XOR ([render], proved to give back
   [ana]: C01_signature_term_faithful) does not identify two different terms. *)
From Coq Require Import List String ZArith NArith.
From DDS Require Import Base.Bytes L0_Hash.PyVal L0_Hash.DdsHash L1_Args.ArgCtx L3_Sig.Program L3_Sig.Sig L3_Sig.SigTree
     L3_Sig.SigTreeProofs.
Import ListNotations.

(* Two analysed nodes - any two programs, any argument contexts, any resolved references, any value-hash functions -
   with the same signature term have the same content. *)
Theorem C01_signature_term_injective : forall hv hl f A R x R' f2 A2 R2 x2 R2',
  sana hv hl f (skey A) R = inr (x, R') -> sana hv hl f2 (skey A2) R2 = inr (x2, R2') ->
  sfi_sig x = sfi_sig x2 ->
  content_of hv hl f A R = content_of hv hl f2 A2 R2 /\ content_of hv hl f A R <> None.
Proof. exact sig_injective. Qed.
Print Assumptions C01_signature_term_injective.

(* The same modulo the order of the entries of every combination (dds_hash_commut is an XOR-fold: the order is not
   observable): [peq] relates two terms that differ by permutations inside combinations; [ceq] relates two contents
   that differ by the order of the named entries (arguments, loads, external names, variables) at any depth - the
   order of the interactions is determined, their index is part of the key. *)
Theorem C01_signature_term_injective_perm : forall hv hl f A R x R' f2 A2 R2 x2 R2',
  sana hv hl f (skey A) R = inr (x, R') -> sana hv hl f2 (skey A2) R2 = inr (x2, R2') ->
  peq (sfi_sig x) (sfi_sig x2) ->
  exists c c2, content_of hv hl f A R = Some c /\ content_of hv hl f2 A2 R2 = Some c2 /\ ceq c c2.
Proof. exact sig_injective_perm. Qed.
Print Assumptions C01_signature_term_injective_perm.

(* Root calls (dds.eval / dds.keep at top level: no call-site context, as in DdsEval.analysis). *)
Theorem C01_signature_term_injective_root : forall hv hl f named R x R' f2 named2 R2 x2 R2',
  sana hv hl f (named, None) R = inr (x, R') -> sana hv hl f2 (named2, None) R2 = inr (x2, R2') ->
  sfi_sig x = sfi_sig x2 ->
  content_of hv hl f (named, None) R = content_of hv hl f2 (named2, None) R2 /\
  content_of hv hl f (named, None) R <> None.
Proof. exact sig_injective_root. Qed.
Print Assumptions C01_signature_term_injective_root.

(* Nodes whose arguments are all known, under any context key (the key is not read). *)
Theorem C01_signature_term_injective_known : forall hv hl f named key R x R' f2 named2 key2 R2 x2 R2',
  args_known named = true -> args_known named2 = true ->
  sana hv hl f (named, key) R = inr (x, R') -> sana hv hl f2 (named2, key2) R2 = inr (x2, R2') ->
  sfi_sig x = sfi_sig x2 ->
  content_of hv hl f (named, None) R = content_of hv hl f2 (named2, None) R2 /\
  content_of hv hl f (named, None) R <> None.
Proof. exact sig_injective_known. Qed.
Print Assumptions C01_signature_term_injective_known.

(* The term built for a content determines it: as a signature, and as the context of a call site. *)
Theorem C01_content_encoding_injective : forall c c2, (enc c = enc c2 -> c = c2) /\ (enc_site c = enc_site c2 -> c = c2).
Proof. exact (fun c c2 => conj (enc_injective c c2) (enc_site_injective c c2)). Qed.
Print Assumptions C01_content_encoding_injective.

(* [sana] computes exactly the encoding of the content: same failures, same resolved references. *)
Theorem C01_signature_term_is_encoding : forall hv hl f A R,
  match sana hv hl f (skey A) R, cana hv hl f A R with
  | inl e, inl e' => e = e'
  | inr (x, R1), inr (c, R2) => sfi_sig x = enc c /\ R1 = R2
  | _, _ => False
  end.
Proof. exact sana_cana. Qed.
Print Assumptions C01_signature_term_is_encoding.

(* Nothing is dropped: nodes with different contents have different signature terms ... *)
Theorem C01_signature_term_sensitive : forall hv hl f A R x R' f2 A2 R2 x2 R2',
  sana hv hl f (skey A) R = inr (x, R') -> sana hv hl f2 (skey A2) R2 = inr (x2, R2') ->
  content_of hv hl f A R <> content_of hv hl f2 A2 R2 -> sfi_sig x <> sfi_sig x2.
Proof. exact sig_sensitive. Qed.
Print Assumptions C01_signature_term_sensitive.

(* ... and one differing piece is enough: the lines, the arguments (one literal argument hash, or anything in the call
   site), one load (path or signature found), one child, one external name, one variable hash. *)
Theorem C01_signature_term_sensitive_piecewise : forall lh a loads ch exts vars lh2 a2 loads2 ch2 exts2 vars2,
  lh <> lh2 \/ a <> a2 \/ loads <> loads2 \/ ch <> ch2 \/ exts <> exts2 \/ vars <> vars2 ->
  enc (Content lh a loads ch exts vars) <> enc (Content lh2 a2 loads2 ch2 exts2 vars2).
Proof. exact enc_sensitive. Qed.
Print Assumptions C01_signature_term_sensitive_piecewise.

(* The key families are pairwise separated (for all names, paths and indices), and injective in their parameter;
   the exception. *)
Theorem C01_key_disjoint : forall n p i m v,
  let ks := [k_arg n; k_dep p; k_fun_dep i; k_ext_dep m; k_ext_var v; k_body_sig; k_fun_input; k_fun_inter; k_fun_deps] in
  NoDup (map fam ks) /\
  (forall j1 j2 a b, nth_error ks j1 = Some a -> nth_error ks j2 = Some b -> a = b -> j1 = j2).
Proof. exact key_disjoint. Qed.
Print Assumptions C01_key_disjoint.

Theorem C01_key_injective :
  (forall a b, k_arg a = k_arg b -> a = b) /\ (forall a b, k_dep a = k_dep b -> a = b) /\
  (forall a b, k_fun_dep a = k_fun_dep b -> a = b) /\ (forall a b, k_ext_dep a = k_ext_dep b -> a = b) /\
  (forall a b, k_ext_var a = k_ext_var b -> a = b).
Proof. exact (conj k_arg_inj (conj k_dep_inj (conj k_fun_dep_inj (conj k_ext_dep_inj k_ext_var_inj)))). Qed.
Print Assumptions C01_key_injective.

Theorem C01_key_arg_context_is_an_argument_key : k_arg_context = k_arg (bs "context"%string).
Proof. exact k_arg_context_is_k_arg. Qed.
Print Assumptions C01_key_arg_context_is_an_argument_key.

(* Interpreting the terms with a digest function H (XOR-fold of H (key ++ value)) gives the analysis of Sig.v. *)
Theorem C01_signature_term_faithful : forall H mx f named key R,
  ana H mx f (named, option_map (render H) key) (render_pairs H R) =
  match sana (hv0 H mx) (hl0 H mx) f (named, key) R with
  | inl e => inl e
  | inr (x, R') => inr (render_sfi H x, render_pairs H R')
  end.
Proof. exact sana_faithful. Qed.
Print Assumptions C01_signature_term_faithful.

(* Non-vacuity: [ex_f] reads a tracked variable and an external name, keeps [ex_g] with a run-time argument (and a
   default), then loads the kept path; the analysis succeeds, its signature term is the encoding of the expected
   content, which is the content computed from the program. *)
Example C01_signature_term_nonvacuous :
  exists x R', sana ex_hv ex_hl ex_f ([], None) [] = inr (x, R') /\
               sfi_sig x = enc ex_content_f /\
               content_of ex_hv ex_hl ex_f ([], None) [] = Some ex_content_f.
Proof. exact ex_sana_succeeds. Qed.
Print Assumptions C01_signature_term_nonvacuous.
