(* C12 (translator route) - the Gallina definitions of LRUCache / LRUCacheStore and of the cache_objects decoding REGENERATED from
   /repo's Python source on every run (Extracted/GenLru.v, GenCacheOpt.v; harness/translate_py.py) equal the hand-written model. *)
From Coq Require Import List ZArith.
From DDS Require Import Base.Bytes Base.PyRt L4_Eval.Store L5_Stores.Lru Extracted.GenLru Extracted.GenCacheOpt L5_Stores.GenLruProofs L5_Stores.GenCacheOptProofs.
Import ListNotations.

Theorem GEN_cget : forall k c, NoDup (map fst c) -> gen_cget k c = cget k c.
Proof. exact gen_cget_eq. Qed.
Print Assumptions GEN_cget.

Theorem GEN_cput : forall cap k v c, gen_cput cap k v c = cput cap k v c.
Proof. exact gen_cput_eq. Qed.
Print Assumptions GEN_cput.

Theorem GEN_lru_step_nofetch : forall (S : Type) (inner : S -> sop -> S * sout) cap c s o,
  (forall k, o <> OFetch k) -> NoDup (map fst c) ->
  gen_lru_step S inner cap (c, s) o = lru_step S inner cap (c, s) o.
Proof. exact gen_lru_step_eq_nofetch. Qed.
Print Assumptions GEN_lru_step_nofetch.

Theorem GEN_lru_step : forall (S : Type) (inner : S -> sop -> S * sout) cap, has_pure inner ->
  forall c s o, NoDup (map fst c) -> gen_lru_step S inner cap (c, s) o = lru_step S inner cap (c, s) o.
Proof. exact gen_lru_step_eq. Qed.
Print Assumptions GEN_lru_step.

Theorem GEN_lru_run : forall (S : Type) (inner : S -> sop -> S * sout) cap, has_pure inner ->
  forall ops c s, NoDup (map fst c) ->
  run_ops (gen_lru_step S inner cap) (c, s) ops = run_ops (lru_step S inner cap) (c, s) ops.
Proof. exact gen_lru_run_eq. Qed.
Print Assumptions GEN_lru_run.

Theorem GEN_lru_run_spec : forall cap ops s,
  run_ops (gen_lru_step sstate spec_step cap) ([], s) ops = run_ops (lru_step sstate spec_step cap) ([], s) ops.
Proof. exact gen_lru_run_spec_eq. Qed.
Print Assumptions GEN_lru_run_spec.

Theorem GEN_decode_cache_objects : forall d o, gen_decode_cache_objects d o = DVal (decode_cache_objects d o).
Proof. exact gen_decode_cache_objects_eq. Qed.
Print Assumptions GEN_decode_cache_objects.
