(* C19 (write order) - whatever write a DBFS operation stops after (fault, kill), a blob that has_blob reports present can
   be fetched (the metadata, the commit marker, is written after the data), and under 'full' a redirect record never exists
   without the copy it stands for.  The write-level model agrees with the history model of DbfsHist.v on complete operations.
   Proofs: L5_Stores/DbfsStepsProofs.v.  Tie: harness/c19.py compares run_trace with the mutating dbutils calls of the real store. *)
From Coq Require Import List String Bool.
From DDS Require Import Base.Bytes L4_Eval.Store L5_Stores.Dbfs L5_Stores.DbfsHist L5_Stores.DbfsSteps L5_Stores.DbfsStepsProofs.
Import ListNotations.
Local Open Scope string_scope.

(* the commit marker comes after the data: in every state reachable by complete operations followed by one operation
   interrupted after any number of its writes, has_blob implies that the blob is there *)
Theorem C19c_marker_after_data : forall s ops last n,
  dirs_apart s = true -> ops_wf (ops ++ [last]) = true ->
  forall k, all_hex k = true -> has_blob s (run_interrupted s ops last n) k = true ->
    exists c, alookup (blob_uri s k) (run_interrupted s ops last n) = Some c.
Proof. exact marker_after_data. Qed.
Print Assumptions C19c_marker_after_data.

(* 'full': the copy is written before the record, so a record never exists without a copy *)
Theorem C19c_copy_before_record : forall s ops last n,
  d_ct s = CFull -> dirs_apart s = true -> ops_wf (ops ++ [last]) = true ->
  forall p k, wf_path p = true -> fetch_record s (run_interrupted s ops last n) p = Some (record_of k) ->
    exists c, alookup (obj_uri s p) (run_interrupted s ops last n) = Some c.
Proof. exact copy_before_record. Qed.
Print Assumptions C19c_copy_before_record.

(* on complete operations the write-level model is the history model of DbfsHist.v, metadata files aside *)
Theorem C19c_steps_refine_histories : forall s ops,
  dirs_apart s = true -> ops_wf ops = true ->
  forall u, (forall k, u <> meta_uri s k) ->
    alookup u (run_steps s [] ops) = alookup u (fst (drun s [] ops)).
Proof. exact steps_refine_histories. Qed.
Print Assumptions C19c_steps_refine_histories.

(* every completed store_blob leaves the marker: has_blob holds for every key stored by a complete operation *)
Theorem C19c_completed_blob_is_present : forall s ops,
  dirs_apart s = true -> ops_wf ops = true ->
  forall k c, In (DBlob k c) ops -> has_blob s (run_steps s [] ops) k = true.
Proof. exact completed_blob_is_present. Qed.
Print Assumptions C19c_completed_blob_is_present.

(* the opposite order (marker first) is refuted: interrupted between the two writes, has_blob holds and the blob is missing *)
Theorem C19c_marker_first_refuted :
  let s := DStore (bs "dbfs:/s/internal") (bs "dbfs:/s/data") CFull in
  let k := bs "abc0" in
  let fs := apply_steps s [] (firstn 1 [WMeta k; WBlob k (bs "v")]) in
  has_blob s fs k = true /\ alookup (blob_uri s k) fs = None.
Proof. exact marker_first_refuted. Qed.
Print Assumptions C19c_marker_first_refuted.

(* non-vacuity: a concrete interrupted history meets the side conditions *)
Theorem C19c_hypotheses_satisfiable :
  let s := DStore (bs "dbfs:/s/internal") (bs "dbfs:/s/data") CFull in
  let ops := [DBlob (bs "abc0") (bs "one"); DSync [([bs "x"], bs "abc0")]] in
  let last := DSync [([bs "d"; bs "y"], bs "abc0"); ([bs "x"], bs "abc0")] in
  dirs_apart s = true /\ ops_wf (ops ++ [last]) = true /\
  has_blob s (run_interrupted s ops last 1) (bs "abc0") = true /\
  fetch_record s (run_interrupted s ops last 1) [bs "d"; bs "y"] = None /\
  fetch_record s (run_interrupted s ops last 2) [bs "d"; bs "y"] = Some (record_of (bs "abc0")).
Proof. exact hypotheses_satisfiable_steps. Qed.
Print Assumptions C19c_hypotheses_satisfiable.
