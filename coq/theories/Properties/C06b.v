(* C06 (continued) - recovery after a crash: the file system left behind by ANY execution with crashes is a consistent
   dictionary, and a new process gets the dictionary's answers from it.
   C06 says what every reader may rely on at every instant; C08b says that one process running alone refines a
   dictionary, from a file system related to an abstract state by R - but R forbids temporaries, so it does not hold of
   a file system on which a process was killed.  Here R is generalised to Rp pid D (temporaries of OTHER pids may exist
   anywhere; D = directories below data that no committed location accounts for), the refinement is re-proved for Rp,
   and Rp is derived from the crash invariants of L6_Conc/CrashProofs.v for every reachable state and every fresh pid.
   Proofs: L6_Conc/SeqRefine.v (Rp, refinement), L6_Conc/Recovery.v (connection, example).
   Hypotheses on the initial state s0, beyond init_ok: writers_ok (the store was initialised, committed locations do not
   get in each other's way), LinkLive + disciplined (paths are pointed at stored keys), DataTree (below data there are
   only directories and links, sitting in directories), finite_fs (finitely many names exist).
   Side condition on the recovering process, beyond those of C08b: op_avoid - it does not commit a location that is a
   directory in the file system left behind (os.replace onto a directory fails: a process killed in
   sync_paths [(data/d/p, k)] after mkdir data/d makes a later sync_paths [(data/d, k)] raise). *)
From Coq Require Import List String.
From DDS Require Import Base.Bytes L6_Conc.FsOps L6_Conc.LocalProgs L6_Conc.ConcSpec L6_Conc.CrashProofs L6_Conc.SeqRefine
  L6_Conc.Recovery.
Import ListNotations.

(* The refinement with leftovers: a process whose pid has no temporary in the file system returns the dictionary's
   answers, ends in an Rp-related state, and leaves every non-visible name (the leftovers) exactly as it was. *)
Theorem C06_seq_refines_dictionary_with_leftovers : forall (root data : path) (enc menc : bytes -> bytes)
    (D : path -> Prop) (fs : fsys) (st : astate) (p : proc) (ops : list opcall),
  separated root data ->
  Rp root data enc menc (p_pid p) D fs st ->
  p_pc p = PIdle -> p_outs p = [] -> p_todo p = ops ->
  Forall (good_op data) ops ->
  locs_ok root data enc menc st ops ->
  stored_ok root enc menc st ops ->
  Forall (op_avoid D) ops ->
  exists fuel, let '(fs', p', _) := run_seq root data enc menc fuel fs p [] in
    p_pc p' = PIdle /\ p_todo p' = [] /\
    p_outs p' = spec_run root enc menc st ops /\
    Rp root data enc menc (p_pid p) D fs' (spec_state root enc menc st ops) /\
    (forall x, visible x = false -> fs' x = fs x).
Proof. exact seq_refines_dictionary_with_leftovers. Qed.
Print Assumptions C06_seq_refines_dictionary_with_leftovers.

(* R (no leftovers, C08b) is the special case: no temporary of anybody, no unaccounted directory. *)
Theorem C06_R_is_Rp_without_leftovers : forall (root data : path) (enc menc : bytes -> bytes) (fs : fsys) (st : astate),
  R root data enc menc fs st <->
  (Rp root data enc menc 0 no_dirs fs st /\ forall x, visible x = false -> fs x = None).
Proof. intros. split; intro H; exact H. Qed.
Print Assumptions C06_R_is_Rp_without_leftovers.

(* Every state reachable with crashes is Rp-related, for every pid that no process uses, to a dictionary state that is
   exactly what the file system shows: a key is stored iff its metadata file exists; a location below data maps to k
   iff it is a link to the blob of k. *)
Theorem C06_recovery_refines : forall (root data : path) (enc menc : bytes -> bytes) (s0 s : sys),
  init_ok root data enc menc s0 ->
  writers_ok root data s0 ->
  LinkLive root enc menc (s_fs s0) ->
  disciplined root enc menc s0 ->
  DataTree data (s_fs s0) ->
  finite_fs (s_fs s0) ->
  reachable_nospawn root data enc menc s0 s ->
  forall pid', (forall p, In p (s_procs s) -> p_pid p <> pid') ->
  exists st,
    Rp root data enc menc pid' (dirs_of (s_fs s)) (s_fs s) st /\
    (forall k, good_key k = true -> (In k (a_keys st) <-> s_fs s (meta root k) <> None)) /\
    (forall loc k, good_loc data loc -> (lookup loc (a_paths st) = Some k <-> s_fs s loc = Some (NLink (blob root k)))).
Proof. exact recovery_refines. Qed.
Print Assumptions C06_recovery_refines.

(* A new process that runs alone on the file system left behind (everybody else finished or was killed - or simply takes
   no more steps) gets exactly the dictionary's answers for the state the file system shows. *)
Theorem C06_recovered_store_is_a_dictionary : forall (root data : path) (enc menc : bytes -> bytes) (s0 s : sys),
  init_ok root data enc menc s0 ->
  writers_ok root data s0 ->
  LinkLive root enc menc (s_fs s0) ->
  disciplined root enc menc s0 ->
  DataTree data (s_fs s0) ->
  finite_fs (s_fs s0) ->
  reachable_nospawn root data enc menc s0 s ->
  forall pid', (forall p, In p (s_procs s) -> p_pid p <> pid') ->
  exists st,
    ((forall k, good_key k = true -> (In k (a_keys st) <-> s_fs s (meta root k) <> None)) /\
     (forall loc k, good_loc data loc -> (lookup loc (a_paths st) = Some k <-> s_fs s loc = Some (NLink (blob root k))))) /\
    forall p ops, p_pid p = pid' -> p_pc p = PIdle -> p_outs p = [] -> p_todo p = ops ->
      Forall (good_op data) ops ->
      locs_ok root data enc menc st ops ->
      stored_ok root enc menc st ops ->
      Forall (op_avoid (dirs_of (s_fs s))) ops ->
      exists fuel, let '(fs', p', _) := run_seq root data enc menc fuel (s_fs s) p [] in
        p_pc p' = PIdle /\ p_todo p' = [] /\
        p_outs p' = spec_run root enc menc st ops /\
        Rp root data enc menc pid' (dirs_of (s_fs s)) fs' (spec_state root enc menc st ops).
Proof. exact recovered_store_is_a_dictionary. Qed.
Print Assumptions C06_recovered_store_is_a_dictionary.

(* In particular, has_blob(k) is true exactly for the keys whose store_blob completed the rename of the metadata file,
   and fetch_blob(k) then returns the complete value (never a truncated one: a killed writer only leaves temporaries). *)
Theorem C06_recovered_has_fetch : forall (root data : path) (enc menc : bytes -> bytes) (s0 s : sys),
  init_ok root data enc menc s0 ->
  writers_ok root data s0 ->
  LinkLive root enc menc (s_fs s0) ->
  disciplined root enc menc s0 ->
  DataTree data (s_fs s0) ->
  finite_fs (s_fs s0) ->
  reachable_nospawn root data enc menc s0 s ->
  forall p k, (forall q, In q (s_procs s) -> p_pid q <> p_pid p) ->
    p_pc p = PIdle -> p_outs p = [] -> p_todo p = [OpHas k; OpFetch k] -> good_key k = true ->
    exists fuel, let '(_, p', _) := run_seq root data enc menc fuel (s_fs s) p [] in
      p_pc p' = PIdle /\ p_todo p' = [] /\
      ((s_fs s (meta root k) <> None /\ p_outs p' = [RBool true; RBlob k (menc k) (enc k)]) \/
       (s_fs s (meta root k) = None /\ p_outs p' = [RBool false; RNone])).
Proof. exact recovered_has_fetch. Qed.
Print Assumptions C06_recovered_has_fetch.

(* ... and a location whose link swap completed (to the old or to the new blob) resolves to a key whose blob and metadata
   are complete; any other location strictly below data is reported as not committed. *)
Theorem C06_recovered_fetch_path : forall (root data : path) (enc menc : bytes -> bytes) (s0 s : sys),
  init_ok root data enc menc s0 ->
  writers_ok root data s0 ->
  LinkLive root enc menc (s_fs s0) ->
  disciplined root enc menc s0 ->
  DataTree data (s_fs s0) ->
  finite_fs (s_fs s0) ->
  reachable_nospawn root data enc menc s0 s ->
  forall p loc, (forall q, In q (s_procs s) -> p_pid q <> p_pid p) ->
    p_pc p = PIdle -> p_outs p = [] -> p_todo p = [OpFetchPath loc] -> good_loc data loc ->
    exists fuel, let '(_, p', _) := run_seq root data enc menc fuel (s_fs s) p [] in
      p_pc p' = PIdle /\ p_todo p' = [] /\
      ((exists k, good_key k = true /\ s_fs s loc = Some (NLink (blob root k)) /\ complete root enc menc (s_fs s) k /\
                  p_outs p' = [RKey (blob root k)]) \/
       ((forall t, s_fs s loc <> Some (NLink t)) /\ p_outs p' = [RErr])).
Proof. exact recovered_fetch_path. Qed.
Print Assumptions C06_recovered_fetch_path.

(* Non-vacuity: in the example system of C06, process 1 initialises, installs the blob of ex_key, creates the temporary
   of the metadata file and is killed; process 2 is killed too (a concrete schedule, by computation).  The hypotheses
   above hold; a temporary of the dead process is still there; the new process 3 is told that ex_key is absent, stores
   it, and then finds it with its complete value. *)
Theorem C06_recovery_example :
  reachable_nospawn ex_root ex_data (fun k => k) (fun k => k) ex_sys rx_sys /\
  (forall p, In p (s_procs rx_sys) -> p_pc p = PFailed) /\
  s_fs rx_sys (blob ex_root ex_key) = Some (NFile ex_key) /\
  s_fs rx_sys (meta ex_root ex_key) = None /\
  s_fs rx_sys (tmp_of (meta ex_root ex_key) 1 1) = Some (NFile []) /\
  exists fuel,
    let '(_, p', _) := run_seq ex_root ex_data (fun k => k) (fun k => k) fuel (s_fs rx_sys)
                               (Proc 3 0 PIdle [OpHas ex_key; OpStore ex_key; OpHas ex_key; OpFetch ex_key] []) [] in
    p_pc p' = PIdle /\ p_todo p' = [] /\
    p_outs p' = [RBool false; RUnit; RBool true; RBlob ex_key ex_key ex_key].
Proof. exact recovery_example. Qed.
Print Assumptions C06_recovery_example.
