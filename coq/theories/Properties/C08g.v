(* C08 (translator route) - path_segments regenerated from /repo's source (Extracted/GenPath.v) equals the model. *)
From Coq Require Import List ZArith.
From DDS Require Import Base.Bytes Base.PyRt L5_Stores.PathMap Extracted.GenPath L5_Stores.GenPathProofs.
Import ListNotations.

Theorem GEN_path_segments : forall p, gen_path_segments p = path_segments p.
Proof. exact gen_path_segments_eq. Qed.
Print Assumptions GEN_path_segments.
