(* C08 (continued) - the local file store refines a dictionary: one process running store operations one after the other
   (L6_Conc/LocalProgs.v, run_seq: one transition per system call, whole writes) returns exactly the results of the
   dictionary specification (keys -> blobs, committed locations -> keys) and ends in a file system related to the
   final dictionary state by the abstraction relation R.
   Proofs: L6_Conc/SeqRefine.v.  Side conditions (both needed, see the counterexamples in SeqRefine.v):
   locs_ok (committed locations prefix-free; fetch_paths asked about a location strictly below data) and stored_ok (sync_paths only points locations at keys stored earlier). *)
From Coq Require Import List String.
From DDS Require Import Base.Bytes L6_Conc.FsOps L6_Conc.LocalProgs L6_Conc.ConcSpec L6_Conc.CrashProofs L6_Conc.SeqRefine.
Import ListNotations.

(* The refinement: outputs in order = outputs of the dictionary; the final file system is R-related to the final state. *)
Theorem C08_seq_refines_dictionary : forall (root data : path) (enc menc : bytes -> bytes)
    (fs : fsys) (st : astate) (p : proc) (ops : list opcall),
  separated root data ->
  R root data enc menc fs st ->
  p_pc p = PIdle -> p_outs p = [] -> p_todo p = ops ->
  Forall (good_op data) ops ->
  locs_ok root data enc menc st ops ->
  stored_ok root enc menc st ops ->
  exists fuel, let '(fs', p', _) := run_seq root data enc menc fuel fs p [] in
    p_pc p' = PIdle /\ p_todo p' = [] /\
    p_outs p' = spec_run root enc menc st ops /\
    R root data enc menc fs' (spec_state root enc menc st ops).
Proof. exact seq_refines_dictionary. Qed.
Print Assumptions C08_seq_refines_dictionary.

(* After store_blob(k), has_blob(k) answers true and fetch_blob(k) returns what was stored, whatever runs in between. *)
Theorem C08_store_then_has_fetch : forall (root data : path) (enc menc : bytes -> bytes)
    (fs : fsys) (st : astate) (p : proc) (pre mid : list opcall) (k : bytes),
  separated root data ->
  R root data enc menc fs st ->
  p_pc p = PIdle -> p_outs p = [] -> p_todo p = pre ++ [OpStore k] ++ mid ++ [OpHas k; OpFetch k] ->
  Forall (good_op data) (pre ++ [OpStore k] ++ mid ++ [OpHas k; OpFetch k]) ->
  locs_ok root data enc menc st (pre ++ [OpStore k] ++ mid ++ [OpHas k; OpFetch k]) ->
  stored_ok root enc menc st (pre ++ [OpStore k] ++ mid ++ [OpHas k; OpFetch k]) ->
  exists fuel rs, let '(_, p', _) := run_seq root data enc menc fuel fs p [] in
    p_pc p' = PIdle /\ p_todo p' = [] /\
    List.length rs = List.length pre + 1 + List.length mid /\
    p_outs p' = rs ++ [RBool true; RBlob k (menc k) (enc k)].
Proof. exact store_then_has_fetch. Qed.
Print Assumptions C08_store_then_has_fetch.

(* After sync_paths(items) with (loc, k) the last binding of loc in items, fetch_paths(loc) resolves to the blob of k,
   whatever runs in between that does not commit loc again. *)
Theorem C08_sync_then_fetch_path : forall (root data : path) (enc menc : bytes -> bytes)
    (fs : fsys) (st : astate) (p : proc) (pre mid : list opcall) (items : list (path * bytes)) (loc : path) (k : bytes),
  separated root data ->
  R root data enc menc fs st ->
  p_pc p = PIdle -> p_outs p = [] -> p_todo p = pre ++ [OpSync items] ++ mid ++ [OpFetchPath loc] ->
  Forall (good_op data) (pre ++ [OpSync items] ++ mid ++ [OpFetchPath loc]) ->
  locs_ok root data enc menc st (pre ++ [OpSync items] ++ mid ++ [OpFetchPath loc]) ->
  stored_ok root enc menc st (pre ++ [OpSync items] ++ mid ++ [OpFetchPath loc]) ->
  lookup loc (rev items) = Some k ->
  (forall o, In o mid -> ~ commits_loc loc o) ->
  exists fuel rs, let '(_, p', _) := run_seq root data enc menc fuel fs p [] in
    p_pc p' = PIdle /\ p_todo p' = [] /\
    List.length rs = List.length pre + 1 + List.length mid /\
    p_outs p' = rs ++ [RKey (blob root k)].
Proof. exact sync_then_fetch_path. Qed.
Print Assumptions C08_sync_then_fetch_path.

(* Non-vacuity: a concrete store (directories present, nothing stored) and a concrete list of operations satisfy the
   hypotheses; the run produces the dictionary's answers. *)
Theorem C08_seq_refines_example :
  exists fuel,
    let '(fs', p', _) := run_seq ex_root ex_data (fun k => k) (fun k => k) fuel
                                 (init_fs ex_root ex_data) (Proc 1 0 PIdle sx_ops []) [] in
    p_pc p' = PIdle /\ p_todo p' = [] /\
    p_outs p' = [RUnit; RUnit; RUnit; RBool true; RBlob ex_key ex_key ex_key; RKey (blob ex_root ex_key)] /\
    R ex_root ex_data (fun k => k) (fun k => k) fs' (AState [ex_key] [(sx_loc, ex_key)]).
Proof. exact seq_refines_example. Qed.
Print Assumptions C08_seq_refines_example.
