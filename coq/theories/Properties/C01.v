(* C01 - memoized evaluation returns exactly what plain execution would return.
   Proofs: L4_Eval/EvalProofs.v.  [Den k v] = "signature k denotes value v", one relation for the whole life of a store.
   The theorems are relative to the soundness of signatures ([sound_fn] / [root_sound]: along the plain execution, the
   key of every reached kept node denotes exactly that node's plain value) - what DESIGN.md 4.1/4.4 calls the ideal
   digest model; the byte-exact correspondence on edit histories validates it against the code.  Programs without
   dds.load here; loads are C09. *)
From Coq Require Import List ZArith NArith.
From DDS Require Import Base.Bytes L0_Hash.PyVal L1_Args.ArgCtx L3_Sig.Program L3_Sig.Sig L4_Eval.Stages L4_Eval.DdsEval
     L4_Eval.EvalSpec L4_Eval.EvalProofs.
Import ListNotations.

(* Inside an evaluation: memoised execution of any program tree, on any sound store, returns the plain outcome - value
   or exception - keeps the store sound and leaves the committed paths alone. *)
Theorem C01_exec_correct : forall Den f pvals s sp,
  no_loads_fn f = true -> StoreOK Den s -> sound_fn Den sp f pvals ->
  fst (exec_fn (Dds sp) f pvals s) = pv_fn f pvals /\
  StoreOK Den (snd (exec_fn (Dds sp) f pvals s)) /\
  s_paths (snd (exec_fn (Dds sp) f pvals s)) = s_paths s.
Proof. exact dds_exec_correct. Qed.
Print Assumptions C01_exec_correct.

(* A top-level dds.eval / dds.keep / data-function call that runs returns what plain execution returns. *)
Theorem C01_call_correct : forall Den H mx c f sty pos kw s x sp pv,
  no_loads_fn f = true -> StoreOK Den s ->
  analysis H mx c f sty pos kw s = inr (x, sp) ->
  has_stage Eval (c_stages c) = true ->
  bind_args (fn_params f) 0 (map RVal pos) (map (fun nv => (fst nv, RVal (snd nv))) kw) = Some pv ->
  root_sound Den sp x f sty pv -> sound_fn Den sp f pv ->
  fst (dds_call H mx c f sty pos kw s) = pv_fn f pv /\ StoreOK Den (snd (dds_call H mx c f sty pos kw s)).
Proof. exact dds_call_correct. Qed.
Print Assumptions C01_call_correct.

(* "Whatever was evaluated earlier against the same store": soundness of the store is an invariant of every history of
   calls (other program versions, other variable values, other processes are just other calls). *)
Theorem C01_history_sound : forall Den H mx l s,
  StoreOK Den s -> calls_hyp Den H mx s l -> StoreOK Den (run_calls H mx l s).
Proof. exact history_sound. Qed.
Print Assumptions C01_history_sound.

(* The plain semantics used above is the dds-free execution of the program. *)
Theorem C01_plain_is_reference : forall f pvals s, no_loads_fn f = true ->
  fst (exec_fn Plain f pvals s) = pv_fn f pvals /\
  s_blobs (snd (exec_fn Plain f pvals s)) = s_blobs s /\ s_paths (snd (exec_fn Plain f pvals s)) = s_paths s.
Proof. exact exec_plain_pv. Qed.
Print Assumptions C01_plain_is_reference.

(* Non-vacuity: a concrete program with a kept node receiving a run-time argument, a Den, a store and a requested-paths
   map that satisfy every hypothesis above (EvalProofs.ex_nonvacuous, ex_first_run, ex_second_run). *)
Theorem C01_nonvacuous : StoreOK ex_Den st_empty /\ no_loads_fn ex_f = true /\ sound_fn ex_Den ex_sp ex_f ex_pv.
Proof. destruct ex_nonvacuous as (A & B & C & _). exact (conj A (conj B C)). Qed.
Print Assumptions C01_nonvacuous.
