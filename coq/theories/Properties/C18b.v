(* C18b - the exported graph has no cycle (after the fixes F28, F29).
   Model: L7_Graph/Structure.v (dds/_plotting.py:_structure; _reaches is the saturation `reaches`); proofs:
   L7_Graph/AcyclicProofs.v.  The graph is the directed graph whose edges are the KEYS of the deps dictionary of the final
   state: pairs (from-signature, to-signature), whatever the type of the edge (solid, dashed, dotted).

   Hypotheses (wf_graph_input x R), on the list K = ks x of the kept sub-trees of the interaction tree x in completion
   order (post-order, every occurrence: kept_nodes x = map fi_node (ks x)) and on the fetched references R:
   (w1) wf_sig    signatures identify kept sub-trees (ideal hash): two kept sub-trees with the same signature have the same
                  path, the same loads and the same children.  Shared sub-trees (the same function reached from several
                  places) are allowed - they are the point.
   (w2) wf_path   a path is kept with one signature: two kept sub-trees with the same path have the same signature (dds keeps
                  a path once per evaluation; otherwise the drawn graph can have a cycle: known finding F23).
   (w3) wf_loads  no read before produce: a path loaded by a kept function was kept by a function that completed EARLIER in
                  traversal order, or is not kept at all in this evaluation - and then, if it is a fetched reference (in R),
                  its signature is not the signature of a kept function of this evaluation.
   Not needed: anything about function names, numbers of arguments, sub-trees that are not kept, the agreement of R with the
   kept paths, or a separate "no self loop" condition (GraphSpec.no_self_sig) - it follows from (w2) and (w3). *)
From Coq Require Import List String.
From DDS Require Import Base.Bytes L3_Sig.Sig L7_Graph.Structure L7_Graph.GraphSpec L7_Graph.GraphProofs
  L7_Graph.AcyclicProofs.
Import ListNotations.

(* The reachability test of the code is reachability: dst is src or there is a path from src to dst in the key set. *)
Theorem C18_reaches_spec : forall deps a b,
  reaches deps a b = true <-> a = b \/ path (map fst deps) a b.
Proof. exact reaches_spec. Qed.
Print Assumptions C18_reaches_spec.

(* Adding an edge a -> b when b does not reach a keeps a graph acyclic. *)
Theorem C18_add_edge_acyclic : forall E E' a b,
  acyclic E -> ~ (b = a \/ path E b a) ->
  (forall e, In e E' -> In e E \/ e = (a, b)) -> acyclic E'.
Proof. exact add_edge_acyclic. Qed.
Print Assumptions C18_add_edge_acyclic.

(* The kept sub-trees are the kept occurrences of GraphSpec. *)
Theorem C18_kept_subtrees : forall x, kept_nodes x = map fi_node (ks x).
Proof. exact kept_nodes_ks. Qed.
Print Assumptions C18_kept_subtrees.

(* The graph keyed by signature has no cycle. *)
Theorem C18_graph_acyclic : forall x R,
  wf_graph_input x R -> acyclic (map fst (g_deps (final_state x R))).
Proof. exact structure_acyclic. Qed.
Print Assumptions C18_graph_acyclic.

(* In particular no edge joins a signature to itself. *)
Theorem C18_graph_no_self_edge : forall x R,
  wf_graph_input x R -> forall a, ~ In (a, a) (map fst (g_deps (final_state x R))).
Proof. exact structure_no_self_edge. Qed.
Print Assumptions C18_graph_no_self_edge.

(* Non-vacuity, with a shared sub-tree: a helper that calls a kept function and then a kept function with a run-time
   argument, reached twice with the same signature from a kept function that also loads a fetched reference and a path
   kept earlier.  The hypotheses hold, so its graph has no cycle ... *)
Theorem C18_shared_example_wf : wf_graph_input ex_shared ex_R.
Proof. exact ex_shared_wf. Qed.
Print Assumptions C18_shared_example_wf.

Theorem C18_shared_example_acyclic : acyclic (map fst (g_deps (final_state ex_shared ex_R))).
Proof. exact ex_shared_acyclic. Qed.
Print Assumptions C18_shared_example_acyclic.

(* ... whereas the code before the fixes F28 and F29 (traverse_old false false) gave it a 2-cycle (known finding F28). *)
Theorem C18_shared_example_old_cycle : path (keys_old false false ex_shared ex_R) (bs "sa"%string) (bs "sa"%string).
Proof. exact ex_shared_old_cycle. Qed.
Print Assumptions C18_shared_example_old_cycle.

(* Second example (known finding F29): with the fix F28 alone, a call-order edge closes a cycle through a solid and a dashed
   edge when a helper is reached again after the function that loads what its first caller keeps; the hypotheses hold and
   the graph computed with the reachability guard has no cycle. *)
Theorem C18_through_load_example_acyclic :
  wf_graph_input ex_through_load [] /\ acyclic (map fst (g_deps (final_state ex_through_load []))).
Proof. split; [exact ex_through_load_wf | exact ex_through_load_acyclic]. Qed.
Print Assumptions C18_through_load_example_acyclic.

Theorem C18_through_load_example_old_cycle : path (keys_old true false ex_through_load []) (bs "sa"%string) (bs "sa"%string).
Proof. exact ex_through_load_old_cycle. Qed.
Print Assumptions C18_through_load_example_old_cycle.

(* traverse_old with both fixes is the model, on the two examples *)
Theorem C18_old_code_is_model_on_examples :
  traverse_old true true ex_shared (GState [] ex_R [] []) = traverse ex_shared (GState [] ex_R [] []) /\
  traverse_old true true ex_through_load (GState [] [] [] []) = traverse ex_through_load (GState [] [] [] []).
Proof. split; [exact ex_shared_old_is_traverse | exact ex_through_load_old_is_traverse]. Qed.
Print Assumptions C18_old_code_is_model_on_examples.
