(* C06 - a process killed at any instant never leaves a store that serves wrong data.
   Model: L6_Conc/LocalProgs.v (the operations of LocalFileStore as small-step programs, one transition per system call,
   torn writes, crash = the process takes no more steps); vocabulary: L6_Conc/ConcSpec.v; proofs: L6_Conc/CrashProofs.v.
   [reachable] ranges over every schedule of every number of processes, every tear size and every crash set: a crash is
   the transition StepCrash, after which the victim's private temporaries stay behind for ever.
   [enc k] / [menc k] are what every writer of key k writes (content addressing: C01's conclusion). *)
From Coq Require Import List String.
From DDS Require Import Base.Bytes L6_Conc.FsOps L6_Conc.LocalProgs L6_Conc.ConcSpec L6_Conc.CrashProofs.
Import ListNotations.

(* At every instant of every execution with crashes: a visible blob file is complete, a visible metadata file is complete
   and its blob is installed, every visible link points to the final name of a blob, and every value a reader returned is
   the complete value of its key - never None-for-present, a truncated or a foreign value. *)
Theorem C06_crash_safe : forall root data enc menc s0 s,
  init_ok root data enc menc s0 -> reachable root data enc menc s0 s ->
  BlobInv root enc menc (s_fs s) /\ LinkInv root (s_fs s) /\
  (forall p r, In p (s_procs s) -> In r (p_outs p) -> good_result enc menc r).
Proof. exact crash_safe. Qed.
Print Assumptions C06_crash_safe.

(* What was stored before the crash stays stored and complete, whatever happens later (no cleanup is ever needed: a later
   process finds has_blob true and fetches the complete value). *)
Theorem C06_stored_blobs_survive : forall root data enc menc s0 s s' k,
  init_ok root data enc menc s0 -> reachable root data enc menc s0 s -> reachable root data enc menc s s' ->
  good_key k = true -> s_fs s (meta root k) <> None -> complete root enc menc (s_fs s') k.
Proof. exact stored_survive. Qed.
Print Assumptions C06_stored_blobs_survive.

(* A path committed before the crash: one step later (any step of any process, or a crash) it is still a link, to its old
   blob or to the blob that a committing process is just swapping in; and it stays a link to some blob for ever. *)
Theorem C06_paths_old_or_new : forall root data enc menc s0 s s' loc t,
  init_ok root data enc menc s0 -> reachable root data enc menc s0 s -> sys_step root data enc menc s s' ->
  visible loc = true -> s_fs s loc = Some (NLink t) ->
  s_fs s' loc = Some (NLink t) \/
  exists p k, In p (s_procs s) /\ swapping p loc k /\ s_fs s' loc = Some (NLink (blob root k)).
Proof. exact link_old_or_new. Qed.
Print Assumptions C06_paths_old_or_new.

Theorem C06_paths_never_lost : forall root data enc menc s0 s s' loc t,
  init_ok root data enc menc s0 -> reachable root data enc menc s0 s -> reachable root data enc menc s s' ->
  visible loc = true -> s_fs s loc = Some (NLink t) ->
  exists k, good_key k = true /\ s_fs s' loc = Some (NLink (blob root k)).
Proof. exact link_never_lost. Qed.
Print Assumptions C06_paths_never_lost.

(* When every process follows the evaluation discipline (a path is pointed only at a key that the process stored earlier or
   that was complete when it started), every visible link resolves to a complete blob at every instant: a load of a
   committed path returns a complete value - the old or the new one. *)
Theorem C06_links_resolve : forall root data enc menc s0 s,
  init_ok root data enc menc s0 -> LinkLive root enc menc (s_fs s0) -> disciplined root enc menc s0 ->
  reachable_nospawn root data enc menc s0 s -> LinkLive root enc menc (s_fs s).
Proof. exact links_live. Qed.
Print Assumptions C06_links_resolve.

(* The hypotheses are satisfiable by a non-trivial system (two processes storing and committing on an initialised store). *)
Theorem C06_nonvacuous : exists root data enc menc s0, init_ok root data enc menc s0 /\ LinkLive root enc menc (s_fs s0) /\
  disciplined root enc menc s0 /\ List.length (s_procs s0) = 2 /\ (forall p, In p (s_procs s0) -> List.length (p_todo p) >= 3).
Proof. exact example_system. Qed.
Print Assumptions C06_nonvacuous.
