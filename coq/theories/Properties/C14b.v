(* C14 (second part) - what the analysis discovers in a function of the generated grammar: every call written in the
   body contributes, the callee of a nested keep is additionally referenced by name, every module variable read
   contributes by value or by canonical name.  The syntax (L2_Disc/MiniPy.v) is what the harness transcribes; the
   derivation of the analysis view (L2_Disc/Visitors.v:discover) models dds/introspect.py's visitors and is compared
   with the harness-side derivation on every generated function (harness/progs.py:check_discover).
   Proofs: L2_Disc/DiscProofs.v, L2_Disc/DiscCheck.v *)
From Coq Require Import List String ZArith Sorted.
From DDS Require Import Base.Bytes L0_Hash.PyVal L1_Args.ArgCtx L2_Disc.MiniPy L3_Sig.Program L2_Disc.Visitors
  L2_Disc.DiscProofs L2_Disc.DiscCheck.
Import ListNotations.

(* The callees of the g(...) / dds.keep(p, g, ...) / first-mention vlogmod.apply(g) statements of f are exactly, and in
   statement order, the callees of the SCall / SKeep / executed-SRef steps of its analysis. *)
Theorem C14_discover_calls_complete : forall f,
  step_calls (disc_steps f) = map (fun kg => (fst kg, discover (snd kg))) (stmt_calls [] (mfn_stmts f)).
Proof. exact discover_calls_complete. Qed.
Print Assumptions C14_discover_calls_complete.

(* statement by statement, with line numbers and arguments *)
Theorem C14_discover_call_steps : forall f,
  let names := read_names (mfn_modvars f) in
  (forall line sp g args, In (MCall line sp g args) (mfn_stmts f) ->
     In (SCall line line (discover g) (map (expr_of names) args)) (disc_steps f)) /\
  (forall line eline rl path sp g pos kw, In (MKeep line eline rl path sp g pos kw) (mfn_stmts f) ->
     In (SKeep line eline path (discover g) (pos_of names pos) (kw_of names kw)) (disc_steps f)) /\
  (forall path, In (MLoad path) (mfn_stmts f) -> In (SLoad path) (disc_steps f)) /\
  (forall pre post line sp g, mfn_stmts f = pre ++ MApply line sp g :: post ->
     ~ In (sp_head sp) (mentioned_before pre (MApply line sp g)) ->
     In (SRef line (discover g) true) (disc_steps f)) /\
  (forall pre post line sp g, mfn_stmts f = pre ++ MApply line sp g :: post ->
     In (sp_head sp) (mentioned_before pre (MApply line sp g)) ->
     In (SApply (discover g)) (disc_steps f)).
Proof. exact discover_call_steps. Qed.
Print Assumptions C14_discover_call_steps.

(* The by-name pseudo call: for dds.keep(path, g, ...) whose callee name was not mentioned before, the SKeep step is
   immediately followed by `SRef refline (discover g) false` (g analysed as a call without arguments). *)
Theorem C14_discover_keep_callee_also_referenced : forall f pre post line eline refline path sp g pos kw,
  mfn_stmts f = pre ++ MKeep line eline refline path sp g pos kw :: post ->
  ~ In (sp_head sp) (mentioned_before pre (MKeep line eline refline path sp g pos kw)) ->
  exists before after,
    disc_steps f =
    before ++ SKeep line eline path (discover g) (pos_of (read_names (mfn_modvars f)) pos) (kw_of (read_names (mfn_modvars f)) kw)
           :: SRef refline (discover g) false :: after.
Proof. exact discover_keep_callee_also_referenced. Qed.
Print Assumptions C14_discover_keep_callee_also_referenced.

(* ... and a callee name that was mentioned before is not referenced again *)
Theorem C14_discover_keep_callee_mentioned_before : forall f pre post line eline refline path sp g pos kw,
  mfn_stmts f = pre ++ MKeep line eline refline path sp g pos kw :: post ->
  In (sp_head sp) (mentioned_before pre (MKeep line eline refline path sp g pos kw)) ->
  disc_steps f =
  spec_from discover (read_names (mfn_modvars f)) [] pre
  ++ SKeep line eline path (discover g) (pos_of (read_names (mfn_modvars f)) pos) (kw_of (read_names (mfn_modvars f)) kw)
  :: spec_from discover (read_names (mfn_modvars f)) (pre ++ [MKeep line eline refline path sp g pos kw]) post.
Proof. exact discover_keep_callee_mentioned_before. Qed.
Print Assumptions C14_discover_keep_callee_mentioned_before.

(* "mentioned before": `_salt`, and for every earlier statement j its target x<j>, the head of its callee expression,
   `dds` for keep / load, `vlogmod` for apply *)
Theorem C14_marked_before_spec : forall pre x,
  In x (marked_before pre) <-> x = salt_name \/ exists j s, nth_error pre j = Some s /\ In x (stmt_marks j s).
Proof. exact marked_before_spec. Qed.
Print Assumptions C14_marked_before_spec.

(* the interactions of a function in terms of its syntax alone (no threaded set of marked names) *)
Theorem C14_discover_steps_spec : forall f,
  disc_steps f = spec_from discover (read_names (mfn_modvars f)) [] (mfn_stmts f).
Proof. exact discover_steps_spec. Qed.
Print Assumptions C14_discover_steps_spec.

(* Every variable read contributes: by value when of a tracked type, by canonical name otherwise; so does every
   non-accepted name mentioned; both maps are sorted by name. *)
Theorem C14_discover_vars_complete : forall f,
  (forall n v c, first_entry n (mfn_modvars f) = Some (true, v, c) -> In (n, v) (disc_vars f)) /\
  (forall n v c, first_entry n (mfn_modvars f) = Some (false, v, c) -> In (n, c) (disc_exts f)) /\
  (forall n c, In (n, c) (mfn_helpers f) -> In (n, c) (disc_exts f)) /\
  Sorted by_name (disc_vars f) /\ Sorted by_name (disc_exts f).
Proof. exact discover_vars_complete. Qed.
Print Assumptions C14_discover_vars_complete.

Theorem C14_discover_vars_complete_nodup : forall f,
  NoDup (map fst (mfn_modvars f)) ->
  (forall n v c, In (n, (true, v, c)) (mfn_modvars f) -> In (n, v) (disc_vars f)) /\
  (forall n v c, In (n, (false, v, c)) (mfn_modvars f) -> In (n, c) (disc_exts f)).
Proof. exact discover_vars_complete_nodup. Qed.
Print Assumptions C14_discover_vars_complete_nodup.

Theorem C14_discover_vars_sound : forall f,
  (forall n v, In (n, v) (disc_vars f) -> exists c, In (n, (true, v, c)) (mfn_modvars f)) /\
  (forall n c, In (n, c) (disc_exts f) ->
     (exists v, In (n, (false, v, c)) (mfn_modvars f)) \/ In (n, c) (mfn_helpers f)) /\
  List.length (disc_vars f) <= List.length (mfn_modvars f).
Proof. exact discover_vars_sound. Qed.
Print Assumptions C14_discover_vars_sound.

(* the order is the order of the names as texts *)
Theorem C14_name_order_antisym : forall a b, bytes_leb a b = true -> bytes_leb b a = true -> a = b.
Proof. exact bytes_leb_antisym. Qed.
Print Assumptions C14_name_order_antisym.

(* The text is not touched. *)
Theorem C14_discover_preserves_text : forall f,
  fn_lines (discover f) = mfn_lines f /\ fn_params (discover f) = mfn_params f /\
  fn_annot (discover f) = mfn_annot f /\ fn_tag (discover f) = mfn_tag f /\
  fn_raises (discover f) = mfn_raises f /\ fn_name (discover f) = mfn_cname f /\
  fn_is_class (discover f) = mfn_is_class f.
Proof. exact discover_preserves_text. Qed.
Print Assumptions C14_discover_preserves_text.

(* A function has one body.  A class (`class f:` with `__init__`, whose statements are the ones listed, and
   `def get(self): return self.v`) has one body per method, in source order; `get` mentions only `self`, which is not a
   name of the module: it contributes no variable, no external name and no interaction (its signature is made of the
   class's text and argument context only). *)
Theorem C14_discover_bodies : forall f,
  fn_bodies (discover f) =
  BCons (Body (disc_vars f) (disc_exts f) (steps_of (disc_steps f)))
        (if mfn_is_class f then BCons (Body [] [] SNil) BNil else BNil).
Proof. exact discover_bodies. Qed.
Print Assumptions C14_discover_bodies.

(* Every function mentioned at any depth is a node of the analysis tree, and there is no other node. *)
Theorem C14_discover_tree_complete : forall f h, mfn_reach f h -> fn_reach (discover f) (discover h).
Proof. exact discover_tree_complete. Qed.
Print Assumptions C14_discover_tree_complete.

Theorem C14_discover_tree_sound : forall f k, fn_reach (discover f) k -> exists h, mfn_reach f h /\ k = discover h.
Proof. exact discover_tree_sound. Qed.
Print Assumptions C14_discover_tree_sound.

(* when no class is written anywhere in the syntax tree, every node is a plain function with a single body *)
Theorem C14_discover_plain : forall f, mfn_no_class f = true -> plain_fn (discover f) = true.
Proof. exact discover_plain. Qed.
Print Assumptions C14_discover_plain.

(* in general every node is a plain function with a single body or a class with exactly the two bodies above *)
Theorem C14_discover_shaped : forall f, shaped_fn (discover f) = true.
Proof. exact discover_shaped. Qed.
Print Assumptions C14_discover_shaped.

Theorem C14_plain_fn_shaped : forall f, plain_fn f = true -> shaped_fn f = true.
Proof. exact plain_fn_shaped. Qed.
Print Assumptions C14_plain_fn_shaped.

(* a negative number written as an argument of a nested keep is not an ast.Constant: it is a run-time argument *)
Theorem C14_negative_literal_is_runtime : forall z, (z < 0)%Z -> aarg_of (MLit (VInt z)) = ARun.
Proof. exact negative_literal_is_runtime. Qed.
Print Assumptions C14_negative_literal_is_runtime.

Theorem C14_computed_expression_is_runtime : forall v, aarg_of (MComputed v) = ARun.
Proof. exact computed_expression_is_runtime. Qed.
Print Assumptions C14_computed_expression_is_runtime.

(* the comparison used by the harness check is exact: "ok" means Leibniz equality of the two analysis views *)
Theorem C14_check_same_ok : forall m expected, check_same m expected = "ok"%string -> discover m = expected.
Proof. exact check_same_ok. Qed.
Print Assumptions C14_check_same_ok.
