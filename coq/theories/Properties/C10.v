(* C10 - a failing user function is never cached and leaves dds and the store clean.  Proofs: L4_Eval/EvalProofs.v *)
From Coq Require Import List ZArith NArith.
From DDS Require Import Base.Bytes L0_Hash.PyVal L1_Args.ArgCtx L3_Sig.Program L3_Sig.Sig L4_Eval.Stages L4_Eval.DdsEval
     L4_Eval.EvalSpec L4_Eval.EvalProofs.
Import ListNotations.

(* The exception of the user function propagates unchanged (the outcome is the plain outcome, which for a raising
   function is [Raise tag kind] - the model has one exception value per raising function, the tie checks object
   identity), and whatever was stored before the failure is sound: nothing is stored under the signature of the failing
   node or of a node waiting for it, because a key denotes a value only if its node returns. *)
Theorem C10_failure_propagates_and_store_stays_sound : forall Den f pvals s sp,
  no_loads_fn f = true -> StoreOK Den s -> sound_fn Den sp f pvals ->
  fst (exec_fn (Dds sp) f pvals s) = pv_fn f pvals /\ StoreOK Den (snd (exec_fn (Dds sp) f pvals s)).
Proof. intros Den f pvals s sp A B C. destruct (dds_exec_correct Den f pvals s sp A B C) as [X [Y _]]. exact (conj X Y). Qed.
Print Assumptions C10_failure_propagates_and_store_stays_sound.

(* None of the evaluation's paths is committed when the evaluation does not return. *)
Theorem C10_fail_no_commit : forall H mx c f sty pos kw s,
  is_ret (fst (dds_call H mx c f sty pos kw s)) = false ->
  s_paths (snd (dds_call H mx c f sty pos kw s)) = s_paths s.
Proof. exact fail_no_commit. Qed.
Print Assumptions C10_fail_no_commit.

(* dds stays usable: after any call (failed or not) the store is sound, so the next evaluation is correct (C01) and
   reuses the sub-results that did complete (blobs only ever accumulate). *)
Theorem C10_store_ok_after_any_call : forall Den H mx c f sty pos kw s,
  StoreOK Den s -> call_hyp Den H mx s (c, f, sty, pos, kw) -> StoreOK Den (snd (dds_call H mx c f sty pos kw s)).
Proof. exact dds_call_store_ok. Qed.
Print Assumptions C10_store_ok_after_any_call.

Theorem C10_completed_subresults_kept : forall f pvals s sp k v,
  blookup k (s_blobs s) = Some v -> blookup k (s_blobs (snd (exec_fn (Dds sp) f pvals s))) = Some v.
Proof. exact dds_exec_monotone. Qed.
Print Assumptions C10_completed_subresults_kept.
