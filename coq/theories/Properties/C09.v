(* C09 - dds.load always sees the latest kept value and invalidates its readers.  Proofs: L4_Eval/LoadProofs.v *)
From Coq Require Import List String ZArith NArith.
From DDS Require Import Base.Bytes L0_Hash.PyVal L1_Args.ArgCtx L3_Sig.Program L3_Sig.Sig L4_Eval.Stages L4_Eval.DdsEval L4_Eval.LoadProofs.
Import ListNotations.


(* dds.load(p) after p was kept earlier in the same evaluation returns exactly the value that keep returned (served from
   the store or just computed), wherever the two statements are in the call tree of one body. *)
Theorem C09_keep_then_load_same_value : forall sp l e p g pos kw en s en1 s1,
  exec_step (Dds sp) (SKeep l e p g pos kw) en s = (inr en1, s1) ->
  exists v, e_locals en1 = e_locals en ++ [v] /\
            exec_step (Dds sp) (SLoad p) en1 s1 = (inr (add_local en1 v), s1).
Proof. exact keep_then_load_same_value. Qed.
Print Assumptions C09_keep_then_load_same_value.

(* A path produced by the running evaluation is read through the requested key; any other path through the paths
   committed in the store. *)
Theorem C09_load_in_eval_reads_requested : forall sp p key v en s,
  blookup p sp = Some key -> blookup key (s_blobs s) = Some v ->
  exec_step (Dds sp) (SLoad p) en s = (inr (add_local en v), s).
Proof. exact load_in_eval_reads_requested. Qed.
Print Assumptions C09_load_in_eval_reads_requested.

Theorem C09_load_other_reads_committed : forall sp p key v en s,
  blookup p sp = None -> blookup p (s_paths s) = Some key -> blookup key (s_blobs s) = Some v ->
  exec_step (Dds sp) (SLoad p) en s = (inr (add_local en v), s).
Proof. exact load_other_reads_committed. Qed.
Print Assumptions C09_load_other_reads_committed.

(* Reader invalidation: the signature found at the loaded path is recorded when the load is met; it enters the reader's
   own signature (dep_<path>) and the context of every later call of the body. *)
Theorem C09_load_resolved_recorded : forall H mx p sg lines isig inters loads R,
  rlookup p R = Some sg ->
  ana_step H mx (SLoad p) lines isig (inters, loads, R) = inr (inters, rupdate p sg loads, R).
Proof. exact load_resolved_recorded. Qed.
Print Assumptions C09_load_resolved_recorded.

(* Both kinds of producers make their path loadable later in the same evaluation. *)
Theorem C09_keep_registers_path : forall H mx l e p g pos kw lines isig inters loads R inters' loads' R',
  ana_step H mx (SKeep l e p g pos kw) lines isig (inters, loads, R) = inr (inters', loads', R') ->
  exists x, inters' = inters ++ [x] /\ fi_path x = Some p /\ rlookup p R' = Some (fi_sig x).
Proof. exact keep_registers_path. Qed.
Print Assumptions C09_keep_registers_path.

Theorem C09_data_function_registers_path : forall H mx name tag raises lines params p b r A R x R',
  ana H mx (Fn name tag raises lines params (Some p) false (BCons b r)) A R = inr (x, R') ->
  rlookup p R' = Some (fi_sig x).
Proof. exact data_function_registers_path. Qed.
Print Assumptions C09_data_function_registers_path.

(* Read-before-produce is rejected with a DDS error, at any placement, rather than silently using the previous
   content; so is a path that nothing ever produced. *)
Theorem C09_read_before_produce_rejected : forall H mx p lines isig inters loads R,
  rlookup p R = None ->
  ana_step H mx (SLoad p) lines isig (inters, loads, R) = inl (ErrLoadBeforeStore p).
Proof. exact load_unresolved_rejected. Qed.
Print Assumptions C09_read_before_produce_rejected.

Theorem C09_never_produced_rejected : forall H mx c f sty pos kw s named,
  arg_ctx_rt H mx (fn_params f) 0 pos kw = inr named ->
  fetch_refs (s_paths s) (loads_to_check c f) = None ->
  analysis H mx c f sty pos kw s = inl (DdsErr "NONE"%string).
Proof. exact never_produced_rejected. Qed.
Print Assumptions C09_never_produced_rejected.
