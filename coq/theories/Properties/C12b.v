(* C12b - several processes, each with its own object cache, over one shared store: every cache stays
   invisible and bounded.  Proofs: L5_Stores/LruMulti.v *)
From Coq Require Import List.
From DDS Require Import Base.Bytes L4_Eval.Store L5_Stores.Lru L5_Stores.LruProofs L5_Stores.LruMulti.
Import ListNotations.

(* Transparency: for every capacity, every number n of clients (each starting with an empty cache over the
   empty shared store) and every interleaving of their operations that respects content addressing globally,
   every client is answered exactly as the bare shared store answers the same global sequence. *)
Theorem C12_multi_transparent : forall cap n ops,
  clients_below n ops -> consistent (map snd ops) = true ->
  multi_run cap (minit n) ops = run_ops spec_step sempty (map snd ops).
Proof. exact lru_multi_transparent. Qed.
Print Assumptions C12_multi_transparent.

(* ... from any state in which every entry of every cache is what the shared store holds *)
Theorem C12_multi_transparent_from : forall cap ops cs s,
  all_ok cs s -> consistent_from (blobs s) (map snd ops) = true ->
  multi_run cap (cs, s) ops = run_ops spec_step s (map snd ops).
Proof. exact lru_multi_transparent_gen. Qed.
Print Assumptions C12_multi_transparent_from.

(* Boundedness of every client's cache, for any interleaving (content addressing not needed). *)
Theorem C12_multi_bounded : forall n ops st,
  all_bounded n (fst st) ->
  all_bounded n (fst (multi_exec (Some n) st ops))
  /\ List.length (fst (multi_exec (Some n) st ops)) = List.length (fst st).
Proof. exact lru_multi_bounded. Qed.
Print Assumptions C12_multi_bounded.

(* The content-addressing hypothesis is necessary: client 0 fetches k, client 1 overwrites k with another
   value, client 0 fetches k again and is answered from its own cache. *)
Theorem C12_multi_needs_content_addressing : exists ops,
  clients_below 2 ops /\
  multi_run None (minit 2) ops <> run_ops spec_step sempty (map snd ops).
Proof. exact lru_multi_needs_content_addressing. Qed.
Print Assumptions C12_multi_needs_content_addressing.
