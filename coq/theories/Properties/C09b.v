(* C09 (continued) - a reader's signature tracks the signature served at the paths it loads.
   In the ideal digest model (L3_Sig/SigTree.v, proofs L3_Sig/SigTreeProofs.v) the signature term of a node is the
   encoding [enc] of its content; the loaded paths enter the content together with the signature found there.  Hence:
   a kept function that loads p gets another signature exactly when p comes to serve another signature (everything else
   equal) - it is re-evaluated when p changes and served from the store while p is unchanged. *)
From Coq Require Import List.
From DDS Require Import Base.Bytes L3_Sig.SigTree L3_Sig.SigTreeProofs.
Import ListNotations.

Theorem C09_reader_signature_changes_with_loaded_signature : forall lh a loads loads2 ch exts vars,
  loads <> loads2 -> enc (Content lh a loads ch exts vars) <> enc (Content lh a loads2 ch exts vars).
Proof. exact (fun lh a loads loads2 ch exts vars Hne => enc_sensitive lh a loads ch exts vars lh a loads2 ch exts vars (or_intror (or_intror (or_introl Hne)))). Qed.
Print Assumptions C09_reader_signature_changes_with_loaded_signature.

Theorem C09_reader_signature_stable_while_loaded_signature_unchanged : forall lh a loads loads2 ch exts vars,
  loads = loads2 -> enc (Content lh a loads ch exts vars) = enc (Content lh a loads2 ch exts vars).
Proof. exact (fun lh a loads loads2 ch exts vars Heq => f_equal (fun l => enc (Content lh a l ch exts vars)) Heq). Qed.
Print Assumptions C09_reader_signature_stable_while_loaded_signature_unchanged.
