(* C15 (translator route) - _parse_stages regenerated from /repo's source (Extracted/GenStages.v) equals the model. *)
From Coq Require Import List ZArith.
From DDS Require Import Base.Bytes Base.PyRt L4_Eval.Stages Extracted.GenStages L4_Eval.GenStagesProofs.
Import ListNotations.

Theorem GEN_check : forall a cur, gen_check a cur = check_one a cur.
Proof. exact gen_check_eq. Qed.
Print Assumptions GEN_check.

Theorem GEN_parse_stages : forall arg, gen_parse_stages arg = parse_stages arg.
Proof. exact gen_parse_stages_eq. Qed.
Print Assumptions GEN_parse_stages.
