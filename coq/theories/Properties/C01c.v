(* C01 (c) - signatures determine plain values: the hypotheses [sound_fn] / [root_sound] of C01.v are theorems.
   Proofs: L4_Eval/SoundnessDefs.v (vocabulary), SoundnessA.v (Theorem A), Soundness.v (Theorems B, C, refutations,
   example).  Nothing below is an Axiom: every hypothesis is a premise, bundled in the records [univ_ok] (Theorems A, B;
   spelled out by C01_universe_hypotheses) and [hist_univ_ok] (Corollary C).

   THE HYPOTHESES, in words.  A universe is: a set U of functions (every program version, with callees), a set UVal of
   values, the top-level calls (RootOK / RootCall), a value hash hv and a line hash hl (Theorem A: any functions;
   Theorems B, C: the real dds_hash over a digest function H).
   [univ_ok]:
   - u_closed    U contains the callees of the executed body of each of its functions.
   - u_wf        local well-formedness of each function of U (SoundnessDefs.wf_fn):
                   * every default value d is readable: what fun_args.py hashes for it (the marker string for None) is in
                     UVal and reads back as d (excludes the marker string itself as a default: known finding F04-marker);
                   * a class has no data_function path;
                   * the tracked variables read by the executed body have values in UVal;
                   * dds.keep(p, g, e..): an argument seen by the analysis as the constant v IS the expression v, and v is
                     readable (excludes the marker string as a literal: F04-marker);
                   * (nothing is asked of a plain call g(e..).  FINDING F30, discovered by this proof and reproduced on the
                     real library: the analysis of a plain call ignored the arguments (get_arg_ctx_ast(g, [], {})), bound
                     defaulted parameters to their defaults and, when every parameter had a default, dropped the call-site
                     context: g(5) and g(7) for def g(x=3) gave g - and every keep below g - the same signature, and the
                     stale result was served.  REPAIRED by a fix in /repo (F30): a parameter bound explicitly by a plain
                     call is now unknown, so the call site is part of the signature; the model follows (Sig.unbind), the
                     former hypothesis call_args_ok is gone, and C01_plain_call_explicit_argument_tracked is the
                     regression theorem on the program that exhibited the finding.)
                   * apply(g): g is the function (same tree) of the first earlier by-name mention with that name
                     (modelling constraint, C01_refuted_apply_unlinked).
   - u_text      equal source lines => equal skeleton (tag, raises, parameters, is_class, decorator path, and for the
                 executed body the list of steps up to line numbers, callee sub-trees and ALit/ARun flags: kinds, argument
                 expressions, keyword names, literal paths of dds.keep / dds.load, target of apply).  True of generated programs: the skeleton is parsed from
                 the text.
   - u_prefix    the same for a source PREFIX ending at a call (the call-site context hashes only the lines up to the
                 call): equal prefixes + same rank among the analysed interactions => same parameters and same skeleton
                 up to and including the call.  True when statements are on their own lines in program order
                 (generated programs); an expression whose analysis order differs from its evaluation order is finding
                 F25 (known).
   - u_hl_inj    the line hash is injective on the prefixes of the texts of U (idealisation; no hashing error needed).
   - u_hv_inj    the value hash is injective on UVal (idealisation).  It CANNOT hold for all values with the real
                 dds_hash: bool/int, str/path, list/tuple collide (C01_refuted_value_hash; F03 family): UVal must avoid
                 such pairs - this restricts real programs.
   - u_root      top-level calls are calls of functions of U whose arguments are all known and readable
                 (Soundness.root_kmatch derives this from per-value conditions).
   [render_inj_on] (Theorems B, C): rendering with H (SHA-256 + XOR-fold) is injective on the signature terms of the
                 consistent nodes of U - THE cryptographic idealisation.  False for H = identity on the example universe
                 (the XOR-fold cancels), true there for a mixing H (C01_universe_example).
   [hist_univ_ok] adds, for Corollary C:
   - h_noloads   no dds.load in the top-level functions (loads are C09).
   - h_coherent  in one evaluation no path is kept with two different signatures (known findings F12 / F26,
                 C01_refuted_same_path_twice); decidable on the analysed tree.
   Suspects checked: (i) EVar indexing - fine (variable VALUES are in the content, names do not matter); (ii) SApply -
   needs the link above; (iii) SRef false / numbering of locals - fine; (iv) defaults - finding F30, repaired; (v) classes - fine
   (the first method is executed, every method is in the signature). *)
From Coq Require Import List String ZArith NArith.
From DDS Require Import Base.Bytes L0_Hash.PyVal L0_Hash.DdsHash L1_Args.ArgCtx L3_Sig.Program L3_Sig.Sig L3_Sig.SigTree
     L3_Sig.SigTreeProofs L4_Eval.Stages L4_Eval.DdsEval L4_Eval.EvalSpec L4_Eval.EvalProofs
     L4_Eval.SoundnessDefs L4_Eval.SoundnessA L4_Eval.Soundness.
Import ListNotations.

(* The record of universe hypotheses, spelled out. *)
Theorem C01_universe_hypotheses : forall hv hl UVal U RootOK,
  univ_ok hv hl UVal U RootOK <->
  ((forall f g, U f -> In g (callees f) -> U g) /\
   (forall f, U f -> wf_fn UVal f) /\
   (forall f f', U f -> U f' -> fn_lines f = fn_lines f' -> skel f = skel f') /\
   (forall f f' pre s post pre' s' post' k k', U f -> U f' ->
      first_steps f = Some (pre ++ s :: post) -> first_steps f' = Some (pre' ++ s' :: post') ->
      site_end s = Some k -> site_end s' = Some k' ->
      firstn k (fn_lines f) = firstn k' (fn_lines f') ->
      List.length (cs_of pre) = List.length (cs_of pre') ->
      fn_params f = fn_params f' /\ skel_lsteps [] (pre ++ [s]) = skel_lsteps [] (pre' ++ [s'])) /\
   (forall f f' n n' h, U f -> U f' ->
      hl (firstn n (fn_lines f)) = HOk h -> hl (firstn n' (fn_lines f')) = HOk h ->
      firstn n (fn_lines f) = firstn n' (fn_lines f')) /\
   (forall v w h, UVal v -> UVal w -> hv v = HOk h -> hv w = HOk h -> v = w) /\
   (forall f named pv, RootOK f named pv -> U f /\ kmatch hv UVal named pv)).
Proof.
  intros hv hl UVal U RootOK. split.
  - intros [H1 H2 H3 H4 H5 H6 H7]. exact (conj H1 (conj H2 (conj H3 (conj H4 (conj H5 (conj H6 H7)))))).
  - intros (H1 & H2 & H3 & H4 & H5 & H6 & H7). constructor; assumption.
Qed.
Print Assumptions C01_universe_hypotheses.

(* THEOREM A.  Content determines the plain value: two analysed nodes of the universe whose parameter values are
   consistent with their argument contexts ([Cons]: a top-level call, or a call site of a consistent caller reached by
   the analysis and by the plain execution) and whose contents are equal have the same plain value. *)
Theorem C01_content_determines_value : forall hv hl UVal U RootOK, univ_ok hv hl UVal U RootOK ->
  forall g g' A A' pv pv' R R' c R1 R1',
  Cons hv hl RootOK g A pv -> Cons hv hl RootOK g' A' pv' ->
  cana hv hl g A R = inr (c, R1) -> cana hv hl g' A' R' = inr (c, R1') ->
  pv_fn g pv = pv_fn g' pv'.
Proof. exact content_determines_value. Qed.
Print Assumptions C01_content_determines_value.

(* Theorem A, all arguments known (literals, defaults, top-level values): consistency is [kmatch] - every entry is the
   hash of a value of UVal that reads back as the bound value. *)
Theorem C01_content_determines_value_known : forall hv hl UVal U RootOK, univ_ok hv hl UVal U RootOK ->
  forall g g' named named' site site' pv pv' R R' c R1 R1',
  U g -> U g' -> kmatch hv UVal named pv -> kmatch hv UVal named' pv' ->
  cana hv hl g (named, site) R = inr (c, R1) -> cana hv hl g' (named', site') R' = inr (c, R1') ->
  pv_fn g pv = pv_fn g' pv'.
Proof. exact content_determines_value_known. Qed.
Print Assumptions C01_content_determines_value_known.

(* The two halves of Theorem A: same content => same function of the parameter values (and same parameters);
   same argument content + consistency => same parameter values. *)
Theorem C01_body_determines_value : forall hv hl UVal U RootOK, univ_ok hv hl UVal U RootOK ->
  forall g g' A A' R R' c R1 R1', U g -> U g' ->
  cana hv hl g A R = inr (c, R1) -> cana hv hl g' A' R' = inr (c, R1') ->
  fn_params g = fn_params g' /\ forall pv, pv_fn g pv = pv_fn g' pv.
Proof. exact body_determines_value. Qed.
Print Assumptions C01_body_determines_value.

Theorem C01_args_determined : forall hv hl UVal U RootOK, univ_ok hv hl UVal U RootOK ->
  forall g A pv, Cons hv hl RootOK g A pv -> forall g' A' pv' a, Cons hv hl RootOK g' A' pv' ->
  cargs A = inr a -> cargs A' = inr a -> fn_params g = fn_params g' -> pv = pv'.
Proof. exact args_determined. Qed.
Print Assumptions C01_args_determined.

(* THEOREM B.  [Den_U H mx RootOK k v]: k is the rendered signature of a consistent node of the universe (any version,
   any arguments) whose plain value is Ret v.  Under the universe hypotheses and injectivity of rendering on the
   signature terms of the universe, the hypotheses of C01_exec_correct / C01_call_correct hold. *)
Theorem C01_ideal_sound_fn : forall H mx UVal U RootOK,
  univ_ok (hv0 H mx) (hl0 H mx) UVal U RootOK -> render_inj_on H mx RootOK ->
  forall sp g A pv R t R1,
  Cons (hv0 H mx) (hl0 H mx) RootOK g A pv ->
  sana (hv0 H mx) (hl0 H mx) g (skey A) R = inr (t, R1) ->
  (forall y, In y (sfi_children t) -> resolves sp (render_sfi H y)) ->
  sound_fn (Den_U H mx RootOK) sp g pv.
Proof. exact ideal_sound_fn. Qed.
Print Assumptions C01_ideal_sound_fn.

Theorem C01_ideal_root_sound : forall H mx UVal U RootOK,
  univ_ok (hv0 H mx) (hl0 H mx) UVal U RootOK -> render_inj_on H mx RootOK ->
  forall f sty named pv R X R1,
  RootOK f named pv -> sana (hv0 H mx) (hl0 H mx) f (named, None) R = inr (X, R1) ->
  coherent (styled f sty (render_sfi H X)) = true ->
  let x' := styled f sty (render_sfi H X) in
  sound_fn (Den_U H mx RootOK) (all_store_paths x') f pv /\
  root_sound (Den_U H mx RootOK) (all_store_paths x') x' f sty pv.
Proof. exact ideal_root_sound. Qed.
Print Assumptions C01_ideal_root_sound.

(* the same, against the byte-level analysis of DdsEval (through C01_signature_term_faithful): [call_hyp] holds for every
   top-level call of the universe at every store state *)
Theorem C01_call_hyp : forall H mx UVal U RootCall, hist_univ_ok H mx UVal U RootCall ->
  forall c f sty pos kw s, RootCall f sty pos kw ->
  call_hyp (Den_U H mx (RootOK_of H mx RootCall)) H mx s (c, f, sty, pos, kw).
Proof. exact call_hyp_U. Qed.
Print Assumptions C01_call_hyp.

(* COROLLARY C.  Every history of top-level calls of the universe from the empty store: the store stays sound and every
   call that runs returns the plain value of its function on the bound arguments.  No sound_fn / root_sound / call_hyp
   premise: only the universe hypotheses (with render_inj_on). *)
Theorem C01_end_to_end : forall H mx UVal U RootCall, hist_univ_ok H mx UVal U RootCall ->
  forall l, Forall (in_universe RootCall) l ->
  StoreOK (Den_U H mx (RootOK_of H mx RootCall)) (run_calls H mx l st_empty) /\
  forall l1 c f sty pos kw l2 x sp pv,
    l = l1 ++ (c, f, sty, pos, kw) :: l2 ->
    analysis H mx c f sty pos kw (run_calls H mx l1 st_empty) = inr (x, sp) ->
    has_stage Eval (c_stages c) = true ->
    bind_args (fn_params f) 0 (map RVal pos) (map (fun nv : bytes * pyval => (fst nv, RVal (snd nv))) kw) = Some pv ->
    fst (dds_call H mx c f sty pos kw (run_calls H mx l1 st_empty)) = pv_fn f pv.
Proof. exact C01_end_to_end_lemma. Qed.
Print Assumptions C01_end_to_end.

(* NON-VACUITY.  A concrete universe: three versions of  def g(x): return ("g", x);  V = "a";
   def f(): return dds.keep('/p', g, V)  - the text of the callee edited (v2), the value of the variable edited (v3) - a
   kept node with a run-time argument, dds.eval(f) as top-level calls, a mixing digest function written in Gallina:
   every hypothesis holds (finite checks by computation) ... *)
Theorem C01_universe_example : hist_univ_ok sx_H None sx_UVal sx_U sx_RootCall.
Proof. exact sx_universe_ok. Qed.
Print Assumptions C01_universe_example.

(* ... and the corollary applies to the history v1, v2, v3, v1: each call returns the plain value of its version (they
   differ), the last one is served from the store. *)
Theorem C01_universe_example_history :
  StoreOK (Den_U sx_H None sx_RootOK) (run_calls sx_H None sx_history st_empty) /\
  fst (dds_call sx_H None sx_cfg sx_f1 StEval [] [] st_empty) = pv_fn sx_f1 [] /\
  fst (dds_call sx_H None sx_cfg sx_f2 StEval [] [] (run_calls sx_H None [sx_call sx_f1] st_empty)) = pv_fn sx_f2 [] /\
  fst (dds_call sx_H None sx_cfg sx_f3 StEval [] [] (run_calls sx_H None [sx_call sx_f1; sx_call sx_f2] st_empty))
    = pv_fn sx_f3 [] /\
  fst (dds_call sx_H None sx_cfg sx_f1 StEval [] []
                (run_calls sx_H None [sx_call sx_f1; sx_call sx_f2; sx_call sx_f3] st_empty)) = pv_fn sx_f1 [] /\
  pv_fn sx_f1 [] <> pv_fn sx_f2 [] /\ pv_fn sx_f1 [] <> pv_fn sx_f3 [] /\
  s_log (run_calls sx_H None sx_history st_empty) = [bs "g"; bs "f"; bs "g2"; bs "f"; bs "g"; bs "f"; bs "f"].
Proof. exact sx_end_to_end. Qed.
Print Assumptions C01_universe_example_history.

(* Regression theorem of finding F30 (explicit argument of a plain call for a parameter with a default), on the program
   that exhibited it: def h(x); def g(x=3): return dds.keep("/p", h, x); def f(): return g(5) / g(7).  With the fixed
   analysis the kept node below g has different signature terms in the two versions, x is unknown in the argument context
   of g, and the second version evaluated after the first returns its own plain value. *)
Theorem C01_plain_call_explicit_argument_tracked :
  (exists t5 t7, rf_kept_sig rf_f5 = Some t5 /\ rf_kept_sig rf_f7 = Some t7 /\ t5 <> t7) /\
  site_named ex_hv (SCall 1 1 rf_g [ELit (VInt 5)]) = inr [(bs "x", None)] /\
  (let s1 := snd (dds_call rf_H None rf_cfg rf_f5 StEval [] [] st_empty) in
   fst (dds_call rf_H None rf_cfg rf_f7 StEval [] [] s1) = pv_fn rf_f7 [] /\
   pv_fn rf_f7 [] <> pv_fn rf_f5 []).
Proof. exact plain_call_explicit_argument_tracked. Qed.
Print Assumptions C01_plain_call_explicit_argument_tracked.

(* REFUTATIONS (by computation): what goes wrong without the hypotheses. *)
Theorem C01_refuted_marker_literal : forall hv,
  sprocess_arg hv (ALit VNone) = sprocess_arg hv (ALit (VStr default_marker)) /\ VNone <> VStr default_marker.
Proof. exact marker_literal_refuted. Qed.
Print Assumptions C01_refuted_marker_literal.

Theorem C01_refuted_value_hash : forall H mx s l,
  hv0 H mx (VBool true) = hv0 H mx (VInt 1) /\ hv0 H mx (VStr s) = hv0 H mx (VPath s) /\
  hv0 H mx (VList l) = hv0 H mx (VTuple l).
Proof. exact hv_collision_refuted. Qed.
Print Assumptions C01_refuted_value_hash.

Theorem C01_refuted_apply_unlinked :
  cana ex_hv ex_hl (rf_ap rf_a1) ([], None) [] = cana ex_hv ex_hl (rf_ap rf_a2) ([], None) [] /\
  pv_fn (rf_ap rf_a1) [] <> pv_fn (rf_ap rf_a2) [].
Proof. exact apply_unlinked_refuted. Qed.
Print Assumptions C01_refuted_apply_unlinked.

Theorem C01_refuted_same_path_twice :
  match analysis rf_H None rf_cfg rf_two StEval [VInt 1; VInt 2] [] st_empty with
  | inr (x, _) => coherent x = false
  | inl _ => False
  end /\
  fst (dds_call rf_H None rf_cfg rf_two StEval [VInt 1; VInt 2] [] st_empty) <> pv_fn rf_two [RVal (VInt 1); RVal (VInt 2)].
Proof. exact same_path_twice_refuted. Qed.
Print Assumptions C01_refuted_same_path_twice.
