(* C04 - a committed path serves the value of the latest evaluation that kept it.  Proofs: L4_Eval/EvalProofs.v *)
From Coq Require Import List ZArith NArith.
From DDS Require Import Base.Bytes L0_Hash.PyVal L1_Args.ArgCtx L3_Sig.Program L3_Sig.Sig L4_Eval.Stages L4_Eval.DdsEval
     L4_Eval.EvalSpec L4_Eval.EvalProofs.
Import ListNotations.

(* A completed full evaluation commits exactly its store paths: each kept path is bound to the signature of the node that
   kept it (last binding wins), every other path keeps its previous binding. *)
Theorem C04_commit_exact : forall H mx c f sty pos kw s x sp v s',
  analysis H mx c f sty pos kw s = inr (x, sp) ->
  has_stage Eval (c_stages c) = true -> has_stage PathCommit (c_stages c) = true ->
  dds_call H mx c f sty pos kw s = (Ret v, s') ->
  s_paths s' = fold_left (fun acc pk => bupdate (fst pk) (snd pk) acc) sp (s_paths s).
Proof. exact commit_exact. Qed.
Print Assumptions C04_commit_exact.

(* ... and paths change in no other situation (rejected, failed or restricted evaluations commit nothing). *)
Theorem C04_commit_only_when_complete : forall H mx c f sty pos kw s,
  s_paths (snd (dds_call H mx c f sty pos kw s)) <> s_paths s ->
  exists x sp v, analysis H mx c f sty pos kw s = inr (x, sp) /\
                 has_stage Eval (c_stages c) = true /\ has_stage PathCommit (c_stages c) = true /\
                 fst (dds_call H mx c f sty pos kw s) = Ret v.
Proof. exact commit_only_when_complete. Qed.
Print Assumptions C04_commit_only_when_complete.

(* What a committed path serves is a blob denoted by its signature: blobs are never overwritten or lost, and every blob
   of the store is the plain value its key denotes (C01), so a load from any later process returns that value. *)
Theorem C04_blobs_persist : forall f pvals s sp k v,
  blookup k (s_blobs s) = Some v -> blookup k (s_blobs (snd (exec_fn (Dds sp) f pvals s))) = Some v.
Proof. exact dds_exec_monotone. Qed.
Print Assumptions C04_blobs_persist.

Theorem C04_store_sound_along_histories : forall Den H mx l s,
  StoreOK Den s -> calls_hyp Den H mx s l -> StoreOK Den (run_calls H mx l s).
Proof. exact history_sound. Qed.
Print Assumptions C04_store_sound_along_histories.
