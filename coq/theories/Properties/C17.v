(* C17 - results are read back with the codec that wrote them, text and bytes verbatim.  Proofs: L5_Stores/CodecProofs.v.
   The round-trip laws of the individual codecs (UTF-8, identity, pickle, parquet) and the verbatim layout of str / bytes
   blobs are established by the tie on raw files; they are properties of CPython / pandas, not of dds's logic. *)
From Coq Require Import List.
From DDS Require Import Base.Bytes Extracted.ConstCodec L5_Stores.Codec L5_Stores.CodecProofs.
Import ListNotations.

Theorem C17_read_with_writer_codec : forall regs g r c,
  select_by_ref g r = Some c -> forallb (fun x => negb (rebinding r x)) regs = true ->
  select_by_ref (fold_left register regs g) r = Some c.
Proof. exact read_with_writer_codec. Qed.
Print Assumptions C17_read_with_writer_codec.

Theorem C17_file_codec_never_rebinds : forall g ref types r c,
  select_by_ref g r = Some c -> select_by_ref (register g (RFile ref types)) r = Some c.
Proof. exact file_codec_never_rebinds. Qed.
Print Assumptions C17_file_codec_never_rebinds.

Theorem C17_default_references_bound :
  forallb (fun rt => match select_by_ref default_registry (bs (fst rt)) with Some (r, _) => bytes_eqb r (bs (fst rt)) | None => false end)
          c_default_file_codecs = true.
Proof. exact default_references_bound. Qed.
Print Assumptions C17_default_references_bound.
