(* C14 (translator route) - is_authorized_path regenerated from /repo's source (Extracted/GenAccept.v) equals the model. *)
From Coq Require Import List ZArith.
From DDS Require Import Base.Bytes Base.PyRt L2_Disc.Accept Extracted.GenAccept L2_Disc.GenAcceptProofs.
Import ListNotations.

Theorem GEN_is_authorized_path : forall parts accepted,
  gen_is_authorized_path parts accepted = is_authorized_path parts accepted.
Proof. exact gen_is_authorized_path_eq. Qed.
Print Assumptions GEN_is_authorized_path.
