(* Syntax of the generated pipeline functions (harness/progs.py), as WRITTEN: what the renderer prints, with the
   line numbers the renderer knows.  Nothing here is a decision of dds's AST visitors: no `seen` set, no sorting,
   no by-name pseudo calls, no Constant / non-Constant classification of arguments.  Those are derived by
   L2_Disc/Visitors.v:discover.  Definitions only. *)
From Coq Require Import List Ascii String ZArith NArith Bool.
From DDS Require Import Base.Bytes L0_Hash.PyVal L1_Args.ArgCtx.
Import ListNotations.

(* argument expressions as written *)
Inductive mexpr :=
| MLit (v : pyval)        (* a literal, printed with repr *)
| MParam (i : nat)        (* the name of the i-th parameter *)
| MLocal (i : nat)        (* x<i>: the target of the i-th statement *)
| MVar (name : bytes)     (* a module-level variable *)
| MComputed (v : pyval).  (* an expression without names that is not one ast.Constant (+1, ~1, (1+1), not 0) and evaluates to v *)

(* how a callee is spelled *)
Inductive spelling :=
| SpName (n : bytes)              (* g          (same module, or `from .m import g`) *)
| SpAlias (n : bytes)             (* g_al       (`from .m import g as g_al`): n is the alias *)
| SpAttr (modname n : bytes).     (* m.g        (`from . import m`) *)

(* the first Name of the callee expression *)
Definition sp_head (sp : spelling) : bytes :=
  match sp with SpName n => n | SpAlias n => n | SpAttr m _ => m end.

(* a function: its text and, for every statement `x<i> = ...` (i = position in [stmts]), what is called and how *)
Inductive mfn :=
| MFn (cname : bytes)                 (* canonical path "pkg/mod/f" *)
      (tag : bytes)                   (* what the body logs *)
      (raises : option bytes)         (* the body ends with `raise vlogmod.make_exc(<class>, tag)` *)
      (lines : list bytes)            (* source text split at "\n" (decorator included, trailing "") *)
      (params : list param)
      (annot : option bytes)          (* path of the @dds.data_function decorator *)
      (is_class : bool)               (* false: `def f(params): <stmts> return (tag, ...)`;
                                         true: `class f:` with two methods, `def __init__(self, params): <stmts>
                                         self.v = (tag, ...)` and `def get(self): return self.v`.  A class is only ever
                                         the callee of an MCall, written `x<i> = g(args).v` *)
      (modvars : list (bytes * (bool * pyval * bytes)))
                                      (* module variables READ by the body, in any order: name, (is the value of a
                                         tracked type, value, canonical name "pkg/mod/NAME") *)
      (helpers : list (bytes * bytes))(* names of non-accepted modules / helper functions mentioned by the body:
                                         local name, canonical name *)
      (stmts : list mstmt)
with mstmt :=
| MCall (line : nat) (sp : spelling) (callee : mfn) (args : list mexpr)     (* x<i> = g(args)   (g(args).v for a class) *)
| MApply (line : nat) (sp : spelling) (callee : mfn)                        (* x<i> = vlogmod.apply(g) *)
| MKeep (line eline refline : nat) (path : bytes) (sp : spelling) (callee : mfn)
        (pos : list mexpr) (kw : list (bytes * mexpr))                      (* x<i> = dds.keep(path, g, *pos, **kw):
                                                                               line of `dds.keep(`, of `)`, of `g` *)
| MLoad (path : bytes).                                                     (* x<i> = dds.load(path) *)

Definition mfn_cname (f : mfn) : bytes := match f with MFn c _ _ _ _ _ _ _ _ _ => c end.
Definition mfn_tag (f : mfn) : bytes := match f with MFn _ t _ _ _ _ _ _ _ _ => t end.
Definition mfn_raises (f : mfn) : option bytes := match f with MFn _ _ r _ _ _ _ _ _ _ => r end.
Definition mfn_lines (f : mfn) : list bytes := match f with MFn _ _ _ l _ _ _ _ _ _ => l end.
Definition mfn_params (f : mfn) : list param := match f with MFn _ _ _ _ p _ _ _ _ _ => p end.
Definition mfn_annot (f : mfn) : option bytes := match f with MFn _ _ _ _ _ a _ _ _ _ => a end.
Definition mfn_is_class (f : mfn) : bool := match f with MFn _ _ _ _ _ _ k _ _ _ => k end.
Definition mfn_modvars (f : mfn) : list (bytes * (bool * pyval * bytes)) := match f with MFn _ _ _ _ _ _ _ v _ _ => v end.
Definition mfn_helpers (f : mfn) : list (bytes * bytes) := match f with MFn _ _ _ _ _ _ _ _ h _ => h end.
Definition mfn_stmts (f : mfn) : list mstmt := match f with MFn _ _ _ _ _ _ _ _ _ s => s end.

Definition mstmt_callee (s : mstmt) : option mfn :=
  match s with
  | MCall _ _ g _ | MApply _ _ g | MKeep _ _ _ _ _ g _ _ => Some g
  | MLoad _ => None
  end.
Definition mstmt_spelling (s : mstmt) : option spelling :=
  match s with
  | MCall _ sp _ _ | MApply _ sp _ | MKeep _ _ _ _ sp _ _ _ => Some sp
  | MLoad _ => None
  end.

(* nested induction principle: the property holds for a function when it holds for the callees of all its statements *)
Section Ind.
  Variable P : mfn -> Prop.
  Variable Q : mstmt -> Prop.
  Hypothesis HFn : forall c t r l p a k v h ss, Forall Q ss -> P (MFn c t r l p a k v h ss).
  Hypothesis HCall : forall line sp g args, P g -> Q (MCall line sp g args).
  Hypothesis HApply : forall line sp g, P g -> Q (MApply line sp g).
  Hypothesis HKeep : forall line eline rl path sp g pos kw, P g -> Q (MKeep line eline rl path sp g pos kw).
  Hypothesis HLoad : forall path, Q (MLoad path).

  Fixpoint mfn_ind' (f : mfn) : P f :=
    match f with
    | MFn c t r l p a k v h ss =>
      HFn c t r l p a k v h ss
        ((fix go (l : list mstmt) : Forall Q l :=
            match l with
            | [] => Forall_nil _
            | s :: r =>
              Forall_cons _
                (match s return Q s with
                 | MCall line sp g args => HCall line sp g args (mfn_ind' g)
                 | MApply line sp g => HApply line sp g (mfn_ind' g)
                 | MKeep line eline rl path sp g pos kw => HKeep line eline rl path sp g pos kw (mfn_ind' g)
                 | MLoad path => HLoad path
                 end) (go r)
            end) ss)
    end.

  Definition mstmt_ind' (s : mstmt) : Q s :=
    match s return Q s with
    | MCall line sp g args => HCall line sp g args (mfn_ind' g)
    | MApply line sp g => HApply line sp g (mfn_ind' g)
    | MKeep line eline rl path sp g pos kw => HKeep line eline rl path sp g pos kw (mfn_ind' g)
    | MLoad path => HLoad path
    end.
End Ind.
