(* Proofs about the cycle / nested-eval detection model of Cycle.v:
   soundness of the two error verdicts, completeness of acceptance (the completion cache never hides a cycle),
   sufficiency of the fuel, and the resulting characterisation of rejection. *)
From Coq Require Import List Ascii String Bool Arith Lia.
From DDS Require Import Base.Bytes L2_Disc.Cycle.
Import ListNotations.

(* ------------------------------------------------------------------------------------------------------------ *)
(* membership reflection *)

Lemma bytes_eqb_true_iff : forall a b : bytes, bytes_eqb a b = true <-> a = b.
Proof.
  intros a b. unfold bytes_eqb. destruct (list_eq_dec ascii_dec a b) as [Heq | Hne].
  - split; intros _; [exact Heq | reflexivity].
  - split; intros H; [discriminate H | contradiction].
Qed.

Lemma memb_true_iff : forall x l, memb x l = true <-> In x l.
Proof.
  intros x l. unfold memb. rewrite existsb_exists. split.
  - intros [y [Hin Heq]]. apply bytes_eqb_true_iff in Heq. subst y. exact Hin.
  - intros Hin. exists x. split; [exact Hin | apply bytes_eqb_true_iff; reflexivity].
Qed.

Lemma memb_false_iff : forall x l, memb x l = false <-> ~ In x l.
Proof.
  intros x l. split.
  - intros Hf Hin. apply memb_true_iff in Hin. rewrite Hin in Hf. discriminate Hf.
  - intros Hn. destruct (memb x l) eqn:E; [| reflexivity].
    exfalso. apply Hn. apply memb_true_iff. exact E.
Qed.

(* ------------------------------------------------------------------------------------------------------------ *)
(* the inner loop of [visit], named *)

Definition go (fu : nat) (g : graph) (stack : list bytes) (f : bytes) : list edge -> list bytes -> verdict :=
  fix go (es : list edge) (done : list bytes) : verdict :=
    match es with
    | [] => VOk (f :: done)
    | ELoad :: r => go r done
    | EEval :: _ => VEvalInEval
    | ETo _ t :: r =>
      if memb t stack then VCircular
      else match visit fu g (stack ++ [t]) done t with
           | VOk done' => go r done'
           | v => v
           end
    end.

Lemma visit_O : forall g stack done f, visit 0 g stack done f = VFuel.
Proof. reflexivity. Qed.

Lemma visit_S : forall fu g stack done f,
  visit (S fu) g stack done f =
  if memb f done then VOk done else go fu g stack f (edges_of g f) done.
Proof. reflexivity. Qed.

Lemma go_nil : forall fu g stack f done, go fu g stack f [] done = VOk (f :: done).
Proof. reflexivity. Qed.

Lemma go_load : forall fu g stack f r done, go fu g stack f (ELoad :: r) done = go fu g stack f r done.
Proof. reflexivity. Qed.

Lemma go_eval : forall fu g stack f r done, go fu g stack f (EEval :: r) done = VEvalInEval.
Proof. reflexivity. Qed.

Lemma go_to : forall fu g stack f k t r done,
  go fu g stack f (ETo k t :: r) done =
  if memb t stack then VCircular
  else match visit fu g (stack ++ [t]) done t with
       | VOk done' => go fu g stack f r done'
       | v => v
       end.
Proof. reflexivity. Qed.

(* ------------------------------------------------------------------------------------------------------------ *)
(* soundness of VCircular and VEvalInEval *)

Section Sound.
  Variable g : graph.
  Variable root : bytes.

  Definition err_sound (v : verdict) : Prop :=
    (v = VCircular -> cyclic_from g root) /\ (v = VEvalInEval -> eval_from g root).

  Lemma go_err_sound : forall fu stack f,
    (forall stack' done' f', reach g root f' -> (forall s, In s stack' -> reach g s f') ->
       err_sound (visit fu g stack' done' f')) ->
    reach g root f -> (forall s, In s stack -> reach g s f) ->
    forall es done, incl es (edges_of g f) -> err_sound (go fu g stack f es done).
  Proof.
    intros fu stack f IH Hrf Hst es.
    induction es as [| e r IHr]; intros done Hincl.
    - rewrite go_nil. split; intros H; discriminate H.
    - assert (Hr : incl r (edges_of g f)) by (intros x Hx; apply Hincl; right; exact Hx).
      assert (He : In e (edges_of g f)) by (apply Hincl; left; reflexivity).
      destruct e as [k t | |].
      + rewrite go_to. destruct (memb t stack) eqn:Hm.
        * split; intros H; [| discriminate H].
          apply memb_true_iff in Hm. exists f, t.
          split; [exact Hrf |]. split; [exists k; exact He | apply Hst; exact Hm].
        * assert (Hft : has_edge g f t) by (exists k; exact He).
          assert (Hrt : reach g root t) by (apply reach_step with f; [exact Hrf | exact Hft]).
          assert (Hst' : forall s, In s (stack ++ [t]) -> reach g s t).
          { intros s Hs. apply in_app_or in Hs. destruct Hs as [Hs | Hs].
            - apply reach_step with f; [apply Hst; exact Hs | exact Hft].
            - simpl in Hs. destruct Hs as [Hs | Hs]; [| contradiction]. subst s. apply reach_refl. }
          destruct (IH (stack ++ [t]) done t Hrt Hst') as [IHc IHe].
          destruct (visit fu g (stack ++ [t]) done t) as [d' | | |] eqn:Hv.
          -- apply IHr. exact Hr.
          -- split; intros H; [apply IHc; reflexivity | discriminate H].
          -- split; intros H; [discriminate H | apply IHe; reflexivity].
          -- split; intros H; discriminate H.
      + rewrite go_eval. split; intros H; [discriminate H |].
        exists f. split; [exact Hrf | exact He].
      + rewrite go_load. apply IHr. exact Hr.
  Qed.

  Lemma visit_err_sound : forall fuel stack done f,
    reach g root f -> (forall s, In s stack -> reach g s f) ->
    err_sound (visit fuel g stack done f).
  Proof.
    induction fuel as [| fu IH]; intros stack done f Hrf Hst.
    - rewrite visit_O. split; intros H; discriminate H.
    - rewrite visit_S. destruct (memb f done).
      + split; intros H; discriminate H.
      + apply go_err_sound; [exact IH | exact Hrf | exact Hst | apply incl_refl].
  Qed.

  Lemma analyse_err_sound : err_sound (analyse_graph g root).
  Proof.
    unfold analyse_graph. apply visit_err_sound.
    - apply reach_refl.
    - intros s Hs. destruct Hs.
  Qed.
End Sound.

Theorem circular_sound : forall g root, analyse_graph g root = VCircular -> cyclic_from g root.
Proof. intros g root H. destruct (analyse_err_sound g root) as [Hc _]. apply Hc. exact H. Qed.

Theorem eval_sound : forall g root, analyse_graph g root = VEvalInEval -> eval_from g root.
Proof. intros g root H. destruct (analyse_err_sound g root) as [_ He]. apply He. exact H. Qed.

(* ------------------------------------------------------------------------------------------------------------ *)
(* completeness: the completion cache is always a topologically sorted, edge-closed, eval-free list *)

Section Complete.
  Variable g : graph.

  (* every node of the list has all its targets strictly later in the list and no EEval interaction *)
  Inductive topo : list bytes -> Prop :=
  | topo_nil : topo []
  | topo_cons : forall f l, topo l -> (forall t, has_edge g f t -> In t l) ->
                            ~ In EEval (edges_of g f) -> topo (f :: l).

  Lemma topo_closed : forall l, topo l -> forall x y, In x l -> has_edge g x y -> In y l.
  Proof.
    intros l Ht. induction Ht as [| f l Ht IH Htg Hne]; intros x y Hx He.
    - destruct Hx.
    - simpl in Hx. destruct Hx as [Hx | Hx].
      + subst x. right. apply Htg. exact He.
      + right. apply IH with x; [exact Hx | exact He].
  Qed.

  Lemma topo_reach_closed : forall l, topo l -> forall x y, reach g x y -> In x l -> In y l.
  Proof.
    intros l Ht x y Hr. induction Hr as [a | a b c Hab IH Hbc]; intros Hx.
    - exact Hx.
    - apply topo_closed with b; [exact Ht | apply IH; exact Hx | exact Hbc].
  Qed.

  Lemma topo_no_eval : forall l, topo l -> forall x, In x l -> ~ In EEval (edges_of g x).
  Proof.
    intros l Ht. induction Ht as [| f l Ht IH Htg Hne]; intros x Hx.
    - destruct Hx.
    - simpl in Hx. destruct Hx as [Hx | Hx].
      + subst x. exact Hne.
      + apply IH. exact Hx.
  Qed.

  Lemma topo_acyclic : forall l, topo l -> forall x y, In x l -> has_edge g x y -> reach g y x -> False.
  Proof.
    intros l Ht. induction Ht as [| f l Ht IH Htg Hne]; intros x y Hx He Hr.
    - destruct Hx.
    - assert (Hxl : In x l).
      { simpl in Hx. destruct Hx as [Hx | Hx]; [| exact Hx]. subst x.
        apply topo_reach_closed with y; [exact Ht | exact Hr | apply Htg; exact He]. }
      apply IH with x y; [exact Hxl | exact He | exact Hr].
  Qed.

  Definition ok_edge (done : list bytes) (e : edge) : Prop :=
    match e with
    | ETo _ t => In t done
    | EEval => False
    | ELoad => True
    end.

  Lemma ok_edge_mono : forall d d' e, incl d d' -> ok_edge d e -> ok_edge d' e.
  Proof.
    intros d d' e Hi Ho. destruct e as [k t | |]; simpl in *.
    - apply Hi. exact Ho.
    - exact Ho.
    - exact I.
  Qed.

  Definition ok_post (done : list bytes) (f : bytes) (v : verdict) : Prop :=
    forall d', v = VOk d' -> topo d' /\ incl done d' /\ In f d'.

  Lemma go_ok : forall fu stack f,
    (forall stack' done f', topo done -> ok_post done f' (visit fu g stack' done f')) ->
    forall es done, topo done ->
      (forall e, In e (edges_of g f) -> In e es \/ ok_edge done e) ->
      ok_post done f (go fu g stack f es done).
  Proof.
    intros fu stack f IH es.
    induction es as [| e r IHr]; intros done Htd Hcond d' Hgo.
    - rewrite go_nil in Hgo. inversion Hgo as [Hd]. clear Hgo.
      split; [| split].
      + apply topo_cons.
        * exact Htd.
        * intros t [k Hk]. destruct (Hcond _ Hk) as [Hnil | Hok]; [destruct Hnil | exact Hok].
        * intros Hev. destruct (Hcond _ Hev) as [Hnil | Hok]; [destruct Hnil | exact Hok].
      + apply incl_tl. apply incl_refl.
      + left. reflexivity.
    - destruct e as [k t | |].
      + rewrite go_to in Hgo. destruct (memb t stack); [discriminate Hgo |].
        destruct (visit fu g (stack ++ [t]) done t) as [d0 | | |] eqn:Hv; try discriminate Hgo.
        destruct (IH (stack ++ [t]) done t Htd d0 Hv) as [Htd0 [Hi0 Hin0]].
        assert (Hcond0 : forall e, In e (edges_of g f) -> In e r \/ ok_edge d0 e).
        { intros e He. destruct (Hcond e He) as [Hin | Hok].
          - simpl in Hin. destruct Hin as [Heq | Hin].
            + subst e. right. simpl. exact Hin0.
            + left. exact Hin.
          - right. apply ok_edge_mono with done; [exact Hi0 | exact Hok]. }
        destruct (IHr d0 Htd0 Hcond0 d' Hgo) as [Htd' [Hi' Hin']].
        split; [exact Htd' | split; [| exact Hin']].
        apply incl_tran with d0; [exact Hi0 | exact Hi'].
      + rewrite go_eval in Hgo. discriminate Hgo.
      + rewrite go_load in Hgo.
        assert (Hcond0 : forall e, In e (edges_of g f) -> In e r \/ ok_edge done e).
        { intros e He. destruct (Hcond e He) as [Hin | Hok].
          - simpl in Hin. destruct Hin as [Heq | Hin].
            + subst e. right. simpl. exact I.
            + left. exact Hin.
          - right. exact Hok. }
        apply (IHr done Htd Hcond0 d' Hgo).
  Qed.

  Lemma visit_ok : forall fuel stack done f, topo done -> ok_post done f (visit fuel g stack done f).
  Proof.
    induction fuel as [| fu IH]; intros stack done f Htd d' Hv.
    - rewrite visit_O in Hv. discriminate Hv.
    - rewrite visit_S in Hv. destruct (memb f done) eqn:Hm.
      + inversion Hv as [Hd]. subst d'.
        split; [exact Htd | split; [apply incl_refl | apply memb_true_iff; exact Hm]].
      + apply (go_ok fu stack f IH (edges_of g f) done Htd); [| exact Hv].
        intros e He. left. exact He.
  Qed.

  Lemma analyse_ok_topo : forall root done,
    analyse_graph g root = VOk done -> topo done /\ In root done.
  Proof.
    intros root done H. unfold analyse_graph in H.
    destruct (visit_ok _ [] [] root topo_nil done H) as [Ht [_ Hin]].
    split; [exact Ht | exact Hin].
  Qed.

  (* the acceptance direction needs neither closedness of the graph nor membership of the root *)
  Lemma ok_complete_gen : forall root done,
    analyse_graph g root = VOk done -> ~ cyclic_from g root /\ ~ eval_from g root.
  Proof.
    intros root done H. destruct (analyse_ok_topo root done H) as [Ht Hin]. split.
    - intros [a [b [Hra [Hab Hba]]]].
      apply (topo_acyclic done Ht a b); [| exact Hab | exact Hba].
      apply topo_reach_closed with root; [exact Ht | exact Hra | exact Hin].
    - intros [a [Hra Hev]].
      apply (topo_no_eval done Ht a); [| exact Hev].
      apply topo_reach_closed with root; [exact Ht | exact Hra | exact Hin].
  Qed.
End Complete.

Theorem ok_complete : forall g root done, closed_graph g -> In root (map fst g) ->
  analyse_graph g root = VOk done -> ~ cyclic_from g root /\ ~ eval_from g root.
Proof. intros g root done _ _ H. apply ok_complete_gen with done. exact H. Qed.

(* ------------------------------------------------------------------------------------------------------------ *)
(* termination: the stack is duplicate-free and made of nodes, so its length is bounded by the size of the graph *)

Lemma NoDup_snoc : forall (l : list bytes) t, NoDup l -> ~ In t l -> NoDup (l ++ [t]).
Proof.
  intros l t Hnd. induction Hnd as [| a l Ha Hnd IH]; intros Hn.
  - simpl. constructor; [intros [] | constructor].
  - simpl. constructor.
    + intros Hin. apply in_app_or in Hin. destruct Hin as [Hin | Hin].
      * apply Ha. exact Hin.
      * simpl in Hin. destruct Hin as [Hin | []]. subst a. apply Hn. left. reflexivity.
    + apply IH. intros Hin. apply Hn. right. exact Hin.
Qed.

Section Fuel.
  Variable g : graph.
  Hypothesis Hclosed : closed_graph g.

  Lemma go_fuel : forall fu stack f,
    (forall stack' done f', NoDup stack' -> incl stack' (map fst g) ->
       List.length stack' + fu >= List.length g + 2 -> visit fu g stack' done f' <> VFuel) ->
    NoDup stack -> incl stack (map fst g) -> List.length stack + S fu >= List.length g + 2 ->
    forall es done, incl es (edges_of g f) -> go fu g stack f es done <> VFuel.
  Proof.
    intros fu stack f IH Hnd Hinc Hlen es.
    induction es as [| e r IHr]; intros done Hincl.
    - rewrite go_nil. discriminate.
    - assert (Hr : incl r (edges_of g f)) by (intros x Hx; apply Hincl; right; exact Hx).
      assert (He : In e (edges_of g f)) by (apply Hincl; left; reflexivity).
      destruct e as [k t | |].
      + rewrite go_to. destruct (memb t stack) eqn:Hm; [discriminate |].
        apply memb_false_iff in Hm.
        assert (Hnd' : NoDup (stack ++ [t])) by (apply NoDup_snoc; [exact Hnd | exact Hm]).
        assert (Hinc' : incl (stack ++ [t]) (map fst g)).
        { intros s Hs. apply in_app_or in Hs. destruct Hs as [Hs | Hs].
          - apply Hinc. exact Hs.
          - simpl in Hs. destruct Hs as [Hs | []]. subst s.
            destruct Hclosed as [_ Hcl]. apply (Hcl f k t). exact He. }
        assert (Hlen' : List.length (stack ++ [t]) + fu >= List.length g + 2).
        { rewrite app_length. simpl. lia. }
        pose proof (IH (stack ++ [t]) done t Hnd' Hinc' Hlen') as Hv.
        destruct (visit fu g (stack ++ [t]) done t) as [d' | | |].
        * apply IHr. exact Hr.
        * discriminate.
        * discriminate.
        * exfalso. apply Hv. reflexivity.
      + rewrite go_eval. discriminate.
      + rewrite go_load. apply IHr. exact Hr.
  Qed.

  Lemma visit_fuel : forall fuel stack done f,
    NoDup stack -> incl stack (map fst g) ->
    List.length stack + fuel >= List.length g + 2 -> visit fuel g stack done f <> VFuel.
  Proof.
    induction fuel as [| fu IH]; intros stack done f Hnd Hinc Hlen.
    - exfalso. pose proof (NoDup_incl_length Hnd Hinc) as Hle.
      rewrite map_length in Hle. lia.
    - rewrite visit_S. destruct (memb f done); [discriminate |].
      apply go_fuel; [exact IH | exact Hnd | exact Hinc | exact Hlen | apply incl_refl].
  Qed.
End Fuel.

Theorem fuel_suffices : forall g root, closed_graph g -> In root (map fst g) -> analyse_graph g root <> VFuel.
Proof.
  intros g root Hcl _. unfold analyse_graph. apply visit_fuel.
  - exact Hcl.
  - constructor.
  - intros s Hs. destruct Hs.
  - simpl. lia.
Qed.

(* ------------------------------------------------------------------------------------------------------------ *)
(* the characterisation *)

Corollary rejected_iff : forall g root, closed_graph g -> In root (map fst g) ->
  ((analyse_graph g root = VCircular \/ analyse_graph g root = VEvalInEval) <-> (cyclic_from g root \/ eval_from g root)).
Proof.
  intros g root Hcl Hroot. split.
  - intros [Hc | He].
    + left. apply circular_sound. exact Hc.
    + right. apply eval_sound. exact He.
  - intros Hbad.
    pose proof (fuel_suffices g root Hcl Hroot) as Hfuel.
    destruct (analyse_graph g root) as [d | | |] eqn:Ha.
    + exfalso. destruct (ok_complete g root d Hcl Hroot Ha) as [Hnc Hne].
      destruct Hbad as [Hc | He]; [apply Hnc; exact Hc | apply Hne; exact He].
    + left. reflexivity.
    + right. reflexivity.
    + exfalso. apply Hfuel. reflexivity.
Qed.

(* ------------------------------------------------------------------------------------------------------------ *)
(* examples *)

Local Open Scope string_scope.

Example self_reference : analyse_graph [(bs "f", [ETo KRef (bs "f")])] (bs "f") = VCircular.
Proof. vm_compute. reflexivity. Qed.

Example cycle_of_three_through_keep_and_ref :
  analyse_graph [(bs "r", [ETo KCall (bs "a")]); (bs "a", [ETo KKeep (bs "b")]); (bs "b", [ETo KRef (bs "c")]); (bs "c", [ETo KMethod (bs "a")])] (bs "r") = VCircular.
Proof. vm_compute. reflexivity. Qed.

Example diamond_ok : exists d, analyse_graph [(bs "r", [ETo KCall (bs "a"); ETo KCall (bs "b")]); (bs "a", [ETo KCall (bs "c")]); (bs "b", [ETo KCall (bs "c")]); (bs "c", [])] (bs "r") = VOk d.
Proof. eexists. vm_compute. reflexivity. Qed.

Print Assumptions rejected_iff.
