(* Theorems about L2_Disc/Visitors.v:discover.  The interactions it produces are characterised WITHOUT the threaded
   `seen` set: a callee name is a first mention iff it is none of the names marked by the earlier statements
   ([marked_before], defined from the syntax alone). *)
From Coq Require Import List Ascii String ZArith NArith Bool Arith Sorted Lia.
From DDS Require Import Base.Bytes L0_Hash.PyVal L1_Args.ArgCtx L2_Disc.MiniPy L3_Sig.Program L2_Disc.Visitors.
Import ListNotations.

(* ------------------------------------------------------------------ basics *)
Lemma beqb_true : forall a b, bytes_eqb a b = true -> a = b.
Proof. intros a b. unfold bytes_eqb. destruct (list_eq_dec ascii_dec a b); [auto | discriminate]. Qed.
Lemma beqb_refl : forall a, bytes_eqb a a = true.
Proof. intros a. unfold bytes_eqb. destruct (list_eq_dec ascii_dec a a); congruence. Qed.

Lemma name_in_In : forall x l, name_in x l = true <-> In x l.
Proof.
  intros x l. unfold name_in. rewrite existsb_exists. split.
  - intros [y [Hy E]]. apply beqb_true in E. subst. exact Hy.
  - intros H. exists x. split; [exact H | apply beqb_refl].
Qed.
Lemma name_in_false : forall x l, name_in x l = false <-> ~ In x l.
Proof.
  intros x l. rewrite <- name_in_In. destruct (name_in x l); split; intros; congruence.
Qed.

Lemma list_of_steps_of : forall l, list_of_steps (steps_of l) = l.
Proof. induction l; simpl; congruence. Qed.

(* ------------------------------------------------------------------ the order on names *)
Lemma bytes_cmp_antisym : forall a b, bytes_cmp b a = CompOpp (bytes_cmp a b).
Proof.
  induction a as [|x a IH]; destruct b as [|y b]; simpl; auto.
  rewrite (N.compare_antisym (N_of_ascii x) (N_of_ascii y)).
  destruct (N.compare (N_of_ascii x) (N_of_ascii y)); simpl; auto.
Qed.
Lemma pair_cmp_antisym : forall a b, pair_cmp b a = CompOpp (pair_cmp a b).
Proof.
  intros a b. unfold pair_cmp. rewrite (bytes_cmp_antisym (fst a) (fst b)).
  destruct (bytes_cmp (fst a) (fst b)); simpl; auto. apply bytes_cmp_antisym.
Qed.
Lemma bytes_leb_total : forall a b, bytes_leb a b = false -> bytes_leb b a = true.
Proof. intros a b. unfold bytes_leb. rewrite (bytes_cmp_antisym a b). destruct (bytes_cmp a b); simpl; congruence. Qed.
Lemma pair_leb_total : forall a b, pair_leb a b = false -> pair_leb b a = true.
Proof. intros a b. unfold pair_leb. rewrite (pair_cmp_antisym a b). destruct (pair_cmp a b); simpl; congruence. Qed.
Lemma key_leb_total : forall B (a b : bytes * B), key_leb a b = false -> key_leb b a = true.
Proof. intros B a b. apply bytes_leb_total. Qed.
Lemma pair_leb_key : forall a b, pair_leb a b = true -> bytes_leb (fst a) (fst b) = true.
Proof.
  intros a b. unfold pair_leb, pair_cmp, bytes_leb. destruct (bytes_cmp (fst a) (fst b)); simpl; congruence.
Qed.

Lemma N_of_ascii_inj : forall x y, N_of_ascii x = N_of_ascii y -> x = y.
Proof. intros x y H. rewrite <- (ascii_N_embedding x), <- (ascii_N_embedding y). congruence. Qed.
(* the order is the order of the texts: equal only for equal names *)
Lemma bytes_cmp_eq : forall a b, bytes_cmp a b = Eq -> a = b.
Proof.
  induction a as [|x a IH]; destruct b as [|y b]; simpl; intros H; try discriminate; auto.
  destruct (N.compare (N_of_ascii x) (N_of_ascii y)) eqn:E; try discriminate.
  apply N.compare_eq in E. apply N_of_ascii_inj in E. f_equal; auto.
Qed.
Lemma bytes_leb_antisym : forall a b, bytes_leb a b = true -> bytes_leb b a = true -> a = b.
Proof.
  intros a b. unfold bytes_leb. rewrite (bytes_cmp_antisym a b).
  destruct (bytes_cmp a b) eqn:E; simpl; try discriminate; intros.
  apply bytes_cmp_eq; auto.
Qed.

(* ------------------------------------------------------------------ insertion sort *)
Section SortFacts.
  Context {A : Type} (leb : A -> A -> bool).
  Hypothesis leb_total : forall a b, leb a b = false -> leb b a = true.
  Let R (a b : A) : Prop := leb a b = true.

  Lemma insert_In : forall x y l, In y (insert leb x l) <-> y = x \/ In y l.
  Proof.
    intros x y. induction l as [|z r IH]; simpl.
    - split; intros [H|H]; auto; contradiction.
    - destruct (leb x z); simpl; rewrite ?IH; intuition.
  Qed.
  Lemma isort_In : forall y l, In y (isort leb l) <-> In y l.
  Proof.
    intros y. induction l as [|x r IH]; simpl; [tauto|]. rewrite insert_In, IH. intuition.
  Qed.
  Lemma insert_length : forall x l, List.length (insert leb x l) = S (List.length l).
  Proof. intros x. induction l as [|z r IH]; simpl; auto. destruct (leb x z); simpl; auto. Qed.
  Lemma isort_length : forall l, List.length (isort leb l) = List.length l.
  Proof. induction l as [|x r IH]; simpl; auto. rewrite insert_length. auto. Qed.

  Lemma insert_sorted : forall x l, Sorted R l -> Sorted R (insert leb x l).
  Proof.
    intros x. induction l as [|z r IH]; simpl; intros S.
    - constructor; constructor.
    - destruct (leb x z) eqn:E.
      + constructor; [exact S | constructor; exact E].
      + inversion S as [|? ? Sr Hd]; subst. constructor; auto.
        destruct r as [|w r']; simpl.
        * constructor. apply leb_total. exact E.
        * destruct (leb x w); constructor.
          -- apply leb_total. exact E.
          -- inversion Hd; auto.
  Qed.
  Lemma isort_sorted : forall l, Sorted R (isort leb l).
  Proof. induction l as [|x r IH]; simpl; [constructor | apply insert_sorted; exact IH]. Qed.
End SortFacts.

Lemma Sorted_weaken : forall A (R1 R2 : A -> A -> Prop) l,
  (forall a b, R1 a b -> R2 a b) -> Sorted R1 l -> Sorted R2 l.
Proof.
  intros A R1 R2 l H S. induction S as [|a l S IH Hd]; constructor; auto.
  destruct Hd; constructor; auto.
Qed.

(* ------------------------------------------------------------------ variables and external names *)
Definition by_name {B} (a b : bytes * B) : Prop := bytes_leb (fst a) (fst b) = true.

Fixpoint first_entry {B} (n : bytes) (l : list (bytes * B)) : option B :=
  match l with
  | [] => None
  | (k, x) :: r => if bytes_eqb n k then Some x else first_entry n r
  end.

Lemma dedup_first : forall B (l : list (bytes * B)) seen n x,
  name_in n seen = false -> first_entry n l = Some x -> In (n, x) (dedup_names seen l).
Proof.
  induction l as [|[k y] r IH]; simpl; intros seen n x Hs H; [discriminate|].
  destruct (bytes_eqb n k) eqn:E.
  - apply beqb_true in E. subst k. injection H as H. subst y. rewrite Hs. left. reflexivity.
  - destruct (name_in k seen).
    + apply IH; auto.
    + right. apply IH; auto. unfold name_in in *. simpl. rewrite E. exact Hs.
Qed.
Lemma dedup_subset : forall B (l : list (bytes * B)) seen e, In e (dedup_names seen l) -> In e l.
Proof.
  induction l as [|[k y] r IH]; simpl; intros seen e H; auto.
  destruct (name_in k seen); [right; eauto|]. destruct H as [H|H]; [left; auto | right; eauto].
Qed.
Lemma dedup_fresh : forall B (l : list (bytes * B)) seen e, In e (dedup_names seen l) -> name_in (fst e) seen = false.
Proof.
  induction l as [|[k y] r IH]; simpl; intros seen e H; [contradiction|].
  destruct (name_in k seen) eqn:E; [eauto|]. destruct H as [H|H].
  - subst e. exact E.
  - apply IH in H. unfold name_in in *. simpl in H. apply orb_false_iff in H. tauto.
Qed.
Lemma dedup_nodup : forall B (l : list (bytes * B)) seen, NoDup (map fst (dedup_names seen l)).
Proof.
  induction l as [|[k y] r IH]; simpl; intros seen; [constructor|].
  destruct (name_in k seen); [apply IH|]. simpl. constructor; [|apply IH].
  intros H. apply in_map_iff in H. destruct H as [e [He Hin]]. apply dedup_fresh in Hin.
  rewrite He in Hin. unfold name_in in Hin. simpl in Hin. rewrite beqb_refl in Hin. discriminate.
Qed.
Lemma first_entry_nodup : forall B (l : list (bytes * B)) n x,
  NoDup (map fst l) -> In (n, x) l -> first_entry n l = Some x.
Proof.
  induction l as [|[k y] r IH]; simpl; intros n x ND H; [contradiction|].
  inversion ND as [|? ? Hk ND']; subst. destruct H as [H|H].
  - injection H as H1 H2. subst. rewrite beqb_refl. reflexivity.
  - destruct (bytes_eqb n k) eqn:E.
    + apply beqb_true in E. subst k. exfalso. apply Hk. apply in_map_iff. exists (n, x). auto.
    + apply IH; auto.
Qed.

Lemma discover_unfold : forall c t r l p a k v h ss,
  discover (MFn c t r l p a k v h ss) =
  Fn c t r l p a k
     (BCons (Body (vars_of v) (exts_of v h) (steps_of (stmts_steps discover (read_names v) 0 [salt_name] ss)))
            (if k then BCons get_body BNil else BNil)).
Proof. reflexivity. Qed.

Lemma disc_vars_eq : forall f, disc_vars f = vars_of (mfn_modvars f).
Proof. destruct f; reflexivity. Qed.
Lemma disc_exts_eq : forall f, disc_exts f = exts_of (mfn_modvars f) (mfn_helpers f).
Proof. destruct f; reflexivity. Qed.
Lemma disc_steps_eq : forall f,
  disc_steps f = stmts_steps discover (read_names (mfn_modvars f)) 0 [salt_name] (mfn_stmts f).
Proof. destruct f. unfold disc_steps. rewrite discover_unfold. simpl. apply list_of_steps_of. Qed.

(* every variable read, of a tracked type: in `vars` with its value; of another type: in `exts` with its canonical
   name; every non-accepted name mentioned: in `exts`; both sorted by name.  (When a name is listed twice, its first
   entry counts: Python's set / dict.) *)
Theorem discover_vars_complete : forall f,
  (forall n v c, first_entry n (mfn_modvars f) = Some (true, v, c) -> In (n, v) (disc_vars f)) /\
  (forall n v c, first_entry n (mfn_modvars f) = Some (false, v, c) -> In (n, c) (disc_exts f)) /\
  (forall n c, In (n, c) (mfn_helpers f) -> In (n, c) (disc_exts f)) /\
  Sorted by_name (disc_vars f) /\ Sorted by_name (disc_exts f).
Proof.
  intros f. rewrite disc_vars_eq, disc_exts_eq. unfold vars_of, exts_of. repeat split.
  - intros n v c H. apply isort_In. apply in_map_iff. exists (n, (true, v, c)). split; [reflexivity|].
    apply filter_In. split; [|reflexivity]. apply dedup_first; auto.
  - intros n v c H. apply isort_In. apply in_or_app. left. apply in_map_iff. exists (n, (false, v, c)).
    split; [reflexivity|]. apply filter_In. split; [|reflexivity]. apply dedup_first; auto.
  - intros n c H. apply isort_In. apply in_or_app. right. exact H.
  - apply (isort_sorted key_leb). intros a b. apply key_leb_total.
  - apply Sorted_weaken with (R1 := fun a b => pair_leb a b = true).
    + intros a b. apply pair_leb_key.
    + apply (isort_sorted pair_leb). apply pair_leb_total.
Qed.

(* the same for a list of reads without repetition, stated with membership *)
Corollary discover_vars_complete_nodup : forall f,
  NoDup (map fst (mfn_modvars f)) ->
  (forall n v c, In (n, (true, v, c)) (mfn_modvars f) -> In (n, v) (disc_vars f)) /\
  (forall n v c, In (n, (false, v, c)) (mfn_modvars f) -> In (n, c) (disc_exts f)).
Proof.
  intros f ND. destruct (discover_vars_complete f) as [H1 [H2 _]]. split; intros n v c H.
  - eapply H1. apply first_entry_nodup; eauto.
  - eapply H2. apply first_entry_nodup; eauto.
Qed.

Lemma filter_len_le : forall A (p : A -> bool) l, List.length (filter p l) <= List.length l.
Proof. induction l as [|x r IH]; simpl; auto. destruct (p x); simpl; lia. Qed.

(* nothing else is recorded *)
Theorem discover_vars_sound : forall f,
  (forall n v, In (n, v) (disc_vars f) -> exists c, In (n, (true, v, c)) (mfn_modvars f)) /\
  (forall n c, In (n, c) (disc_exts f) ->
     (exists v, In (n, (false, v, c)) (mfn_modvars f)) \/ In (n, c) (mfn_helpers f)) /\
  List.length (disc_vars f) <= List.length (mfn_modvars f).
Proof.
  intros f. rewrite disc_vars_eq, disc_exts_eq. unfold vars_of, exts_of. repeat split.
  - intros n v H. apply isort_In in H. apply in_map_iff in H. destruct H as [[k [[b w] c]] [E H]].
    apply filter_In in H. destruct H as [H T]. apply dedup_subset in H.
    unfold mv_value, mv_tracked in *. simpl in *. injection E as E1 E2. subst. exists c. exact H.
  - intros n c H. apply isort_In in H. apply in_app_or in H. destruct H as [H|H]; [left | right; exact H].
    apply in_map_iff in H. destruct H as [[k [[b w] c']] [E H]].
    apply filter_In in H. destruct H as [H T]. apply dedup_subset in H.
    unfold mv_canon, mv_tracked in *. simpl in *. injection E as E1 E2. subst.
    destruct b; [discriminate|]. exists w. exact H.
  - rewrite isort_length, map_length.
    eapply Nat.le_trans; [apply filter_len_le|].
    generalize (@nil bytes). induction (mfn_modvars f) as [|[k y] r IH]; simpl; intros s; auto.
    destruct (name_in k s); simpl; [apply Nat.le_trans with (List.length r); auto | apply le_n_S; auto].
Qed.

(* an argument `NAME` is translated to the position of NAME among the sorted reads *)
Lemma index_of_nth : forall n l, In n l -> nth_error l (index_of n l) = Some n.
Proof.
  induction l as [|x r IH]; simpl; intros H; [contradiction|].
  destruct (bytes_eqb n x) eqn:E.
  - apply beqb_true in E. subst. reflexivity.
  - destruct H as [H|H]; [subst; rewrite beqb_refl in E; discriminate | simpl; auto].
Qed.
Theorem discover_var_index : forall modvars n,
  In n (map fst modvars) ->
  exists i, expr_of (read_names modvars) (MVar n) = EVar i /\ nth_error (read_names modvars) i = Some n /\
            Sorted (fun a b => bytes_leb a b = true) (read_names modvars).
Proof.
  intros mvs n H. exists (index_of n (read_names mvs)). split; [reflexivity|]. split.
  - apply index_of_nth. unfold read_names. apply isort_In. exact H.
  - unfold read_names. apply (isort_sorted bytes_leb). apply bytes_leb_total.
Qed.

(* ------------------------------------------------------------------ text *)
Theorem discover_preserves_text : forall f,
  fn_lines (discover f) = mfn_lines f /\ fn_params (discover f) = mfn_params f /\
  fn_annot (discover f) = mfn_annot f /\ fn_tag (discover f) = mfn_tag f /\
  fn_raises (discover f) = mfn_raises f /\ fn_name (discover f) = mfn_cname f /\
  fn_is_class (discover f) = mfn_is_class f.
Proof. destruct f. rewrite discover_unfold. simpl. repeat split. Qed.

(* a function has one body; a class has two, one per method in source order: the statements are those of __init__,
   and `get` (which only mentions `self`) has no variable, no external name and no interaction *)
Theorem discover_bodies : forall f,
  fn_bodies (discover f) =
  BCons (Body (disc_vars f) (disc_exts f) (steps_of (disc_steps f)))
        (if mfn_is_class f then BCons (Body [] [] SNil) BNil else BNil).
Proof.
  intros f. rewrite disc_steps_eq. destruct f. rewrite discover_unfold. reflexivity.
Qed.

(* ------------------------------------------------------------------ interactions, without the threaded set *)

(* the names statement number i marks before its callee name is visited: its target x<i> and the head of the
   enclosing call (vlogmod.apply( / dds.keep( ) *)
Definition own_marks (i : nat) (s : mstmt) : list bytes :=
  match s with
  | MApply _ _ _ => [logmod_name; xname i]
  | MKeep _ _ _ _ _ _ _ _ => [dds_name; xname i]
  | _ => [xname i]
  end.
(* all the names marked once statement number i has been visited *)
Definition stmt_marks (i : nat) (s : mstmt) : list bytes :=
  match s with
  | MCall _ sp _ _ => sp_head sp :: own_marks i s
  | MApply _ sp _ => sp_head sp :: own_marks i s
  | MKeep _ _ _ _ sp _ _ _ => sp_head sp :: own_marks i s
  | MLoad _ => dds_name :: own_marks i s
  end.
(* ... by the statements l, numbered from i (latest first) *)
Fixpoint marks_of (i : nat) (l : list mstmt) : list bytes :=
  match l with
  | [] => []
  | s :: r => marks_of (S i) r ++ stmt_marks i s
  end.
(* the names marked when the statements [pre] of a body have been visited *)
Definition marked_before (pre : list mstmt) : list bytes := marks_of 0 pre ++ [salt_name].
(* the names marked when the visitor reaches the callee name of statement s, which follows [pre] *)
Definition mentioned_before (pre : list mstmt) (s : mstmt) : list bytes :=
  own_marks (List.length pre) s ++ marked_before pre.
Definition first_mention (pre : list mstmt) (s : mstmt) : Prop :=
  match mstmt_spelling s with
  | Some sp => ~ In (sp_head sp) (mentioned_before pre s)
  | None => False
  end.
Definition first_mentionb (pre : list mstmt) (s : mstmt) : bool :=
  match mstmt_spelling s with
  | Some sp => negb (name_in (sp_head sp) (mentioned_before pre s))
  | None => false
  end.
Lemma first_mentionb_iff : forall pre s, first_mentionb pre s = true <-> first_mention pre s.
Proof.
  intros pre s. unfold first_mentionb, first_mention. destruct (mstmt_spelling s).
  - rewrite negb_true_iff. apply name_in_false.
  - split; [discriminate | contradiction].
Qed.

(* what [marked_before] contains: `_salt`, and for every earlier statement j its target x<j>, the head of its callee
   expression, `dds` for keep / load, `vlogmod` for apply *)
Lemma marks_of_spec : forall l i x,
  In x (marks_of i l) <-> exists j s, nth_error l j = Some s /\ In x (stmt_marks (i + j) s).
Proof.
  induction l as [|s r IH]; simpl; intros i x.
  - split; [contradiction|]. intros [j [s [H _]]]. destruct j; discriminate.
  - rewrite in_app_iff, IH. split.
    + intros [[j [s' [H1 H2]]]|H].
      * exists (S j), s'. split; auto. rewrite Nat.add_succ_r. exact H2.
      * exists 0, s. split; auto. rewrite Nat.add_0_r. exact H.
    + intros [[|j] [s' [H1 H2]]]; simpl in H1.
      * injection H1 as H1. subst s'. right. rewrite Nat.add_0_r in H2. exact H2.
      * left. exists j, s'. split; auto. rewrite Nat.add_succ_r in H2. exact H2.
Qed.
Theorem marked_before_spec : forall pre x,
  In x (marked_before pre) <-> x = salt_name \/ exists j s, nth_error pre j = Some s /\ In x (stmt_marks j s).
Proof.
  intros pre x. unfold marked_before. rewrite in_app_iff, marks_of_spec. simpl. split.
  - intros [H|[H|[]]]; [right; exact H | left; auto].
  - intros [H|H]; [right; left; auto | left; exact H].
Qed.

Lemma marks_of_snoc : forall l i s, marks_of i (l ++ [s]) = stmt_marks (i + List.length l) s ++ marks_of i l.
Proof.
  induction l as [|p r IH]; intros i s.
  - cbn [marks_of app List.length]. rewrite Nat.add_0_r, app_nil_r. reflexivity.
  - cbn [marks_of app List.length]. rewrite IH, Nat.add_succ_r, app_assoc. reflexivity.
Qed.

(* the steps of one statement, given whether its callee name is a first mention *)
Definition spec_steps (rec : mfn -> fn) (names : list bytes) (fresh : bool) (s : mstmt) : list step :=
  match s with
  | MLoad p => [SLoad p]
  | MCall line sp g args => [SCall line line (rec g) (map (expr_of names) args)]
  | MApply line sp g => if fresh then [SRef line (rec g) true] else [SApply (rec g)]
  | MKeep line eline rl path sp g pos kw =>
    SKeep line eline path (rec g) (pos_of names pos) (kw_of names kw)
    :: (if fresh then [SRef rl (rec g) false] else [])
  end.
(* the steps of the statements l that follow [pre] *)
Fixpoint spec_from (rec : mfn -> fn) (names : list bytes) (pre l : list mstmt) : list step :=
  match l with
  | [] => []
  | s :: r => spec_steps rec names (first_mentionb pre s) s ++ spec_from rec names (pre ++ [s]) r
  end.

Definition same_names (a b : list bytes) : Prop := forall x, In x a <-> In x b.
Lemma name_in_ext : forall x a b, same_names a b -> name_in x a = name_in x b.
Proof.
  intros x a b H. destruct (name_in x a) eqn:Ea, (name_in x b) eqn:Eb; auto.
  - apply name_in_In in Ea. apply H in Ea. apply name_in_In in Ea. congruence.
  - apply name_in_In in Eb. apply H in Eb. apply name_in_In in Eb. congruence.
Qed.
Lemma same_names_cons : forall x a b, same_names a b -> same_names (x :: a) (x :: b).
Proof. intros x a b H y. simpl. rewrite (H y). tauto. Qed.
Lemma same_names_absorb : forall x a b, In x b -> same_names a b -> same_names a (x :: b).
Proof. intros x a b Hx H y. simpl. rewrite (H y). split; [auto|]. intros [E|E]; [subst; auto | auto]. Qed.

Lemma stmt_steps_spec : forall rec names pre seen s,
  same_names seen (marked_before pre) ->
  fst (stmt_steps rec names (List.length pre) seen s) = spec_steps rec names (first_mentionb pre s) s /\
  same_names (snd (stmt_steps rec names (List.length pre) seen s)) (stmt_marks (List.length pre) s ++ marked_before pre).
Proof.
  intros rec names pre seen s H.
  destruct s as [line sp g args | line sp g | line eline rl path sp g pos kw | p];
    unfold stmt_steps, first_mentionb, mentioned_before, spec_steps, stmt_marks, own_marks, mstmt_spelling;
    cbn [fst snd app].
  - split; [reflexivity|]. apply same_names_cons, same_names_cons, H.
  - assert (HS : same_names (logmod_name :: xname (List.length pre) :: seen)
                            (logmod_name :: xname (List.length pre) :: marked_before pre))
      by (apply same_names_cons, same_names_cons, H).
    rewrite (name_in_ext (sp_head sp) _ _ HS).
    destruct (name_in (sp_head sp) (logmod_name :: xname (List.length pre) :: marked_before pre)) eqn:E;
      cbn [fst snd negb]; split; try reflexivity.
    + apply same_names_absorb; [apply name_in_In; exact E | exact HS].
    + apply same_names_cons, HS.
  - assert (HS : same_names (dds_name :: xname (List.length pre) :: seen)
                            (dds_name :: xname (List.length pre) :: marked_before pre))
      by (apply same_names_cons, same_names_cons, H).
    rewrite (name_in_ext (sp_head sp) _ _ HS).
    destruct (name_in (sp_head sp) (dds_name :: xname (List.length pre) :: marked_before pre)) eqn:E;
      cbn [fst snd negb]; split; try reflexivity.
    + apply same_names_absorb; [apply name_in_In; exact E | exact HS].
    + apply same_names_cons, HS.
  - split; [reflexivity|]. apply same_names_cons, same_names_cons, H.
Qed.

Lemma stmts_steps_spec : forall rec names l pre seen,
  same_names seen (marked_before pre) ->
  stmts_steps rec names (List.length pre) seen l = spec_from rec names pre l.
Proof.
  intros rec names. induction l as [|s r IH]; intros pre seen H; [reflexivity|].
  cbn [stmts_steps spec_from].
  destruct (stmt_steps_spec rec names pre seen s H) as [H1 H2].
  rewrite H1. f_equal.
  replace (S (List.length pre)) with (List.length (pre ++ [s])) by (rewrite app_length; simpl; lia).
  apply IH. unfold marked_before in *. rewrite marks_of_snoc, Nat.add_0_l, <- app_assoc. exact H2.
Qed.

(* the interactions of a function, in terms of its syntax alone *)
Theorem discover_steps_spec : forall f,
  disc_steps f = spec_from discover (read_names (mfn_modvars f)) [] (mfn_stmts f).
Proof.
  intros f. rewrite disc_steps_eq. apply (stmts_steps_spec discover _ _ []).
  intros x. unfold marked_before. simpl. tauto.
Qed.

Lemma spec_from_split : forall rec names pre s post pre0,
  spec_from rec names pre0 (pre ++ s :: post) =
  spec_from rec names pre0 pre ++ spec_steps rec names (first_mentionb (pre0 ++ pre) s) s
  ++ spec_from rec names (pre0 ++ pre ++ [s]) post.
Proof.
  intros rec names. induction pre as [|p pre IH]; intros s post pre0.
  - cbn [app spec_from]. rewrite app_nil_r. reflexivity.
  - cbn [app spec_from]. rewrite IH, <- !app_assoc. reflexivity.
Qed.

Lemma disc_steps_split : forall f pre s post,
  mfn_stmts f = pre ++ s :: post ->
  disc_steps f =
  spec_from discover (read_names (mfn_modvars f)) [] pre
  ++ spec_steps discover (read_names (mfn_modvars f)) (first_mentionb pre s) s
  ++ spec_from discover (read_names (mfn_modvars f)) (pre ++ [s]) post.
Proof. intros f pre s post H. rewrite discover_steps_spec, H, spec_from_split. reflexivity. Qed.

(* ---- the callee of a keep is also referenced by name ---- *)
(* for `dds.keep(path, g, ...)` whose callee name was not mentioned before, the steps contain, right after the SKeep,
   the by-name pseudo call of g (analysed as a call without arguments at the line of the name, never executed) *)
Theorem discover_keep_callee_also_referenced : forall f pre post line eline refline path sp g pos kw,
  mfn_stmts f = pre ++ MKeep line eline refline path sp g pos kw :: post ->
  ~ In (sp_head sp) (mentioned_before pre (MKeep line eline refline path sp g pos kw)) ->
  exists before after,
    disc_steps f =
    before ++ SKeep line eline path (discover g) (pos_of (read_names (mfn_modvars f)) pos) (kw_of (read_names (mfn_modvars f)) kw)
           :: SRef refline (discover g) false :: after.
Proof.
  intros f pre post line eline rl path sp g pos kw H HF.
  rewrite (disc_steps_split f _ _ _ H).
  assert (E : first_mentionb pre (MKeep line eline rl path sp g pos kw) = true) by (apply first_mentionb_iff; exact HF).
  rewrite E. cbn [spec_steps app]. eexists. eexists. reflexivity.
Qed.

(* ... and only then: a callee name that was mentioned before is skipped *)
Theorem discover_keep_callee_mentioned_before : forall f pre post line eline refline path sp g pos kw,
  mfn_stmts f = pre ++ MKeep line eline refline path sp g pos kw :: post ->
  In (sp_head sp) (mentioned_before pre (MKeep line eline refline path sp g pos kw)) ->
  disc_steps f =
  spec_from discover (read_names (mfn_modvars f)) [] pre
  ++ SKeep line eline path (discover g) (pos_of (read_names (mfn_modvars f)) pos) (kw_of (read_names (mfn_modvars f)) kw)
  :: spec_from discover (read_names (mfn_modvars f)) (pre ++ [MKeep line eline refline path sp g pos kw]) post.
Proof.
  intros f pre post line eline rl path sp g pos kw H HF.
  rewrite (disc_steps_split f _ _ _ H).
  assert (E : first_mentionb pre (MKeep line eline rl path sp g pos kw) = false).
  { destruct (first_mentionb pre (MKeep line eline rl path sp g pos kw)) eqn:E; auto.
    apply first_mentionb_iff in E. exfalso. apply E. exact HF. }
  rewrite E. reflexivity.
Qed.

(* ---- every call of the syntax is a step ---- *)
Inductive ckind := KCall | KKeep | KByName.
(* the analysed-and-executed calls among the steps *)
Definition step_call (s : step) : list (ckind * fn) :=
  match s with
  | SCall _ _ g _ => [(KCall, g)]
  | SKeep _ _ _ g _ _ => [(KKeep, g)]
  | SRef _ g true => [(KByName, g)]
  | _ => []
  end.
Definition step_calls (l : list step) : list (ckind * fn) := flat_map step_call l.
(* the calls of the syntax: g(...), dds.keep(p, g, ...), and vlogmod.apply(g) when g is a first mention *)
Definition stmt_call (pre : list mstmt) (s : mstmt) : list (ckind * mfn) :=
  match s with
  | MCall _ _ g _ => [(KCall, g)]
  | MKeep _ _ _ _ _ g _ _ => [(KKeep, g)]
  | MApply _ _ g => if first_mentionb pre s then [(KByName, g)] else []
  | MLoad _ => []
  end.
Fixpoint stmt_calls (pre l : list mstmt) : list (ckind * mfn) :=
  match l with
  | [] => []
  | s :: r => stmt_call pre s ++ stmt_calls (pre ++ [s]) r
  end.

Lemma spec_calls : forall rec names l pre,
  step_calls (spec_from rec names pre l) = map (fun kg => (fst kg, rec (snd kg))) (stmt_calls pre l).
Proof.
  intros rec names. induction l as [|s r IH]; intros pre; [reflexivity|].
  cbn [spec_from stmt_calls]. unfold step_calls in *. rewrite flat_map_app, map_app, IH. f_equal.
  destruct s; cbn [spec_steps stmt_call]; try reflexivity.
  - destruct (first_mentionb pre (MApply line sp callee)); reflexivity.
  - destruct (first_mentionb pre (MKeep line eline refline path sp callee pos kw)); reflexivity.
Qed.

(* the callees of the MCall / MKeep / first-mention MApply statements of f are exactly, and in statement order, the
   callees of the SCall / SKeep / executed-SRef steps of its analysis *)
Theorem discover_calls_complete : forall f,
  step_calls (disc_steps f) = map (fun kg => (fst kg, discover (snd kg))) (stmt_calls [] (mfn_stmts f)).
Proof. intros f. rewrite discover_steps_spec. apply spec_calls. Qed.

(* the same, statement by statement *)
Theorem discover_call_steps : forall f,
  let names := read_names (mfn_modvars f) in
  (forall line sp g args, In (MCall line sp g args) (mfn_stmts f) ->
     In (SCall line line (discover g) (map (expr_of names) args)) (disc_steps f)) /\
  (forall line eline rl path sp g pos kw, In (MKeep line eline rl path sp g pos kw) (mfn_stmts f) ->
     In (SKeep line eline path (discover g) (pos_of names pos) (kw_of names kw)) (disc_steps f)) /\
  (forall path, In (MLoad path) (mfn_stmts f) -> In (SLoad path) (disc_steps f)) /\
  (forall pre post line sp g, mfn_stmts f = pre ++ MApply line sp g :: post ->
     ~ In (sp_head sp) (mentioned_before pre (MApply line sp g)) ->
     In (SRef line (discover g) true) (disc_steps f)) /\
  (forall pre post line sp g, mfn_stmts f = pre ++ MApply line sp g :: post ->
     In (sp_head sp) (mentioned_before pre (MApply line sp g)) ->
     In (SApply (discover g)) (disc_steps f)).
Proof.
  intros f names. repeat split.
  - intros line sp g args H. apply in_split in H. destruct H as [pre [post H]].
    rewrite (disc_steps_split f _ _ _ H). apply in_or_app. right. apply in_or_app. left. left. reflexivity.
  - intros line eline rl path sp g pos kw H. apply in_split in H. destruct H as [pre [post H]].
    rewrite (disc_steps_split f _ _ _ H). apply in_or_app. right. apply in_or_app. left. left. reflexivity.
  - intros path H. apply in_split in H. destruct H as [pre [post H]].
    rewrite (disc_steps_split f _ _ _ H). apply in_or_app. right. apply in_or_app. left. left. reflexivity.
  - intros pre post line sp g H HF. rewrite (disc_steps_split f _ _ _ H).
    assert (E : first_mentionb pre (MApply line sp g) = true) by (apply first_mentionb_iff; exact HF).
    rewrite E. apply in_or_app. right. left. reflexivity.
  - intros pre post line sp g H HF. rewrite (disc_steps_split f _ _ _ H).
    assert (E : first_mentionb pre (MApply line sp g) = false).
    { destruct (first_mentionb pre (MApply line sp g)) eqn:E; auto.
      apply first_mentionb_iff in E. exfalso. apply E. exact HF. }
    rewrite E. apply in_or_app. right. left. reflexivity.
Qed.

(* ---- which arguments of a nested keep are constants ---- *)
Theorem aarg_of_spec : forall e,
  aarg_of e = match e with
              | MLit v => if is_ast_constant v then ALit v else ARun
              | _ => ARun
              end.
Proof. destruct e; reflexivity. Qed.
Theorem negative_literal_is_runtime : forall z, (z < 0)%Z -> aarg_of (MLit (VInt z)) = ARun.
Proof. intros z H. simpl. destruct (Z.leb_spec 0 z); [lia | reflexivity]. Qed.
(* an argument that is neither one constant nor a name is a run-time argument whatever it evaluates to, and it is
   evaluated to that value *)
Theorem computed_expression_is_runtime : forall v, aarg_of (MComputed v) = ARun.
Proof. reflexivity. Qed.
Theorem computed_expression_value : forall names v, expr_of names (MComputed v) = ELit v.
Proof. reflexivity. Qed.

(* ------------------------------------------------------------------ the whole tree *)
(* every function mentioned in a statement, at any depth, is a node of the analysis tree (analysed, or - for a later
   by-name mention - at least recorded as executed), and the analysis tree has no other node *)
Definition step_callee (s : step) : option fn :=
  match s with
  | SCall _ _ g _ | SRef _ g _ | SApply g | SKeep _ _ _ g _ _ => Some g
  | SLoad _ => None
  end.
Definition fn_steps (f : fn) : list step := body_steps (first_body f).

Inductive mfn_reach : mfn -> mfn -> Prop :=
| MR_refl : forall f, mfn_reach f f
| MR_step : forall f s g h, In s (mfn_stmts f) -> mstmt_callee s = Some g -> mfn_reach g h -> mfn_reach f h.
Inductive fn_reach : fn -> fn -> Prop :=
| FR_refl : forall f, fn_reach f f
| FR_step : forall f s g h, In s (fn_steps f) -> step_callee s = Some g -> fn_reach g h -> fn_reach f h.

Lemma stmt_has_step : forall f s g,
  In s (mfn_stmts f) -> mstmt_callee s = Some g ->
  exists st, In st (disc_steps f) /\ step_callee st = Some (discover g).
Proof.
  intros f s g H Hc. apply in_split in H. destruct H as [pre [post H]].
  rewrite (disc_steps_split f _ _ _ H).
  destruct s as [line sp g' args | line sp g' | line eline rl path sp g' pos kw | p]; simpl in Hc;
    try discriminate; injection Hc as Hc; subst g'.
  - eexists. split; [apply in_or_app; right; apply in_or_app; left; left; reflexivity | reflexivity].
  - destruct (first_mentionb pre (MApply line sp g));
      (eexists; split; [apply in_or_app; right; apply in_or_app; left; left; reflexivity | reflexivity]).
  - eexists. split; [apply in_or_app; right; apply in_or_app; left; left; reflexivity | reflexivity].
Qed.

Lemma step_has_stmt : forall rec names l pre st k,
  In st (spec_from rec names pre l) -> step_callee st = Some k ->
  exists s g, In s l /\ mstmt_callee s = Some g /\ k = rec g.
Proof.
  intros rec names. induction l as [|s r IH]; intros pre st k H Hc; [contradiction|].
  cbn [spec_from] in H. apply in_app_or in H. destruct H as [H|H].
  - exists s.
    destruct s as [line sp g args | line sp g | line eline rl path sp g pos kw | p]; cbn [spec_steps] in H.
    + destruct H as [H|[]]. subst st. simpl in Hc. injection Hc as Hc. exists g. simpl. auto.
    + destruct (first_mentionb pre (MApply line sp g)); destruct H as [H|[]]; subst st; simpl in Hc;
        injection Hc as Hc; exists g; simpl; auto.
    + destruct H as [H|H].
      * subst st. simpl in Hc. injection Hc as Hc. exists g. simpl. auto.
      * destruct (first_mentionb pre (MKeep line eline rl path sp g pos kw)); [|contradiction].
        destruct H as [H|[]]. subst st. simpl in Hc. injection Hc as Hc. exists g. simpl. auto.
    + destruct H as [H|[]]. subst st. discriminate.
  - destruct (IH _ _ _ H Hc) as [s' [g [H1 [H2 H3]]]]. exists s', g. simpl. auto.
Qed.

Lemma fn_steps_discover : forall f, fn_steps (discover f) = disc_steps f.
Proof. reflexivity. Qed.

Theorem discover_tree_complete : forall f h, mfn_reach f h -> fn_reach (discover f) (discover h).
Proof.
  intros f h R. induction R as [f | f s g h Hs Hc R IH]; [constructor|].
  destruct (stmt_has_step f s g Hs Hc) as [st [H1 H2]].
  eapply FR_step; eauto.
Qed.

Theorem discover_tree_sound : forall f k, fn_reach (discover f) k -> exists h, mfn_reach f h /\ k = discover h.
Proof.
  intros f k R. remember (discover f) as a eqn:Ea. revert f Ea.
  induction R as [a | a st g k Hs Hc R IH]; intros f Ea; subst a.
  - exists f. split; [constructor | reflexivity].
  - rewrite fn_steps_discover, discover_steps_spec in Hs.
    destruct (step_has_stmt _ _ _ _ _ _ Hs Hc) as [s [g' [H1 [H2 H3]]]].
    destruct (IH g' H3) as [h [Hr Hk]]. exists h. split; [|exact Hk]. eapply MR_step; eauto.
Qed.

(* a tree without classes: every function of the analysis tree is a plain function with a single body; proved with
   the nested induction principle of the syntax *)
Fixpoint plain_fn (f : fn) : bool :=
  match f with
  | Fn _ _ _ _ _ _ c b => negb c && match b with BCons bd BNil => plain_body bd | _ => false end
  end
with plain_body (b : body) : bool :=
  match b with Body _ _ s => plain_steps s end
with plain_steps (s : steps) : bool :=
  match s with SNil => true | SCons x r => plain_step x && plain_steps r end
with plain_step (s : step) : bool :=
  match s with
  | SCall _ _ g _ | SRef _ g _ | SApply g | SKeep _ _ _ g _ _ => plain_fn g
  | SLoad _ => true
  end.

Lemma plain_steps_app : forall a b,
  plain_steps (steps_of (a ++ b)) = plain_steps (steps_of a) && plain_steps (steps_of b).
Proof. induction a as [|x a IH]; intros b; simpl; auto. rewrite IH, andb_assoc. reflexivity. Qed.

(* no class is written anywhere in the syntax tree *)
Fixpoint mfn_no_class (f : mfn) : bool :=
  match f with
  | MFn _ _ _ _ _ _ k _ _ ss =>
    negb k && forallb (fun s => match s with
                                | MCall _ _ g _ | MApply _ _ g | MKeep _ _ _ _ _ g _ _ => mfn_no_class g
                                | MLoad _ => true
                                end) ss
  end.

Theorem discover_plain : forall f, mfn_no_class f = true -> plain_fn (discover f) = true.
Proof.
  apply (mfn_ind' (fun f => mfn_no_class f = true -> plain_fn (discover f) = true)
                  (fun s => forall g, mstmt_callee s = Some g -> mfn_no_class g = true -> plain_fn (discover g) = true)).
  - intros c t r l p a k v h ss HF NC. cbn [mfn_no_class] in NC. apply andb_true_iff in NC. destruct NC as [Hk NC].
    destruct k; [discriminate|]. rewrite discover_unfold. cbn [plain_fn plain_body negb andb].
    generalize 0 [salt_name] (read_names v). induction HF as [|s ss Hs HF IH]; intros i seen names; [reflexivity|].
    cbn [forallb] in NC. apply andb_true_iff in NC. destruct NC as [NCs NC].
    cbn [stmts_steps]. rewrite plain_steps_app, (IH NC), andb_true_r.
    destruct s as [line sp g args | line sp g | line eline rl path sp g pos kw | q]; unfold stmt_steps; cbn [fst].
    + simpl. rewrite (Hs g eq_refl NCs). reflexivity.
    + destruct (name_in (sp_head sp) (logmod_name :: xname i :: seen)); simpl; rewrite (Hs g eq_refl NCs); reflexivity.
    + destruct (name_in (sp_head sp) (dds_name :: xname i :: seen)); simpl; rewrite (Hs g eq_refl NCs); reflexivity.
    + reflexivity.
  - intros line sp g args H g' E. injection E as E. subst. exact H.
  - intros line sp g H g' E. injection E as E. subst. exact H.
  - intros line eline rl path sp g pos kw H g' E. injection E as E. subst. exact H.
  - intros path g' E. discriminate.
Qed.

(* in general: every node of the analysis tree is either a plain function with a single body, or a class with
   exactly two bodies of which the second (`get`) is empty *)
Fixpoint shaped_fn (f : fn) : bool :=
  match f with
  | Fn _ _ _ _ _ _ c b =>
    match b with
    | BCons bd BNil => negb c && shaped_body bd
    | BCons bd (BCons (Body [] [] SNil) BNil) => c && shaped_body bd
    | _ => false
    end
  end
with shaped_body (b : body) : bool :=
  match b with Body _ _ s => shaped_steps s end
with shaped_steps (s : steps) : bool :=
  match s with SNil => true | SCons x r => shaped_step x && shaped_steps r end
with shaped_step (s : step) : bool :=
  match s with
  | SCall _ _ g _ | SRef _ g _ | SApply g | SKeep _ _ _ g _ _ => shaped_fn g
  | SLoad _ => true
  end.

Lemma shaped_steps_app : forall a b,
  shaped_steps (steps_of (a ++ b)) = shaped_steps (steps_of a) && shaped_steps (steps_of b).
Proof. induction a as [|x a IH]; intros b; simpl; auto. rewrite IH, andb_assoc. reflexivity. Qed.

Theorem discover_shaped : forall f, shaped_fn (discover f) = true.
Proof.
  apply (mfn_ind' (fun f => shaped_fn (discover f) = true)
                  (fun s => forall g, mstmt_callee s = Some g -> shaped_fn (discover g) = true)).
  - intros c t r l p a k v h ss HF. rewrite discover_unfold.
    assert (E : shaped_steps (steps_of (stmts_steps discover (read_names v) 0 [salt_name] ss)) = true).
    { generalize 0 [salt_name] (read_names v). induction HF as [|s ss Hs HF IH]; intros i seen names; [reflexivity|].
      cbn [stmts_steps]. rewrite shaped_steps_app, IH, andb_true_r.
      destruct s as [line sp g args | line sp g | line eline rl path sp g pos kw | q]; unfold stmt_steps; cbn [fst].
      + simpl. rewrite (Hs g eq_refl). reflexivity.
      + destruct (name_in (sp_head sp) (logmod_name :: xname i :: seen)); simpl; rewrite (Hs g eq_refl); reflexivity.
      + destruct (name_in (sp_head sp) (dds_name :: xname i :: seen)); simpl; rewrite (Hs g eq_refl); reflexivity.
      + reflexivity. }
    destruct k; cbn [shaped_fn shaped_body get_body negb andb]; exact E.
  - intros line sp g args H g' E. injection E as E. subst. exact H.
  - intros line sp g H g' E. injection E as E. subst. exact H.
  - intros line eline rl path sp g pos kw H g' E. injection E as E. subst. exact H.
  - intros path g' E. discriminate.
Qed.

(* a tree without classes is a special case *)
Lemma plain_shaped :
  (forall f, plain_fn f = true -> shaped_fn f = true) /\
  (forall bs, match bs with BCons bd BNil => plain_body bd = true -> shaped_body bd = true | _ => True end) /\
  (forall b, plain_body b = true -> shaped_body b = true) /\
  (forall s, plain_steps s = true -> shaped_steps s = true) /\
  (forall s, plain_step s = true -> shaped_step s = true).
Proof.
  apply prog_mutind.
  - intros n t r l p a c b IH H. cbn [plain_fn] in H. apply andb_true_iff in H. destruct H as [Hc H].
    destruct c; [discriminate|]. destruct b as [|bd [|? ?]]; try discriminate.
    cbn [shaped_fn negb andb]. apply IH. exact H.
  - exact I.
  - intros bd IHb r _. destruct r; [exact IHb | exact I].
  - intros v e s IH H. cbn [plain_body shaped_body] in *. auto.
  - reflexivity.
  - intros x IHx r IHr H. cbn [plain_steps shaped_steps] in *. apply andb_true_iff in H. destruct H as [H1 H2].
    rewrite IHx, IHr; auto.
  - intros l e g IH a H. cbn [plain_step shaped_step] in *. auto.
  - intros l g IH x H. cbn [plain_step shaped_step] in *. auto.
  - intros g IH H. cbn [plain_step shaped_step] in *. auto.
  - intros l e p g IH a k H. cbn [plain_step shaped_step] in *. auto.
  - reflexivity.
Qed.

Theorem plain_fn_shaped : forall f, plain_fn f = true -> shaped_fn f = true.
Proof. exact (proj1 plain_shaped). Qed.
