(* Comparison of two analysis views (used by harness/progs.py:check_discover to compare `discover` with the
   harness-side derivation fn_term): a boolean equality on fn that is proved to imply Leibniz equality, and a
   short description of the first difference. *)
From Coq Require Import List Ascii String ZArith NArith Bool Arith.
From DDS Require Import Base.Bytes L0_Hash.PyVal L1_Args.ArgCtx L2_Disc.MiniPy L3_Sig.Program L2_Disc.Visitors.
Import ListNotations.

(* ---- boolean equalities ---- *)
Section ListEq.
  Context {A : Type} (eqb : A -> A -> bool).
  Fixpoint list_beq (l1 l2 : list A) : bool :=
    match l1, l2 with
    | [], [] => true
    | x :: r1, y :: r2 => eqb x y && list_beq r1 r2
    | _, _ => false
    end.
  Definition option_beq (a b : option A) : bool :=
    match a, b with
    | None, None => true
    | Some x, Some y => eqb x y
    | _, _ => false
    end.
End ListEq.

Fixpoint pyval_beq (a b : pyval) {struct a} : bool :=
  match a, b with
  | VNone, VNone => true
  | VBool x, VBool y => Bool.eqb x y
  | VInt x, VInt y => Z.eqb x y
  | VFloat x, VFloat y => bytes_eqb x y
  | VStr x, VStr y => bytes_eqb x y
  | VStrBad x, VStrBad y => bytes_eqb x y
  | VCanon x, VCanon y => bytes_eqb x y
  | VList x, VList y =>
    (fix go (l1 l2 : list pyval) {struct l1} : bool :=
       match l1, l2 with
       | [], [] => true
       | p :: r1, q :: r2 => pyval_beq p q && go r1 r2
       | _, _ => false
       end) x y
  | VTuple x, VTuple y =>
    (fix go (l1 l2 : list pyval) {struct l1} : bool :=
       match l1, l2 with
       | [], [] => true
       | p :: r1, q :: r2 => pyval_beq p q && go r1 r2
       | _, _ => false
       end) x y
  | VPath x, VPath y => bytes_eqb x y
  | VDict x, VDict y =>
    (fix go (l1 l2 : list (pyval * pyval)) {struct l1} : bool :=
       match l1, l2 with
       | [], [] => true
       | p :: r1, q :: r2 => pyval_beq (fst p) (fst q) && pyval_beq (snd p) (snd q) && go r1 r2
       | _, _ => false
       end) x y
  | VData c x, VData d y =>
    bytes_eqb c d &&
    (fix go (l1 l2 : list (bytes * pyval)) {struct l1} : bool :=
       match l1, l2 with
       | [], [] => true
       | p :: r1, q :: r2 => bytes_eqb (fst p) (fst q) && pyval_beq (snd p) (snd q) && go r1 r2
       | _, _ => false
       end) x y
  | VDate x, VDate y => bytes_eqb x y
  | VOther, VOther => true
  | _, _ => false
  end.

Definition pkind_beq (a b : pkind) : bool :=
  match a, b with
  | POK, POK | VARKW, VARKW | VARPOS, VARPOS | KWONLY, KWONLY | POSONLY, POSONLY => true
  | _, _ => false
  end.
Definition param_beq (a b : param) : bool :=
  bytes_eqb (p_name a) (p_name b) && pkind_beq (p_kind a) (p_kind b) && option_beq pyval_beq (p_default a) (p_default b).
Definition expr_beq (a b : expr) : bool :=
  match a, b with
  | ELit x, ELit y => pyval_beq x y
  | EParam i, EParam j | ELocal i, ELocal j | EVar i, EVar j => Nat.eqb i j
  | _, _ => false
  end.
Definition aarg_beq (a b : aarg) : bool :=
  match a, b with
  | ALit x, ALit y => pyval_beq x y
  | ARun, ARun => true
  | _, _ => false
  end.
Definition ea_beq (a b : expr * aarg) : bool := expr_beq (fst a) (fst b) && aarg_beq (snd a) (snd b).
Definition kw_beq (a b : bytes * (expr * aarg)) : bool := bytes_eqb (fst a) (fst b) && ea_beq (snd a) (snd b).
Definition var_beq (a b : bytes * pyval) : bool := bytes_eqb (fst a) (fst b) && pyval_beq (snd a) (snd b).
Definition ext_beq (a b : bytes * bytes) : bool := bytes_eqb (fst a) (fst b) && bytes_eqb (snd a) (snd b).

Fixpoint fn_beq (a b : fn) {struct a} : bool :=
  match a, b with
  | Fn n1 t1 r1 l1 p1 a1 c1 b1, Fn n2 t2 r2 l2 p2 a2 c2 b2 =>
    bytes_eqb n1 n2 && bytes_eqb t1 t2 && option_beq bytes_eqb r1 r2 && list_beq bytes_eqb l1 l2
    && list_beq param_beq p1 p2 && option_beq bytes_eqb a1 a2 && Bool.eqb c1 c2 && bodies_beq b1 b2
  end
with bodies_beq (a b : bodies) {struct a} : bool :=
  match a, b with
  | BNil, BNil => true
  | BCons x r, BCons y s => body_beq x y && bodies_beq r s
  | _, _ => false
  end
with body_beq (a b : body) {struct a} : bool :=
  match a, b with
  | Body v1 e1 s1, Body v2 e2 s2 => list_beq var_beq v1 v2 && list_beq ext_beq e1 e2 && steps_beq s1 s2
  end
with steps_beq (a b : steps) {struct a} : bool :=
  match a, b with
  | SNil, SNil => true
  | SCons x r, SCons y s => step_beq x y && steps_beq r s
  | _, _ => false
  end
with step_beq (a b : step) {struct a} : bool :=
  match a, b with
  | SCall l1 e1 g1 a1, SCall l2 e2 g2 a2 => Nat.eqb l1 l2 && Nat.eqb e1 e2 && fn_beq g1 g2 && list_beq expr_beq a1 a2
  | SRef l1 g1 x1, SRef l2 g2 x2 => Nat.eqb l1 l2 && fn_beq g1 g2 && Bool.eqb x1 x2
  | SApply g1, SApply g2 => fn_beq g1 g2
  | SKeep l1 e1 p1 g1 a1 k1, SKeep l2 e2 p2 g2 a2 k2 =>
    Nat.eqb l1 l2 && Nat.eqb e1 e2 && bytes_eqb p1 p2 && fn_beq g1 g2 && list_beq ea_beq a1 a2 && list_beq kw_beq k1 k2
  | SLoad p1, SLoad p2 => bytes_eqb p1 p2
  | _, _ => false
  end.

(* ---- soundness of the boolean equalities ---- *)
Lemma bytes_eqb_eq : forall a b, bytes_eqb a b = true -> a = b.
Proof. intros a b. unfold bytes_eqb. destruct (list_eq_dec ascii_dec a b); [auto | discriminate]. Qed.

Lemma list_beq_eq : forall {A} (eqb : A -> A -> bool) (l1 l2 : list A),
  Forall (fun x => forall y, eqb x y = true -> x = y) l1 -> list_beq eqb l1 l2 = true -> l1 = l2.
Proof.
  intros A eqb l1 l2 H. revert l2. induction H; intros [|y r2] E; simpl in E; try discriminate; auto.
  apply andb_true_iff in E. destruct E as [E1 E2]. f_equal; auto.
Qed.
Lemma list_beq_eq' : forall {A} (eqb : A -> A -> bool) (l1 l2 : list A),
  (forall x y, eqb x y = true -> x = y) -> list_beq eqb l1 l2 = true -> l1 = l2.
Proof. intros. eapply list_beq_eq; eauto. apply Forall_forall. auto. Qed.
Lemma option_beq_eq : forall {A} (eqb : A -> A -> bool) (a b : option A),
  (forall x y, eqb x y = true -> x = y) -> option_beq eqb a b = true -> a = b.
Proof. intros A eqb [x|] [y|] H E; simpl in E; try discriminate; auto. f_equal; auto. Qed.

Lemma pyval_beq_eq : forall a b, pyval_beq a b = true -> a = b.
Proof.
  induction a using pyval_ind'; intros b0 E; destruct b0; simpl in E; try discriminate; auto;
    try (f_equal; first [ apply bytes_eqb_eq; assumption | apply Z.eqb_eq; assumption | apply Bool.eqb_prop; assumption ]).
  - (* list *) f_equal. revert l0 E. induction H; intros [|q r2] E; try discriminate; auto.
    apply andb_true_iff in E. destruct E as [E1 E2]. f_equal; auto.
  - (* tuple *) f_equal. revert l0 E. induction H; intros [|q r2] E; try discriminate; auto.
    apply andb_true_iff in E. destruct E as [E1 E2]. f_equal; auto.
  - (* dict *) f_equal. revert kvs0 E. induction H; intros [|q r2] E; try discriminate; auto.
    apply andb_true_iff in E. destruct E as [E1 E2]. apply andb_true_iff in E1. destruct E1 as [E0 E1].
    destruct H as [Hk Hv]. f_equal; auto. destruct x, q; simpl in *. f_equal; auto.
  - (* data *) apply andb_true_iff in E. destruct E as [Ec E]. apply bytes_eqb_eq in Ec. subst. f_equal.
    revert fs0 E. induction H; intros [|q r2] E; try discriminate; auto.
    apply andb_true_iff in E. destruct E as [E1 E2]. apply andb_true_iff in E1. destruct E1 as [E0 E1].
    f_equal; auto. destruct x, q; simpl in *. f_equal; auto. apply bytes_eqb_eq; auto.
Qed.

Lemma pkind_beq_eq : forall a b, pkind_beq a b = true -> a = b.
Proof. destruct a, b; simpl; intros; try discriminate; auto. Qed.
Lemma param_beq_eq : forall a b, param_beq a b = true -> a = b.
Proof.
  intros [n1 k1 d1] [n2 k2 d2]. unfold param_beq. simpl. intros E.
  apply andb_true_iff in E. destruct E as [E E3]. apply andb_true_iff in E. destruct E as [E1 E2].
  apply bytes_eqb_eq in E1. apply pkind_beq_eq in E2. apply option_beq_eq in E3; [|apply pyval_beq_eq]. subst. auto.
Qed.
Lemma expr_beq_eq : forall a b, expr_beq a b = true -> a = b.
Proof.
  destruct a, b; simpl; intros E; try discriminate; f_equal;
    first [ apply pyval_beq_eq; assumption | apply Nat.eqb_eq; assumption ].
Qed.
Lemma aarg_beq_eq : forall a b, aarg_beq a b = true -> a = b.
Proof. destruct a, b; simpl; intros E; try discriminate; auto. f_equal. apply pyval_beq_eq; auto. Qed.
Lemma ea_beq_eq : forall a b, ea_beq a b = true -> a = b.
Proof.
  intros [e1 a1] [e2 a2]. unfold ea_beq. simpl. intros E. apply andb_true_iff in E. destruct E as [E1 E2].
  apply expr_beq_eq in E1. apply aarg_beq_eq in E2. subst. auto.
Qed.
Lemma kw_beq_eq : forall a b, kw_beq a b = true -> a = b.
Proof.
  intros [n1 x1] [n2 x2]. unfold kw_beq. simpl. intros E. apply andb_true_iff in E. destruct E as [E1 E2].
  apply bytes_eqb_eq in E1. apply ea_beq_eq in E2. subst. auto.
Qed.
Lemma var_beq_eq : forall a b, var_beq a b = true -> a = b.
Proof.
  intros [n1 x1] [n2 x2]. unfold var_beq. simpl. intros E. apply andb_true_iff in E. destruct E as [E1 E2].
  apply bytes_eqb_eq in E1. apply pyval_beq_eq in E2. subst. auto.
Qed.
Lemma ext_beq_eq : forall a b, ext_beq a b = true -> a = b.
Proof.
  intros [n1 x1] [n2 x2]. unfold ext_beq. simpl. intros E. apply andb_true_iff in E. destruct E as [E1 E2].
  apply bytes_eqb_eq in E1. apply bytes_eqb_eq in E2. subst. auto.
Qed.

Ltac split_andb :=
  repeat match goal with
         | H : _ && _ = true |- _ => apply andb_true_iff in H; destruct H
         end.

Lemma prog_beq_eq :
  (forall a b, fn_beq a b = true -> a = b) /\
  (forall a b, bodies_beq a b = true -> a = b) /\
  (forall a b, body_beq a b = true -> a = b) /\
  (forall a b, steps_beq a b = true -> a = b) /\
  (forall a b, step_beq a b = true -> a = b).
Proof.
  apply prog_mutind.
  - intros n t r l p a c b IH [n2 t2 r2 l2 p2 a2 c2 b2] E. simpl in E. split_andb.
    repeat match goal with H : bytes_eqb _ _ = true |- _ => apply bytes_eqb_eq in H end.
    repeat match goal with H : option_beq bytes_eqb _ _ = true |- _ => apply option_beq_eq in H; [|apply bytes_eqb_eq] end.
    match goal with H : list_beq bytes_eqb _ _ = true |- _ => apply list_beq_eq' in H; [|apply bytes_eqb_eq] end.
    match goal with H : list_beq param_beq _ _ = true |- _ => apply list_beq_eq' in H; [|apply param_beq_eq] end.
    match goal with H : Bool.eqb _ _ = true |- _ => apply Bool.eqb_prop in H end.
    match goal with H : bodies_beq _ _ = true |- _ => apply IH in H end.
    subst. reflexivity.
  - intros [|y s] E; simpl in E; try discriminate; auto.
  - intros x IHx r IHr [|y s] E; simpl in E; try discriminate. split_andb. f_equal; auto.
  - intros v e s IH [v2 e2 s2] E. simpl in E. split_andb.
    match goal with H : list_beq var_beq _ _ = true |- _ => apply list_beq_eq' in H; [|apply var_beq_eq] end.
    match goal with H : list_beq ext_beq _ _ = true |- _ => apply list_beq_eq' in H; [|apply ext_beq_eq] end.
    match goal with H : steps_beq _ _ = true |- _ => apply IH in H end.
    subst. reflexivity.
  - intros [|y s] E; simpl in E; try discriminate; auto.
  - intros x IHx r IHr [|y s] E; simpl in E; try discriminate. split_andb. f_equal; auto.
  - intros l e g IH a b E. destruct b; simpl in E; try discriminate. split_andb.
    repeat match goal with H : Nat.eqb _ _ = true |- _ => apply Nat.eqb_eq in H end.
    match goal with H : fn_beq _ _ = true |- _ => apply IH in H end.
    match goal with H : list_beq expr_beq _ _ = true |- _ => apply list_beq_eq' in H; [|apply expr_beq_eq] end.
    subst. reflexivity.
  - intros l g IH x b E. destruct b; simpl in E; try discriminate. split_andb.
    repeat match goal with H : Nat.eqb _ _ = true |- _ => apply Nat.eqb_eq in H end.
    match goal with H : fn_beq _ _ = true |- _ => apply IH in H end.
    match goal with H : Bool.eqb _ _ = true |- _ => apply Bool.eqb_prop in H end.
    subst. reflexivity.
  - intros g IH b E. destruct b; simpl in E; try discriminate. apply IH in E. subst. reflexivity.
  - intros l e p g IH a k b E. destruct b; simpl in E; try discriminate. split_andb.
    repeat match goal with H : Nat.eqb _ _ = true |- _ => apply Nat.eqb_eq in H end.
    match goal with H : bytes_eqb _ _ = true |- _ => apply bytes_eqb_eq in H end.
    match goal with H : fn_beq _ _ = true |- _ => apply IH in H end.
    match goal with H : list_beq ea_beq _ _ = true |- _ => apply list_beq_eq' in H; [|apply ea_beq_eq] end.
    match goal with H : list_beq kw_beq _ _ = true |- _ => apply list_beq_eq' in H; [|apply kw_beq_eq] end.
    subst. reflexivity.
  - intros p b E. destruct b; simpl in E; try discriminate. apply bytes_eqb_eq in E. subst. reflexivity.
Qed.

Theorem fn_beq_sound : forall a b, fn_beq a b = true -> a = b.
Proof. exact (proj1 prog_beq_eq). Qed.

(* ---- description of the first difference (diagnostics only) ---- *)
Local Open Scope string_scope.
Definition step_kind (s : step) : string :=
  match s with
  | SCall l _ g _ => "SCall@" ++ show (dec_nat l) ++ ":" ++ show (fn_tag g)
  | SRef l g x => "SRef@" ++ show (dec_nat l) ++ ":" ++ show (fn_tag g) ++ (if x then ":exec" else ":noexec")
  | SApply g => "SApply:" ++ show (fn_tag g)
  | SKeep l e p g _ _ => "SKeep@" ++ show (dec_nat l) ++ "-" ++ show (dec_nat e) ++ ":" ++ show (fn_tag g)
  | SLoad p => "SLoad:" ++ show p
  end.

Fixpoint first_step_diff (i : nat) (a b : list step) : string :=
  match a, b with
  | [], [] => "steps equal?"
  | x :: r, y :: s =>
    if step_beq x y then first_step_diff (S i) r s
    else "step " ++ show (dec_nat i) ++ ": got " ++ step_kind x ++ " expected " ++ step_kind y ++
         (match x, y with
          | SCall _ _ g1 a1, SCall _ _ g2 a2 =>
            if fn_beq g1 g2 then (if list_beq expr_beq a1 a2 then "" else " (args differ)") else " (callee differs)"
          | SKeep _ _ p1 g1 a1 k1, SKeep _ _ p2 g2 a2 k2 =>
            if fn_beq g1 g2 then
              (if list_beq ea_beq a1 a2 then (if list_beq kw_beq k1 k2 then "" else " (kw differ)") else " (pos differ)")
            else " (callee differs)"
          | SRef _ g1 _, SRef _ g2 _ | SApply g1, SApply g2 => if fn_beq g1 g2 then "" else " (callee differs)"
          | _, _ => ""
          end)
  | x :: _, [] => "step " ++ show (dec_nat i) ++ ": extra " ++ step_kind x
  | [], y :: _ => "step " ++ show (dec_nat i) ++ ": missing " ++ step_kind y
  end.

Definition names_str (l : list bytes) : string := show (join (bs ",") l).

Definition fn_diff (a b : fn) : string :=
  if negb (bytes_eqb (fn_name a) (fn_name b)) then "name differs"
  else if negb (bytes_eqb (fn_tag a) (fn_tag b)) then "tag differs"
  else if negb (option_beq bytes_eqb (fn_raises a) (fn_raises b)) then "raises differs"
  else if negb (list_beq bytes_eqb (fn_lines a) (fn_lines b)) then "lines differ"
  else if negb (list_beq param_beq (fn_params a) (fn_params b)) then "params differ"
  else if negb (option_beq bytes_eqb (fn_annot a) (fn_annot b)) then "annot differs"
  else if negb (Bool.eqb (fn_is_class a) (fn_is_class b)) then "is_class differs"
  else
    match fn_bodies a, fn_bodies b with
    | BCons (Body v1 e1 s1) r1, BCons (Body v2 e2 s2) r2 =>
      if negb (list_beq var_beq v1 v2) then
        "vars differ: got [" ++ names_str (map fst v1) ++ "] expected [" ++ names_str (map fst v2) ++ "]"
      else if negb (list_beq ext_beq e1 e2) then
        "exts differ: got [" ++ names_str (map fst e1) ++ "] expected [" ++ names_str (map fst e2) ++ "]"
      else if negb (steps_beq s1 s2) then first_step_diff 0 (list_of_steps s1) (list_of_steps s2)
      else if negb (Nat.eqb (List.length (list_of_bodies r1)) (List.length (list_of_bodies r2))) then
        "number of bodies differs"
      else "a body after the first (a method of a class) differs"
    | _, _ => "number of bodies differs"
    end.

(* "ok" iff the analysis view derived in Coq from the syntax is the expected one *)
Definition check_same (m : mfn) (expected : fn) : string :=
  if fn_beq (discover m) expected then "ok"
  else "MISMATCH " ++ show (mfn_cname m) ++ ": " ++ fn_diff (discover m) expected.

Theorem check_same_ok : forall m expected, check_same m expected = "ok" -> discover m = expected.
Proof.
  intros m e. unfold check_same. destruct (fn_beq (discover m) e) eqn:E.
  - intros _. apply fn_beq_sound. exact E.
  - simpl. discriminate.
Qed.
