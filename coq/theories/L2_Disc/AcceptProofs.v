(* Proofs about the accept-list decision (C14). *)
From Coq Require Import List Ascii String Bool Arith Lia.
From DDS Require Import Base.Bytes L2_Disc.Accept.
Import ListNotations.

Lemma try_prefixes_iff : forall n parts accepted,
  try_prefixes n parts accepted = true <->
  exists m, m < n /\ mem (dotted (firstn m parts)) accepted = true.
Proof.
  induction n as [|n IH]; intros parts accepted; cbn [try_prefixes].
  - split; [discriminate | intros [m [Hm _]]; lia].
  - rewrite orb_true_iff, IH. split.
    + intros [[m [Hm Hin]] | Hin]; [exists m; split; [lia | exact Hin] | exists n; split; [lia | exact Hin]].
    + intros [m [Hm Hin]]. destruct (Nat.eq_dec m n) as [->|Hne]; [right; exact Hin | left; exists m; split; [lia | exact Hin]].
Qed.

(* authorised iff some dotted prefix (of any length up to the whole path) is an accepted package,
   for every depth of the path and every number of accepted packages *)
Theorem authorized_iff : forall parts accepted,
  is_authorized_path parts accepted = true <->
  exists m, m <= List.length parts /\ mem (dotted (firstn m parts)) accepted = true.
Proof.
  intros parts accepted. unfold is_authorized_path. rewrite try_prefixes_iff.
  split; intros [m [Hm Hin]]; exists m; split; try exact Hin; lia.
Qed.

(* adding accepted packages never un-authorises a path; the verdict does not depend on their number *)
Lemma mem_app_l : forall x l1 l2, mem x l1 = true -> mem x (l1 ++ l2) = true.
Proof. intros x l1 l2 H. unfold mem in *. rewrite existsb_app, H. reflexivity. Qed.

Theorem authorized_monotone : forall parts acc more,
  is_authorized_path parts acc = true -> is_authorized_path parts (acc ++ more) = true.
Proof.
  intros parts acc more H. apply authorized_iff in H. destruct H as [m [Hm Hin]].
  apply authorized_iff. exists m. split; [exact Hm | apply mem_app_l; exact Hin].
Qed.

(* sub-modules of an accepted package are accepted, however deep *)
Theorem authorized_submodule : forall pkg rest accepted,
  mem (dotted pkg) accepted = true -> is_authorized_path (pkg ++ rest) accepted = true.
Proof.
  intros pkg rest accepted H. apply authorized_iff. exists (List.length pkg). split.
  - rewrite app_length. lia.
  - rewrite firstn_app, Nat.sub_diag, firstn_all. cbn [firstn]. rewrite app_nil_r. exact H.
Qed.

(* the pinned implementation (loop bounded by the number of accepted packages) is refuted: F02 *)
Theorem pinned_refuted : exists parts accepted,
  is_authorized_path_pinned parts accepted = false /\ mem (dotted (firstn 1 parts)) accepted = true.
Proof. exists [bs "pkg"; bs "fun"], [bs "pkg"]. split; reflexivity. Qed.

Example authorized_example :
  is_authorized_path [bs "a"; bs "b"; bs "c"; bs "d"; bs "e"; bs "f"] [bs "zz"; bs "a.b.c.d"] = true.
Proof. reflexivity. Qed.
Example unauthorized_near_miss :
  is_authorized_path [bs "ab"; bs "c"] [bs "a"; bs "ab.cd"; bs "b.ab"] = false.
Proof. reflexivity. Qed.
