(* What dds's AST visitors (dds/introspect.py: InspectFunction, IntroVisitor, ExternalVarsVisitor; DESIGN.md
   appendix A items 2-6) compute for a function of the generated grammar (L2_Disc/MiniPy.v): the analysis view
   L3_Sig.Program.fn.

   - module variables read by the body: those of a tracked type become `vars` (by value), the others `exts` (by
     canonical name), together with the non-accepted names mentioned; each map sorted by local name
     (Python: sorted(set(...)) / list.sort() on (name, canonical) pairs; str order = byte order of the UTF-8 text);
   - interactions in visit order, with IntroVisitor's `seen` bookkeeping (store_names): the target of an
     assignment and the head name of a call are marked; a bare Name of a module-level function that is not yet
     marked is analysed as a zero-argument call (SRef) and marked; later mentions are skipped;
   - which argument of a nested keep is an ast.Constant (ALit) and which is not (ARun). *)
From Coq Require Import List Ascii String ZArith NArith Bool Arith.
From DDS Require Import Base.Bytes L0_Hash.PyVal L1_Args.ArgCtx L2_Disc.MiniPy L3_Sig.Program.
Import ListNotations.

(* ---- names ---- *)
Definition salt_name : bytes := bs "_salt".       (* every generated body starts with `_salt = '...'` *)
Definition dds_name : bytes := bs "dds".
Definition logmod_name : bytes := bs "vlogmod".   (* x<i> = vlogmod.apply(g) *)
Definition xname (i : nat) : bytes := bs "x" ++ dec_nat i.

Definition name_in (x : bytes) (l : list bytes) : bool := existsb (bytes_eqb x) l.

(* ---- Python's order on str (code points = bytes of the UTF-8 encoding), on pairs of str ---- *)
Fixpoint bytes_cmp (a b : bytes) : comparison :=
  match a, b with
  | [], [] => Eq
  | [], _ :: _ => Lt
  | _ :: _, [] => Gt
  | x :: a', y :: b' =>
    match N.compare (N_of_ascii x) (N_of_ascii y) with
    | Eq => bytes_cmp a' b'
    | c => c
    end
  end.
Definition cmp_leb (c : comparison) : bool := match c with Gt => false | _ => true end.
Definition bytes_leb (a b : bytes) : bool := cmp_leb (bytes_cmp a b).
Definition pair_cmp (a b : bytes * bytes) : comparison :=
  match bytes_cmp (fst a) (fst b) with Eq => bytes_cmp (snd a) (snd b) | c => c end.
Definition pair_leb (a b : bytes * bytes) : bool := cmp_leb (pair_cmp a b).
Definition key_leb {B} (a b : bytes * B) : bool := bytes_leb (fst a) (fst b).

(* stable insertion sort *)
Section Sort.
  Context {A : Type} (leb : A -> A -> bool).
  Fixpoint insert (x : A) (l : list A) : list A :=
    match l with
    | [] => [x]
    | y :: r => if leb x y then x :: l else y :: insert x r
    end.
  Fixpoint isort (l : list A) : list A :=
    match l with [] => [] | x :: r => insert x (isort r) end.
End Sort.

(* set(...) of the names read: the first entry of every name *)
Fixpoint dedup_names {B} (seen : list bytes) (l : list (bytes * B)) : list (bytes * B) :=
  match l with
  | [] => []
  | (n, x) :: r => if name_in n seen then dedup_names seen r else (n, x) :: dedup_names (n :: seen) r
  end.

Fixpoint index_of (n : bytes) (l : list bytes) : nat :=
  match l with
  | [] => 0
  | x :: r => if bytes_eqb n x then 0 else S (index_of n r)
  end.

(* ---- variables and external names ---- *)
Definition mv := (bytes * (bool * pyval * bytes))%type.
Definition mv_tracked (x : mv) : bool := fst (fst (snd x)).
Definition mv_value (x : mv) : pyval := snd (fst (snd x)).
Definition mv_canon (x : mv) : bytes := snd (snd x).

Definition vars_of (modvars : list mv) : list (bytes * pyval) :=
  isort key_leb (map (fun x => (fst x, mv_value x)) (filter mv_tracked (dedup_names [] modvars))).
Definition exts_of (modvars : list mv) (helpers : list (bytes * bytes)) : list (bytes * bytes) :=
  isort pair_leb
    (map (fun x => (fst x, mv_canon x)) (filter (fun x => negb (mv_tracked x)) (dedup_names [] modvars)) ++ helpers).
(* the order in which the generated `return (tag, params..., reads..., locals...)` lists the variables:
   sorted(reads); EVar i is the i-th of them *)
Definition read_names (modvars : list mv) : list bytes := isort bytes_leb (map fst modvars).

(* ---- does the source text of a literal parse to a single ast.Constant?  (-1 is UnaryOp(USub, Constant 1),
   nan / inf are Names, containers and PurePosixPath(...) are Call / List / ...) ---- *)
Definition float_is_constant (bits : bytes) : bool :=
  match bits with
  | [b0; b1; _; _; _; _; _; _] =>
    let n0 := N_of_ascii b0 in
    let n1 := N_of_ascii b1 in
    (n0 <? 128)%N                                  (* sign bit clear: repr does not start with "-" *)
    && negb ((n0 =? 127)%N && (240 <=? n1)%N)      (* exponent not all ones: neither inf nor nan *)
  | _ => false
  end.
Definition is_ast_constant (v : pyval) : bool :=
  match v with
  | VNone | VBool _ | VStr _ => true
  | VInt z => (0 <=? z)%Z
  | VFloat bits => float_is_constant bits
  | _ => false
  end.

(* ---- interactions ---- *)
Section Steps.
  Variable rec : mfn -> fn.            (* analysis of a callee *)
  Variable names : list bytes.         (* read_names of the enclosing function *)

  Definition expr_of (e : mexpr) : expr :=
    match e with
    | MLit v => ELit v
    | MParam i => EParam i
    | MLocal i => ELocal i
    | MVar n => EVar (index_of n names)
    | MComputed v => ELit v
    end.
  Definition aarg_of (e : mexpr) : aarg :=
    match e with
    | MLit v => if is_ast_constant v then ALit v else ARun
    | _ => ARun
    end.
  Definition pos_of (pos : list mexpr) : list (expr * aarg) := map (fun e => (expr_of e, aarg_of e)) pos.
  Definition kw_of (kw : list (bytes * mexpr)) : list (bytes * (expr * aarg)) :=
    map (fun ne => (fst ne, (expr_of (snd ne), aarg_of (snd ne)))) kw.

  (* statement number i, visited with the set [seen] of marked names: the steps and the new set *)
  Definition stmt_steps (i : nat) (seen : list bytes) (s : mstmt) : list step * list bytes :=
    let seen := xname i :: seen in                                 (* Assign: the target is marked *)
    match s with
    | MLoad p => ([SLoad p], dds_name :: seen)
    | MCall line sp g args => ([SCall line line (rec g) (map expr_of args)], sp_head sp :: seen)
    | MApply line sp g =>
      let seen := logmod_name :: seen in                           (* Call vlogmod.apply: head marked, then the argument *)
      if name_in (sp_head sp) seen then ([SApply (rec g)], seen)
      else ([SRef line (rec g) true], sp_head sp :: seen)
    | MKeep line eline rl path sp g pos kw =>
      let seen := dds_name :: seen in                              (* Call dds.keep: head marked, then the arguments *)
      let k := SKeep line eline path (rec g) (pos_of pos) (kw_of kw) in
      if name_in (sp_head sp) seen then ([k], seen)
      else ([k; SRef rl (rec g) false], sp_head sp :: seen)
    end.

  Fixpoint stmts_steps (i : nat) (seen : list bytes) (l : list mstmt) : list step :=
    match l with
    | [] => []
    | s :: r => fst (stmt_steps i seen s) ++ stmts_steps (S i) (snd (stmt_steps i seen s)) r
    end.
End Steps.

(* the method `def get(self): return self.v` of a generated class, as InspectFunction.inspect_fun sees it (it is
   analysed with the class's source lines, argument context and path, like every method): the only Name of its body is
   `self`, which is not a name of the module (ObjectRetrieval finds nothing: rejected, neither a variable nor an
   external dependency) and it contains no call.  Its signature is therefore X(body_sig(class lines) + argpairs(A)). *)
Definition get_body : body := Body [] [] SNil.

(* a class (InspectFunction.inspect_class): one body per FunctionDef of the class body, in source order.  The
   statements are those of __init__; its parameters are the class's (inspect.signature of a class drops `self`);
   `self` is not a module name, and `self.v = ...` only marks `self` after the last statement. *)
Fixpoint discover (f : mfn) : fn :=
  match f with
  | MFn cname tag raises lines params annot is_class modvars helpers stmts =>
    Fn cname tag raises lines params annot is_class
       (BCons (Body (vars_of modvars) (exts_of modvars helpers)
                    (steps_of (stmts_steps discover (read_names modvars) 0 [salt_name] stmts)))
              (if is_class then BCons get_body BNil else BNil))
  end.

(* the body of an analysed function (for a class: of its __init__), as lists *)
Definition first_body (f : fn) : body :=
  match fn_bodies f with BCons b _ => b | BNil => Body [] [] SNil end.
Definition body_vars (b : body) : list (bytes * pyval) := match b with Body v _ _ => v end.
Definition body_exts (b : body) : list (bytes * bytes) := match b with Body _ e _ => e end.
Definition body_steps (b : body) : list step := match b with Body _ _ s => list_of_steps s end.
Definition disc_vars (f : mfn) := body_vars (first_body (discover f)).
Definition disc_exts (f : mfn) := body_exts (first_body (discover f)).
Definition disc_steps (f : mfn) := body_steps (first_body (discover f)).
