(* EvalMainContext.is_authorized_path REGENERATED from dds/_eval_ctx.py by harness/translate_py.py
   (Extracted/GenAccept.v) is the hand-written model Accept.is_authorized_path.  Not regenerated. *)
From Coq Require Import List Ascii String Bool Arith Lia.
From DDS Require Import Base.Bytes Base.PyRt L2_Disc.Accept Extracted.GenAccept.
Import ListNotations.

(* the model tries the prefixes from the longest bound down; a search loop tries them upwards *)
Lemma try_prefixes_existsb : forall n parts accepted,
  try_prefixes n parts accepted = existsb (fun i => mem (dotted (firstn i parts)) accepted) (seq 0 n).
Proof.
  intros n parts accepted. induction n as [|m IH].
  - reflexivity.
  - rewrite seq_S. rewrite existsb_app. cbn [try_prefixes]. rewrite IH.
    cbn [existsb Nat.add]. rewrite orb_false_r. reflexivity.
Qed.

Theorem gen_is_authorized_path_eq : forall parts accepted,
  gen_is_authorized_path parts accepted = is_authorized_path parts accepted.
Proof.
  intros parts accepted. unfold gen_is_authorized_path, is_authorized_path.
  rewrite (for_range_first_existsb _ (fun i => mem (dotted (firstn i parts)) accepted))
    by (intro i; reflexivity).
  rewrite try_prefixes_existsb.
  (* the two bounds: len(parts) + 1 and S (length parts) *)
  f_equal; f_equal; lia.
Qed.
