(* Faithful model of EvalMainContext.is_authorized_path (dds/_eval_ctx.py): a canonical path (list of dotted
   components) is authorised iff one of its dotted prefixes is an accepted package.
   [bound]: how many prefixes the implementation tries. *)
From Coq Require Import List Ascii String Bool Arith.
From DDS Require Import Base.Bytes.
Import ListNotations.

Definition dot : bytes := bs ".".
Definition dotted (parts : list bytes) : bytes := join dot parts.

Definition mem (x : bytes) (l : list bytes) : bool := existsb (bytes_eqb x) l.

(* tries the prefixes of length 0 .. n-1, like `for idx in range(n): ".".join(parts[:idx]) in accepted` *)
Fixpoint try_prefixes (n : nat) (parts : list bytes) (accepted : list bytes) : bool :=
  match n with
  | O => false
  | S m => try_prefixes m parts accepted || mem (dotted (firstn m parts)) accepted
  end.

(* the implementation after the repair of F02: every prefix, including the full path *)
Definition is_authorized_path (parts : list bytes) (accepted : list bytes) : bool :=
  try_prefixes (S (List.length parts)) parts accepted.

(* the pinned implementation: the loop bound is the number of accepted packages *)
Definition is_authorized_path_pinned (parts : list bytes) (accepted : list bytes) : bool :=
  try_prefixes (List.length accepted) parts accepted.
