(* Faithful model of the cycle / nested-eval detection of dds/_introspect_indirect.py (the indirect pre-pass, which
   runs first and therefore decides): a depth-first traversal of the call graph of accepted functions with the
   call stack (the root is NOT on it) and the per-evaluation completion cache cached_indirect_interactions. *)
From Coq Require Import List Ascii String Bool Arith.
From DDS Require Import Base.Bytes.
Import ListNotations.

Inductive ekind := KCall | KKeep | KRef | KMethod.      (* plain call, dds.keep callee, by-name reference, call in a method *)
Inductive edge := ETo (k : ekind) (target : bytes) | EEval | ELoad.
Definition graph := list (bytes * list edge).            (* function name -> its interactions in source order *)

Fixpoint edges_of (g : graph) (f : bytes) : list edge :=
  match g with
  | [] => []
  | (n, es) :: r => if bytes_eqb f n then es else edges_of r f
  end.

Definition memb (x : bytes) (l : list bytes) : bool := existsb (bytes_eqb x) l.

Inductive verdict := VOk (done : list bytes) | VCircular | VEvalInEval | VFuel.

(* visit f: f is being analysed with call stack [stack]; [done] = functions whose analysis completed (cache) *)
Fixpoint visit (fuel : nat) (g : graph) (stack : list bytes) (done : list bytes) (f : bytes) : verdict :=
  match fuel with
  | O => VFuel
  | S fu =>
    if memb f done then VOk done
    else
      (fix go (es : list edge) (done : list bytes) : verdict :=
         match es with
         | [] => VOk (f :: done)
         | ELoad :: r => go r done
         | EEval :: _ => VEvalInEval
         | ETo _ t :: r =>
           if memb t stack then VCircular
           else match visit fu g (stack ++ [t]) done t with
                | VOk done' => go r done'
                | v => v
                end
         end) (edges_of g f) done
  end.

Definition analyse_graph (g : graph) (root : bytes) : verdict :=
  visit (S (S (List.length g))) g [] [] root.

(* specification vocabulary *)
Definition has_edge (g : graph) (a b : bytes) : Prop := exists k, In (ETo k b) (edges_of g a).
Inductive reach (g : graph) : bytes -> bytes -> Prop :=
| reach_refl : forall a, reach g a a
| reach_step : forall a b c, reach g a b -> has_edge g b c -> reach g a c.
(* a cycle reachable from the root: some reachable node reaches itself through at least one edge *)
Definition cyclic_from (g : graph) (root : bytes) : Prop :=
  exists a b, reach g root a /\ has_edge g a b /\ reach g b a.
Definition eval_from (g : graph) (root : bytes) : Prop :=
  exists a, reach g root a /\ In EEval (edges_of g a).
(* every edge target is a node of the graph (resolved functions) and node names are distinct *)
Definition closed_graph (g : graph) : Prop :=
  NoDup (map fst g) /\ forall a k b, In (ETo k b) (edges_of g a) -> In b (map fst g).
