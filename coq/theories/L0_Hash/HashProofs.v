(* Proofs about the executable model of dds_hash (DdsHash.v): totality, success conditions, independence from
   the length bound on success, invariance under normalisation, injectivity on clean values up to a collision
   of the digest, and the list of confusions that the signature function really has. *)
From Coq Require Import List Ascii String ZArith NArith Bool Lia Arith.
From Coq Require Import Hexadecimal HexadecimalString HexadecimalN HexadecimalPos HexadecimalFacts.
From DDS Require Import Base.Bytes Extracted.ConstHash L0_Hash.PyVal L0_Hash.DdsHash L0_Hash.Norm L0_Hash.HashSpec.
Import ListNotations.

(* ------------------------------------------------------------------------------------------------ *)
(** * Constants regenerated from the source: everything used below is derived from [constants_ok]     *)
(* ------------------------------------------------------------------------------------------------ *)

Lemma constants_ok : hash_constants_ok = true.
Proof. vm_compute; reflexivity. Qed.

Lemma bytes_eqb_eq : forall a b, bytes_eqb a b = true -> a = b.
Proof.
  intros a b Heq. unfold bytes_eqb in Heq.
  destruct (list_eq_dec ascii_dec a b) as [Hab|Hab]; [exact Hab|discriminate Heq].
Qed.

Lemma bytes_eqb_refl : forall a, bytes_eqb a a = true.
Proof.
  intros a. unfold bytes_eqb.
  destruct (list_eq_dec ascii_dec a a) as [Haa|Haa]; [reflexivity|contradiction Haa; reflexivity].
Qed.

(* the 15 conjuncts of hash_constants_ok, split once *)
Lemma constants_split :
  bytes_eqb list_sep (bs "|") = true /\ bytes_eqb dict_sep (bs "|") = true
  /\ negb (all_hex list_sep) = true /\ Nat.eqb (List.length list_sep) 1 = true
  /\ Nat.eqb (List.length none_marker) 12 = true /\ no_ff none_marker = true
  /\ Nat.eqb (List.length bigint_prefix) 15 = true
  /\ match bigint_prefix with c :: _ => Ascii.eqb c ff | [] => false end = true.
Proof.
  pose proof constants_ok as Hc. unfold hash_constants_ok in Hc.
  repeat (apply andb_prop in Hc; destruct Hc as [Hc ?]).
  repeat split; assumption.
Qed.

Lemma list_sep_value : list_sep = bs "|".
Proof. apply bytes_eqb_eq. apply constants_split. Qed.

Lemma dict_sep_value : dict_sep = bs "|".
Proof. apply bytes_eqb_eq. apply constants_split. Qed.

Lemma dict_sep_is_list_sep : dict_sep = list_sep.
Proof. rewrite dict_sep_value, list_sep_value. reflexivity. Qed.

Lemma list_sep_length : List.length list_sep = 1.
Proof. apply Nat.eqb_eq. apply constants_split. Qed.

Lemma none_marker_length : List.length none_marker = 12.
Proof. apply Nat.eqb_eq. apply constants_split. Qed.

Lemma bigint_prefix_length : List.length bigint_prefix = 15.
Proof. apply Nat.eqb_eq. apply constants_split. Qed.

Lemma bigint_prefix_head : exists t, bigint_prefix = ff :: t.
Proof.
  pose proof constants_split as Hc.
  destruct Hc as (_ & _ & _ & _ & _ & _ & _ & Hc).
  destruct bigint_prefix as [|c t]; [discriminate Hc|].
  apply Ascii.eqb_eq in Hc. subst c. exists t. reflexivity.
Qed.

(* ------------------------------------------------------------------------------------------------ *)
(** * Generic facts about the combinators of the model (independent of the digest)                    *)
(* ------------------------------------------------------------------------------------------------ *)

Lemma with_len_none : forall n k, with_len None n k = k.
Proof. intros n k. reflexivity. Qed.

Lemma with_len_cases : forall mx n k, with_len mx n k = k \/ with_len mx n k = HErrSeq.
Proof.
  intros mx n k. unfold with_len, check_len.
  destruct mx as [m|]; [|left; reflexivity].
  destruct (m <? N.of_nat n)%N; [right|left]; reflexivity.
Qed.

Lemma with_len_ok : forall mx n k s, with_len mx n k = HOk s -> k = HOk s.
Proof.
  intros mx n k s Hw.
  destruct (with_len_cases mx n k) as [Hc|Hc]; rewrite Hc in Hw; [exact Hw|discriminate Hw].
Qed.

Definition fitsn (mx : option N) (n : nat) : Prop :=
  match mx with None => True | Some m => (N.of_nat n <= m)%N end.

Lemma with_len_fits : forall mx n k, fitsn mx n -> with_len mx n k = k.
Proof.
  intros mx n k Hf. unfold with_len, check_len.
  destruct mx as [m|]; [|reflexivity].
  simpl in Hf. destruct (N.ltb_spec m (N.of_nat n)) as [Hlt|Hge]; [lia|reflexivity].
Qed.

Lemma fitsn_max : forall mx a b, fitsn mx (Nat.max a b) -> fitsn mx a /\ fitsn mx b.
Proof.
  intros mx a b Hf. destruct mx as [m|]; simpl in *; [|split; exact I].
  split; lia.
Qed.

Lemma of_seq_ext : forall r k1 k2, (forall hs, k1 hs = k2 hs) -> of_seq r k1 = of_seq r k2.
Proof. intros r k1 k2 Hk. destruct r as [e|hs]; simpl; [reflexivity|apply Hk]. Qed.

(* seq_res never reports a success as an error *)
Lemma seq_res_inl_not_ok : forall l e h, seq_res l = inl e -> e <> HOk h.
Proof.
  induction l as [|r l IHl]; intros e h Hs; simpl in Hs; [discriminate Hs|].
  destruct r as [h0| | | | |]; try (injection Hs as <-; discriminate).
  destruct (seq_res l) as [e'|hs] eqn:Hl; [|discriminate Hs].
  injection Hs as <-. apply (IHl e' h). reflexivity.
Qed.

Lemma seq_res_inr_iff : forall (A : Type) (f : A -> hres) l hs,
  seq_res (map f l) = inr hs <-> Forall2 (fun x h => f x = HOk h) l hs.
Proof.
  intros A f. induction l as [|x l IHl]; intros hs; simpl.
  - split.
    + intros Hs. injection Hs as <-. constructor.
    + intros Hf. inversion Hf. reflexivity.
  - split.
    + intros Hs. destruct (f x) as [h| | | | |] eqn:Hx; try discriminate Hs.
      destruct (seq_res (map f l)) as [e|hs'] eqn:Hl; [discriminate Hs|].
      injection Hs as <-. constructor; [exact Hx|]. apply IHl. reflexivity.
    + intros Hf. inversion Hf as [|x' h l' hs' Hx Hrest]; subst.
      rewrite Hx. apply IHl in Hrest. rewrite Hrest. reflexivity.
Qed.

Lemma of_seq_ok : forall r k s, (forall e h, r = inl e -> e <> HOk h) ->
  of_seq r k = HOk s -> exists hs, r = inr hs /\ k hs = HOk s.
Proof.
  intros r k s Hr Ho. destruct r as [e|hs]; simpl in Ho.
  - exfalso. apply (Hr e s); [reflexivity|exact Ho].
  - exists hs. split; [reflexivity|exact Ho].
Qed.

Lemma of_seq_seq_res_ok : forall l k s,
  of_seq (seq_res l) k = HOk s -> exists hs, seq_res l = inr hs /\ k hs = HOk s.
Proof.
  intros l k s Ho. apply of_seq_ok; [|exact Ho].
  intros e h He. apply seq_res_inl_not_ok with (l := l). exact He.
Qed.

Lemma seq_res_all_ok : forall (A : Type) (f : A -> hres) l,
  Forall (fun x => exists s, f x = HOk s) l -> exists hs, seq_res (map f l) = inr hs.
Proof.
  intros A f l Hall. induction Hall as [|x l [s Hx] _ [hs IH]]; simpl.
  - exists []. reflexivity.
  - exists (s :: hs). rewrite Hx, IH. reflexivity.
Qed.

Lemma Forall2_Forall_impl : forall (A B : Type) (P : A -> Prop) (R1 R2 : A -> B -> Prop) l hs,
  Forall P l -> (forall x h, P x -> R1 x h -> R2 x h) -> Forall2 R1 l hs -> Forall2 R2 l hs.
Proof.
  intros A B P R1 R2 l hs Hall Himp Hf. revert Hall.
  induction Hf as [|x h l hs Hxh _ IH]; intros Hall; constructor.
  - inversion Hall; subst. apply Himp; assumption.
  - apply IH. inversion Hall; subst. assumption.
Qed.

Lemma pair_res_ok : forall sep a b s, pair_res sep a b = HOk s ->
  exists ha hb, a = HOk ha /\ b = HOk hb /\ s = ha ++ sep ++ hb.
Proof.
  intros sep a b s Hp. destruct a as [ha| | | | |]; simpl in Hp; try discriminate Hp.
  destruct b as [hb| | | | |]; try discriminate Hp.
  injection Hp as <-. exists ha, hb. repeat split.
Qed.

(* ------------------------------------------------------------------------------------------------ *)
(** * Byte-level facts used by the injectivity proof (independent of the digest)                      *)
(* ------------------------------------------------------------------------------------------------ *)

Lemma app_eq_length : forall (A : Type) (a c b d : list A),
  List.length a = List.length c -> a ++ b = c ++ d -> a = c /\ b = d.
Proof.
  intros A. induction a as [|x a IHa]; intros c b d Hlen Happ; destruct c as [|y c]; simpl in *; try discriminate Hlen.
  - split; [reflexivity|exact Happ].
  - injection Happ as -> Hrest. injection Hlen as Hlen.
    destruct (IHa c b d Hlen Hrest) as [-> ->]. split; reflexivity.
Qed.

Lemma bytes_eqb_length_neq : forall a b, List.length a <> List.length b -> bytes_eqb a b = false.
Proof.
  intros a b Hne. unfold bytes_eqb. destruct (list_eq_dec ascii_dec a b) as [Hab|Hab]; [|reflexivity].
  subst b. contradiction Hne. reflexivity.
Qed.

(** ** joins of 64-character items *)

Lemma join_cons : forall sep h r, r <> [] -> join sep (h :: r) = h ++ sep ++ join sep r.
Proof. intros sep h r Hr. destruct r as [|x r]; [contradiction Hr; reflexivity|reflexivity]. Qed.

Lemma join_length : forall sep hs, List.length sep = 1 -> Forall hex64 hs -> hs <> [] ->
  List.length (join sep hs) + 1 = 65 * List.length hs.
Proof.
  intros sep. induction hs as [|h r IH]; intros Hsep Hall Hne; [contradiction Hne; reflexivity|].
  inversion Hall as [|h' r' [Hh _] Hr]; subst.
  destruct r as [|x r].
  - simpl. lia.
  - rewrite join_cons by discriminate. rewrite !app_length.
    assert (IH' : List.length (join sep (x :: r)) + 1 = 65 * List.length (x :: r))
      by (apply IH; [exact Hsep|exact Hr|discriminate]).
    change (List.length (h :: x :: r)) with (S (List.length (x :: r))). lia.
Qed.

Lemma mod65_of_join_length : forall n L, n >= 1 -> L + 1 = 65 * n -> L mod 65 = 64.
Proof.
  intros n L Hn HL. replace L with (64 + (n - 1) * 65) by lia. rewrite Nat.mod_add by lia. reflexivity.
Qed.

Lemma join_inj64 : forall sep hs1 hs2, List.length sep = 1 -> Forall hex64 hs1 -> Forall hex64 hs2 ->
  hs1 <> [] -> hs2 <> [] -> join sep hs1 = join sep hs2 -> hs1 = hs2.
Proof.
  intros sep. induction hs1 as [|h1 r1 IH]; intros hs2 Hsep A1 A2 N1 N2 E; [contradiction N1; reflexivity|].
  destruct hs2 as [|h2 r2]; [contradiction N2; reflexivity|].
  inversion A1 as [|h1' r1' [L1 _] R1]; subst. inversion A2 as [|h2' r2' [L2 _] R2]; subst.
  destruct r1 as [|x1 r1]; destruct r2 as [|x2 r2].
  - simpl in E. subst h2. reflexivity.
  - exfalso. rewrite (join_cons sep h2 (x2 :: r2)) in E by discriminate.
    change (join sep [h1]) with h1 in E. apply (f_equal (@List.length ascii)) in E.
    rewrite !app_length in E. lia.
  - exfalso. rewrite (join_cons sep h1 (x1 :: r1)) in E by discriminate.
    change (join sep [h2]) with h2 in E. apply (f_equal (@List.length ascii)) in E.
    rewrite !app_length in E. lia.
  - rewrite (join_cons sep h1 (x1 :: r1)), (join_cons sep h2 (x2 :: r2)) in E by discriminate.
    apply app_eq_length in E; [|lia]. destruct E as [-> E]. apply app_inv_head in E.
    f_equal. apply IH; try assumption; discriminate.
Qed.

Lemma join_head_hex : forall sep hs, Forall hex64 hs -> hs <> [] ->
  exists c t, join sep hs = c :: t /\ is_hex c = true.
Proof.
  intros sep hs Hall Hne. destruct hs as [|h r]; [contradiction Hne; reflexivity|].
  inversion Hall as [|h' r' [Hlen Hhex] _]; subst.
  destruct h as [|c t]; [discriminate Hlen|].
  simpl in Hhex. apply andb_prop in Hhex. destruct Hhex as [Hc _].
  destruct r as [|x r].
  - exists c, t. split; [reflexivity|exact Hc].
  - exists c, (t ++ sep ++ join sep (x :: r)). split; [reflexivity|exact Hc].
Qed.

(** ** the shape of a preimage can be read off its bytes *)

Definition head_ff (p : bytes) : bool := match p with c :: _ => Ascii.eqb c ff | [] => false end.

Definition tagb (p : bytes) : nat :=
  if bytes_eqb p none_marker then 0
  else if Nat.eqb (List.length p) 4 then 1
  else if Nat.eqb (List.length p) 8 then 2
  else if head_ff p then 3
  else if Nat.eqb (List.length p mod 65) 64 then 4
  else 5.

Lemma ff_not_hex : is_hex ff = false.
Proof. vm_compute; reflexivity. Qed.

Lemma tag_none : tagb none_marker = 0.
Proof. unfold tagb. rewrite bytes_eqb_refl. reflexivity. Qed.

Lemma tag_len4 : forall p, List.length p = 4 -> tagb p = 1.
Proof.
  intros p Hp. unfold tagb. rewrite bytes_eqb_length_neq by (rewrite none_marker_length; lia).
  rewrite Hp. reflexivity.
Qed.

Lemma tag_len8 : forall p, List.length p = 8 -> tagb p = 2.
Proof.
  intros p Hp. unfold tagb. rewrite bytes_eqb_length_neq by (rewrite none_marker_length; lia).
  rewrite Hp. reflexivity.
Qed.

Lemma tag_big : forall t, tagb (bigint_prefix ++ t) = 3.
Proof.
  intros t. unfold tagb.
  assert (Hlen : List.length (bigint_prefix ++ t) >= 15) by (rewrite app_length, bigint_prefix_length; lia).
  rewrite bytes_eqb_length_neq by (rewrite none_marker_length; lia).
  destruct (Nat.eqb_spec (List.length (bigint_prefix ++ t)) 4) as [H4|_]; [lia|].
  destruct (Nat.eqb_spec (List.length (bigint_prefix ++ t)) 8) as [H8|_]; [lia|].
  assert (Hff : head_ff (bigint_prefix ++ t) = true).
  { destruct bigint_prefix_head as [t' Ht']. rewrite Ht'. unfold head_ff. cbn [app]. apply Ascii.eqb_refl. }
  rewrite Hff. reflexivity.
Qed.

Lemma tag_join : forall p c t, List.length p mod 65 = 64 -> p = c :: t -> is_hex c = true -> tagb p = 4.
Proof.
  intros p c t Hmod Hp Hc. unfold tagb.
  assert (H12 : List.length p <> 12) by (intros E; rewrite E in Hmod; vm_compute in Hmod; discriminate Hmod).
  assert (H4 : List.length p <> 4) by (intros E; rewrite E in Hmod; vm_compute in Hmod; discriminate Hmod).
  assert (H8 : List.length p <> 8) by (intros E; rewrite E in Hmod; vm_compute in Hmod; discriminate Hmod).
  rewrite bytes_eqb_length_neq by (rewrite none_marker_length; exact H12).
  destruct (Nat.eqb_spec (List.length p) 4) as [E|_]; [contradiction|].
  destruct (Nat.eqb_spec (List.length p) 8) as [E|_]; [contradiction|].
  assert (Hff : head_ff p = false).
  { rewrite Hp. simpl. destruct (Ascii.eqb c ff) eqn:Ec; [|reflexivity].
    apply Ascii.eqb_eq in Ec. subst c. rewrite ff_not_hex in Hc. discriminate Hc. }
  rewrite Hff, Hmod. reflexivity.
Qed.

Lemma tag_text : forall s, clean_text s = true -> tagb s = 5.
Proof.
  intros s Hs. unfold clean_text in Hs.
  repeat (apply andb_prop in Hs; destruct Hs as [Hs ?]).
  unfold tagb.
  destruct (bytes_eqb s none_marker); [discriminate|].
  destruct (Nat.eqb (List.length s) 4); [discriminate|].
  destruct (Nat.eqb (List.length s) 8); [discriminate|].
  destruct (Nat.eqb (List.length s mod 65) 64); [discriminate|].
  assert (Hff : head_ff s = false).
  { destruct s as [|c t]; [reflexivity|]. simpl.
    match goal with Hn : no_ff (c :: t) = true |- _ => simpl in Hn; apply andb_prop in Hn; destruct Hn as [Hn _] end.
    destruct (Ascii.eqb c ff); [discriminate|reflexivity]. }
  rewrite Hff. reflexivity.
Qed.

(** ** struct.pack("!l", z) is injective on the int32 range *)

Lemma byte_of_Z_inj : forall a b, byte_of_Z a = byte_of_Z b -> (a mod 256 = b mod 256)%Z.
Proof.
  intros a b E. unfold byte_of_Z in E. apply (f_equal N_of_ascii) in E.
  pose proof (Z.mod_pos_bound a 256 ltac:(lia)) as Ba. pose proof (Z.mod_pos_bound b 256 ltac:(lia)) as Bb.
  rewrite !N_ascii_embedding in E by lia. lia.
Qed.

Lemma be32_inj : forall z1 z2, in_int32 z1 = true -> in_int32 z2 = true -> be32 z1 = be32 z2 -> z1 = z2.
Proof.
  intros z1 z2 I1 I2 E. unfold be32 in E. injection E as E3 E2 E1 E0.
  apply byte_of_Z_inj in E3, E2, E1, E0.
  unfold in_int32 in I1, I2. apply andb_prop in I1, I2. destruct I1 as [L1 U1]. destruct I2 as [L2 U2].
  apply Z.leb_le in L1, L2. apply Z.ltb_lt in U1, U2.
  Z.to_euclidean_division_equations. lia.
Qed.

(** ** format(z, "x") is injective *)

Lemma list_ascii_of_string_inj : forall s1 s2, list_ascii_of_string s1 = list_ascii_of_string s2 -> s1 = s2.
Proof.
  intros s1 s2 E.
  rewrite <- (string_of_list_ascii_of_string s1), <- (string_of_list_ascii_of_string s2), E. reflexivity.
Qed.

Lemma to_hex_uint_nonnil : forall n, N.to_hex_uint n <> Nil.
Proof.
  intros n. destruct n as [|p]; [discriminate|]. apply HexadecimalPos.Unsigned.to_uint_nonnil.
Qed.

Lemma hexN_inj : forall a b, hexN a = hexN b -> a = b.
Proof.
  intros a b E. unfold hexN in E. apply list_ascii_of_string_inj in E.
  apply HexadecimalN.Unsigned.to_uint_inj.
  assert (E' : Some (N.to_hex_uint a) = Some (N.to_hex_uint b)).
  { rewrite <- (NilZero.usu _ (to_hex_uint_nonnil a)), <- (NilZero.usu _ (to_hex_uint_nonnil b)), E. reflexivity. }
  injection E' as E'. exact E'.
Qed.

Lemma hexN_no_minus : forall n t, hexN n <> "-"%char :: t.
Proof.
  intros n t. unfold hexN. destruct (N.to_hex_uint n); simpl; discriminate.
Qed.

Lemma hexZ_inj : forall z1 z2, hexZ z1 = hexZ z2 -> z1 = z2.
Proof.
  intros z1 z2. unfold hexZ.
  destruct (Z.ltb_spec z1 0) as [N1|P1]; destruct (Z.ltb_spec z2 0) as [N2|P2]; intros E.
  - injection E as E. apply hexN_inj in E. lia.
  - exfalso. symmetry in E. exact (hexN_no_minus _ _ E).
  - exfalso. exact (hexN_no_minus _ _ E).
  - apply hexN_inj in E. lia.
Qed.

Lemma be32_length : forall z, List.length (be32 z) = 4.
Proof. intros z. reflexivity. Qed.

Lemma enc_int_inj : forall z1 z2, enc_int z1 = enc_int z2 -> z1 = z2.
Proof.
  intros z1 z2 E. unfold enc_int in E.
  destruct (in_int32 z1) eqn:I1; destruct (in_int32 z2) eqn:I2.
  - apply be32_inj; assumption.
  - exfalso. apply (f_equal (@List.length ascii)) in E.
    rewrite app_length, bigint_prefix_length, be32_length in E. lia.
  - exfalso. apply (f_equal (@List.length ascii)) in E.
    rewrite app_length, bigint_prefix_length, be32_length in E. lia.
  - apply app_inv_head in E. apply hexZ_inj. exact E.
Qed.

(* ------------------------------------------------------------------------------------------------ *)
(** * Theorems that hold for every digest function                                                    *)
(* ------------------------------------------------------------------------------------------------ *)

Section Proofs.
  Variable H : bytes -> bytes.
  Hypothesis H_hex : forall b, hex64 (H b).

  (** ** 1. totality: only coded outcomes *)

  Lemma seq_res_total : forall l, Forall coded_or_ok l ->
    match seq_res l with inl e => coded_or_ok e | inr _ => True end.
  Proof.
    intros l Hall. induction Hall as [|r l Hr _ IH]; simpl; [exact I|].
    destruct r; simpl in Hr; try contradiction; try exact I.
    destruct (seq_res l); [exact IH|exact I].
  Qed.

  Lemma with_len_total : forall mx n k, coded_or_ok k -> coded_or_ok (with_len mx n k).
  Proof.
    intros mx n k Hk. destruct (with_len_cases mx n k) as [Hc|Hc]; rewrite Hc; [exact Hk|exact I].
  Qed.

  Lemma of_seq_total : forall l k, Forall coded_or_ok l -> (forall hs, coded_or_ok (k hs)) ->
    coded_or_ok (of_seq (seq_res l) k).
  Proof.
    intros l k Hall Hk. pose proof (seq_res_total l Hall) as Hs.
    destruct (seq_res l) as [e|hs]; simpl; [exact Hs|apply Hk].
  Qed.

  Lemma pair_res_total : forall sep a b, coded_or_ok a -> coded_or_ok b -> coded_or_ok (pair_res sep a b).
  Proof.
    intros sep a b Ha Hb. destruct a; simpl in *; try contradiction; try exact I.
    destruct b; simpl in *; try contradiction; exact I.
  Qed.

  Theorem hash_total : forall mx v, coded_or_ok (dds_hash H mx v).
  Proof.
    intros mx. induction v as [ | b | z | b | s | s | s | l IHl | l IHl | s | kvs IHkvs | c fs IHfs | r | ]
      using pyval_ind'; simpl; try exact I.
    - apply with_len_total. apply of_seq_total; [|intros hs; exact I].
      apply Forall_map. exact IHl.
    - apply with_len_total. apply of_seq_total; [|intros hs; exact I].
      apply Forall_map. exact IHl.
    - apply with_len_total. apply of_seq_total; [|intros hs; exact I].
      apply Forall_map. eapply Forall_impl; [|exact IHkvs].
      intros kv [Hk Hv]. apply pair_res_total; assumption.
    - apply with_len_total. apply of_seq_total; [|intros hs; exact I].
      apply Forall_map. exact IHfs.
  Qed.

  (** ** 2, 3. supported values hash successfully when the bound is large enough (or absent) *)

  Definition fits (mx : option N) (v : pyval) : Prop := fitsn mx (max_width v).

  Lemma fits_fold : forall (A : Type) (w : A -> nat) mx l,
    fitsn mx (fold_right (fun x acc => Nat.max (w x) acc) 0 l) -> Forall (fun x => fitsn mx (w x)) l.
  Proof.
    intros A w mx. induction l as [|x l IHl]; simpl; intros Hf; constructor.
    - apply fitsn_max in Hf. apply Hf.
    - apply IHl. apply fitsn_max in Hf. apply Hf.
  Qed.

  Lemma forallb_Forall : forall (A : Type) (p : A -> bool) l, forallb p l = true -> Forall (fun x => p x = true) l.
  Proof.
    intros A p l Hp. apply Forall_forall. apply forallb_forall. exact Hp.
  Qed.

  Lemma Forall_mp3 : forall (A : Type) (P Q R : A -> Prop) l,
    Forall (fun x => P x -> Q x -> R x) l -> Forall P l -> Forall Q l -> Forall R l.
  Proof.
    intros A P Q R l Himp. induction Himp as [|x l Hx _ IH]; intros HP HQ; constructor.
    - inversion HP; inversion HQ; subst. apply Hx; assumption.
    - inversion HP; inversion HQ; subst. apply IH; assumption.
  Qed.

  Lemma hash_ok_gen : forall mx v, supported v = true -> fits mx v -> exists s, dds_hash H mx v = HOk s.
  Proof.
    intros mx. unfold fits.
    induction v as [ | b | z | b | s | s | s | l IHl | l IHl | s | kvs IHkvs | c fs IHfs | r | ]
      using pyval_ind'; simpl; intros Hsup Hfit; try (eexists; reflexivity); try discriminate Hsup.
    - apply fitsn_max in Hfit. destruct Hfit as [Hlen Hel].
      rewrite with_len_fits by exact Hlen.
      destruct (seq_res_all_ok _ (dds_hash H mx) l) as [hs Hhs].
      + apply (Forall_mp3 _ _ _ _ _ IHl); [apply forallb_Forall; exact Hsup|].
        apply fits_fold with (w := max_width). exact Hel.
      + rewrite Hhs. simpl. eexists; reflexivity.
    - apply fitsn_max in Hfit. destruct Hfit as [Hlen Hel].
      rewrite with_len_fits by exact Hlen.
      destruct (seq_res_all_ok _ (dds_hash H mx) l) as [hs Hhs].
      + apply (Forall_mp3 _ _ _ _ _ IHl); [apply forallb_Forall; exact Hsup|].
        apply fits_fold with (w := max_width). exact Hel.
      + rewrite Hhs. simpl. eexists; reflexivity.
    - apply fitsn_max in Hfit. destruct Hfit as [Hlen Hel].
      rewrite with_len_fits by exact Hlen.
      destruct (seq_res_all_ok _ (fun kv => pair_res dict_sep (dds_hash H mx (fst kv)) (dds_hash H mx (snd kv))) kvs)
        as [hs Hhs].
      + apply forallb_Forall in Hsup.
        apply fits_fold with (w := fun kv => Nat.max (max_width (fst kv)) (max_width (snd kv))) in Hel.
        rewrite Forall_forall in IHkvs, Hsup, Hel. apply Forall_forall. intros kv Hin.
        destruct (IHkvs kv Hin) as [IHk IHv].
        pose proof (Hsup kv Hin) as Hs. pose proof (Hel kv Hin) as Hf. simpl in Hs, Hf.
        apply andb_prop in Hs. destruct Hs as [Hs1 Hs2].
        apply fitsn_max in Hf. destruct Hf as [Hf1 Hf2].
        destruct (IHk Hs1 Hf1) as [s1 E1]. destruct (IHv Hs2 Hf2) as [s2 E2].
        rewrite E1, E2. simpl. eexists; reflexivity.
      + rewrite Hhs. simpl. eexists; reflexivity.
    - apply fitsn_max in Hfit. destruct Hfit as [Hlen Hel].
      rewrite with_len_fits by exact Hlen.
      destruct (seq_res_all_ok _ (fun nv => dds_hash H mx (snd nv)) fs) as [hs Hhs].
      + apply (Forall_mp3 _ _ _ _ _ IHfs); [apply forallb_Forall; exact Hsup|].
        apply fits_fold with (w := fun nv => max_width (snd nv)). exact Hel.
      + rewrite Hhs. simpl. eexists; reflexivity.
  Qed.

  Theorem hash_ok_unbounded : forall v, supported v = true -> exists s, dds_hash H None v = HOk s.
  Proof. intros v Hsup. apply hash_ok_gen; [exact Hsup|exact I]. Qed.

  Theorem hash_ok_bounded : forall m v, supported v = true -> (N.of_nat (max_width v) <= m)%N ->
    exists s, dds_hash H (Some m) v = HOk s.
  Proof. intros m v Hsup Hm. apply hash_ok_gen; [exact Hsup|exact Hm]. Qed.

  (** ** one-step unfoldings of the model on containers (all by computation) *)

  Definition Kjoin : list bytes -> hres := fun hs => HOk (hash_join H hs).

  Lemma dds_hash_list : forall mx l,
    dds_hash H mx (VList l) = with_len mx (List.length l) (of_seq (seq_res (map (dds_hash H mx) l)) Kjoin).
  Proof. intros mx l. reflexivity. Qed.

  Lemma dds_hash_tuple : forall mx l,
    dds_hash H mx (VTuple l) = with_len mx (List.length l) (of_seq (seq_res (map (dds_hash H mx) l)) Kjoin).
  Proof. intros mx l. reflexivity. Qed.

  Lemma dds_hash_dict : forall mx kvs,
    dds_hash H mx (VDict kvs) =
    with_len mx (List.length kvs)
      (of_seq (seq_res (map (fun kv => pair_res dict_sep (dds_hash H mx (fst kv)) (dds_hash H mx (snd kv))) kvs))
              (fun items => HOk (hash_strs H items))).
  Proof. intros mx kvs. reflexivity. Qed.

  Lemma dds_hash_data : forall mx c fs,
    dds_hash H mx (VData c fs) =
    with_len mx (List.length fs)
      (of_seq (seq_res (map (fun nv => dds_hash H mx (snd nv)) fs))
              (fun hvs => HOk (hash_strs H
                 (map (fun p => H (fst (fst p)) ++ dict_sep ++ H (snd p)) (combine fs hvs))))).
  Proof. intros mx c fs. reflexivity. Qed.

  (** ** 4. a success under a bound is the same success without bound *)

  Lemma seq_res_weaken : forall (A : Type) (f g : A -> hres) l hs,
    Forall (fun x => forall s, f x = HOk s -> g x = HOk s) l ->
    seq_res (map f l) = inr hs -> seq_res (map g l) = inr hs.
  Proof.
    intros A f g l hs Hall Hs. apply seq_res_inr_iff. apply seq_res_inr_iff in Hs.
    eapply Forall2_Forall_impl; [exact Hall| |exact Hs].
    intros x h Hx Hf. apply Hx. exact Hf.
  Qed.

  Lemma hash_mx_none : forall mx v s, dds_hash H mx v = HOk s -> dds_hash H None v = HOk s.
  Proof.
    intros mx.
    induction v as [ | b | z | b | s | s | s | l IHl | l IHl | s | kvs IHkvs | c fs IHfs | r | ]
      using pyval_ind'; intros s0 Hs; try exact Hs.
    - rewrite dds_hash_list in *. apply with_len_ok in Hs. apply of_seq_seq_res_ok in Hs.
      destruct Hs as [hs [Hhs Hk]]. rewrite with_len_none.
      rewrite (seq_res_weaken _ _ _ _ _ IHl Hhs). exact Hk.
    - rewrite dds_hash_tuple in *. apply with_len_ok in Hs. apply of_seq_seq_res_ok in Hs.
      destruct Hs as [hs [Hhs Hk]]. rewrite with_len_none.
      rewrite (seq_res_weaken _ _ _ _ _ IHl Hhs). exact Hk.
    - rewrite dds_hash_dict in *. apply with_len_ok in Hs. apply of_seq_seq_res_ok in Hs.
      destruct Hs as [hs [Hhs Hk]]. rewrite with_len_none.
      assert (Hall : Forall (fun kv => forall s,
                 pair_res dict_sep (dds_hash H mx (fst kv)) (dds_hash H mx (snd kv)) = HOk s ->
                 pair_res dict_sep (dds_hash H None (fst kv)) (dds_hash H None (snd kv)) = HOk s) kvs).
      { eapply Forall_impl; [|exact IHkvs]. intros kv [Hk1 Hv1] s1 Hp.
        apply pair_res_ok in Hp. destruct Hp as (ha & hb & Ea & Eb & ->).
        rewrite (Hk1 _ Ea), (Hv1 _ Eb). reflexivity. }
      rewrite (seq_res_weaken _ _ _ _ _ Hall Hhs). exact Hk.
    - rewrite dds_hash_data in *. apply with_len_ok in Hs. apply of_seq_seq_res_ok in Hs.
      destruct Hs as [hs [Hhs Hk]]. rewrite with_len_none.
      rewrite (seq_res_weaken _ _ (fun nv => dds_hash H None (snd nv)) _ _ IHfs Hhs). exact Hk.
  Qed.

  (** ** 5. dds_hash cannot tell a value from its normal form *)

  Definition lift (r : hres) : hres := match r with HOk x => HOk (H x) | e => e end.

  Lemma seq_res_lift : forall rs,
    seq_res (map lift rs) = match seq_res rs with inl e => inl e | inr items => inr (map H items) end.
  Proof.
    induction rs as [|r rs IH]; simpl; [reflexivity|].
    destruct r; simpl; try reflexivity. rewrite IH. destruct (seq_res rs); reflexivity.
  Qed.

  Lemma hash_pair_list : forall r1 r2, of_seq (seq_res [r1; r2]) Kjoin = lift (pair_res list_sep r1 r2).
  Proof. intros r1 r2. destruct r1; try reflexivity. destruct r2; reflexivity. Qed.

  Lemma hash_single_list : forall r, of_seq (seq_res [r]) Kjoin = lift r.
  Proof. intros r. destruct r; reflexivity. Qed.

  Lemma seq_res_data : forall (B : Type) (g : bytes * B -> hres) sep fs,
    seq_res (map (fun nv => pair_res sep (HOk (H (fst nv))) (lift (g nv))) fs) =
    match seq_res (map g fs) with
    | inl e => inl e
    | inr hvs => inr (map (fun p => H (fst (fst p)) ++ sep ++ H (snd p)) (combine fs hvs))
    end.
  Proof.
    intros B g sep.
    set (F := fun nv : bytes * B => pair_res sep (HOk (H (fst nv))) (lift (g nv))).
    induction fs as [|nv fs IH]; [reflexivity|].
    cbn [map]. unfold F at 1. destruct (g nv); try reflexivity.
    cbn [lift pair_res seq_res]. rewrite IH. destruct (seq_res (map g fs)); reflexivity.
  Qed.

  Lemma norm_dict_eq : forall kvs,
    norm (VDict kvs) = VList (map (fun kv => VList [norm (fst kv); norm (snd kv)]) kvs).
  Proof. intros kvs. reflexivity. Qed.

  Lemma norm_data_eq : forall c fs,
    norm (VData c fs) = VList (map (fun nv => VList [VStr (fst nv); VList [norm (snd nv)]]) fs).
  Proof. intros c fs. reflexivity. Qed.

  Lemma hash_norm : forall v, dds_hash H None (norm v) = dds_hash H None v.
  Proof.
    induction v as [ | b | z | b | s | s | s | l IHl | l IHl | s | kvs IHkvs | c fs IHfs | r | ]
      using pyval_ind'; try reflexivity.
    - change (norm (VList l)) with (VList (map norm l)).
      rewrite !dds_hash_list, !with_len_none, map_map.
      assert (E : map (fun x => dds_hash H None (norm x)) l = map (dds_hash H None) l)
        by (apply map_ext_Forall; exact IHl).
      rewrite E. reflexivity.
    - change (norm (VTuple l)) with (VList (map norm l)).
      rewrite dds_hash_list, dds_hash_tuple, !with_len_none, map_map.
      assert (E : map (fun x => dds_hash H None (norm x)) l = map (dds_hash H None) l)
        by (apply map_ext_Forall; exact IHl).
      rewrite E. reflexivity.
    - rewrite norm_dict_eq, dds_hash_list, dds_hash_dict, !with_len_none, map_map.
      assert (E : map (fun kv => dds_hash H None (VList [norm (fst kv); norm (snd kv)])) kvs =
                  map lift (map (fun kv => pair_res dict_sep (dds_hash H None (fst kv)) (dds_hash H None (snd kv)))
                                kvs)).
      { rewrite map_map. apply map_ext_Forall. eapply Forall_impl; [|exact IHkvs].
        intros kv [Hk Hv]. rewrite dds_hash_list, with_len_none. cbn [map].
        rewrite Hk, Hv, hash_pair_list, dict_sep_is_list_sep. reflexivity. }
      rewrite E, seq_res_lift.
      destruct (seq_res (map (fun kv => pair_res dict_sep (dds_hash H None (fst kv)) (dds_hash H None (snd kv))) kvs));
        reflexivity.
    - rewrite norm_data_eq, dds_hash_list, dds_hash_data, !with_len_none, map_map.
      assert (E : map (fun nv => dds_hash H None (VList [VStr (fst nv); VList [norm (snd nv)]])) fs =
                  map lift (map (fun nv => pair_res list_sep (HOk (H (fst nv))) (lift (dds_hash H None (snd nv))))
                                fs)).
      { rewrite map_map. apply map_ext_Forall. eapply Forall_impl; [|exact IHfs].
        intros nv Hnv. rewrite dds_hash_list, with_len_none. cbn [map].
        rewrite hash_pair_list. rewrite (dds_hash_list None [norm (snd nv)]), with_len_none. cbn [map].
        rewrite hash_single_list, Hnv. reflexivity. }
      rewrite E, seq_res_lift, (seq_res_data _ (fun nv => dds_hash H None (snd nv))), dict_sep_is_list_sep.
      destruct (seq_res (map (fun nv => dds_hash H None (snd nv)) fs)); reflexivity.
  Qed.

  (** ** 6. the documented identifications really share a signature (for every bound) *)

  Lemma combine_map_keep_fst : forall (F : bytes -> bytes -> bytes) (g : pyval -> pyval) fs (hvs : list bytes),
    map (fun p => F (fst (fst p)) (snd p)) (combine (map (fun nv => (fst nv, g (snd nv))) fs) hvs) =
    map (fun p => F (fst (fst p)) (snd p)) (combine fs hvs).
  Proof.
    intros F g. induction fs as [|nv fs IH]; intros hvs; [reflexivity|].
    destruct hvs as [|h hvs]; [reflexivity|]. simpl. rewrite IH. reflexivity.
  Qed.

  Lemma hash_norm_doc : forall mx v, dds_hash H mx (norm_doc v) = dds_hash H mx v.
  Proof.
    intros mx.
    induction v as [ | b | z | b | s | s | s | l IHl | l IHl | s | kvs IHkvs | c fs IHfs | r | ]
      using pyval_ind'; try reflexivity.
    - change (norm_doc (VList l)) with (VList (map norm_doc l)).
      rewrite !dds_hash_list, map_length, map_map.
      assert (E : map (fun x => dds_hash H mx (norm_doc x)) l = map (dds_hash H mx) l)
        by (apply map_ext_Forall; exact IHl).
      rewrite E. reflexivity.
    - change (norm_doc (VTuple l)) with (VList (map norm_doc l)).
      rewrite dds_hash_list, dds_hash_tuple, map_length, map_map.
      assert (E : map (fun x => dds_hash H mx (norm_doc x)) l = map (dds_hash H mx) l)
        by (apply map_ext_Forall; exact IHl).
      rewrite E. reflexivity.
    - change (norm_doc (VDict kvs)) with (VDict (map (fun kv => (norm_doc (fst kv), norm_doc (snd kv))) kvs)).
      rewrite !dds_hash_dict, map_length, map_map. cbn [fst snd].
      assert (E : map (fun x => pair_res dict_sep (dds_hash H mx (norm_doc (fst x))) (dds_hash H mx (norm_doc (snd x))))
                      kvs =
                  map (fun kv => pair_res dict_sep (dds_hash H mx (fst kv)) (dds_hash H mx (snd kv))) kvs).
      { apply map_ext_Forall. eapply Forall_impl; [|exact IHkvs]. intros kv [Hk Hv]. rewrite Hk, Hv. reflexivity. }
      rewrite E. reflexivity.
    - change (norm_doc (VData c fs)) with (VData c (map (fun nv => (fst nv, norm_doc (snd nv))) fs)).
      rewrite !dds_hash_data, map_length, map_map. cbn [fst snd].
      assert (E : map (fun x => dds_hash H mx (norm_doc (snd x))) fs = map (fun nv => dds_hash H mx (snd nv)) fs)
        by (apply map_ext_Forall; exact IHfs).
      rewrite E. f_equal. apply of_seq_ext. intros hs. f_equal. f_equal.
      apply (combine_map_keep_fst (fun a b => H a ++ dict_sep ++ H b)).
  Qed.

  Theorem hash_doc_same : forall mx v1 v2, norm_doc v1 = norm_doc v2 -> dds_hash H mx v1 = dds_hash H mx v2.
  Proof.
    intros mx v1 v2 Heq. rewrite <- (hash_norm_doc mx v1), <- (hash_norm_doc mx v2), Heq. reflexivity.
  Qed.

  (** ** 9. every successful result is a digest *)

  Theorem hash_is_digest : forall mx v s, dds_hash H mx v = HOk s -> hex64 s.
  Proof.
    intros mx v s Hs.
    destruct v as [ | b | z | b | s0 | s0 | s0 | l | l | s0 | kvs | c fs | r | ];
      try (injection Hs as <-; apply H_hex); try discriminate Hs.
    - rewrite dds_hash_list in Hs. apply with_len_ok in Hs. apply of_seq_seq_res_ok in Hs.
      destruct Hs as [hs [_ Hk]]. injection Hk as <-. apply H_hex.
    - rewrite dds_hash_tuple in Hs. apply with_len_ok in Hs. apply of_seq_seq_res_ok in Hs.
      destruct Hs as [hs [_ Hk]]. injection Hk as <-. apply H_hex.
    - rewrite dds_hash_dict in Hs. apply with_len_ok in Hs. apply of_seq_seq_res_ok in Hs.
      destruct Hs as [hs [_ Hk]]. injection Hk as <-. apply H_hex.
    - rewrite dds_hash_data in Hs. apply with_len_ok in Hs. apply of_seq_seq_res_ok in Hs.
      destruct Hs as [hs [_ Hk]]. injection Hk as <-. apply H_hex.
  Qed.

  (** ** 7. injectivity on clean normal values, up to a collision of the digest *)

  Definition hashv (x : pyval) : bytes := match dds_hash H None x with HOk h => h | _ => [] end.

  (* the top-level preimage of a normal value *)
  Definition pre (v : pyval) : bytes :=
    match v with
    | VNone => none_marker
    | VInt z => enc_int z
    | VFloat b => b
    | VStr s => s
    | VList l => join list_sep (map hashv l)
    | _ => []
    end.

  Definition vtag (v : pyval) : nat :=
    match v with
    | VNone => 0
    | VInt z => if in_int32 z then 1 else 3
    | VFloat _ => 2
    | VStr _ => 5
    | VList _ => 4
    | _ => 6
    end.

  Definition ok_elem (x : pyval) : Prop := dds_hash H None x = HOk (hashv x).

  Lemma Forall2_hashv : forall l hs, Forall2 (fun x h => dds_hash H None x = HOk h) l hs ->
    hs = map hashv l /\ Forall ok_elem l.
  Proof.
    intros l hs Hf. induction Hf as [|x h l hs Hx _ [IH1 IH2]]; [split; [reflexivity|constructor]|].
    assert (Hh : hashv x = h) by (unfold hashv; rewrite Hx; reflexivity).
    split.
    - simpl. rewrite Hh, IH1. reflexivity.
    - constructor; [|exact IH2]. unfold ok_elem. rewrite Hh. exact Hx.
  Qed.

  Lemma list_ok_hashes : forall l s, dds_hash H None (VList l) = HOk s ->
    Forall ok_elem l /\ s = H (join list_sep (map hashv l)).
  Proof.
    intros l s Hs. rewrite dds_hash_list, with_len_none in Hs.
    apply of_seq_seq_res_ok in Hs. destruct Hs as [hs [Hhs Hk]].
    apply seq_res_inr_iff in Hhs. apply Forall2_hashv in Hhs. destruct Hhs as [-> Hall].
    split; [exact Hall|]. unfold Kjoin, hash_join in Hk. injection Hk as <-. reflexivity.
  Qed.

  Lemma ok_elems_hex64 : forall l, Forall ok_elem l -> Forall hex64 (map hashv l).
  Proof.
    intros l Hall. apply Forall_map. eapply Forall_impl; [|exact Hall].
    intros x Hx. apply (hash_is_digest None x). exact Hx.
  Qed.

  Lemma hash_pre : forall v s, nclean v = true -> dds_hash H None v = HOk s -> s = H (pre v).
  Proof.
    intros v s Hc Hs.
    destruct v as [ | b | z | b | s0 | s0 | s0 | l | l | s0 | kvs | c fs | r | ]; try discriminate Hc;
      try (injection Hs as <-; reflexivity).
    apply list_ok_hashes in Hs. apply Hs.
  Qed.

  Lemma nclean_list : forall l, nclean (VList l) = true -> l <> [] /\ forallb nclean l = true.
  Proof.
    intros l Hc. simpl in Hc. apply andb_prop in Hc. destruct Hc as [Hne Hall].
    split; [|exact Hall]. intros ->. discriminate Hne.
  Qed.

  Lemma pre_tag : forall v s, nclean v = true -> dds_hash H None v = HOk s -> tagb (pre v) = vtag v.
  Proof.
    intros v s Hc Hs.
    destruct v as [ | b | z | b | s0 | s0 | s0 | l | l | s0 | kvs | c fs | r | ]; try discriminate Hc.
    - apply tag_none.
    - unfold pre, vtag, enc_int. destruct (in_int32 z); [apply tag_len4; apply be32_length|apply tag_big].
    - apply tag_len8. simpl in Hc. apply Nat.eqb_eq. exact Hc.
    - apply tag_text. exact Hc.
    - apply nclean_list in Hc. destruct Hc as [Hne _].
      apply list_ok_hashes in Hs. destruct Hs as [Hall _].
      apply ok_elems_hex64 in Hall.
      assert (Hne' : map hashv l <> []) by (destruct l; [contradiction Hne; reflexivity|discriminate]).
      destruct (join_head_hex list_sep _ Hall Hne') as (c & t & Hj & Hhex).
      pose proof (join_length list_sep _ list_sep_length Hall Hne') as Hlen.
      unfold pre, vtag. apply (tag_join _ c t); [|exact Hj|exact Hhex].
      apply (mod65_of_join_length (List.length (map hashv l))); [|exact Hlen].
      destruct (map hashv l); [contradiction Hne'; reflexivity|simpl; lia].
  Qed.

  Lemma digest_eq_cases : forall p q, H p = H q -> p = q \/ H_collision H.
  Proof.
    intros p q Hpq. destruct (list_eq_dec ascii_dec p q) as [E|N]; [left; exact E|].
    right. exists p, q. split; assumption.
  Qed.

  Definition inj_at (a : pyval) : Prop :=
    forall b s, nclean a = true -> nclean b = true ->
      dds_hash H None a = HOk s -> dds_hash H None b = HOk s -> a = b \/ H_collision H.

  Lemma elems_inj : forall l1, Forall inj_at l1 -> forall l2,
    forallb nclean l1 = true -> forallb nclean l2 = true ->
    Forall ok_elem l1 -> Forall ok_elem l2 ->
    map hashv l1 = map hashv l2 -> l1 = l2 \/ H_collision H.
  Proof.
    intros l1 Hinj. induction Hinj as [|x l1 Hx _ IH]; intros l2 C1 C2 O1 O2 E;
      destruct l2 as [|y l2]; try discriminate E.
    - left. reflexivity.
    - simpl in C1, C2, E. apply andb_prop in C1, C2. destruct C1 as [Cx C1]. destruct C2 as [Cy C2].
      inversion O1 as [|x' l1' Ox O1']; subst. inversion O2 as [|y' l2' Oy O2']; subst.
      injection E as Exy E.
      assert (Oy' : dds_hash H None y = HOk (hashv x)) by (rewrite Exy; exact Oy).
      destruct (Hx y (hashv x) Cx Cy Ox Oy') as [->|Hcol]; [|right; exact Hcol].
      destruct (IH l2 C1 C2 O1' O2' E) as [->|Hcol]; [left; reflexivity|right; exact Hcol].
  Qed.

  Lemma list_inj : forall l1 l2 s, Forall inj_at l1 ->
    nclean (VList l1) = true -> nclean (VList l2) = true ->
    dds_hash H None (VList l1) = HOk s -> dds_hash H None (VList l2) = HOk s ->
    pre (VList l1) = pre (VList l2) -> VList l1 = VList l2 \/ H_collision H.
  Proof.
    intros l1 l2 s Hinj C1 C2 H1 H2 E.
    apply nclean_list in C1, C2. destruct C1 as [N1 C1]. destruct C2 as [N2 C2].
    apply list_ok_hashes in H1, H2. destruct H1 as [O1 _]. destruct H2 as [O2 _].
    unfold pre in E.
    apply join_inj64 in E.
    - destruct (elems_inj l1 Hinj l2 C1 C2 O1 O2 E) as [->|Hcol]; [left; reflexivity|right; exact Hcol].
    - exact list_sep_length.
    - apply ok_elems_hex64. exact O1.
    - apply ok_elems_hex64. exact O2.
    - destruct l1; [contradiction N1; reflexivity|discriminate].
    - destruct l2; [contradiction N2; reflexivity|discriminate].
  Qed.

  Ltac tag_mismatch T :=
    solve [ simpl in T;
            repeat match type of T with context [in_int32 ?z] => destruct (in_int32 z) end;
            discriminate T ].

  Theorem hash_inj_normal : forall a b s, nclean a = true -> nclean b = true ->
    dds_hash H None a = HOk s -> dds_hash H None b = HOk s -> a = b \/ H_collision H.
  Proof.
    intros a. change (inj_at a).
    induction a as [ | b | z | b | s | s | s | l IHl | l IHl | s | kvs IHkvs | c fs IHfs | r | ]
      using pyval_ind'; intros b0 s0 Ca Cb Ha Hb; try discriminate Ca.
    all: pose proof (hash_pre _ _ Ca Ha) as Pa; pose proof (hash_pre _ _ Cb Hb) as Pb;
         pose proof (pre_tag _ _ Ca Ha) as Ta; pose proof (pre_tag _ _ Cb Hb) as Tb;
         rewrite Pa in Pb; destruct (digest_eq_cases _ _ Pb) as [E|Hcol]; [|right; exact Hcol];
         rewrite E in Ta; rewrite Ta in Tb.
    all: destruct b0 as [ | b1 | z1 | b1 | s1 | s1 | s1 | l1 | l1 | s1 | kvs1 | c1 fs1 | r1 | ];
         try discriminate Cb; try tag_mismatch Tb.
    - left. reflexivity.
    - left. f_equal. apply enc_int_inj. exact E.
    - left. f_equal. exact E.
    - left. f_equal. exact E.
    - apply (list_inj l l1 s0); assumption.
  Qed.

  (** ** 8. clean values collide only when their normal forms coincide *)

  Theorem hash_inj_clean : forall mx v1 v2 s, clean v1 = true -> clean v2 = true ->
    dds_hash H mx v1 = HOk s -> dds_hash H mx v2 = HOk s -> norm v1 = norm v2 \/ H_collision H.
  Proof.
    intros mx v1 v2 s C1 C2 H1 H2.
    apply hash_mx_none in H1, H2. rewrite <- hash_norm in H1, H2.
    exact (hash_inj_normal (norm v1) (norm v2) s C1 C2 H1 H2).
  Qed.

End Proofs.

(* ------------------------------------------------------------------------------------------------ *)
(** * Known confusions of the signature function: for every digest, by computation                    *)
(* ------------------------------------------------------------------------------------------------ *)

Lemma collide_empty : forall H mx,
  dds_hash H mx (VList []) = dds_hash H mx (VStr []) /\
  dds_hash H mx (VDict []) = dds_hash H mx (VStr []) /\
  dds_hash H mx (VData [] []) = dds_hash H mx (VStr []).
Proof.
  intros H mx. destruct mx as [[|p]|]; repeat split; reflexivity.
Qed.

Lemma collide_none_marker : forall H mx, dds_hash H mx VNone = dds_hash H mx (VStr none_marker).
Proof. intros H mx. reflexivity. Qed.

Lemma collide_int_text : forall H mx, dds_hash H mx (VInt 1094861636) = dds_hash H mx (VStr (bs "ABCD")).
Proof. intros H mx. vm_compute. reflexivity. Qed.

Lemma collide_float_text : forall H mx,
  dds_hash H mx (VFloat (bs "ABCDEFGH")) = dds_hash H mx (VStr (bs "ABCDEFGH")).
Proof. intros H mx. reflexivity. Qed.

Lemma collide_dict_pairs : forall H,
  dds_hash H None (VDict [(VStr (bs "a"), VInt 1)]) = dds_hash H None (VList [VTuple [VStr (bs "a"); VInt 1]]).
Proof. intros H. vm_compute. reflexivity. Qed.

Lemma collide_data_dict : forall H,
  dds_hash H None (VData (bs "A") [(bs "x", VInt 1)]) = dds_hash H None (VDict [(VStr (bs "x"), VList [VInt 1])]).
Proof. intros H. vm_compute. reflexivity. Qed.

Lemma collide_data_class : forall H mx,
  dds_hash H mx (VData (bs "A") [(bs "x", VInt 1)]) = dds_hash H mx (VData (bs "B") [(bs "x", VInt 1)]).
Proof. intros H mx. reflexivity. Qed.

Theorem documented_only_refuted : exists v1 v2,
  clean v1 = true /\ clean v2 = true /\ norm_doc v1 <> norm_doc v2 /\
  forall H, dds_hash H None v1 = dds_hash H None v2 /\
            dds_hash H (Some 10000%N) v1 = dds_hash H (Some 10000%N) v2.
Proof.
  exists (VDict [(VStr (bs "a"), VInt 1)]), (VList [VTuple [VStr (bs "a"); VInt 1]]).
  split; [vm_compute; reflexivity|].
  split; [vm_compute; reflexivity|].
  split; [intros E; vm_compute in E; discriminate E|].
  intros H. split; [apply collide_dict_pairs|vm_compute; reflexivity].
Qed.

(** * Non-vacuity of the hypotheses *)

Example clean_example :
  clean (VDict [(VStr (bs "key"), VTuple [VInt 5; VFloat (bs "ABCDEFGH"); VNone; VInt 4294967296])]) = true.
Proof. vm_compute. reflexivity. Qed.

Example hex64_satisfiable : exists H : bytes -> bytes, forall b, hex64 (H b).
Proof.
  exists (fun _ => repeat "0"%char 64). intros b. split; vm_compute; reflexivity.
Qed.

Print Assumptions hash_inj_clean.
Print Assumptions hash_total.
Print Assumptions hash_norm.
