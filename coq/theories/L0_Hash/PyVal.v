(* The universe of Python values that dds_hash can be applied to (model of the value domain
   of dds/fun_args.py:dds_hash).  Strings are represented by their UTF-8 encoding. *)
From Coq Require Import List Ascii String ZArith NArith Bool.
From DDS Require Import Base.Bytes.
Import ListNotations.

Inductive pyval : Type :=
| VNone
| VBool (b : bool)
| VInt (z : Z)                       (* int of any size *)
| VFloat (bits : bytes)              (* IEEE-754 binary64, big-endian, 8 bytes (wf) *)
| VStr (s : bytes)                   (* str whose UTF-8 encoding is [s] (no lone surrogate) *)
| VStrBad (s : bytes)                (* str containing a lone surrogate; s = its "surrogatepass" encoding *)
| VCanon (s : bytes)                 (* dds CanonicalPath, repr = "<" ++ s ++ ">" *)
| VList (l : list pyval)
| VTuple (l : list pyval)
| VPath (s : bytes)                  (* PurePosixPath, str(p) = s *)
| VDict (kvs : list (pyval * pyval)) (* dict / OrderedDict, insertion order *)
| VData (cls : bytes) (fs : list (bytes * pyval))  (* dataclass instance: class name, fields in order *)
| VDate (r : bytes)                  (* datetime / date / time / timedelta / timezone: repr = r *)
| VOther.                            (* any other type: not supported *)

(* nested induction principle *)
Section Ind.
  Variable P : pyval -> Prop.
  Hypothesis HNone : P VNone.
  Hypothesis HBool : forall b, P (VBool b).
  Hypothesis HInt : forall z, P (VInt z).
  Hypothesis HFloat : forall b, P (VFloat b).
  Hypothesis HStr : forall s, P (VStr s).
  Hypothesis HStrBad : forall s, P (VStrBad s).
  Hypothesis HCanon : forall s, P (VCanon s).
  Hypothesis HList : forall l, Forall P l -> P (VList l).
  Hypothesis HTuple : forall l, Forall P l -> P (VTuple l).
  Hypothesis HPath : forall s, P (VPath s).
  Hypothesis HDict : forall kvs, Forall (fun kv => P (fst kv) /\ P (snd kv)) kvs -> P (VDict kvs).
  Hypothesis HData : forall c fs, Forall (fun nv => P (snd nv)) fs -> P (VData c fs).
  Hypothesis HDate : forall r, P (VDate r).
  Hypothesis HOther : P VOther.

  Fixpoint pyval_ind' (v : pyval) : P v :=
    match v with
    | VNone => HNone | VBool b => HBool b | VInt z => HInt z | VFloat b => HFloat b
    | VStr s => HStr s | VStrBad s => HStrBad s | VCanon s => HCanon s
    | VList l => HList l ((fix go (l : list pyval) : Forall P l :=
                             match l with [] => Forall_nil _ | x :: r => Forall_cons _ (pyval_ind' x) (go r) end) l)
    | VTuple l => HTuple l ((fix go (l : list pyval) : Forall P l :=
                             match l with [] => Forall_nil _ | x :: r => Forall_cons _ (pyval_ind' x) (go r) end) l)
    | VPath s => HPath s
    | VDict kvs => HDict kvs ((fix go (l : list (pyval * pyval)) : Forall (fun kv => P (fst kv) /\ P (snd kv)) l :=
                             match l with [] => Forall_nil _
                             | x :: r => Forall_cons _ (conj (pyval_ind' (fst x)) (pyval_ind' (snd x))) (go r) end) kvs)
    | VData c fs => HData c fs ((fix go (l : list (bytes * pyval)) : Forall (fun nv => P (snd nv)) l :=
                             match l with [] => Forall_nil _ | x :: r => Forall_cons _ (pyval_ind' (snd x)) (go r) end) fs)
    | VDate r => HDate r
    | VOther => HOther
    end.
End Ind.
