(* Runner used by the correspondence harness: the model instantiated with the executable SHA-256. *)
From Coq Require Import List Ascii String ZArith NArith.
From DDS Require Import Base.Bytes Base.Sha256 L0_Hash.PyVal L0_Hash.DdsHash.
Import ListNotations.
Local Open Scope string_scope.

Definition render_hres (r : hres) : string :=
  match r with
  | HOk h => "ok:" ++ show h
  | HErrType => "dds:TYPE_NOT_SUPPORTED"
  | HErrSeq => "dds:SEQUENCE_TOO_LONG"
  | HLowStruct => "low:struct.error"
  | HLowUnicode => "low:builtins.UnicodeEncodeError"
  | HLowTypeNone => "low:builtins.TypeError"
  end.

Definition run_hash (mx : option N) (v : pyval) : string := render_hres (dds_hash sha256_hex mx v).
