(* Faithful executable model of dds/fun_args.py:dds_hash (nested function _dds_hash0),
   parametric in the digest function H (sha256 hexdigest in the implementation) and in the
   option hash.max_sequence_size.  Low-level Python exceptions are outcomes of the model. *)
From Coq Require Import List Ascii String ZArith NArith Bool.
From Coq Require Import Hexadecimal HexadecimalString HexadecimalN.
From DDS Require Import Base.Bytes Extracted.ConstHash L0_Hash.PyVal.
Import ListNotations.

Inductive hres : Type :=
| HOk (h : bytes)
| HErrType          (* DDSException TYPE_NOT_SUPPORTED *)
| HErrSeq           (* DDSException SEQUENCE_TOO_LONG *)
| HLowStruct        (* struct.error: int does not fit "!l"  (unreachable since fix a8fb130) *)
| HLowUnicode       (* UnicodeEncodeError: lone surrogate    (unreachable since fix a8fb130) *)
| HLowTypeNone.     (* TypeError: len(x) > None              (unreachable since fix a8fb130) *)

Definition none_marker : bytes := bs c_none_marker.
Definition list_sep : bytes := bs c_list_sep.
Definition dict_sep : bytes := bs c_dict_sep.

Definition bigint_prefix : bytes := hx c_bigint_prefix_hex.

Definition in_int32 (z : Z) : bool := ((-2147483648 <=? z) && (z <? 2147483648))%Z.

(* format(z, "x"): optional minus sign, lower-case hexadecimal digits of |z| without leading zeros *)
Definition hexN (n : N) : bytes := list_ascii_of_string (NilZero.string_of_uint (N.to_hex_uint n)).
Definition hexZ (z : Z) : bytes :=
  if (z <? 0)%Z then "-"%char :: hexN (Z.abs_N z) else hexN (Z.abs_N z).
Definition enc_int (z : Z) : bytes :=
  if in_int32 z then be32 z else bigint_prefix ++ hexZ z.

(* first error wins, left to right *)
Fixpoint seq_res (l : list hres) : hres + list bytes :=
  match l with
  | [] => inr []
  | HOk h :: r => match seq_res r with inr hs => inr (h :: hs) | inl e => inl e end
  | e :: _ => inl e
  end.

Definition pair_res (sep : bytes) (a b : hres) : hres :=
  match a with
  | HOk ha => match b with HOk hb => HOk (ha ++ sep ++ hb) | e => e end
  | e => e
  end.

Section Hash.
  Variable H : bytes -> bytes.
  Variable maxlen : option N.

  Definition check_len (n : nat) : option hres :=
    match maxlen with
    | None => None
    | Some m => if (m <? N.of_nat n)%N then Some HErrSeq else None
    end.

  Definition hash_join (hs : list bytes) : bytes := H (join list_sep hs).

  (* _dds_hash(list of str) for strings that are already known to be hashable *)
  Definition hash_strs (items : list bytes) : bytes := hash_join (map H items).

  Definition with_len (n : nat) (k : hres) : hres :=
    match check_len n with Some e => e | None => k end.

  Definition of_seq (r : hres + list bytes) (k : list bytes -> hres) : hres :=
    match r with inl e => e | inr hs => k hs end.

  Fixpoint dds_hash (v : pyval) : hres :=
    match v with
    | VNone => HOk (H none_marker)
    | VStr s => HOk (H s)
    | VStrBad s => HOk (H s)
    | VFloat b => HOk (H b)
    | VBool b => HOk (H (enc_int (if b then 1 else 0)))
    | VInt z => HOk (H (enc_int z))
    | VCanon s => HOk (H (bs "<" ++ s ++ bs ">"))
    | VList l =>
        with_len (List.length l) (of_seq (seq_res (map dds_hash l)) (fun hs => HOk (hash_join hs)))
    | VTuple l =>
        with_len (List.length l) (of_seq (seq_res (map dds_hash l)) (fun hs => HOk (hash_join hs)))
    | VPath s => HOk (H s)
    | VDict kvs =>
        with_len (List.length kvs)
          (of_seq (seq_res (map (fun kv => pair_res dict_sep (dds_hash (fst kv)) (dds_hash (snd kv))) kvs))
                  (fun items => HOk (hash_strs items)))
    | VData _ fs =>
        with_len (List.length fs)
          (of_seq (seq_res (map (fun nv => dds_hash (snd nv)) fs))
                  (fun hvs => HOk (hash_strs
                     (map (fun p => H (fst (fst p)) ++ dict_sep ++ H (snd p)) (combine fs hvs)))))
    | VDate r => HOk (H r)
    | VOther => HErrType
    end.
End Hash.

(* dds_hash_commut: XOR-fold of sha256(key ++ value) rendered with "{:x}" (no leading zeros) *)
Definition N_of_hex (b : bytes) : N := fold_left (fun acc c => (16 * acc + hexval c)%N) b 0%N.
Fixpoint hex_of_N_fuel (fuel : nat) (n : N) (acc : bytes) : bytes :=
  match fuel with
  | O => acc
  | S f => let d := hexdig (n mod 16)%N in
           if (n <? 16)%N then d :: acc else hex_of_N_fuel f (n / 16)%N (d :: acc)
  end.
Definition hex_of_N (n : N) : bytes := hex_of_N_fuel (S (N.to_nat (N.log2 n))) n [].

Definition commut_digest (H : bytes -> bytes) (kv : bytes * bytes) : bytes := H (fst kv ++ snd kv).
Definition dds_hash_commut (H : bytes -> bytes) (l : list (bytes * bytes)) : option bytes :=
  match l with
  | [] => None
  | kv :: r =>
      Some (fold_left (fun res c => hex_of_N (N.lxor (N_of_hex res) (N_of_hex (commut_digest H c))))
                      r (commut_digest H kv))
  end.
