(* Statements-only vocabulary for the C05 theorems (definitions, no proofs). *)
From Coq Require Import List Ascii String ZArith NArith Bool.
From DDS Require Import Base.Bytes Extracted.ConstHash L0_Hash.PyVal L0_Hash.DdsHash L0_Hash.Norm.
Import ListNotations.

Definition H_collision (H : bytes -> bytes) : Prop := exists a b, a <> b /\ H a = H b.
Definition hex64 (b : bytes) : Prop := List.length b = 64 /\ all_hex b = true.

(* values built from the supported types only *)
Fixpoint supported (v : pyval) : bool :=
  match v with
  | VOther => false
  | VList l | VTuple l => forallb supported l
  | VDict kvs => forallb (fun kv => supported (fst kv) && supported (snd kv)) kvs
  | VData _ fs => forallb (fun nv => supported (snd nv)) fs
  | _ => true
  end.

(* largest container length occurring in a value *)
Fixpoint max_width (v : pyval) : nat :=
  match v with
  | VList l | VTuple l => Nat.max (List.length l) (fold_right (fun x acc => Nat.max (max_width x) acc) 0 l)
  | VDict kvs => Nat.max (List.length kvs)
                   (fold_right (fun kv acc => Nat.max (Nat.max (max_width (fst kv)) (max_width (snd kv))) acc) 0 kvs)
  | VData _ fs => Nat.max (List.length fs) (fold_right (fun nv acc => Nat.max (max_width (snd nv)) acc) 0 fs)
  | _ => 0
  end.

Definition coded_or_ok (r : hres) : Prop :=
  match r with HOk _ | HErrType | HErrSeq => True | _ => False end.

(* side conditions on the constants regenerated from the source *)
Definition hash_constants_ok : bool :=
  bytes_eqb list_sep (bs "|") && bytes_eqb dict_sep (bs "|")
  && negb (all_hex list_sep) && Nat.eqb (List.length list_sep) 1
  && Nat.eqb (List.length none_marker) 12 && no_ff none_marker
  && Nat.eqb (List.length bigint_prefix) 15
  && match bigint_prefix with c :: _ => Ascii.eqb c ff | [] => false end
  && String.eqb c_int_fmt "!l" && String.eqb c_float_fmt "!d"
  && String.eqb c_bigint_fmt "x"
  && String.eqb c_int_range "-2 ** 31 <= elt < 2 ** 31"
  && String.eqb c_check_len_guard "max_sequence_size is not None and len(x) > max_sequence_size"
  && (if list_eq_dec string_dec c_str_encode_args ["utf-8"; "surrogatepass"]%string then true else false)
  && (if list_eq_dec string_dec c_dispatch_order
        ["None"; "str"; "float"; "int"; "CanonicalPath"; "list"; "tuple"; "PurePosixPath"; "OrderedDict"; "dict";
         "dataclass"; "datetime"]%string then true else false).
