(* Normal forms of values: [norm] maps every value to a value built from VNone / VInt / VFloat / VStr / VList
   only, such that dds_hash cannot tell a value from its normal form (HashProofs.hash_norm).  Two *clean*
   values collide exactly when their normal forms coincide (HashProofs.hash_inj_clean), so [norm] is the precise
   description of what dds_hash identifies.  [norm_doc] applies only the documented identifications
   (list = tuple, bool = int, path / date / canonical path = text form). *)
From Coq Require Import List Ascii String ZArith NArith Bool.
From DDS Require Import Base.Bytes Extracted.ConstHash L0_Hash.PyVal L0_Hash.DdsHash.
Import ListNotations.

Definition canon_text (s : bytes) : bytes := bs "<" ++ s ++ bs ">".

Fixpoint norm (v : pyval) : pyval :=
  match v with
  | VNone => VNone
  | VBool b => VInt (if b then 1 else 0)
  | VInt z => VInt z
  | VFloat b => VFloat b
  | VStr s => VStr s
  | VStrBad s => VStr s
  | VCanon s => VStr (canon_text s)
  | VList l => VList (map norm l)
  | VTuple l => VList (map norm l)
  | VPath s => VStr s
  | VDict kvs => VList (map (fun kv => VList [norm (fst kv); norm (snd kv)]) kvs)
  | VData _ fs => VList (map (fun nv => VList [VStr (fst nv); VList [norm (snd nv)]]) fs)
  | VDate r => VStr r
  | VOther => VOther
  end.

(* documented identifications only *)
Fixpoint norm_doc (v : pyval) : pyval :=
  match v with
  | VBool b => VInt (if b then 1 else 0)
  | VStrBad s => VStr s
  | VCanon s => VStr (canon_text s)
  | VList l => VList (map norm_doc l)
  | VTuple l => VList (map norm_doc l)
  | VPath s => VStr s
  | VDict kvs => VDict (map (fun kv => (norm_doc (fst kv), norm_doc (snd kv))) kvs)
  | VData c fs => VData c (map (fun nv => (fst nv, norm_doc (snd nv))) fs)
  | VDate r => VStr r
  | v => v
  end.

(* text that cannot be confused with the encoding of a non-text value *)
Definition ff : ascii := ascii_of_N 255.
Definition no_ff (s : bytes) : bool := forallb (fun c => negb (Ascii.eqb c ff)) s.
Definition clean_text (s : bytes) : bool :=
  negb (Nat.eqb (List.length s) 0) && negb (Nat.eqb (List.length s) 4) && negb (Nat.eqb (List.length s) 8)
  && negb (bytes_eqb s none_marker) && negb (Nat.eqb (Nat.modulo (List.length s) 65) 64) && no_ff s.

(* clean normal values: no empty container, no magic text, well-formed floats, nothing unsupported *)
Fixpoint nclean (v : pyval) : bool :=
  match v with
  | VNone => true
  | VInt _ => true
  | VFloat b => Nat.eqb (List.length b) 8
  | VStr s => clean_text s
  | VList l => negb (Nat.eqb (List.length l) 0) && forallb nclean l
  | _ => false
  end.

Definition clean (v : pyval) : bool := nclean (norm v).

(* a python str never contains the byte 0xff in its UTF-8 (surrogatepass) encoding; floats are 8 bytes *)
Fixpoint wf (v : pyval) : bool :=
  match v with
  | VFloat b => Nat.eqb (List.length b) 8
  | VStr s | VStrBad s | VPath s | VDate s | VCanon s => no_ff s
  | VList l | VTuple l => forallb wf l
  | VDict kvs => forallb (fun kv => wf (fst kv) && wf (snd kv)) kvs
  | VData c fs => forallb (fun nv => no_ff (fst nv) && wf (snd nv)) fs
  | _ => true
  end.
