(* C03: dds_hash_commut (the hash of dict / set like collections of pairs) does not depend on the order in which the
   pairs are enumerated. *)
From Coq Require Import List Ascii String ZArith NArith Bool Lia Permutation.
From DDS Require Import Base.Bytes L0_Hash.DdsHash.
Import ListNotations.
Local Open Scope N_scope.

(* ---- hexadecimal digits ---- *)

Lemma lt_16_cases : forall d : N, d < 16 ->
  d = 0 \/ d = 1 \/ d = 2 \/ d = 3 \/ d = 4 \/ d = 5 \/ d = 6 \/ d = 7 \/
  d = 8 \/ d = 9 \/ d = 10 \/ d = 11 \/ d = 12 \/ d = 13 \/ d = 14 \/ d = 15.
Proof. intros d Hd. lia. Qed.

Lemma hexval_hexdig : forall d : N, d < 16 -> hexval (hexdig d) = d.
Proof.
  intros d Hd.
  destruct (lt_16_cases d Hd) as
    [E|[E|[E|[E|[E|[E|[E|[E|[E|[E|[E|[E|[E|[E|[E|E]]]]]]]]]]]]]]]; subst d; vm_compute; reflexivity.
Qed.

(* ---- N_of_hex is a left fold ---- *)

Definition hex_step (acc : N) (c : ascii) : N := 16 * acc + hexval c.

Lemma N_of_hex_unfold : forall b, N_of_hex b = fold_left hex_step b 0.
Proof. reflexivity. Qed.

Lemma N_of_hex_snoc : forall ds c, N_of_hex (ds ++ [c]) = 16 * N_of_hex ds + hexval c.
Proof.
  intros ds c. unfold N_of_hex. rewrite fold_left_app. reflexivity.
Qed.

Lemma N_of_hex_single : forall c, N_of_hex [c] = hexval c.
Proof. intros c. unfold N_of_hex. cbn [fold_left]. lia. Qed.

(* ---- hex_of_N_fuel produces the digits of n in front of the accumulator ---- *)

Lemma pow16_succ : forall f : nat, 16 ^ N.of_nat (S f) = 16 * 16 ^ N.of_nat f.
Proof.
  intros f. rewrite Nnat.Nat2N.inj_succ. rewrite N.pow_succ_r by lia. reflexivity.
Qed.

Lemma hex_of_N_fuel_digits : forall (fuel : nat) (n : N) (acc : bytes),
  n < 16 ^ N.of_nat (S fuel) ->
  exists ds, hex_of_N_fuel (S fuel) n acc = ds ++ acc /\ N_of_hex ds = n.
Proof.
  induction fuel as [|f IH]; intros n acc Hn.
  - (* one digit *)
    change (16 ^ N.of_nat 1) with 16 in Hn.
    exists [hexdig (n mod 16)]. cbn [hex_of_N_fuel].
    assert (Hlt : (n <? 16) = true) by (apply N.ltb_lt; exact Hn).
    rewrite Hlt. split; [reflexivity|].
    rewrite N_of_hex_single. rewrite N.mod_small by exact Hn. apply hexval_hexdig; exact Hn.
  - cbn [hex_of_N_fuel]. fold (hex_of_N_fuel (S f)).
    destruct (n <? 16) eqn:Hlt.
    + apply N.ltb_lt in Hlt.
      exists [hexdig (n mod 16)]. split; [reflexivity|].
      rewrite N_of_hex_single. rewrite N.mod_small by exact Hlt. apply hexval_hexdig; exact Hlt.
    + apply N.ltb_ge in Hlt.
      assert (Hq : n / 16 < 16 ^ N.of_nat (S f)).
      { apply N.div_lt_upper_bound; [lia|]. rewrite <- pow16_succ. exact Hn. }
      destruct (IH (n / 16) (hexdig (n mod 16) :: acc) Hq) as [ds [Hds Hval]].
      exists (ds ++ [hexdig (n mod 16)]). split.
      * change (hex_of_N_fuel (S f) (n / 16) (hexdig (n mod 16) :: acc) = (ds ++ [hexdig (n mod 16)]) ++ acc).
        rewrite Hds. rewrite <- app_assoc. reflexivity.
      * rewrite N_of_hex_snoc. rewrite Hval.
        rewrite hexval_hexdig by (apply N.mod_lt; lia).
        symmetry. apply N.div_mod. lia.
Qed.

Lemma lt_pow16_log2 : forall n : N, n < 16 ^ N.of_nat (S (N.to_nat (N.log2 n))).
Proof.
  intros n. rewrite Nnat.Nat2N.inj_succ. rewrite Nnat.N2Nat.id.
  destruct (N.eq_dec n 0) as [E|NE].
  - subst n. vm_compute. reflexivity.
  - assert (Hpos : 0 < n) by lia.
    destruct (N.log2_spec n Hpos) as [_ Hup].
    eapply N.lt_le_trans; [exact Hup|].
    apply N.pow_le_mono_l. lia.
Qed.

Lemma N_of_hex_hex_of_N : forall n, N_of_hex (hex_of_N n) = n.
Proof.
  intros n. unfold hex_of_N.
  destruct (hex_of_N_fuel_digits (N.to_nat (N.log2 n)) n [] (lt_pow16_log2 n)) as [ds [Hds Hval]].
  rewrite Hds. rewrite app_nil_r. exact Hval.
Qed.

(* ---- dds_hash_commut as an XOR over all digests ---- *)

Definition xor_all (H : bytes -> bytes) (l : list (bytes * bytes)) : N :=
  fold_right (fun kv acc => N.lxor (N_of_hex (commut_digest H kv)) acc) 0%N l.

Definition commut_step (H : bytes -> bytes) (res : bytes) (c : bytes * bytes) : bytes :=
  hex_of_N (N.lxor (N_of_hex res) (N_of_hex (commut_digest H c))).

Lemma commut_fold_hex : forall H r x,
  fold_left (commut_step H) r (hex_of_N x) =
  hex_of_N (fold_left (fun acc c => N.lxor acc (N_of_hex (commut_digest H c))) r x).
Proof.
  intros H r. induction r as [|c r IH]; intros x.
  - reflexivity.
  - cbn [fold_left]. unfold commut_step at 2. rewrite N_of_hex_hex_of_N. apply IH.
Qed.

Lemma xor_fold_left_right : forall H r x,
  fold_left (fun acc c => N.lxor acc (N_of_hex (commut_digest H c))) r x = N.lxor x (xor_all H r).
Proof.
  intros H r. induction r as [|c r IH]; intros x.
  - cbn. rewrite N.lxor_0_r. reflexivity.
  - cbn [fold_left]. rewrite IH. unfold xor_all. cbn [fold_right]. apply N.lxor_assoc.
Qed.

Lemma commut_as_xor : forall H a b r,
  dds_hash_commut H (a :: b :: r) = Some (hex_of_N (xor_all H (a :: b :: r))).
Proof.
  intros H a b r. unfold dds_hash_commut. f_equal.
  change (fold_left (commut_step H) (b :: r) (commut_digest H a) = hex_of_N (xor_all H (a :: b :: r))).
  cbn [fold_left]. unfold commut_step at 2.
  rewrite commut_fold_hex. f_equal.
  rewrite xor_fold_left_right.
  unfold xor_all. cbn [fold_right]. apply N.lxor_assoc.
Qed.

Lemma xor_all_perm : forall H l1 l2, Permutation l1 l2 -> xor_all H l1 = xor_all H l2.
Proof.
  intros H l1 l2 HP. induction HP as [|x l l' HP IH|x y l|l l' l'' HP1 IH1 HP2 IH2].
  - reflexivity.
  - unfold xor_all in *. cbn [fold_right]. rewrite IH. reflexivity.
  - unfold xor_all. cbn [fold_right].
    rewrite <- !N.lxor_assoc. f_equal. apply N.lxor_comm.
  - rewrite IH1. exact IH2.
Qed.

Theorem commut_perm : forall H l1 l2, Permutation l1 l2 -> dds_hash_commut H l1 = dds_hash_commut H l2.
Proof.
  intros H l1 l2 HP.
  destruct l1 as [|a [|b r]].
  - apply Permutation_nil in HP. subst l2. reflexivity.
  - apply Permutation_length_1_inv in HP. subst l2. reflexivity.
  - destruct l2 as [|a' [|b' r']].
    + apply Permutation_length in HP. discriminate HP.
    + apply Permutation_length in HP. discriminate HP.
    + rewrite !commut_as_xor. f_equal. f_equal. apply xor_all_perm. exact HP.
Qed.

(* non-vacuity: a swap of two distinct pairs *)
Example commut_swap : forall H a b c, dds_hash_commut H [a; b; c] = dds_hash_commut H [c; a; b].
Proof.
  intros H a b c. apply commut_perm.
  change [c; a; b] with ([c] ++ [a; b]). change [a; b; c] with ([a; b] ++ [c]). apply Permutation_app_comm.
Qed.

Print Assumptions N_of_hex_hex_of_N.
Print Assumptions commut_perm.
