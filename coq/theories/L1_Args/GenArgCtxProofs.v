(* The loop bodies of get_arg_ctx / get_arg_ctx_ast (and process_arg) REGENERATED from dds/fun_args.py by
   harness/translate_py.py (Extracted/GenArgCtx.v) are the hand-written model L1_Args/ArgCtx.v.  Not regenerated. *)
From Coq Require Import List Ascii String ZArith NArith Bool Arith Lia.
From DDS Require Import Base.Bytes Base.PyRt Extracted.ConstHash L0_Hash.PyVal L0_Hash.DdsHash L1_Args.ArgCtx Extracted.GenArgCtx.
Import ListNotations.

(* the shape of _hash_arg, regenerated: `x if x is not None else MARKER` *)
Lemma style_is_none : String.eqb c_default_style "or" = false.
Proof. reflexivity. Qed.

Lemma subst_default_is_none : forall v, subst_default v = subst_none v.
Proof. intro v. unfold subst_default. rewrite style_is_none. destruct v; reflexivity. Qed.
Lemma rt_value_is_none : forall v, rt_value v = subst_none v.
Proof. intro v. unfold rt_value. rewrite style_is_none. reflexivity. Qed.

Lemma sum_eta : forall (E A : Type) (x : E + A), match x with inr t => inr t | inl e => inl e end = x.
Proof. intros E A [e|a]; reflexivity. Qed.

Section Proofs.
  Variable H : bytes -> bytes.
  Variable maxlen : option N.

  Lemma gen_hash_arg_rt : forall v, gen_hash_arg H maxlen v = hash_opt H maxlen (rt_value v).
  Proof. intro v. reflexivity. Qed.   (* by computation of the regenerated c_default_style *)
  Lemma gen_hash_arg_lit : forall v, gen_hash_arg H maxlen v = hash_opt H maxlen (subst_none v).
  Proof. intro v. reflexivity. Qed.

  Lemma nth_error_ltb : forall (A : Type) (l : list A) i,
    Nat.ltb i (List.length l) = match nth_error l i with Some _ => true | None => false end.
  Proof.
    intros A l i. destruct (nth_error l i) eqn:E.
    - apply Nat.ltb_lt. apply nth_error_Some. congruence.
    - apply Nat.ltb_ge. apply nth_error_None. exact E.
  Qed.

  (* one parameter, run-time values *)
  Lemma gen_rt_body_eq : forall pos kw idx p,
    gen_rt_body H maxlen pos kw idx p =
    match p_kind p with
    | POK | VARKW =>
      match nth_error pos idx with
      | Some v => hash_opt H maxlen (rt_value v)
      | None =>
        match kw_lookup (p_name p) kw with
        | Some v => hash_opt H maxlen (rt_value v)
        | None =>
          match p_default p with
          | Some d => hash_opt H maxlen (subst_default d)
          | None => match p_kind p with VARKW => inr None | _ => inl AEMissing end
          end
        end
      end
    | _ => inl AENotImplemented
    end.
  Proof.
    intros pos kw idx p. unfold gen_rt_body. cbv zeta. rewrite nth_error_ltb. unfold hash_nth, hash_kw, hash_default, is_some.
    rewrite !sum_eta.
    destruct (p_kind p); cbn [pkind_eqb orb negb]; try reflexivity;
      (destruct (nth_error pos idx) as [v|]; [apply gen_hash_arg_rt|];
       destruct (kw_lookup (p_name p) kw) as [v|]; [apply gen_hash_arg_rt|];
       destruct (p_default p) as [d|]; [reflexivity | reflexivity]).
  Qed.

  Lemma gen_process_arg_eq : forall a, gen_process_arg H maxlen a = process_arg H maxlen a.
  Proof.
    intros [v|]; unfold gen_process_arg, process_arg, aarg_is_constant, hash_constant_value; [|reflexivity].
    rewrite sum_eta. apply gen_hash_arg_lit.
  Qed.

  (* one parameter, arguments seen in the source *)
  Lemma gen_ast_body_eq : forall pos kw idx p,
    gen_ast_body H maxlen pos kw idx p =
    match p_kind p with
    | POK | VARKW | VARPOS =>
      match nth_error pos idx with
      | Some a => process_arg H maxlen a
      | None =>
        match kw_lookup (p_name p) kw with
        | Some a => process_arg H maxlen a
        | None =>
          match p_default p with
          | Some d => hash_opt H maxlen (subst_default d)
          | None => inr None
          end
        end
      end
    | _ => inl AENotImplemented
    end.
  Proof.
    intros pos kw idx p. unfold gen_ast_body. cbv zeta. rewrite nth_error_ltb. unfold hash_default, is_some.
    rewrite !sum_eta.
    destruct (p_kind p); cbn [pkind_eqb orb negb]; try reflexivity;
      (destruct (nth_error pos idx) as [a|]; [apply gen_process_arg_eq|];
       destruct (kw_lookup (p_name p) kw) as [a|]; [apply gen_process_arg_eq|];
       destruct (p_default p) as [d|]; reflexivity).
  Qed.

  Theorem gen_get_arg_ctx_from : forall ps idx pos kw,
    loop_params (gen_rt_body H maxlen pos kw) ps idx = arg_ctx_rt H maxlen ps idx pos kw.
  Proof.
    induction ps as [|p r IH]; intros idx pos kw; cbn [loop_params arg_ctx_rt]; [reflexivity|].
    rewrite gen_rt_body_eq, IH. destruct (p_kind p); reflexivity.
  Qed.
  Theorem gen_get_arg_ctx_ast_from : forall ps idx pos kw,
    loop_params (gen_ast_body H maxlen pos kw) ps idx = arg_ctx_ast H maxlen ps idx pos kw.
  Proof.
    induction ps as [|p r IH]; intros idx pos kw; cbn [loop_params arg_ctx_ast]; [reflexivity|].
    rewrite gen_ast_body_eq, IH. destruct (p_kind p); reflexivity.
  Qed.

  Theorem gen_get_arg_ctx_eq : forall ps pos kw, gen_get_arg_ctx H maxlen ps pos kw = arg_ctx_rt H maxlen ps 0 pos kw.
  Proof. intros. apply gen_get_arg_ctx_from. Qed.
  Theorem gen_get_arg_ctx_ast_eq : forall ps pos kw, gen_get_arg_ctx_ast H maxlen ps pos kw = arg_ctx_ast H maxlen ps 0 pos kw.
  Proof. intros. apply gen_get_arg_ctx_ast_from. Qed.
End Proofs.
