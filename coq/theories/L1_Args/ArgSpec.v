(* Vocabulary for the C13 theorems: Python's binding of a call, and the argument context a binding determines. *)
From Coq Require Import List Ascii String ZArith NArith Bool.
From DDS Require Import Base.Bytes Extracted.ConstHash L0_Hash.PyVal L0_Hash.DdsHash L1_Args.ArgCtx.
Import ListNotations.

Definition all_pok (ps : list param) : bool :=
  forallb (fun p => match p_kind p with POK => true | _ => false end) ps.

(* the binding Python computes for a call f(pos..., kw...): positional arguments first, then keywords, then defaults;
   None when a parameter without default is left unbound.  (Surplus positional arguments, unknown keywords and
   doubly bound parameters make the real call raise TypeError; dds does not look at them.) *)
Fixpoint bind (ps : list param) (idx : nat) (pos : list pyval) (kw : list (bytes * pyval)) : option (list (bytes * pyval)) :=
  match ps with
  | [] => Some []
  | p :: r =>
    let v := match nth_error pos idx with
             | Some v => Some v
             | None => match kw_lookup (p_name p) kw with Some v => Some v | None => p_default p end
             end in
    match v, bind r (S idx) pos kw with
    | Some v, Some l => Some ((p_name p, v) :: l)
    | _, _ => None
    end
  end.

Section Spec.
  Variable H : bytes -> bytes.
  Variable maxlen : option N.

  (* the argument context determined by a binding alone *)
  Fixpoint named_of_binding (b : list (bytes * pyval)) : actx_err + list (bytes * option bytes) :=
    match b with
    | [] => inr []
    | (n, v) :: r =>
      match hash_opt H maxlen (subst_none v) with
      | inl e => inl e
      | inr ho => match named_of_binding r with inl e => inl e | inr l => inr ((n, ho) :: l) end
      end
    end.
End Spec.

Definition lits (pos : list pyval) : list aarg := map ALit pos.
Definition kwlits (kw : list (bytes * pyval)) : list (bytes * aarg) := map (fun nv => (fst nv, ALit (snd nv))) kw.

(* regenerated side condition: None, and only None, is replaced by the marker on every route *)
Definition arg_constants_ok : bool := String.eqb c_default_style "is_none" && String.eqb c_default_marker "__none__".
