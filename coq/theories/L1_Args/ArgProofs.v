(* C13: the argument context computed by dds (ArgCtx.v) depends only on Python's binding of the call, not on how
   the call is spelled, on both routes (values passed directly / literals read in the source); and different
   bindings give different contexts, up to what value hashing identifies and up to the replacement of None by the
   marker string (a genuine confusion, exhibited at the end). *)
From Coq Require Import List Ascii String ZArith NArith Bool Lia Arith.
From DDS Require Import Base.Bytes Extracted.ConstHash L0_Hash.PyVal L0_Hash.DdsHash L0_Hash.Norm L0_Hash.HashSpec
  L0_Hash.HashProofs L1_Args.ArgCtx L1_Args.ArgSpec.
Import ListNotations.

(* ------------------------------------------------------------------------------------------------ *)
(** * Constants regenerated from the source                                                           *)
(* ------------------------------------------------------------------------------------------------ *)

Lemma constants_ok : arg_constants_ok = true.
Proof. vm_compute. reflexivity. Qed.

Lemma default_style_value : c_default_style = "is_none"%string.
Proof.
  pose proof constants_ok as Hc. unfold arg_constants_ok in Hc.
  apply andb_prop in Hc. destruct Hc as [Hstyle _].
  apply String.eqb_eq. exact Hstyle.
Qed.

Lemma default_marker_value : c_default_marker = "__none__"%string.
Proof.
  pose proof constants_ok as Hc. unfold arg_constants_ok in Hc.
  apply andb_prop in Hc. destruct Hc as [_ Hmark].
  apply String.eqb_eq. exact Hmark.
Qed.

Lemma default_style_not_or : String.eqb c_default_style "or" = false.
Proof. rewrite default_style_value. vm_compute. reflexivity. Qed.

Lemma subst_default_eq : forall v, subst_default v = subst_none v.
Proof. intros v. unfold subst_default. rewrite default_style_not_or. reflexivity. Qed.

Lemma rt_value_eq : forall v, rt_value v = subst_none v.
Proof. intros v. unfold rt_value. rewrite default_style_not_or. reflexivity. Qed.

(* ------------------------------------------------------------------------------------------------ *)
(** * Literal arguments: lookups commute with [lits] / [kwlits]                                       *)
(* ------------------------------------------------------------------------------------------------ *)

Lemma nth_error_lits : forall pos i, nth_error (lits pos) i = option_map ALit (nth_error pos i).
Proof. intros pos i. unfold lits. apply nth_error_map. Qed.

Lemma kw_lookup_kwlits : forall n kw, kw_lookup n (kwlits kw) = option_map ALit (kw_lookup n kw).
Proof.
  intros n kw. induction kw as [|[k v] kw IHkw]; [reflexivity|].
  cbn [kwlits map kw_lookup fst snd]. fold (kwlits kw).
  destruct (bytes_eqb n k); [reflexivity|exact IHkw].
Qed.

(* ------------------------------------------------------------------------------------------------ *)
(** * The value Python binds to one parameter, and one-step unfoldings                                *)
(* ------------------------------------------------------------------------------------------------ *)

Definition pick (p : param) (idx : nat) (pos : list pyval) (kw : list (bytes * pyval)) : option pyval :=
  match nth_error pos idx with
  | Some v => Some v
  | None => match kw_lookup (p_name p) kw with Some v => Some v | None => p_default p end
  end.

Lemma bind_cons : forall p r idx pos kw,
  bind (p :: r) idx pos kw =
  match pick p idx pos kw, bind r (S idx) pos kw with
  | Some v, Some l => Some ((p_name p, v) :: l)
  | _, _ => None
  end.
Proof. intros p r idx pos kw. reflexivity. Qed.

Lemma bind_cons_inv : forall p r idx pos kw b, bind (p :: r) idx pos kw = Some b ->
  exists v l, pick p idx pos kw = Some v /\ bind r (S idx) pos kw = Some l /\ b = (p_name p, v) :: l.
Proof.
  intros p r idx pos kw b Hb. rewrite bind_cons in Hb.
  destruct (pick p idx pos kw) as [v|]; [|discriminate Hb].
  destruct (bind r (S idx) pos kw) as [l|]; [|discriminate Hb].
  injection Hb as <-. exists v, l. repeat split.
Qed.

Lemma all_pok_cons : forall p r, all_pok (p :: r) = true -> p_kind p = POK /\ all_pok r = true.
Proof.
  intros p r Hall. unfold all_pok in Hall. cbn [forallb] in Hall.
  apply andb_prop in Hall. destruct Hall as [Hp Hr].
  split; [|exact Hr]. destruct (p_kind p); try discriminate Hp. reflexivity.
Qed.

Section P.
  Variable H : bytes -> bytes.
  Variable mx : option N.

  (** ** the hash dds computes for one parameter, on each route *)

  Definition rt_head (p : param) (idx : nat) (pos : list pyval) (kw : list (bytes * pyval))
    : actx_err + option bytes :=
    match nth_error pos idx with
    | Some v => hash_opt H mx (rt_value v)
    | None =>
      match kw_lookup (p_name p) kw with
      | Some v => hash_opt H mx (rt_value v)
      | None =>
        match p_default p with
        | Some d => hash_opt H mx (subst_default d)
        | None => match p_kind p with VARKW => inr None | _ => inl AEMissing end
        end
      end
    end.

  Definition ast_head (p : param) (idx : nat) (pos : list aarg) (kw : list (bytes * aarg))
    : actx_err + option bytes :=
    match nth_error pos idx with
    | Some a => process_arg H mx a
    | None =>
      match kw_lookup (p_name p) kw with
      | Some a => process_arg H mx a
      | None =>
        match p_default p with
        | Some d => hash_opt H mx (subst_default d)
        | None => inr None
        end
      end
    end.

  Lemma arg_ctx_rt_cons : forall p r idx pos kw, p_kind p = POK ->
    arg_ctx_rt H mx (p :: r) idx pos kw =
    match rt_head p idx pos kw with
    | inl e => inl e
    | inr ho => match arg_ctx_rt H mx r (S idx) pos kw with inl e => inl e | inr l => inr ((p_name p, ho) :: l) end
    end.
  Proof.
    intros p r idx pos kw Hk. cbn [arg_ctx_rt]. unfold rt_head. rewrite Hk. reflexivity.
  Qed.

  Lemma arg_ctx_ast_cons : forall p r idx pos kw, p_kind p = POK ->
    arg_ctx_ast H mx (p :: r) idx pos kw =
    match ast_head p idx pos kw with
    | inl e => inl e
    | inr ho => match arg_ctx_ast H mx r (S idx) pos kw with inl e => inl e | inr l => inr ((p_name p, ho) :: l) end
    end.
  Proof.
    intros p r idx pos kw Hk. cbn [arg_ctx_ast]. unfold ast_head. rewrite Hk. reflexivity.
  Qed.

  Lemma named_cons : forall n v r,
    named_of_binding H mx ((n, v) :: r) =
    match hash_opt H mx (subst_none v) with
    | inl e => inl e
    | inr ho => match named_of_binding H mx r with inl e => inl e | inr l => inr ((n, ho) :: l) end
    end.
  Proof. intros n v r. reflexivity. Qed.

  Lemma rt_head_pick : forall p idx pos kw v, pick p idx pos kw = Some v ->
    rt_head p idx pos kw = hash_opt H mx (subst_none v).
  Proof.
    intros p idx pos kw v Hp. unfold pick in Hp. unfold rt_head.
    destruct (nth_error pos idx) as [v0|].
    - injection Hp as ->. rewrite rt_value_eq. reflexivity.
    - destruct (kw_lookup (p_name p) kw) as [v0|].
      + injection Hp as ->. rewrite rt_value_eq. reflexivity.
      + rewrite Hp, subst_default_eq. reflexivity.
  Qed.

  Lemma ast_head_pick : forall p idx pos kw v, pick p idx pos kw = Some v ->
    ast_head p idx (lits pos) (kwlits kw) = hash_opt H mx (subst_none v).
  Proof.
    intros p idx pos kw v Hp. unfold pick in Hp. unfold ast_head.
    rewrite nth_error_lits, kw_lookup_kwlits.
    destruct (nth_error pos idx) as [v0|]; cbn [option_map].
    - injection Hp as ->. reflexivity.
    - destruct (kw_lookup (p_name p) kw) as [v0|]; cbn [option_map].
      + injection Hp as ->. reflexivity.
      + rewrite Hp, subst_default_eq. reflexivity.
  Qed.

  (** ** 1, 2. both routes compute the context of the binding (any starting index) *)

  Lemma rt_by_binding_idx : forall ps idx pos kw b,
    all_pok ps = true -> bind ps idx pos kw = Some b ->
    arg_ctx_rt H mx ps idx pos kw = named_of_binding H mx b.
  Proof.
    induction ps as [|p r IHr]; intros idx pos kw b Hall Hb.
    - cbn [bind] in Hb. injection Hb as <-. reflexivity.
    - apply all_pok_cons in Hall. destruct Hall as [Hk Hr].
      apply bind_cons_inv in Hb. destruct Hb as (v & l & Hpick & Hl & ->).
      rewrite (arg_ctx_rt_cons p r idx pos kw Hk), named_cons.
      rewrite (rt_head_pick p idx pos kw v Hpick).
      rewrite (IHr (S idx) pos kw l Hr Hl). reflexivity.
  Qed.

  Lemma ast_by_binding_idx : forall ps idx pos kw b,
    all_pok ps = true -> bind ps idx pos kw = Some b ->
    arg_ctx_ast H mx ps idx (lits pos) (kwlits kw) = named_of_binding H mx b.
  Proof.
    induction ps as [|p r IHr]; intros idx pos kw b Hall Hb.
    - cbn [bind] in Hb. injection Hb as <-. reflexivity.
    - apply all_pok_cons in Hall. destruct Hall as [Hk Hr].
      apply bind_cons_inv in Hb. destruct Hb as (v & l & Hpick & Hl & ->).
      rewrite (arg_ctx_ast_cons p r idx (lits pos) (kwlits kw) Hk), named_cons.
      rewrite (ast_head_pick p idx pos kw v Hpick).
      rewrite (IHr (S idx) pos kw l Hr Hl). reflexivity.
  Qed.

  (* 1. a direct call is hashed as its binding, whatever the spelling *)
  Theorem rt_by_binding : forall ps pos kw b,
    all_pok ps = true -> bind ps 0 pos kw = Some b ->
    arg_ctx_rt H mx ps 0 pos kw = named_of_binding H mx b.
  Proof. intros ps pos kw b Hall Hb. apply rt_by_binding_idx; assumption. Qed.

  (* 2. so is a call whose arguments are literals in the source *)
  Theorem ast_by_binding : forall ps pos kw b,
    all_pok ps = true -> bind ps 0 pos kw = Some b ->
    arg_ctx_ast H mx ps 0 (lits pos) (kwlits kw) = named_of_binding H mx b.
  Proof. intros ps pos kw b Hall Hb. apply ast_by_binding_idx; assumption. Qed.

  (* 3. C13, first half: all spellings of one binding share one result, across the two routes *)
  Corollary spelling_invariant : forall ps pos1 kw1 pos2 kw2 b,
    all_pok ps = true -> bind ps 0 pos1 kw1 = Some b -> bind ps 0 pos2 kw2 = Some b ->
    arg_ctx_rt H mx ps 0 pos1 kw1 = arg_ctx_rt H mx ps 0 pos2 kw2 /\
    arg_ctx_ast H mx ps 0 (lits pos1) (kwlits kw1) = arg_ctx_rt H mx ps 0 pos2 kw2.
  Proof.
    intros ps pos1 kw1 pos2 kw2 b Hall Hb1 Hb2.
    rewrite (rt_by_binding ps pos1 kw1 b Hall Hb1), (rt_by_binding ps pos2 kw2 b Hall Hb2),
            (ast_by_binding ps pos1 kw1 b Hall Hb1).
    split; reflexivity.
  Qed.

  (** ** 4. different bindings give different contexts *)

  Lemma hash_opt_inr : forall v ho, hash_opt H mx v = inr ho ->
    exists h, ho = Some h /\ dds_hash H mx v = HOk h.
  Proof.
    intros v ho Hh. unfold hash_opt in Hh.
    destruct (dds_hash H mx v) as [h| | | | |]; try discriminate Hh.
    injection Hh as <-. exists h. split; reflexivity.
  Qed.

  Lemma hash_opt_ok_iff : forall v h, hash_opt H mx v = inr (Some h) <-> dds_hash H mx v = HOk h.
  Proof.
    intros v h. split.
    - intros Hh. apply hash_opt_inr in Hh. destruct Hh as (h' & Eh & Hd). injection Eh as ->. exact Hd.
    - intros Hd. unfold hash_opt. rewrite Hd. reflexivity.
  Qed.

  Lemma named_cons_inv : forall n v r l, named_of_binding H mx ((n, v) :: r) = inr l ->
    exists ho l', hash_opt H mx (subst_none v) = inr ho /\ named_of_binding H mx r = inr l' /\ l = (n, ho) :: l'.
  Proof.
    intros n v r l Hn. rewrite named_cons in Hn.
    destruct (hash_opt H mx (subst_none v)) as [e|ho]; [discriminate Hn|].
    destruct (named_of_binding H mx r) as [e|l']; [discriminate Hn|].
    injection Hn as <-. exists ho, l'. repeat split.
  Qed.

  Theorem binding_injective : (forall x, hex64 (H x)) -> forall b1 b2 l,
    map fst b1 = map fst b2 ->
    Forall (fun nv => clean (subst_none (snd nv)) = true) b1 ->
    Forall (fun nv => clean (subst_none (snd nv)) = true) b2 ->
    named_of_binding H mx b1 = inr l -> named_of_binding H mx b2 = inr l ->
    Forall2 (fun x y => fst x = fst y /\ norm (subst_none (snd x)) = norm (subst_none (snd y))) b1 b2 \/ H_collision H.
  Proof.
    intros Hhex. induction b1 as [|[n1 v1] r1 IH]; intros b2 l Hnames C1 C2 N1 N2.
    - destruct b2 as [|nv2 r2]; [|discriminate Hnames]. left. constructor.
    - destruct b2 as [|[n2 v2] r2]; [discriminate Hnames|].
      cbn [map fst] in Hnames. injection Hnames as En Hnames.
      inversion C1 as [|x1 t1 Cv1 Cr1]; subst x1 t1.
      inversion C2 as [|x2 t2 Cv2 Cr2]; subst x2 t2.
      cbn [snd] in Cv1, Cv2.
      apply named_cons_inv in N1. destruct N1 as (ho1 & l1 & Hh1 & Hr1 & El1).
      apply named_cons_inv in N2. destruct N2 as (ho2 & l2 & Hh2 & Hr2 & El2).
      rewrite El1 in El2. injection El2 as _ Eho El. subst ho2 l2.
      apply hash_opt_inr in Hh1. destruct Hh1 as (h1 & Eh1 & Hd1).
      apply hash_opt_inr in Hh2. destruct Hh2 as (h2 & Eh2 & Hd2).
      rewrite Eh1 in Eh2. injection Eh2 as <-.
      destruct (hash_inj_clean H Hhex mx _ _ h1 Cv1 Cv2 Hd1 Hd2) as [Enorm|Hcol]; [|right; exact Hcol].
      destruct (IH r2 l1 Hnames Cr1 Cr2 Hr1 Hr2) as [Hrest|Hcol]; [|right; exact Hcol].
      left. constructor; [|exact Hrest]. cbn [fst snd]. split; [exact En|exact Enorm].
  Qed.

End P.

(* ------------------------------------------------------------------------------------------------ *)
(** * 5. the marker string is a genuine confusion (known finding)                                     *)
(* ------------------------------------------------------------------------------------------------ *)

(* f(a, b=None) called as f(1) and as f(1, "__none__") *)
Theorem marker_collision : exists ps pos1 pos2 b1 b2,
  all_pok ps = true /\ bind ps 0 pos1 [] = Some b1 /\ bind ps 0 pos2 [] = Some b2 /\ b1 <> b2 /\
  forall H mx, arg_ctx_rt H mx ps 0 pos1 [] = arg_ctx_rt H mx ps 0 pos2 [].
Proof.
  exists [Param (bs "a") POK None; Param (bs "b") POK (Some VNone)],
         [VInt 1], [VInt 1; VStr (bs "__none__")],
         [(bs "a", VInt 1); (bs "b", VNone)], [(bs "a", VInt 1); (bs "b", VStr (bs "__none__"))].
  split; [reflexivity|].
  split; [reflexivity|].
  split; [reflexivity|].
  split; [intros E; discriminate E|].
  intros H mx.
  rewrite (rt_by_binding H mx _ [VInt 1] [] [(bs "a", VInt 1); (bs "b", VNone)]) by reflexivity.
  rewrite (rt_by_binding H mx _ [VInt 1; VStr (bs "__none__")] []
             [(bs "a", VInt 1); (bs "b", VStr (bs "__none__"))]) by reflexivity.
  rewrite !named_cons. unfold subst_none, default_marker. rewrite default_marker_value. reflexivity.
Qed.

(* ------------------------------------------------------------------------------------------------ *)
(** * 6. non-vacuity                                                                                  *)
(* ------------------------------------------------------------------------------------------------ *)

Example binding_example :
  let ps := [Param (bs "a") POK None; Param (bs "b") POK (Some (VInt 0)); Param (bs "c") POK (Some VNone)] in
  bind ps 0 [VInt 5] [] = bind ps 0 [] [(bs "c", VNone); (bs "a", VInt 5); (bs "b", VInt 0)] /\
  bind ps 0 [VInt 5] [] = Some [(bs "a", VInt 5); (bs "b", VInt 0); (bs "c", VNone)].
Proof. vm_compute. split; reflexivity. Qed.

Print Assumptions spelling_invariant.
Print Assumptions binding_injective.
