(* Runner for argument contexts (C13). *)
From Coq Require Import List Ascii String ZArith NArith Bool.
From DDS Require Import Base.Bytes Base.Sha256 L0_Hash.PyVal L0_Hash.DdsHash L0_Hash.RunHash L1_Args.ArgCtx.
Import ListNotations.
Local Open Scope string_scope.

Definition render_named (r : actx_err + list (bytes * option bytes)) : string :=
  match r with
  | inl (AEHash h) => render_hres h
  | inl AENotImplemented => "low:NotImplementedError"
  | inl AEMissing => "dds:NONE"
  | inr l => "ok:" ++ String.concat "," (map (fun nh => show (fst nh) ++ "=" ++ match snd nh with Some h => show h | None => "None" end) l)
  end.

Definition run_rt (ps : list param) (pos : list pyval) (kw : list (bytes * pyval)) : string :=
  render_named (arg_ctx_rt sha256_hex (Some 10000%N) ps 0 pos kw).
Definition run_ast (ps : list param) (pos : list aarg) (kw : list (bytes * aarg)) : string :=
  render_named (arg_ctx_ast sha256_hex (Some 10000%N) ps 0 pos kw).
