(* Faithful model of dds/fun_args.py: get_arg_ctx (values passed to a top-level keep / eval) and get_arg_ctx_ast
   (arguments as seen in the source of an evaluated function). *)
From Coq Require Import List Ascii String ZArith NArith Bool.
From DDS Require Import Base.Bytes Extracted.ConstHash L0_Hash.PyVal L0_Hash.DdsHash.
Import ListNotations.

Inductive pkind := POK | VARKW | VARPOS | KWONLY | POSONLY.
Record param := Param { p_name : bytes; p_kind : pkind; p_default : option pyval }.

Inductive aarg := ALit (v : pyval) | ARun.   (* ast.Constant with value v | any other expression *)

Inductive actx_err :=
| AEHash (r : hres)          (* dds_hash failed on an argument (coded DDS error) *)
| AENotImplemented           (* NotImplementedError: unsupported parameter kind *)
| AEMissing.                 (* DDSException without code: missing argument *)

Definition default_marker : bytes := bs c_default_marker.

(* Python truthiness of the values that can occur as defaults *)
Definition py_truthy (v : pyval) : bool :=
  match v with
  | VNone => false
  | VBool b => b
  | VInt z => negb (Z.eqb z 0)
  | VFloat b => negb (bytes_eqb b (hx "0000000000000000") || bytes_eqb b (hx "8000000000000000"))
  | VStr s | VStrBad s => negb (Nat.eqb (List.length s) 0)
  | VList l | VTuple l => negb (Nat.eqb (List.length l) 0)
  | VDict kvs => negb (Nat.eqb (List.length kvs) 0)
  | _ => true
  end.

(* how a default value / a None literal is replaced by the marker string.
   c_default_style = "or": `p.default or MARK` (every falsy default collapses);  "is_none": only None does *)
Definition subst_default (v : pyval) : pyval :=
  if String.eqb c_default_style "or" then (if py_truthy v then v else VStr default_marker)
  else match v with VNone => VStr default_marker | _ => v end.
Definition subst_none (v : pyval) : pyval := match v with VNone => VStr default_marker | _ => v end.

Section Args.
  Variable H : bytes -> bytes.
  Variable maxlen : option N.

  Definition hash_opt (v : pyval) : actx_err + option bytes :=
    match dds_hash H maxlen v with HOk h => inr (Some h) | e => inl (AEHash e) end.

  Fixpoint kw_lookup {A} (n : bytes) (kw : list (bytes * A)) : option A :=
    match kw with
    | [] => None
    | (k, v) :: r => if bytes_eqb n k then Some v else kw_lookup n r
    end.

  (* run-time values: dds.keep(path, f, *pos, **kw) / dds.eval(f, *pos, **kw) at top level.
     explicit_none_marker: after the repair of F04 an explicit None is hashed like a None default *)
  Definition rt_value (v : pyval) : pyval :=
    if String.eqb c_default_style "or" then v else subst_none v.

  Fixpoint arg_ctx_rt (ps : list param) (idx : nat) (pos : list pyval) (kw : list (bytes * pyval))
    : actx_err + list (bytes * option bytes) :=
    match ps with
    | [] => inr []
    | p :: r =>
      match p_kind p with
      | POK | VARKW =>
        let h :=
          match nth_error pos idx with
          | Some v => hash_opt (rt_value v)
          | None =>
            match kw_lookup (p_name p) kw with
            | Some v => hash_opt (rt_value v)
            | None =>
              match p_default p with
              | Some d => hash_opt (subst_default d)
              | None => match p_kind p with VARKW => inr None | _ => inl AEMissing end
              end
            end
          end in
        match h with
        | inl e => inl e
        | inr ho => match arg_ctx_rt r (S idx) pos kw with inl e => inl e | inr l => inr ((p_name p, ho) :: l) end
        end
      | _ => inl AENotImplemented
      end
    end.

  Definition process_arg (a : aarg) : actx_err + option bytes :=
    match a with
    | ALit v => hash_opt (subst_none v)
    | ARun => inr None
    end.

  Fixpoint arg_ctx_ast (ps : list param) (idx : nat) (pos : list aarg) (kw : list (bytes * aarg))
    : actx_err + list (bytes * option bytes) :=
    match ps with
    | [] => inr []
    | p :: r =>
      match p_kind p with
      | POK | VARKW | VARPOS =>
        let h :=
          match nth_error pos idx with
          | Some a => process_arg a
          | None =>
            match kw_lookup (p_name p) kw with
            | Some a => process_arg a
            | None =>
              match p_default p with
              | Some d => hash_opt (subst_default d)
              | None => inr None
              end
            end
          end in
        match h with
        | inl e => inl e
        | inr ho => match arg_ctx_ast r (S idx) pos kw with inl e => inl e | inr l => inr ((p_name p, ho) :: l) end
        end
      | _ => inl AENotImplemented
      end
    end.
End Args.
