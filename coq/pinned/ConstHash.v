(* REGENERATED on every run by harness/extract_constants.py from /repo's current source.
   Do not edit by hand. *)
From Coq Require Import String List ZArith.
Import ListNotations.
Local Open Scope string_scope.

(* dds/fun_args.py : dds_hash *)
Definition c_none_marker : string := "__DDS_NONE__".
Definition c_list_sep : string := "|".
Definition c_dict_sep : string := "|".
Definition c_int_fmt : string := "!l".
Definition c_float_fmt : string := "!d".
Definition c_dispatch_order : list string :=
  ["None"; "str"; "float"; "int"; "CanonicalPath"; "list"; "tuple"; "PurePosixPath"; "OrderedDict"; "dict"; "dataclass"; "datetime"].
Definition c_default_marker : string := "__none__".
Definition c_default_style : string := "or".
Definition c_check_len_guard : string := "max_sequence_size is not None and len(x) > max_sequence_size".
Definition c_bigint_prefix_hex : string := "ff5f5f4444535f424947494e545f5f".
Definition c_bigint_fmt : string := "x".
Definition c_int_range : string := "-2 ** 31 <= elt < 2 ** 31".
Definition c_str_encode_args : list string := ["utf-8"; "surrogatepass"].
