"""In-process fake of the Databricks dbutils.fs API used by dds.codecs.databricks.DBFSStore (trusted harness part).
Files live in a dict keyed by the URI string; 'file://' URIs are the local file system."""
import os
import shutil


class FakeFS(object):
    def __init__(self):
        self.files = {}      # uri -> bytes
        self.calls = []      # recorded operations

    @staticmethod
    def _local(uri):
        return uri[len("file://"):] if uri.startswith("file://") else None

    def head(self, path, max_bytes=65536):
        self.calls.append(("head", path))
        if path not in self.files:
            raise Exception("java.io.FileNotFoundException: " + path)
        return self.files[path][:max_bytes].decode("utf-8")

    def put(self, path, contents, overwrite=False):
        self.calls.append(("put", path))
        if path in self.files and not overwrite:
            raise Exception("FileAlreadyExistsException: " + path)
        self.files[path] = contents.encode("utf-8")
        return True

    def cp(self, src, dst, recurse=False):
        self.calls.append(("cp", src, dst))
        ls, ld = self._local(src), self._local(dst)
        if ls is not None:
            data = open(ls, "rb").read()
        else:
            if src not in self.files:
                raise Exception("java.io.FileNotFoundException: " + src)
            data = self.files[src]
        if ld is not None:
            with open(ld, "wb") as f:
                f.write(data)
        else:
            self.files[dst] = data
        return True

    def rm(self, path, recurse=False):
        self.calls.append(("rm", path))
        for k in [k for k in self.files if k == path or (recurse and k.startswith(path.rstrip("/") + "/"))]:
            del self.files[k]
        return True


class FakeDbutils(object):
    def __init__(self):
        self.fs = FakeFS()
