"""In-process fake of the Databricks dbutils.fs API used by dds.codecs.databricks.DBFSStore (trusted harness part).
Files live in a dict keyed by the URI string; 'file://' URIs are the local file system.

Fault injection (used by drive_dbfs_fault.py): `arm(n, mode, exc)` makes the n-th file-system call from now on fail once:
  mode 'before' : the call raises and has no effect (request never reached the service)
  mode 'after'  : the call has its full effect and then raises (the answer was lost / the process was killed on return)
  mode 'torn'   : cp (and put when torn_put is set) leaves a truncated destination and raises
  exc 'error'   : an ordinary Exception (transient service error: code that catches Exception sees it)
  exc 'kill'    : a BaseException (the process is interrupted: no handler short of a bare except sees it)
Without arm() the behaviour is the one of the plain fake."""
import os
import shutil


class InjectedFault(Exception):
    pass


class InjectedKill(BaseException):
    pass


class FakeFS(object):
    def __init__(self):
        self.files = {}      # uri -> bytes
        self.calls = []      # recorded operations
        self.fault = None    # armed fault: {"n": calls left before the faulty one, "mode", "exc", "torn_put"}
        self.fired = None    # the call the fault hit

    # -- fault injection
    def arm(self, n, mode="before", exc="error", torn_put=False):
        self.fault = {"n": int(n), "mode": mode, "exc": exc, "torn_put": torn_put}
        self.fired = None

    def disarm(self):
        self.fault = None

    def _gate(self, *call):
        """None for an ordinary call; the mode when this call is the faulty one."""
        self.calls.append(call)
        if self.fault is None:
            return None
        self.fault["n"] -= 1
        if self.fault["n"] != 0:
            return None
        self.fired = call
        return self.fault["mode"]

    def _raise(self, call):
        f, self.fault = self.fault, None
        msg = "injected fault (%s, %s) at %s" % (f["mode"], f["exc"], " ".join(str(c) for c in call))
        raise (InjectedKill if f["exc"] == "kill" else InjectedFault)(msg)

    @staticmethod
    def _local(uri):
        return uri[len("file://"):] if uri.startswith("file://") else None

    def head(self, path, max_bytes=65536):
        if self._gate("head", path) is not None:
            self._raise(("head", path))
        if path not in self.files:
            raise Exception("java.io.FileNotFoundException: " + path)
        return self.files[path][:max_bytes].decode("utf-8")

    def put(self, path, contents, overwrite=False):
        mode = self._gate("put", path)
        if mode == "before" or (mode == "torn" and not self.fault["torn_put"]):
            self._raise(("put", path))
        if path in self.files and not overwrite:
            raise Exception("FileAlreadyExistsException: " + path)
        data = contents.encode("utf-8")
        self.files[path] = data[:len(data) // 2] if mode == "torn" else data
        if mode is not None:
            self._raise(("put", path))
        return True

    def cp(self, src, dst, recurse=False):
        mode = self._gate("cp", src, dst)
        if mode == "before":
            self._raise(("cp", src, dst))
        ls, ld = self._local(src), self._local(dst)
        if ls is not None:
            data = open(ls, "rb").read()
        else:
            if src not in self.files:
                raise Exception("java.io.FileNotFoundException: " + src)
            data = self.files[src]
        if mode == "torn":
            data = data[:len(data) // 2]
        if ld is not None:
            with open(ld, "wb") as f:
                f.write(data)
        else:
            self.files[dst] = data
        if mode is not None:
            self._raise(("cp", src, dst))
        return True

    def rm(self, path, recurse=False):
        mode = self._gate("rm", path)
        if mode in ("before", "torn"):
            self._raise(("rm", path))
        for k in [k for k in self.files if k == path or (recurse and k.startswith(path.rstrip("/") + "/"))]:
            del self.files[k]
        if mode is not None:
            self._raise(("rm", path))
        return True


class FakeDbutils(object):
    def __init__(self):
        self.fs = FakeFS()
