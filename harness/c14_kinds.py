"""C14, package-kind part: the boundary of the accepted modules must not depend on WHAT KIND of package or module the code
lives in.  The trees of harness/c14_shapes.py are made of regular packages (a directory with an empty __init__.py) and
single-file modules only; here every level of the package chain apk.n1...n<d-1> (depth 1..6, accepted prefix at every depth,
few / many accepted packages, non-accepted twin in a separate tree / under a near-miss name / as a sibling) has a KIND:
  regular                 directory with an empty __init__.py
  namespace               directory WITHOUT __init__.py (PEP 420: the module has __file__ None and a computed __path__),
                          at every level including the accepted prefix itself
  init-imports-children   __init__.py that imports all its sub-modules eagerly (from . import a, b, ...)
the tree has a CONTAINER (plain directory / namespace packages split over two sys.path roots / a zip file on sys.path /
top-level packages reached through a symbolic link), the accepted pipeline module has a kind too (vpipe.main in a regular
package, in a namespace package, or the single-file module vmain) and the function `base` is reached through one of the
LEAF kinds below (single-file module, __init__ of a package, file that is a symbolic link, relative imports of a sibling / of
a module of the parent package, star import governed by __all__ through a module or a package __init__, sub-module reached
as an attribute of its package, sub-module imported lazily inside the function - already loaded by the pipeline or not -,
neighbours that are built-in / frozen modules without __file__), imported in the pipeline with one of 7 import forms (the 5
of c14_shapes + attribute chains that start at an alias of the top-level package / of a package in the middle of the chain).
Every leaf exists on the accepted and on the non-accepted side.  A history of edits (code / tracked variable, accepted /
non-accepted side, random order) is replayed by fresh processes on one local store.  Expected, from the property alone:
  * an edit on the non-accepted side changes no signature; an edit on the accepted side changes the signature of every root
    that reaches it - whatever the kinds - and of no other root; the kept value then equals plain execution (no stale value);
  * an accepted module is never refused as "not accepted" (MODULE_NOT_FOUND) when plain execution works;
  * the data function of a non-accepted module is refused with a DDS error that names the module, whatever the kinds."""
import collections
import concurrent.futures as cf
import json
import os
import shutil
import tempfile
import time
import zipfile

import common as C
import c14_shapes as S

LEVEL_KINDS = ["regular", "namespace", "init-imports-children"]
CONTAINERS = ["dir", "split-roots", "zip", "symlinked-top"]
PIPES = {"package": "vpipe.main", "namespace-package": "vpipe.main", "single-file": "vmain"}
FORMS = S.FORMS + ["import-top-as-chain", "chain-from-middle"]

TARGET = "VAR{i} = {var}\n\n\ndef base{i}():\n    return ({salt!r}, VAR{i})\n"
VIA = "\n\n\ndef via{i}():\n    return {c}()\n"

# leaf kind -> files of the scenario relative to the package of its side ({T} = the edited text: VAR<i> and base<i>; {P} = the
# dotted package), the exposing module (relative), the exposed name, how the root calls it ({r} = the exposed name as
# imported), imports the root needs besides; link: that file is a symbolic link to a file outside the package tree;
# known: family of a finding already recorded for another property (reported under its own key)
LEAVES = {
    "module": dict(files={"d{i}.py": "{T}"}, mod="d{i}", name="base{i}"),
    "package-init": dict(files={"d{i}/__init__.py": "{T}"}, mod="d{i}", name="base{i}"),
    "module-symlink": dict(files={"d{i}.py": "{T}"}, link="d{i}.py", mod="d{i}", name="base{i}"),
    "rel-from-sibling": dict(files={"h{i}.py": "{T}", "d{i}.py": "from .h{i} import base{i}" + VIA.format(i="{i}", c="base{i}")}, mod="d{i}", name="via{i}"),
    "rel-import-sibling": dict(files={"h{i}.py": "{T}", "d{i}.py": "from . import h{i}" + VIA.format(i="{i}", c="h{i}.base{i}")}, mod="d{i}", name="via{i}"),
    "rel-from-parent": dict(files={"h{i}.py": "{T}", "q{i}/__init__.py": "", "q{i}/d{i}.py": "from ..h{i} import base{i} as b{i}" + VIA.format(i="{i}", c="b{i}")},
                            mod="q{i}.d{i}", name="via{i}"),
    "rel-import-parent": dict(files={"h{i}.py": "{T}", "q{i}/__init__.py": "", "q{i}/d{i}.py": "from .. import h{i}" + VIA.format(i="{i}", c="h{i}.base{i}")},
                              mod="q{i}.d{i}", name="via{i}"),
    "star-all-module": dict(files={"h{i}.py": "__all__ = [\"base{i}\"]\n\n{T}", "d{i}.py": "from .h{i} import *\n"}, mod="d{i}", name="base{i}"),
    "star-all-init": dict(files={"d{i}/impl.py": "__all__ = [\"base{i}\"]\n\n{T}", "d{i}/__init__.py": "from .impl import *\n\n__all__ = [\"base{i}\"]\n"}, mod="d{i}", name="base{i}"),
    "submodule-attribute": dict(files={"d{i}/impl.py": "{T}", "d{i}/__init__.py": "from . import impl\n"}, mod="d{i}", name="impl", call="{r}.base{i}()"),
    "lazy-import-dotted": dict(files={"h{i}.py": "{T}", "d{i}.py": "def via{i}():\n    import {P}.h{i}\n    return {P}.h{i}.base{i}()\n"}, mod="d{i}", name="via{i}"),
    "lazy-import-dotted-preloaded": dict(files={"h{i}.py": "{T}", "d{i}.py": "def via{i}():\n    import {P}.h{i}\n    return {P}.h{i}.base{i}()\n"}, mod="d{i}", name="via{i}",
                                         root_imports="import {P}.h{i}"),
    "lazy-import-alias": dict(files={"h{i}.py": "{T}", "d{i}.py": "def via{i}():\n    from {P} import h{i} as lz{i}\n    return lz{i}.base{i}()\n"}, mod="d{i}", name="via{i}",
                              known="function-local-import-alias"),
    "lazy-import-relative": dict(files={"h{i}.py": "{T}", "d{i}.py": "def via{i}():\n    from .h{i} import base{i} as lz{i}\n    return lz{i}()\n"}, mod="d{i}", name="via{i}",
                                 known="function-local-import-alias"),
    "builtin-neighbours": dict(files={"d{i}.py": "{T}"}, mod="d{i}", name="base{i}", root_imports="import sys\nimport itertools\nimport posixpath",
                               call="(sys.getrecursionlimit() > 0, list(itertools.chain([1], [2])), posixpath.join(\"a\", \"b\"), {r}())"),
}
DATA_FUN = "\n\nimport dds  # noqa\n\n\n@dds.data_function(\"/data_kind{i}\")\ndef data_fun{i}():\n    return base{i}()\n"


def pipe_module(cfg):
    return PIPES[cfg["pipe"]]


def accept_list(cfg):
    acc, _ = S.packages(cfg)
    fill = [f"otherpkg{j}" for j in range(cfg["nfill"])]
    pos = cfg.get("accept_pos", 0) % (len(fill) + 1)
    return fill[:pos] + [".".join(acc[:cfg["accept_depth"]])] + fill[pos:] + [pipe_module(cfg).split(".")[0]]


def scenarios(cfg):
    """Every leaf kind on the accepted and on the non-accepted side, import forms rotated."""
    res = []
    for leaf in LEAVES:
        for side in ("acc", "ext"):
            i = len(res)
            res.append({"i": i, "leaf": leaf, "side": side, "form": FORMS[(i + cfg["form_offset"]) % len(FORMS)]})
    return res


def package_of(cfg, sc):
    acc, ext = S.packages(cfg)
    return acc if sc["side"] == "acc" else ext


def root_of(cfg, sc):
    """Index of the sys.path root that holds the files of the scenario: the second one only when namespace packages are split."""
    return 1 if cfg["container"] == "split-roots" and sc["i"] % 4 >= 2 and all(k == "namespace" for k in cfg["levels"]) else 0


def data_scenario(cfg):
    return [sc for sc in scenarios(cfg) if sc["leaf"] == "module" and sc["side"] == "ext"][0]


def import_and_call(cfg, sc):
    i, lf = sc["i"], LEAVES[sc["leaf"]]
    E = ".".join(package_of(cfg, sc) + [lf["mod"].format(i=i)])
    n = lf["name"].format(i=i)
    parts = E.split(".")
    parent, _, leaf = E.rpartition(".")
    form = sc["form"]
    if form == "chain-from-middle" and len(parts) < 3:
        form = "import-top-as-chain"
    if form == "from-import":
        imp, ref = f"from {E} import {n}", n
    elif form == "from-import-as":
        imp, ref = f"from {E} import {n} as r{i}_{n}", f"r{i}_{n}"
    elif form == "import-as-module":
        imp, ref = f"import {E} as m{i}", f"m{i}.{n}"
    elif form == "from-parent-import-module":
        imp, ref = f"from {parent} import {leaf} as lm{i}", f"lm{i}.{n}"
    elif form == "import-top-as-chain":
        imp, ref = f"import {E}\nimport {parts[0]} as t{i}", ".".join([f"t{i}"] + parts[1:] + [n])
    elif form == "chain-from-middle":
        j = (len(parts) - 1) // 2
        imp, ref = f"import {E}\nimport {'.'.join(parts[:j + 1])} as c{i}", ".".join([f"c{i}"] + parts[j + 1:] + [n])
    else:
        imp, ref = f"import {E}", f"{E}.{n}"
    if lf.get("root_imports"):
        imp = lf["root_imports"].format(i=i, P=".".join(package_of(cfg, sc))) + "\n" + imp
    return imp, lf.get("call", "{r}()").format(r=ref, i=i)


def build(cfg, state):
    """-> (files {(root index, relative path): text}, owner {same key: scenario index}, links {keys that are symbolic links}).
    state: {"acc": (code edits, variable edits), "ext": (...)} applied to the edited text of every scenario of that side."""
    files, owner, links = {}, {}, set()
    imps, roots = ["import dds"], []
    dsc = data_scenario(cfg)
    for sc in scenarios(cfg):
        i, lf = sc["i"], LEAVES[sc["leaf"]]
        pk = package_of(cfg, sc)
        salt, var = state[sc["side"]]
        T = TARGET.format(i=i, salt=f"s{salt}", var=var + 1)
        for rel, text in lf["files"].items():
            key = (root_of(cfg, sc), "/".join(pk + [rel.format(i=i)]))
            files[key] = text.format(i=i, T=T, P=".".join(pk)) + (DATA_FUN.format(i=i) if i == dsc["i"] and "{T}" in text else "")
            owner[key] = i
            if lf.get("link") == rel and cfg["container"] != "zip":
                links.add(key)
        imp, call = import_and_call(cfg, sc)
        imps.append(imp)
        roots.append(f"def root{i}():\n    return ({sc['leaf']!r}, {call})\n")
    # the levels of the package chain, on both sides (the two sides share the levels above the accepted prefix of a sibling twin)
    for pk in S.packages(cfg):
        for j, kind in enumerate(cfg["levels"]):
            d = "/".join(pk[:j + 1]) + "/"
            for r in sorted(set(k[0] for k in files if k[1].startswith(d))):
                children = sorted(set(k[1][len(d):].split("/")[0] for k in files if k[0] == r and k[1].startswith(d)) - {"__init__.py"})
                if kind == "regular":
                    files[(r, d + "__init__.py")] = ""
                elif kind == "init-imports-children":
                    files[(r, d + "__init__.py")] = "from . import " + ", ".join(c[:-3] if c.endswith(".py") else c for c in children) + "\n"
    main = "\n".join(imps) + "\n\n\n" + "\n\n".join(roots)
    if cfg["pipe"] == "single-file":
        files[(0, "vmain.py")] = main
    else:
        files[(0, "vpipe/main.py")] = main
        if cfg["pipe"] == "package":
            files[(0, "vpipe/__init__.py")] = ""
    return files, owner, links


def materialise(base, cfg, files, links):
    """Writes the tree under base; -> (first sys.path root, the other sys.path entries)."""
    rdirs = [os.path.join(base, "tree"), os.path.join(base, "tree_b")]
    for d in rdirs + [os.path.join(base, "outside")]:
        shutil.rmtree(d, ignore_errors=True)
    if os.path.exists(os.path.join(base, "lib.zip")):
        os.remove(os.path.join(base, "lib.zip"))
    os.makedirs(rdirs[0])
    for (r, rel), text in files.items():
        fp = os.path.join(rdirs[r], *rel.split("/"))
        os.makedirs(os.path.dirname(fp), exist_ok=True)
        if (r, rel) in links:
            real = os.path.join(base, "outside", rel.replace("/", "__"))
            os.makedirs(os.path.dirname(real), exist_ok=True)
            open(real, "w").write(text)
            os.symlink(real, fp)
        else:
            open(fp, "w").write(text)
    paths = [rdirs[1]] if os.path.isdir(rdirs[1]) else []
    tops = sorted(t for t in os.listdir(rdirs[0]) if os.path.isdir(os.path.join(rdirs[0], t)) and t != "vpipe")
    if cfg["container"] == "zip":
        zp = os.path.join(base, "lib.zip")
        with zipfile.ZipFile(zp, "w") as z:
            for t in tops:
                for d, _, fs in os.walk(os.path.join(rdirs[0], t)):
                    z.writestr(os.path.relpath(d, rdirs[0]) + "/", "")
                    for f in sorted(fs):
                        z.write(os.path.join(d, f), os.path.relpath(os.path.join(d, f), rdirs[0]))
                shutil.rmtree(os.path.join(rdirs[0], t))
        paths.append(zp)
    elif cfg["container"] == "symlinked-top":
        for t in tops:
            real = os.path.join(base, "outside", "top_" + t)
            os.makedirs(os.path.dirname(real), exist_ok=True)
            shutil.move(os.path.join(rdirs[0], t), real)
            os.symlink(real, os.path.join(rdirs[0], t))
    return rdirs[0], paths


def sources(cfg, sc):
    """The files of one scenario before the first edit (for the replay file: readable without regenerating the tree)."""
    files, owner, links = build(cfg, {"acc": (0, 0), "ext": (0, 0)})
    imp, call = import_and_call(cfg, sc)
    res = {f"sys.path[{r}]/{rel}" + (" (symbolic link)" if (r, rel) in links else ""): t for (r, rel), t in files.items() if owner.get((r, rel)) == sc["i"]}
    pk = package_of(cfg, sc)
    for j, kind in enumerate(cfg["levels"]):
        ini = "/".join(pk[:j + 1]) + "/__init__.py"
        res[ini] = "(no such file: namespace package)" if kind == "namespace" else files.get((0, ini), "")[:300]
    res[pipe_module(cfg)] = f"{imp}\n\n\ndef root{sc['i']}():\n    return ({sc['leaf']!r}, {call})\n"
    return res


def data_target(cfg):
    sc = data_scenario(cfg)
    return ".".join(package_of(cfg, sc) + [f"d{sc['i']}"]) + f":data_fun{sc['i']}"


def run_cfg(cfg):
    """Replays the history of the configuration; -> list (one entry per step) of {root: {sig, value, plain, error}}."""
    base = tempfile.mkdtemp(prefix="c14k_", dir=C.scratch_dir())
    try:
        store = os.path.join(base, "store")
        state = {"acc": (0, 0), "ext": (0, 0)}
        names = [f"root{sc['i']}" for sc in scenarios(cfg)]
        outs = []
        for step in [None] + cfg["steps"]:
            if step:
                side, kind = step
                c, v = state[side]
                state[side] = (c + 1, v) if kind == "code" else (c, v + 1)
            root, paths = materialise(base, cfg, *build(cfg, state)[::2])
            o = C.run_driver("drive_shapes.py", {"root": root, "paths": paths, "accept": accept_list(cfg), "module": pipe_module(cfg), "roots": names, "store_dir": store,
                                                 "data_targets": [] if step else [data_target(cfg)]})
            if "__import__" in o:
                return {"cfg": cfg, "error": f"generated tree does not import at step {step}: {o['__import__']}"}
            outs.append(o)
        return {"cfg": cfg, "steps": outs}
    except Exception as e:  # noqa
        return {"cfg": cfg, "error": str(e)[-600:]}
    finally:
        shutil.rmtree(base, ignore_errors=True)


def describe(cfg, sc):
    pk = package_of(cfg, sc)
    imp, call = import_and_call(cfg, sc)
    chain = " / ".join(f"{n}: {k}" for n, k in zip(pk, cfg["levels"]))
    return (f"accept={accept_list(cfg)}, package chain [{chain}] in container {cfg['container']}, pipeline in a {cfg['pipe']}: base{sc['i']} of the "
            f"{'accepted' if sc['side'] == 'acc' else 'non-accepted'} package {'.'.join(pk)}, leaf kind {sc['leaf']}, used in {pipe_module(cfg)} as "
            f"`{imp.replace(chr(10), '; ')}` / `{call}`")


def judge(cfg, outs):
    """-> (violations [(key, what, scenario, step index)], refusals [(scenario, "dds" | "uncoded")]) from the property alone.
    A construct that is refused at every step of the history (no value is ever served) is not a violation: it is counted -
    unless an ACCEPTED module is refused as not accepted."""
    bad, refused = [], []
    acc, ext = S.packages(cfg)
    for sc in scenarios(cfg):
        g = f"root{sc['i']}"
        desc = describe(cfg, sc)
        known = LEAVES[sc["leaf"]].get("known")
        errs = [o[g]["error"] for o in outs]
        plain_ok = not any(str(o[g]["plain"]).startswith("exc:") for o in outs)
        nf = [j for j, e in enumerate(errs) if e and e.startswith("dds:MODULE_NOT_FOUND")]
        if sc["side"] == "acc" and nf and plain_ok:
            bad.append(("kind:accepted-module-refused-as-not-accepted", f"{desc}: dds.keep refuses the root at step {nf[0]} of the history {cfg['steps']} although every "
                        f"module involved is accepted: {errs[nf[0]][:200]} (plain execution gives {outs[nf[0]][g]['plain']})", sc, nf[0]))
            continue
        if all(errs):
            refused.append((sc, "dds" if all(e.startswith("dds:") for e in errs) else "uncoded"))
            continue
        if any(errs):
            si = [j for j, e in enumerate(errs) if e][0]
            bad.append(("kind:evaluation-fails-after-edit" if si else "kind:evaluation-fails-before-edit", f"{desc}: dds.keep fails at step {si} of the history "
                        f"{cfg['steps']} and not at the other steps: {errs[si][:160]} (plain execution gives {outs[si][g]['plain']})", sc, si))
            continue
        prev = outs[0][g]
        if prev["value"] != prev["plain"]:
            bad.append(("kind:wrong-value", f"{desc}: dds.keep on an empty store returned {prev['value']}, plain execution gives {prev['plain']}", sc, 0))
        for si, (step, o) in enumerate(zip(cfg["steps"], outs[1:]), 1):
            side, kind = step
            cur = o[g]
            what_edit = f"editing the {'body' if kind == 'code' else 'tracked variable VAR%d' % sc['i']} of base{sc['i']}"
            changed = cur["sig"] != prev["sig"]
            reaches = side == sc["side"] == "acc"
            if reaches and not changed:
                bad.append(("kind:accepted-edit-ignored" + (":" + known if known else ""), f"{desc}: {what_edit} did not change the signature of /out_{g}; dds.keep "
                            f"returned {cur['value']}, plain execution gives {cur['plain']}", sc, si))
            elif reaches and cur["value"] != cur["plain"]:
                bad.append(("kind:wrong-value", f"{desc}: after {what_edit} dds.keep returned {cur['value']}, plain execution gives {cur['plain']}", sc, si))
            elif changed and side == "ext":
                bad.append(("kind:non-accepted-edit-changes-signature", f"{desc}: editing the non-accepted modules under {'.'.join(ext)} ({kind}) changed the "
                            f"signature of /out_{g}", sc, si))
            elif changed and not reaches:
                bad.append(("kind:unrelated-accepted-edit-changes-signature", f"{desc}: editing the accepted modules under {'.'.join(acc)} ({kind}), none of "
                            f"which this root reaches, changed the signature of /out_{g}", sc, si))
            prev = cur
    # the data function of the non-accepted side
    t = data_target(cfg)
    d = (outs[0].get("__data__") or {}).get(t) or {"value": None, "error": "exc:missing"}
    sc = data_scenario(cfg)
    mod = t.split(":")[0]
    if not (d["error"] or "").startswith("dds:"):
        bad.append(("kind:unaccepted-data-function-evaluated", f"{describe(cfg, sc)}: the data function {t} of that non-accepted module gave "
                    f"{str(d['error'] or d['value'])[:120]} instead of a DDS error", sc, 0))
    elif mod not in d["error"].replace("/", "."):
        bad.append(("kind:error-does-not-name-module", f"{describe(cfg, sc)}: the error for the data function {t} does not name the module: {d['error'][:200]}", sc, 0))
    return bad, refused


def gen_cfgs(rng, tier):
    cfgs = []
    edits = [["acc", "code"], ["acc", "var"], ["ext", "code"], ["ext", "var"]]

    def add(levels, container="dir"):
        n, depth = len(cfgs), len(levels)
        # quick: one edit on each side (code and variable alternate between the configurations); otherwise the four edits
        steps = list(edits) if tier != "quick" else [edits[n % 2], edits[3 - n % 2]]
        rng.shuffle(steps)
        nf = (0, 3, 39)[(n // 3) % 3]
        cfgs.append({"depth": depth, "levels": list(levels), "container": container, "pipe": sorted(PIPES)[n % 3], "accept_depth": n % depth + 1,
                     "ext_kind": S.EXT_KINDS[n % 3], "nfill": nf, "accept_pos": rng.randint(0, nf), "form_offset": n % len(FORMS), "steps": steps})
    maxd = 4 if tier == "quick" else 6
    for depth in range(1, maxd + 1):
        # one namespace level at every position of an otherwise regular chain, then the whole chain made of namespace packages
        for p in range(depth):
            add(["namespace" if j == p else "regular" for j in range(depth)])
        add(["namespace"] * depth, "split-roots" if depth % 2 else "dir")
        # __init__ files that import their children, below / above a namespace level
        add(["init-imports-children" if j == depth - 1 else ("namespace", "regular")[(j + depth) % 2] for j in range(depth)])
    for container in CONTAINERS[1:]:
        for depth in ((2, 3) if tier == "quick" else (1, 2, 3, 4, 5, 6)):
            add(["namespace"] * depth if container == "split-roots" else [LEVEL_KINDS[(j + depth) % 2] for j in range(depth)], container)
    if tier != "quick":
        for depth in range(1, maxd + 1):
            for _ in range(8):
                levels = [rng.choice(LEVEL_KINDS) for _ in range(depth)]
                add(levels, rng.choice(CONTAINERS))
                cfgs[-1].update(accept_depth=rng.randint(1, depth), ext_kind=rng.choice(S.EXT_KINDS), nfill=rng.choice((0, 1, 9, 39)), pipe=rng.choice(sorted(PIPES)),
                                form_offset=rng.randrange(len(FORMS)))
    return cfgs


def run(rep, tier, seed, proof_ok, rng):
    t0 = time.time()
    cfgs = gen_cfgs(rng, tier)
    with cf.ThreadPoolExecutor(max_workers=C.NPROC) as ex:
        res = list(ex.map(run_cfg, cfgs))
    n_sc, n_checks, n_ok, seen, chains, dist = 0, 0, 0, set(), set(), collections.defaultdict(set)
    for r in res:
        cfg = r["cfg"]
        rep.case("kinds:" + json.dumps(cfg))
        if "error" in r:
            rep.violation("harness-error:c14k", r["error"][-300:], r, no_input=True)
            continue
        scs = scenarios(cfg)
        n_sc += len(scs)
        n_checks += len(scs) * (len(cfg["steps"]) + 1) + 1
        chains.add((tuple(cfg["levels"]), cfg["container"], cfg["pipe"]))
        for sc in scs:
            seen.add((sc["leaf"], sc["side"], sc["form"], tuple(sorted(set(cfg["levels"]))), cfg["container"]))
        bad, refused = judge(cfg, r["steps"])
        for sc, how in refused:
            dist[f"refused-{'by-dds' if how == 'dds' else 'with-uncoded-exception'}:{'accepted' if sc['side'] == 'acc' else 'non-accepted'}-side"].add(
                f"{sc['leaf']}/{sc['form']}/{cfg['container']}")
        n_ok += len(scs) - len(refused) - len(set(sc["i"] for _, _, sc, _ in bad))
        for key, what, sc, si in bad:
            g = f"root{sc['i']}"
            rep.violation(key, what, {"kind_case": cfg, "scenario": sc, "step": si, "accept": accept_list(cfg), "sources_before_the_edits": sources(cfg, sc),
                                      "observed": [o[g] for o in r["steps"]], "data_function": r["steps"][0].get("__data__")})
    rep.sample({"kind_case": cfgs[0], "scenarios": len(scenarios(cfgs[0]))})
    rep.extra["kind_part"] = {"configurations": len(cfgs), "level_kinds": len(LEVEL_KINDS), "containers": len(CONTAINERS), "pipeline_kinds": len(PIPES),
                              "leaf_kinds": len(LEAVES), "import_forms": len(FORMS), "distinct_chain_x_container_x_pipeline": len(chains), "scenarios": n_sc,
                              "distinct_leaf_side_form_levelkinds_container": len(seen), "edit_steps_per_configuration": len(cfgs[0]["steps"]), "root_evaluations_judged": n_checks,
                              "data_functions_of_non_accepted_modules": len(cfgs), "scenarios_tracked_as_expected": n_ok, "wall_s": round(time.time() - t0, 1),
                              **{k: sorted(v) for k, v in sorted(dist.items())}}


def replay(r):
    cfg = r["kind_case"]
    res = run_cfg(cfg)
    if "error" in res:
        print(res["error"])
        return 2
    bad, _ = judge(cfg, res["steps"])
    want = r.get("scenario", {}).get("i")
    hit = [b for b in bad if want is None or b[2]["i"] == want]
    for key, what, sc, si in hit:
        print(json.dumps({"key": key, "what": what, "step": si, "observed": [o[f"root{sc['i']}"] for o in res["steps"]]}, indent=1))
    print("REPRODUCED" if hit else "not reproduced")
    return 1 if hit else 0
