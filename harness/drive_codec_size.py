"""Implementation driver for C17, the size dimension (see c17_sizes.py): large values of every builtin codec are written and read back
  - at the store level (LocalFileStore.store_blob / fetch_blob, the blob file itself),
  - through the public API for the indices listed in "api" (dds.eval of a pipeline of dds.keep; a second dds.keep, dds.load, the file that
    the path designates under the data directory),
in the writing process (phase "write": registrations pre, writes, registrations mid, reads) and in another one (phase "read").
One process; stdin: {"dir": ..., "phase": "write" | "read", "values": [sized spec...], "api": [index...], "pre": [...], "mid": [...], "cache_objects": ...}
Output: one dictionary per value.  Texts and bytes are reported by DIGEST (type, characters, bytes, SHA-256: the harness compares them with
the digest of the value it builds itself; "first_diff" is only a diagnostic); the other values are compared here with the value that plain
execution gives."""
import importlib
import json
import os
import sys

sys.path.insert(0, os.path.dirname(os.path.abspath(__file__)))
import c17_sizes as DS  # noqa: E402
import drive_codec as DC  # noqa: E402
from drive_codec_api import attempt, register  # noqa: E402

MODULE = "c17_sized_results"


def make(spec):
    return DS.build(spec, DC)


def module_text(values, api):
    lines = ["import dds", "import drive_codec as DC", "import drive_codec_size as DZ", ""]
    for i in api:
        lines += [f"def f{i}():", f"    DC.note_call('f{i}')", f"    return DZ.make({values[i]!r})", ""]
    lines += ["def pipeline():"]
    for i in api:
        lines += [f"    dds.keep('/c17s/v{i}', f{i})"]
    lines += ["    return None", ""]
    return "\n".join(lines)


def first_diff(a, b):
    if a == b:
        return None
    n = min(len(a), len(b))
    lo, hi = 0, n                      # first index at which the two differ (n when one is a prefix of the other)
    if a[:n] == b[:n]:
        return n
    while lo < hi:
        mid = (lo + hi) // 2
        if a[:mid + 1] == b[:mid + 1]:
            lo = mid + 1
        else:
            hi = mid
    return lo


def observed(got, spec):
    """what was read back"""
    want = make(spec)
    if spec["type"] in ("str", "bytes", "bytearray"):
        d = DS.digest(got)
        if "h" in d:
            if isinstance(got, str) == isinstance(want, str):
                d["first_diff"] = first_diff(got, want if isinstance(want, str) else bytes(want))
            return d
        return dict(d, repr=repr(got)[:60])
    return {"t": type(got).__name__, "cmp": _compare(got, want)}


def _compare(got, want):
    if DC.is_pandas(want) or DC.is_pandas(got):
        d = DC.pandas_diff(got, want)
        return "equal" if d is None else "DIFFERENT:" + d
    if type(got) is not type(want):
        return f"DIFFERENT:a {type(got).__name__}: {got!r}"[:80]
    if got == want:
        return "equal"
    if isinstance(want, dict):
        bad = [k for k in want if k not in got or got[k] != want[k]]
        return f"DIFFERENT:entries {bad}: " + ", ".join(f"{k}: {type(got.get(k)).__name__} of length {len(got[k]) if hasattr(got.get(k), '__len__') else '-'}" for k in bad)[:70]
    if isinstance(want, (list, str)):
        return f"DIFFERENT:length {len(got)} instead of {len(want)}, first difference at {first_diff(got, want)}"
    if isinstance(want, DC.UserThing):
        return f"DIFFERENT:text of length {len(got.x)} instead of {len(want.x)}, first difference at {first_diff(got.x, want.x)}"
    return "DIFFERENT:" + repr(got)[:60]


def file_digest(path):
    with open(path, "rb") as f:
        return DS.digest(f.read())


def main():
    payload = json.load(sys.stdin)
    d = payload["dir"]
    values = payload["values"]
    api = payload.get("api", [])
    write = payload["phase"] == "write"
    out = [{} for _ in values]
    from dds.store import LocalFileStore
    register(payload.get("pre", []))
    sdir = os.path.join(d, "s")
    store = LocalFileStore(os.path.join(sdir, "int"), os.path.join(sdir, "dat"))
    # ---- the store level
    if write:
        for i, (spec, res) in enumerate(zip(values, out)):
            def put():
                store.store_blob(f"k{i}", make(spec), None)
                return json.load(open(os.path.join(sdir, "int", "blobs", f"k{i}.meta")))["protocol"]
            res["stored"] = attempt(put)
    # ---- the public API: the evaluation happens before the registrations mid
    pkgs = os.path.join(d, "pkgs")
    adir = os.path.join(d, "a")
    top = {}
    mod = None
    if api:
        if write:
            os.makedirs(pkgs, exist_ok=True)
            with open(os.path.join(pkgs, MODULE + ".py"), "w") as f:
                f.write(module_text(values, api))
        sys.path.insert(0, pkgs)
        import dds
        mod = importlib.import_module(MODULE)
        dds.accept_module(MODULE)
        kw = {} if payload.get("cache_objects") is None else {"cache_objects": payload["cache_objects"]}
        dds.set_store("local", internal_dir=os.path.join(adir, "int"), data_dir=os.path.join(adir, "dat"), **kw)
        if write:
            top["eval"] = attempt(lambda: dds.eval(mod.pipeline) or "ok")
            for i in api:
                out[i]["executed"] = DC.CALLS.get(f"f{i}", 0)
    if write:
        register(payload.get("mid", []))
    # ---- the reads
    for i, (spec, res) in enumerate(zip(values, out)):
        res["fetch"] = attempt(lambda: observed(store.fetch_blob(f"k{i}"), spec))
        res["raw"] = attempt(lambda: file_digest(os.path.join(sdir, "int", "blobs", f"k{i}")))
        if not write:
            res["stored"] = attempt(lambda: json.load(open(os.path.join(sdir, "int", "blobs", f"k{i}.meta")))["protocol"])
        if i in api:
            path = f"/c17s/v{i}"
            before = DC.CALLS.get(f"f{i}", 0)
            res["keep"] = attempt(lambda: observed(dds.keep(path, getattr(mod, f"f{i}")), spec))
            res["executed_again"] = DC.CALLS.get(f"f{i}", 0) - before
            res["load"] = attempt(lambda: observed(dds.load(path), spec))
            loc = os.path.join(adir, "dat", "c17s", f"v{i}")
            res["protocol"] = attempt(lambda: json.load(open(os.path.realpath(loc) + ".meta"))["protocol"])
            if spec["type"] == "frame":
                import pandas
                res["tool"] = attempt(lambda: {"t": "DataFrame", "cmp": _compare(pandas.read_parquet(loc), make(spec))})
            else:
                res["tool"] = attempt(lambda: file_digest(loc))
    print("@@RESULT@@" + json.dumps({"top": top, "values": out}))


if __name__ == "__main__":
    main()
