"""C17 - results are read back with the codec that wrote them, text and bytes verbatim."""
import concurrent.futures as cf
import json
import random
import shutil
import tempfile

import common as C
import c17_sizes as DS
import c17_readers as DR

COQ_FILES = ("L5_Stores/Codec.v", "L5_Stores/CodecProofs.v", "Properties/C17.v")
PROPERTY_FILES = ("C17", "C17g")
EXTRACTED = ("ConstCodec", "GenCodec")
ALLOWED_AXIOMS = ()

PRELUDE = """From Coq Require Import List String.
From DDS Require Import Base.Bytes L5_Stores.Codec.
Import ListNotations.
"""
VALUES = [["str", ""], ["str", "plain"], ["str", "héllo ✓ 😀"], ["str", "x" * 200000],
          ["str", "id,name\r\n1,a\r\n2,b\rc\n"], ["str", "\ufeffbom \x00 nul \x1a sub \u2028 ls \x85 nel\n\n"], ["str", "\n"], ["bytes", "0d0a1a000d"], ["bytes", ""], ["bytes", "00ff10"], ["bytes", "ab" * 70000],
          ["bytearray", "0102"], ["none"], ["object"], ["int", 5], ["user", 3], ["frame"],
          ["strenum"], ["strsub"], ["bytessub"], ["boolval"]]      # instances of SUBCLASSES of types with a dedicated codec
EXPECTED_REF = {"str": "local.string", "bytes": "local.bytes", "bytearray": "local.bytes", "none": "local.pickle", "object": "local.pickle",
                "int": "local.pickle", "user": "local.pickle", "frame": "local.pandas", "strenum": "local.pickle", "strsub": "local.pickle",
                "bytessub": "local.pickle", "boolval": "local.pickle", "series": "local.pickle"}
# pandas frames by shape (built by drive_codec._frames): each name is a boundary of what the parquet file has to carry besides the cells
FRAMES = ["default", "range_offset", "range_step", "range_offset_step", "range_reversed", "range_named", "range_offset_named", "range_from_one",
          "range_empty_slice", "range_one_row", "int_selected", "int_selected_none", "int_duplicated", "int_named", "int_sorted_values", "uint8_index",
          "float_index", "bool_index", "str_index", "str_index_unnamed", "str_index_non_ascii", "multi_index", "multi_index_unnamed",
          "multi_index_half_named", "datetime_index", "datetime_index_regular", "datetime_index_tz", "timedelta_index", "period_index",
          "categorical_index", "index_named_like_a_column", "index_named_index", "categorical_columns", "datetime_columns", "nullable_columns",
          "object_columns", "float_columns", "small_int_columns", "interval_column", "list_column", "mixed_object_column", "no_row",
          "no_row_no_column", "no_column", "no_column_labelled", "one_cell", "wide", "wide_sliced", "column_names_text", "column_names_int",
          "column_names_mixed", "column_names_duplicated", "columns_named", "multi_columns", "multi_columns_sliced", "with_attrs"]
LARGE_FRAMES = ["large_sliced", "large_labelled"]          # 300 000 / 200 000 rows: thorough tier
SERIES = ["default", "named_sliced", "str_index", "empty", "categorical"]
FRAME_VALUES = [["frame", n] for n in FRAMES] + [["series", n] for n in SERIES]
# what goes through the public API besides the frames: one value per builtin codec, at its edges
API_BUILTINS = [["str", ""], ["str", "héllo ✓ 😀"], ["str", "id,name\r\n1,a\r\n2,b\rc\n"], ["str", "\ufeffbom \x00 nul \x1a sub \u2028 ls \x85 nel\n\n"],
                ["bytes", "0d0a1a000d"], ["bytes", ""], ["bytearray", "0102"], ["none"], ["object"], ["int", 5], ["boolval"]]
REGS = [{"kind": "file", "ref": "user.str2", "type": "str"}, {"kind": "codec", "ref": "user.strc", "type": "str"},
        {"kind": "file", "ref": "user.bytes2", "type": "bytes"}, {"kind": "codec", "ref": "user.thing", "type": "user"},
        {"kind": "file", "ref": "user.obj", "type": "object"}, {"kind": "codec", "ref": "user.none", "type": "none"},
        {"kind": "file", "ref": "local.string", "type": "str"}]


def type_name(v):
    return {"str": "str", "bytes": "bytes", "bytearray": "bytearray", "none": "NoneType", "object": "dict", "int": "int",
            "user": "__main__.UserThing", "frame": "pandas.core.frame.DataFrame", "strenum": "__main__.Color", "strsub": "__main__.TaggedStr",
            "bytessub": "__main__.Digest", "boolval": "bool", "series": "pandas.core.series.Series"}[v[0]]


def reg_coq(r):
    t = {"str": "str", "bytes": "bytes", "user": "__main__.UserThing", "object": "object", "none": "NoneType"}[r["type"]]
    return f'({"RFile" if r["kind"] == "file" else "RCodec"} {C.hexs(r["ref"])} [{C.hexs(t)}])'


def is_shape(v):
    return v[0] in ("frame", "series") and len(v) > 1


def label(v):
    return f"{v[0]} '{v[1]}'" if is_shape(v) else v[0]


class Shapes:
    """Collects what happened to the pandas values: failures are reported once per channel with every shape concerned."""

    def __init__(self):
        self.differs = {}          # channel -> [(label, description, replay)]
        self.as_bare = {}          # shape -> description: read back exactly as the bare parquet round trip gives it, which is not the frame
        self.refused = {}          # shape -> the format refuses the frame (so does the store, loudly)
        self.checked = 0
        self.replay_as_bare = None

    def verdict(self, v, channel, x, replay, ctx=""):
        """x: 'equal' | 'ASBARE:...' | anything else (a difference, an exception)"""
        self.checked += 1
        if x == "equal":
            return
        if x.startswith("ASBARE:"):
            self.as_bare.setdefault(v[1], x[7:])
            self.replay_as_bare = self.replay_as_bare or replay
            return
        self.differs.setdefault((v[0], channel), []).append((label(v) + ctx, x, replay, v))

    def report(self, rep):
        for (t, channel), items in sorted(self.differs.items()):
            names, failing = [], []
            for _, _, _, v in items:
                if v not in failing:
                    failing.append(v)
                    names.append(v[1])
            rep.violation(f"read-back-differs:{t}:{channel}", f"{len(names)} pandas value(s) are not read back as they were stored ({channel}): first {items[0][0]}: "
                          f"{items[0][1].replace('DIFFERENT:', '')[:230]}; all {t}s concerned: {', '.join(names)[:600]}", dict(items[0][2], failing=failing))
        if self.as_bare:
            rep.violation("frame-altered-by-parquet-itself", "frames that the store reads back different from the frame that was stored, exactly as a plain pandas to_parquet / "
                          "read_parquet round trip alters them (nothing is refused or logged by dds): " + "; ".join(f"'{k}': {d[:120]}" for k, d in sorted(self.as_bare.items())),
                          dict(self.replay_as_bare or {}, failing=[["frame", k] for k in sorted(self.as_bare)]))


def run_api(case):
    """The values are results of functions kept through the public API: process 1 (registrations pre) evaluates a pipeline that keeps them all,
    registers mid, then obtains each of them again by a second dds.keep, by dds.load and by opening the file under the data directory with another
    tool; process 2 (registrations second) does the same reads."""
    d = tempfile.mkdtemp(prefix="c17a_", dir=C.scratch_dir())
    try:
        o1 = C.run_driver("drive_codec_api.py", {"dir": d, "phase": "write", "values": case["values"], "pre": case["pre"], "mid": case["mid"], "cache_objects": case.get("cache")})
        skip = [i for i, r in enumerate(o1["values"]) if str(r.get("bare", "")).startswith("refused")]
        o2 = C.run_driver("drive_codec_api.py", {"dir": d, "phase": "read", "values": case["values"], "pre": case["second"], "skip": skip, "cache_objects": case.get("cache")})
        return {"api_case": case, "o1": o1, "o2": o2}
    except Exception as e:  # noqa
        return {"api_case": case, "error": str(e)[-400:]}
    finally:
        shutil.rmtree(d, ignore_errors=True)


def check_api(rep, res, shapes):
    n_values = 0
    for r in res:
        c = r["api_case"]
        rep.case("api:" + json.dumps(c)[:400], nontrivial=True)
        if "error" in r:
            rep.violation("harness-error:c17api", r["error"][-300:], r, no_input=True)
            continue
        rp = {"api_case": c}
        regs = f" (registrations before {[x['ref'] for x in c['pre']]}, between write and read {[x['ref'] for x in c['mid']]}, in the second process {[x['ref'] for x in c['second']]})"
        if r["o1"]["top"].get("eval") != "ok":
            rep.violation("api:evaluation-fails", f"dds.eval of a pipeline keeping {[label(v) for v in c['values']][:12]}... fails: {r['o1']['top'].get('eval')}" + regs, rp)
            continue
        for v, w, x in zip(c["values"], r["o1"]["values"], r["o2"]["values"]):
            n_values += 1
            if str(w.get("bare")).startswith("refused"):
                # not storable in the format: dds.keep must fail loudly and leave nothing that dds.load would return
                shapes.refused.setdefault(v[1], w["bare"])
                if not str(w.get("keep_refused"))[:2] in ("X:", "E:") or not str(w.get("load_refused"))[:2] in ("X:", "E:"):
                    rep.violation(f"refused-by-format-but-stored:{v[0]}", f"{label(v)}: pandas refuses to write it as parquet ({w['bare']}); dds.keep gives {w.get('keep_refused')}, "
                                  f"dds.load then gives {w.get('load_refused')}", dict(rp, value=v))
                continue
            if w.get("executed") != 1 or w.get("executed_again") != 0 or x.get("executed_again") != 0:
                rep.violation(f"api:not-served-from-the-store:{v[0]}", f"{label(v)} kept by a pipeline: its function ran {w.get('executed')} time(s) during the evaluation, "
                              f"{w.get('executed_again')} / {x.get('executed_again')} more time(s) when kept again in the same / in another process" + regs, dict(rp, value=v))
            for proc, o in (("same-process", w), ("second-process", x)):
                for ch in ("keep", "load", "tool"):
                    if ch not in o:
                        continue
                    if is_shape(v):
                        shapes.verdict(v, f"api-{ch}:{proc}", o[ch], rp, ctx=regs if (c["pre"] or len(c["mid"]) > 1) else "")
                    elif o[ch] != "equal":
                        what = {"keep": "a second dds.keep", "load": "dds.load", "tool": "the file under the data directory"}[ch]
                        rep.violation(f"read-back-differs:{v[0]}:api-{ch}:{proc}", f"a {v[0]} result kept through dds.keep (written with {w.get('protocol')}): {what} gives "
                                      f"{o[ch][:80]} ({proc})" + regs, dict(rp, value=v))
    return n_values


def run_case(case):
    d = tempfile.mkdtemp(prefix="c17_", dir=C.scratch_dir())
    try:
        steps1 = []
        for r in case["pre"]:
            steps1.append({"register": r})
        for i, v in enumerate(case["values"]):
            if is_shape(v):
                steps1.append({"bare": v})
            steps1.append({"store": v, "key": f"k{i}"})
            if is_shape(v):
                steps1.append({"has": True, "key": f"k{i}"})
        for r in case["mid"]:
            steps1.append({"register": r})
        for i, v in enumerate(case["values"]):
            steps1.append({"fetch": v, "key": f"k{i}"})
        o1 = C.run_driver("drive_codec.py", {"dir": d, "steps": steps1})
        # second process: registers the user codecs that were in force (any order), reads everything, raw bytes
        steps2 = [{"register": r} for r in case["second"]]
        for i, v in enumerate(case["values"]):
            steps2.append({"fetch": v, "key": f"k{i}"})
            if v[0] in ("str", "bytes", "bytearray"):
                steps2.append({"raw": True, "key": f"k{i}"})
            if is_shape(v) and v[0] == "frame":
                steps2.append({"tool": v, "key": f"k{i}", "path": f"/c17/{v[1]}"})
        o2 = C.run_driver("drive_codec.py", {"dir": d, "steps": steps2})
        return {"case": case, "o1": o1, "o2": o2, "steps1": steps1, "steps2": steps2}
    except Exception as e:  # noqa
        return {"case": case, "error": str(e)[-400:]}
    finally:
        shutil.rmtree(d, ignore_errors=True)


def run_killed(case):
    """Process 1 (registrations pre) is killed between the blob and its metadata; process 2 (registrations second) stores the key
    again - the blob is not complete for has_blob - and reads it; process 3 (no user codec unless needed) reads it again."""
    d = tempfile.mkdtemp(prefix="c17k_", dir=C.scratch_dir())
    try:
        v = case["value"]
        s1 = [{"register": r} for r in case["pre"]] + [{"store_killed": v, "key": "k0"}]
        o1 = C.run_driver("drive_codec.py", {"dir": d, "steps": s1})
        s2 = [{"register": r} for r in case["second"]] + [{"has": True, "key": "k0"}, {"store": v, "key": "k0"}, {"fetch": v, "key": "k0"}, {"raw": True, "key": "k0"}]
        o2 = C.run_driver("drive_codec.py", {"dir": d, "steps": s2})
        s3 = [{"register": r} for r in case["second"]] + [{"fetch": v, "key": "k0"}]
        o3 = C.run_driver("drive_codec.py", {"dir": d, "steps": s3})
        return {"case": case, "o1": o1, "o2": o2, "o3": o3}
    except Exception as e:  # noqa
        return {"case": case, "error": str(e)[-400:]}
    finally:
        shutil.rmtree(d, ignore_errors=True)


KILLED_FRAMES = [["frame", n] for n in ("range_offset", "range_named", "str_index", "multi_index", "datetime_index_tz", "categorical_columns", "no_row", "multi_columns")]


def check_killed(rep, rng, n):
    cases = []
    strs = [v for v in VALUES if v[0] in ("str", "bytes")]
    for i in range(n):
        v = rng.choice(strs if i % 2 == 0 else (KILLED_FRAMES if i % 8 == 7 else VALUES))
        mine = [r for r in REGS if r.get("type") == v[0]] or REGS
        pre, second = ([], [rng.choice(mine)]) if i % 2 == 0 else ([rng.choice(mine)], [])
        if i % 4 >= 2:
            pre, second = pre + rng.sample(REGS, 1), second + rng.sample(REGS, 1)
        cases.append({"value": v, "pre": pre, "second": second})
    with cf.ThreadPoolExecutor(max_workers=C.NPROC) as ex:
        res = list(ex.map(run_killed, cases))
    exprs = ["run_select [" + "; ".join(reg_coq(r) for r in c["second"]) + f"] {C.hexs(type_name(c['value']))}" for c in cases]
    model = C.coq_eval_strings(PRELUDE, exprs, label="c17k")
    n_killed = 0
    for r, m in zip(res, model):
        c = r["case"]
        v = c["value"]
        rep.case("killed-before-metadata:" + json.dumps(c)[:300], nontrivial=True)
        if "error" in r:
            rep.violation("harness-error:c17k", r["error"][-300:], r, no_input=True)
            continue
        if r["o1"][-1] != "K":
            continue            # the write was refused (no codec) or did not reach the metadata: nothing to recover from
        n_killed += 1
        k = len(c["second"])
        has, st, f2, raw = r["o2"][k:k + 4]
        f3 = r["o3"][-1]
        what = f"a {label(v)} written under registrations {[x['ref'] for x in c['pre']]}, killed before its metadata, stored again under {[x['ref'] for x in c['second']]}"
        if has != "B0":
            rep.violation("killed:blob-without-metadata-reported-present", f"{what}: has_blob answers true for a blob without metadata", {"killed_case": c, "o2": r["o2"]})
        if st != "S:" + m:
            rep.violation("model-mismatch:codec-selection-after-kill", f"{what}: metadata names {st}, the model of the registry selects {m}", {"killed_case": c, "o2": r["o2"]})
        if f2 != "F:equal" or f3 != "F:equal":
            rep.violation(f"read-back-differs:{v[0]}:after-kill", f"{what}: read back as {f2[:70]} (same process) / {f3[:70]} (next process)", {"killed_case": c, "o2": r["o2"], "o3": r["o3"]})
        want = v[1].encode("utf-8").hex() if v[0] == "str" else (v[1] if len(v) > 1 else None)
        if v[0] in ("str", "bytes", "bytearray") and st in ("S:local.string", "S:local.bytes") and raw != "R:" + want:
            rep.violation(f"not-verbatim:{v[0]}:after-kill", f"{what}: the blob file is not the text / the bytes themselves", {"killed_case": c, "raw": raw[:80]})
    return len(cases), n_killed


# ------------------------------------------------------------------ the size dimension (values described in c17_sizes.py)

SIZED_TYPE_NAMES = {"str": "str", "bytes": "bytes", "bytearray": "bytearray", "object": "dict", "ints": "list", "user": "drive_codec.UserThing",
                    "strsub": "drive_codec.TaggedStr", "frame": "pandas.core.frame.DataFrame"}
# registrations under which the large values are WRITTEN by user codecs (the driver imports the user class from the module drive_codec)
SIZED_USER_PRE = [{"kind": "codec", "ref": "user.strc", "type": "str"}, {"kind": "codec", "ref": "user.bytesc", "type": "bytes"},
                  {"kind": "codec", "ref": "user.thing", "type": "user"}]


def sized_cases(rng, tier, quick):
    """The cases of the size dimension: every family at the small boundaries, then the large values by groups of one kind, each group under its own
    registrations; a part of each group also goes through the public API."""
    texts, blobs, others = DS.quick_large() if quick else DS.thorough_large()
    n_random = 6 if quick else 60
    drawn = [DS.random_sized(rng, DS.SMALL + (DS.QUICK_LARGE if quick else DS.THOROUGH_LARGE)) for _ in range(n_random)]
    texts, blobs = texts + [s for s in drawn if s["type"] == "str"], blobs + [s for s in drawn if s["type"] != "str"]

    def regs():
        pre = rng.sample(REGS, rng.choice([0, 0, 0, 1]))
        mid = rng.sample(REGS, rng.choice([1, 2, 3]))
        second = pre + [r for r in mid if r not in pre]
        rng.shuffle(second)
        return {"pre": pre, "mid": mid, "second": second, "cache": rng.choice([None, None, True, 2])}

    small = DS.small_catalogue()
    cases = [dict(pre=[], mid=[REGS[0]], second=[REGS[0]], cache=None, values=small, api=list(range(0, len(small), 4 if quick else 1)))]
    per = 8 if quick else 12
    for group, api_every in ((texts, 2 if quick else 3), (blobs, 2), (others, 1)):
        for k in range(0, len(group), per):
            vals = group[k:k + per]
            cases.append(dict(pre=[], mid=[REGS[0]], second=[REGS[0]], cache=None) if k == 0 else regs())
            cases[-1].update(values=vals, api=list(range(k // per % api_every, len(vals), api_every)))
    # large values written by USER codecs (and the builtin ones for the types without a user codec), read back after other registrations
    written_by_user = [texts[2], texts[5], blobs[2], others[2], others[0]] if quick else texts[3:40:6] + blobs[1:8:3] + others[:4]
    second = SIZED_USER_PRE + [REGS[0]]
    rng.shuffle(second)
    cases.append(dict(pre=SIZED_USER_PRE, mid=[REGS[0]], second=second, cache=None, values=written_by_user, api=[0, 2, 3]))
    return cases


def run_sized(case):
    d = tempfile.mkdtemp(prefix="c17z_", dir=C.scratch_dir())
    try:
        p = {"dir": d, "values": case["values"], "api": case["api"], "cache_objects": case.get("cache")}
        o1 = C.run_driver("drive_codec_size.py", dict(p, phase="write", pre=case["pre"], mid=case["mid"]), timeout=1800)
        o2 = C.run_driver("drive_codec_size.py", dict(p, phase="read", pre=case["second"]), timeout=1800)
        return {"sized_case": case, "o1": o1, "o2": o2}
    except Exception as e:  # noqa
        return {"sized_case": case, "error": str(e)[-400:]}
    finally:
        shutil.rmtree(d, ignore_errors=True)


def sized_reg_coq(r):
    return reg_coq(r).replace(C.hexs("__main__.UserThing"), C.hexs(SIZED_TYPE_NAMES["user"]))


def seen(o):
    """short description of what a channel gave"""
    if not isinstance(o, dict):
        return str(o)[:90]
    if "h" in o:
        at = f", first difference at offset {o['first_diff']}" if o.get("first_diff") is not None else ""
        return f"a {o['t']} of {o['n']} characters / {o['b']} bytes, sha256 {o['h'][:12]}" + at if o["t"] != "bytes" else f"{o['b']} bytes, sha256 {o['h'][:12]}" + at
    return f"a {o.get('t')}: {o.get('cmp', o.get('repr'))}"[:160]


def check_sized(rep, res, model):
    """Expected: the value that plain execution gives (built here from the same description): its type, its length in characters and in bytes and the
    SHA-256 of its UTF-8 text / of its bytes, for the value read back on every channel and - when the builtin text / bytes codec wrote it - for the file."""
    found = {}                      # key -> [(size, description, replay)]
    dist = {"values": 0, "bytes_written_at_store_level": 0, "through_public_api": 0, "comparisons": 0, "by_type": {}, "written_by_user_codecs": 0}

    def differs(key, spec, what, case, i):
        size = sum(n for _, n in spec["segs"])
        found.setdefault(key, []).append((size, f"{DS.describe(spec)}: {what}", {"sized_case": dict(case, values=[spec], api=[0] if i in case["api"] else [])}))

    mi = 0
    for r in res:
        c = r["sized_case"]
        rep.case("sized:" + json.dumps(c)[:400], nontrivial=True)
        if "error" in r:
            rep.violation("harness-error:c17sized", r["error"][-300:], r, no_input=True)
            mi += len(c["values"])
            continue
        regs = f" (registrations before the write {[x['ref'] for x in c['pre']]}, between write and read {[x['ref'] for x in c['mid']]}, in the second process {[x['ref'] for x in c['second']]})"
        if c["api"] and r["o1"]["top"].get("eval") != "ok":
            rep.violation("api:evaluation-fails:sized", f"dds.eval of a pipeline keeping {[DS.describe(c['values'][i]) for i in c['api']][:4]}... fails: {r['o1']['top'].get('eval')}" + regs,
                          {"sized_case": c})
        for i, (spec, w, x) in enumerate(zip(c["values"], r["o1"]["values"], r["o2"]["values"])):
            m = model[mi]
            mi += 1
            t = spec["type"]
            dist["values"] += 1
            dist["by_type"][t] = dist["by_type"].get(t, 0) + 1
            dist["through_public_api"] += i in c["api"]
            dist["written_by_user_codecs"] += m.startswith("user.")
            verbatim = t in ("str", "bytes", "bytearray")
            want = DS.digest(DS.build(spec)) if verbatim else None
            dist["bytes_written_at_store_level"] += want["b"] if want else 0

            def same(o, file=False):
                """o is the value (file=False) / a file holding exactly the value"""
                dist["comparisons"] += 1
                if not isinstance(o, dict):
                    return False
                if not verbatim:
                    return o.get("cmp") == "equal"
                return (o.get("b"), o.get("h")) == (want["b"], want["h"]) and (file or (o.get("t"), o.get("n")) == (want["t"], want["n"]))

            expected = f"; expected {seen(want)}" if verbatim else "; expected the value that plain execution gives"
            if w.get("stored") != m or x.get("stored") != m:
                differs("model-mismatch:codec-selection:sized", spec, f"written with {w.get('stored')} (metadata read by the second process: {x.get('stored')}), the model of the registry "
                        f"selects {m}" + regs, c, i)
                continue
            for proc, o in (("same-process", w), ("second-process", x)):
                if not same(o.get("fetch")):
                    differs(f"read-back-differs:{t}:sized:fetch_blob:{proc}", spec, f"written with {m}, fetch_blob gives {seen(o.get('fetch'))}" + expected + regs, c, i)
                if verbatim and m in ("local.string", "local.bytes") and not same(o.get("raw"), file=True):
                    differs(f"not-verbatim:{t}:sized:blob-file", spec, f"written with {m}, the blob file holds {seen(o.get('raw'))} ({proc})" + expected + regs, c, i)
                if i not in c["api"]:
                    continue
                for ch, name in (("keep", "a second dds.keep"), ("load", "dds.load")):
                    if not same(o.get(ch)):
                        differs(f"read-back-differs:{t}:sized:api-{ch}:{proc}", spec, f"kept through dds.keep (written with {o.get('protocol')}): {name} gives {seen(o.get(ch))}"
                                + expected + regs, c, i)
                if (verbatim and o.get("protocol") in ("local.string", "local.bytes") or t == "frame") and not same(o.get("tool"), file=True):
                    differs(f"not-verbatim:{t}:sized:data-directory-file", spec, f"kept through dds.keep (written with {o.get('protocol')}): the file under the data directory holds "
                            f"{seen(o.get('tool'))} ({proc})" + expected + regs, c, i)
            if i in c["api"] and (w.get("executed") != 1 or w.get("executed_again") != 0 or x.get("executed_again") != 0):
                differs(f"api:not-served-from-the-store:{t}:sized", spec, f"its function ran {w.get('executed')} time(s) during the evaluation, {w.get('executed_again')} / "
                        f"{x.get('executed_again')} more time(s) when kept again in the same / in another process" + regs, c, i)
    for key, items in sorted(found.items()):
        items.sort(key=lambda it: it[0])
        others = sorted({it[1].split(":")[0] for it in items[1:]} - {items[0][1].split(":")[0]})
        rep.violation(key, f"{len(items)} observation(s) on values at a size boundary; smallest: {items[0][1][:900]}" + (f"; also: {'; '.join(others)[:400]}" if others else ""), items[0][2])
    return dist


def run(rep, tier, seed, proof_ok):
    rng = random.Random(seed)
    rep.rule = ("values of every storable type (str: empty / ascii / non-ASCII incl. astral / 200 kB / CR, CRLF and other line separators, NUL, BOM; bytes: empty / binary / 140 kB; bytearray; "
                "None; picklable object; int; bool; instance of a user class; pandas frame; pandas frames BY SHAPE: " + str(len(FRAMES) + len(LARGE_FRAMES)) + " shapes at the "
                "boundaries of what the parquet file must carry besides the cells - positional index as slicing leaves it (offset, stepped, reversed, named, 1-based, empty, one row), "
                "integer labels (selected, duplicated, named, unsorted, uint8), float / bool / text / non-ASCII labels, MultiIndex (named, unnamed, half named), datetime (irregular, "
                "regular, tz), timedelta, period, categorical index, index named like a column / 'index'; categorical, datetime / tz / timedelta, nullable, object / bytes, float "
                "specials, small int, interval, list columns; no row, no column, neither, one cell, 300 columns, text / int / mixed / duplicated column labels, named columns, "
                "MultiIndex columns, attrs; 300 000 rows (thorough) - and " + str(len(SERIES)) + " Series; instances of subclasses of str / bytes incl. a str-mixin Enum) stored in the local store x sequences of codec "
                "registrations (file codecs and codecs for str, bytes, object, NoneType, the user class, and a second codec reusing the "
                "reference 'local.string') before the writes, between write and read, and in a second process in another order; "
                "checks: value read back equal in both processes, the reference recorded in the metadata is the one the Coq model of "
                "the registry selects, str / bytes blobs are byte-for-byte the UTF-8 text / the bytes; frames and Series compared with the value that plain execution gives by "
                "pandas.testing.assert_frame_equal (exact cells, dtypes, index labels / dtype / names, column labels / names, categories, freq) + attrs, and the file that the path "
                "designates under the data directory opened with plain pandas.read_parquet; a frame that pandas itself refuses to write as parquet must be refused loudly with "
                "nothing readable left; a frame read back exactly as a bare to_parquet / read_parquet round trip alters it is reported under its own key; "
                "the SIZE dimension: texts, bytes, bytearrays, pickled objects (dict, list, user class, str subclass) and frames whose length sits at P-1 / P / P+1 (and random "
                "offsets) for P = 2**13 (io buffer), 2**16 (pickle frame), 2**17, 2**20, 2 * 2**20 (thorough: 3 * 2**20, 5 MB, 2**23), crossed with the content class: 1 / 2 / 3 / 4-byte "
                "UTF-8 characters (thorough: first and last code point of each width) at every misalignment so that a character straddles byte P, P characters vs P bytes (one multi-byte "
                "character first / middle / last in an ASCII text of P characters), a multi-byte character across every multiple of P, fewer than P characters but more than P bytes, "
                "mixtures; position-dependent fill (period coprime with 2**k) so that a dropped, repeated or misplaced piece changes the digest; written by the builtin codecs and by "
                "user codecs, at the store level and through dds.eval / dds.keep; compared - type, number of characters, number of bytes, SHA-256 - with the value that plain execution "
                "gives, built independently by the harness: fetch_blob, second dds.keep, dds.load in both processes, and the blob file / the data-directory file (verbatim) whenever "
                "local.string / local.bytes wrote it; the reference recorded is the one the Coq model selects; "
                "the same values as results of functions kept through the PUBLIC API (dds.eval of a pipeline of dds.keep, then a second dds.keep - which must not execute "
                "the function -, dds.load, the data-directory file; in the writing process and in a second process; registrations before / between / in the second process; "
                "with and without the object cache); "
                "the READING PROCESS'S REGISTRY dimension: blobs written (local store and DBFS store over the fake dbutils) by user file codecs / codecs registered under references of "
                + str(sum(len(v) for v in DR.REF_SHAPES.values())) + " shapes - ending like a builtin reference (.string / .bytes / .pickle / .pandas / .pyspark), with several dots, "
                "equal to a builtin reference but for the case / a blank / a separator, prefixes and extensions of builtin references, legacy dbfs.* / default.* references on the local "
                "store, unrelated - in a format of their own that the builtin codec of the same kind would read without failing, x value types (str, bytes, object, user class, None, int, "
                "frame), read through fetch_blob and dds.load by processes of " + str(len(DR.READERS)) + " classes: registered the writing codec among unrelated ones in another order "
                "(the value, equal), registered nothing / only other codecs under near-miss references (must fail with the DDS error PROTOCOL_NOT_FOUND - never a value decoded by a codec "
                "that did not write it), registered ANOTHER codec under the same reference (decoded by that codec, the one bound to the reference, never by a builtin), registers the "
                "writing codec only after a first failed read (error, then the value), registered the writing codec then another file codec under its reference (file codecs never rebind: "
                "the value) / the other file codec then the writing codec as a codec (rebinds: the value); blobs written by the builtin codecs next to them are read equal by every class; "
                "distinct = distinct case; "
                "non-trivial = at least one registration between write and read; + writer killed between the rename of the blob and the rename of its "
                "metadata, the key stored again by a process with other registrations, read there and in a third process")
    n = 10 if tier == "quick" and proof_ok else 80
    cases = []
    for i in range(n):
        pre = rng.sample(REGS, rng.choice([0, 0, 1, 2]))
        mid = rng.sample(REGS, rng.choice([1, 2, 3]))
        vals = rng.sample(VALUES, rng.randint(4, 8)) + rng.sample(FRAME_VALUES, rng.randint(2, 4))
        regs_in_force = pre + [r for r in mid if r not in pre]
        second = list(regs_in_force)
        rng.shuffle(second)
        cases.append({"pre": pre, "mid": mid, "values": vals, "second": second})
    large = [["frame", n] for n in LARGE_FRAMES] if tier != "quick" else []
    cases.insert(0, {"pre": [], "mid": [REGS[0]], "values": list(VALUES) + FRAME_VALUES + large, "second": [REGS[0]]})     # every value, every shape, always
    # through the public API: every shape once, then random subsets under random registrations
    api_cases = [{"pre": [], "mid": [REGS[0]], "second": [REGS[0]], "values": FRAME_VALUES + API_BUILTINS + large[:1], "cache": None}]
    for i in range(2 if tier == "quick" and proof_ok else 14):
        pre = rng.sample(REGS, rng.choice([0, 1, 2]))
        mid = rng.sample(REGS, rng.choice([1, 2, 3]))
        second = pre + [r for r in mid if r not in pre]
        rng.shuffle(second)
        api_cases.append({"pre": pre, "mid": mid, "second": second, "values": rng.sample(FRAME_VALUES, rng.randint(4, 8)) + rng.sample(API_BUILTINS, rng.randint(2, 4)),
                          "cache": rng.choice([None, None, True, 2])})
    shapes = Shapes()
    quick = tier == "quick" and proof_ok
    size_cases = sized_cases(random.Random(f"{seed}:sized"), tier, quick)          # its own generator: the other cases of a seed do not move
    reader_cases = DR.reader_cases(random.Random(f"{seed}:readers"), tier, quick)    # the reading process's registry (c17_readers.py), its own generator too
    with cf.ThreadPoolExecutor(max_workers=C.NPROC) as ex:
        api_futures = [ex.submit(run_api, c) for c in api_cases]
        size_futures = [ex.submit(run_sized, c) for c in size_cases]
        reader_futures = [ex.submit(DR.run_reader_case, c) for c in reader_cases]
        res = list(ex.map(run_case, cases))
        api_res = [f.result() for f in api_futures]
        size_res = [f.result() for f in size_futures]
        reader_res = [f.result() for f in reader_futures]
    # model: which reference each write selects, after the pre registrations
    exprs = []
    for c in cases:
        regs = "[" + "; ".join(reg_coq(r) for r in c["pre"]) + "]"
        for v in c["values"]:
            exprs.append(f"run_select {regs} {C.hexs(type_name(v))}")
    n_exprs = len(exprs)
    for c in size_cases:
        regs = "[" + "; ".join(sized_reg_coq(r) for r in c["pre"]) + "]"
        for v in c["values"]:
            exprs.append(f"run_select {regs} {C.hexs(SIZED_TYPE_NAMES[v['type']])}")
    model = C.coq_eval_strings(PRELUDE, exprs, label="c17")
    model, size_model = model[:n_exprs], model[n_exprs:]
    mi = 0
    refs = {}
    n_shape_writes = {}
    for r in res:
        c = r["case"]
        rep.case(json.dumps(c)[:400], nontrivial=bool(c["mid"]))
        if "error" in r:
            rep.violation("harness-error:c17", r["error"][-300:], r, no_input=True)
            mi += len(c["values"])
            continue
        o1, o2 = r["o1"], r["o2"]
        stores = [x for x, s in zip(o1, r["steps1"]) if "store" in s]
        fetch1 = [x for x, s in zip(o1, r["steps1"]) if "fetch" in s]
        bare = {s["bare"][1]: x for x, s in zip(o1, r["steps1"]) if "bare" in s}
        has1 = {s["key"]: x for x, s in zip(o1, r["steps1"]) if "has" in s}
        refused = set()
        for i, (v, s, f) in enumerate(zip(c["values"], stores, fetch1)):
            m = model[mi]
            mi += 1
            if v[0] == "frame" and is_shape(v) and bare[v[1]].startswith("P:refused") and s[:2] in ("X:", "E:"):
                # pandas itself refuses to write this frame as parquet: the store refuses loudly, and nothing must be readable under the key
                refused.add(i)
                shapes.refused.setdefault(v[1], bare[v[1]][2:])
                if has1[f"k{i}"] != "B0" or not f.startswith("F:DIFFERENT:a NoneType"):
                    rep.violation("refused-by-format-but-stored:frame", f"{label(v)}: the write fails ({s[:60]}) but has_blob answers {has1[f'k{i}']} and fetch_blob gives {f[:60]}",
                                  {"case": c, "value": v})
                continue
            refs[s] = refs.get(s, 0) + 1
            if is_shape(v):
                n_shape_writes[v[0]] = n_shape_writes.get(v[0], 0) + 1
                if s == "S:" + m:
                    shapes.verdict(v, "same-process", f[2:], {"case": c, "value": v}, ctx=f" after registrations {[x['ref'] for x in c['mid']]}" if len(c["mid"]) > 1 else "")
                    continue
            if s != "S:" + m:
                rep.violation("model-mismatch:codec-selection", f"value of type {type_name(v)} ({label(v)}) after registrations {[x['ref'] for x in c['pre']]}: "
                              f"written with {s}, the model of the registry selects {m}", {"case": c, "value": v[:1], "impl": s, "model": m})
            if f != "F:equal":
                rep.violation(f"read-back-differs:{v[0]}:same-process", f"value of type {v[0]} written with {s} is read back as {f[:80]} after registrations "
                              f"{[x['ref'] for x in c['mid']]}", {"case": c, "value": v[:1], "stored": s, "fetched": f})
        k = 0
        for s2, x in zip(r["steps2"], o2):
            if "fetch" in s2 or "tool" in s2:
                v = s2.get("fetch") or s2["tool"]
                if int(s2["key"][1:]) in refused:
                    if "fetch" in s2 and not x.startswith("F:DIFFERENT:a NoneType"):
                        rep.violation("refused-by-format-but-stored:frame", f"{label(v)}: the write failed but a second process reads {x[:60]}", {"case": c, "value": v})
                elif is_shape(v):
                    shapes.verdict(v, "second-process" if "fetch" in s2 else "data-directory-file", x[2:], {"case": c, "value": v},
                                   ctx=f" in a second process that registered {[y['ref'] for y in c['second']]}" if len(c["second"]) > 1 else "")
                elif x != "F:equal":
                    rep.violation(f"read-back-differs:{v[0]}:second-process", f"value of type {v[0]} is read back as {x[:80]} in a second process that registered "
                                  f"{[y['ref'] for y in c['second']]}", {"case": c, "value": v[:1], "fetched": x})
            elif "raw" in s2:
                key = s2["key"]
                v = c["values"][int(key[1:])]
                stored_with = stores[int(key[1:])]
                want = v[1].encode("utf-8").hex() if v[0] == "str" else v[1]
                if stored_with in ("S:local.string", "S:local.bytes") and x != "R:" + want:
                    rep.violation(f"not-verbatim:{v[0]}", f"the blob file of a {v[0]} result is not the text / the bytes themselves", {"case": c, "value": v[:1], "raw": x[:80]})
    n_api_values = check_api(rep, api_res, shapes)
    size_dist = check_sized(rep, size_res, size_model)
    reader_dist = DR.check_readers(rep, reader_res)
    shapes.report(rep)
    nk, nk_killed = check_killed(rep, rng, 16 if tier == "quick" and proof_ok else 120)
    rep.extra["input_distribution"] = {"cases": len(cases), "writes_by_selected_reference": refs, "killed_before_metadata_cases": nk, "of_which_reached_the_kill_point": nk_killed,
                                       "frame_shapes": len(FRAMES) + len(large), "series_shapes": len(SERIES), "store_level_writes_of_shaped_pandas_values": n_shape_writes,
                                       "public_api_cases": len(api_cases), "public_api_values_kept_and_read_back": n_api_values,
                                       "read_back_comparisons_of_pandas_values": shapes.checked,
                                       "read_back_channels": ["fetch_blob same process", "fetch_blob second process", "data-directory file with plain pandas", "second dds.keep", "dds.load",
                                                              "the last three in a second process"],
                                       "frames_refused_by_the_parquet_format": sorted(shapes.refused), "frames_altered_by_the_parquet_format": sorted(shapes.as_bare),
                                       "size_dimension": dict(size_dist, cases=len(size_cases), boundaries_in_bytes=DS.SMALL + (DS.QUICK_LARGE if quick else DS.THOROUGH_LARGE),
                                                              character_widths_in_utf8_bytes=[1, 2, 3, 4],
                                                              families=["pure width-w text of exactly P-1 / P / P+1 bytes at every misalignment", "P-1 / P / P+1 CHARACTERS, one of them "
                                                                        "multi-byte (first / middle / last)", "one multi-byte character across byte P", "a multi-byte character across every multiple of P",
                                                                        "fewer than P characters but more than P bytes", "1/2/3/4-byte mixture", "bytes / bytearray of P-1 / P / P+1 bytes",
                                                                        "dict / list / user class / str subclass (pickle) holding such texts", "frames with more than 2**16 rows"],
                                                              channels=["fetch_blob", "blob file", "second dds.keep", "dds.load", "data-directory file", "all of them in a second process"]),
                                       "reading_process_registry_dimension": dict(reader_dist, reference_shapes={k: len(v) for k, v in DR.REF_SHAPES.items()}, reader_classes=DR.READERS,
                                                                                  stores=["local", "dbfs (fake dbutils)"], channels=["fetch_blob", "dds.load"])}
    rep.sample({"pre": cases[0]["pre"], "mid": cases[0]["mid"], "value_types": [v[0] for v in cases[0]["values"]]})


def replay(path):
    r = json.load(open(path))["replay"]
    if "reader_case" in r:
        DR.replay_case(r["reader_case"])
        return 1
    if "sized_case" in r:
        c = r["sized_case"]
        out = run_sized(c)
        for spec, w, x in zip(c["values"], (out.get("o1") or {}).get("values", []), (out.get("o2") or {}).get("values", [])):
            want = DS.build(spec) if spec["type"] in ("str", "bytes", "bytearray") else None
            print(DS.describe(spec))
            print("  expected:", seen(DS.digest(want)) if want is not None else "the value that plain execution gives ('equal')")
            for proc, o in (("process 1", w), ("process 2", x)):
                print(f"  {proc}: written with {o.get('stored')} / {o.get('protocol')}; " + "; ".join(f"{ch}: {seen(o[ch])}" for ch in ("fetch", "raw", "keep", "load", "tool") if ch in o))
        print(json.dumps({"top": (out.get("o1") or {}).get("top"), "error": out.get("error")}))
        return 1
    keep =r.get("failing") or ([r["value"]] if is_shape(r.get("value") or ["?"]) else None)
    for k in ("api_case", "case"):
        if keep and k in r:            # only the values that failed
            r[k] = dict(r[k], values=[v for v in r[k]["values"] if v in keep])
    if "api_case" in r:
        out = run_api(r["api_case"])
        for v, w, x in zip(r["api_case"]["values"], (out.get("o1") or {}).get("values", []), (out.get("o2") or {}).get("values", [])):
            if any(str(o.get(ch, "equal")) != "equal" for o in (w, x) for ch in ("keep", "load", "tool")):
                print(json.dumps({"value": v, "process1": w, "process2": x})[:900])
        print(json.dumps({"top": (out.get("o1") or {}).get("top"), "error": out.get("error")}))
        return 1
    if "killed_case" in r:
        out = run_killed(r["killed_case"])
        print(json.dumps({k: out.get(k) for k in ("o1", "o2", "o3", "error")}, indent=1)[:3000])
        return 1
    out = run_case(r["case"])
    if keep:
        for proc, st, o in [(1, a, b) for a, b in zip(out.get("steps1", []), out.get("o1", []))] + [(2, a, b) for a, b in zip(out.get("steps2", []), out.get("o2", []))]:
            if "register" not in st and "has" not in st:
                print(f"process {proc}:", json.dumps(st)[:100], "->", o[:300])
        return 1
    print(json.dumps({"o1": out.get("o1"), "o2": out.get("o2")}, indent=1)[:3000])
    return 1
