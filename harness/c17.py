"""C17 - results are read back with the codec that wrote them, text and bytes verbatim."""
import concurrent.futures as cf
import json
import random
import shutil
import tempfile

import common as C

COQ_FILES = ("L5_Stores/Codec.v", "L5_Stores/CodecProofs.v", "Properties/C17.v")
EXTRACTED = ("ConstCodec",)
ALLOWED_AXIOMS = ()

PRELUDE = """From Coq Require Import List String.
From DDS Require Import Base.Bytes L5_Stores.Codec.
Import ListNotations.
"""
VALUES = [["str", ""], ["str", "plain"], ["str", "héllo ✓ 😀"], ["str", "x" * 200000],
          ["str", "id,name\r\n1,a\r\n2,b\rc\n"], ["str", "\ufeffbom \x00 nul \x1a sub \u2028 ls \x85 nel\n\n"], ["str", "\n"], ["bytes", "0d0a1a000d"], ["bytes", ""], ["bytes", "00ff10"], ["bytes", "ab" * 70000],
          ["bytearray", "0102"], ["none"], ["object"], ["int", 5], ["user", 3], ["frame"],
          ["strenum"], ["strsub"], ["bytessub"], ["boolval"]]      # instances of SUBCLASSES of types with a dedicated codec
EXPECTED_REF = {"str": "local.string", "bytes": "local.bytes", "bytearray": "local.bytes", "none": "local.pickle", "object": "local.pickle",
                "int": "local.pickle", "user": "local.pickle", "frame": "local.pandas", "strenum": "local.pickle", "strsub": "local.pickle",
                "bytessub": "local.pickle", "boolval": "local.pickle"}
REGS = [{"kind": "file", "ref": "user.str2", "type": "str"}, {"kind": "codec", "ref": "user.strc", "type": "str"},
        {"kind": "file", "ref": "user.bytes2", "type": "bytes"}, {"kind": "codec", "ref": "user.thing", "type": "user"},
        {"kind": "file", "ref": "user.obj", "type": "object"}, {"kind": "codec", "ref": "user.none", "type": "none"},
        {"kind": "file", "ref": "local.string", "type": "str"}]


def type_name(v):
    return {"str": "str", "bytes": "bytes", "bytearray": "bytearray", "none": "NoneType", "object": "dict", "int": "int",
            "user": "__main__.UserThing", "frame": "pandas.core.frame.DataFrame", "strenum": "__main__.Color", "strsub": "__main__.TaggedStr",
            "bytessub": "__main__.Digest", "boolval": "bool"}[v[0]]


def reg_coq(r):
    t = {"str": "str", "bytes": "bytes", "user": "__main__.UserThing", "object": "object", "none": "NoneType"}[r["type"]]
    return f'({"RFile" if r["kind"] == "file" else "RCodec"} {C.hexs(r["ref"])} [{C.hexs(t)}])'


def run_case(case):
    d = tempfile.mkdtemp(prefix="c17_", dir=C.scratch_dir())
    try:
        steps1 = []
        for r in case["pre"]:
            steps1.append({"register": r})
        for i, v in enumerate(case["values"]):
            steps1.append({"store": v, "key": f"k{i}"})
        for r in case["mid"]:
            steps1.append({"register": r})
        for i, v in enumerate(case["values"]):
            steps1.append({"fetch": v, "key": f"k{i}"})
        o1 = C.run_driver("drive_codec.py", {"dir": d, "steps": steps1})
        # second process: registers the user codecs that were in force (any order), reads everything, raw bytes
        steps2 = [{"register": r} for r in case["second"]]
        for i, v in enumerate(case["values"]):
            steps2.append({"fetch": v, "key": f"k{i}"})
            if v[0] in ("str", "bytes", "bytearray"):
                steps2.append({"raw": True, "key": f"k{i}"})
        o2 = C.run_driver("drive_codec.py", {"dir": d, "steps": steps2})
        return {"case": case, "o1": o1, "o2": o2, "steps1": steps1, "steps2": steps2}
    except Exception as e:  # noqa
        return {"case": case, "error": str(e)[-400:]}
    finally:
        shutil.rmtree(d, ignore_errors=True)


def run_killed(case):
    """Process 1 (registrations pre) is killed between the blob and its metadata; process 2 (registrations second) stores the key
    again - the blob is not complete for has_blob - and reads it; process 3 (no user codec unless needed) reads it again."""
    d = tempfile.mkdtemp(prefix="c17k_", dir=C.scratch_dir())
    try:
        v = case["value"]
        s1 = [{"register": r} for r in case["pre"]] + [{"store_killed": v, "key": "k0"}]
        o1 = C.run_driver("drive_codec.py", {"dir": d, "steps": s1})
        s2 = [{"register": r} for r in case["second"]] + [{"has": True, "key": "k0"}, {"store": v, "key": "k0"}, {"fetch": v, "key": "k0"}, {"raw": True, "key": "k0"}]
        o2 = C.run_driver("drive_codec.py", {"dir": d, "steps": s2})
        s3 = [{"register": r} for r in case["second"]] + [{"fetch": v, "key": "k0"}]
        o3 = C.run_driver("drive_codec.py", {"dir": d, "steps": s3})
        return {"case": case, "o1": o1, "o2": o2, "o3": o3}
    except Exception as e:  # noqa
        return {"case": case, "error": str(e)[-400:]}
    finally:
        shutil.rmtree(d, ignore_errors=True)


def check_killed(rep, rng, n):
    cases = []
    strs = [v for v in VALUES if v[0] in ("str", "bytes")]
    for i in range(n):
        v = rng.choice(strs if i % 2 == 0 else VALUES)
        mine = [r for r in REGS if r.get("type") == v[0]] or REGS
        pre, second = ([], [rng.choice(mine)]) if i % 2 == 0 else ([rng.choice(mine)], [])
        if i % 4 >= 2:
            pre, second = pre + rng.sample(REGS, 1), second + rng.sample(REGS, 1)
        cases.append({"value": v, "pre": pre, "second": second})
    with cf.ThreadPoolExecutor(max_workers=C.NPROC) as ex:
        res = list(ex.map(run_killed, cases))
    exprs = ["run_select [" + "; ".join(reg_coq(r) for r in c["second"]) + f"] {C.hexs(type_name(c['value']))}" for c in cases]
    model = C.coq_eval_strings(PRELUDE, exprs, label="c17k")
    n_killed = 0
    for r, m in zip(res, model):
        c = r["case"]
        v = c["value"]
        rep.case("killed-before-metadata:" + json.dumps(c)[:300], nontrivial=True)
        if "error" in r:
            rep.violation("harness-error:c17k", r["error"][-300:], r, no_input=True)
            continue
        if r["o1"][-1] != "K":
            continue            # the write was refused (no codec) or did not reach the metadata: nothing to recover from
        n_killed += 1
        k = len(c["second"])
        has, st, f2, raw = r["o2"][k:k + 4]
        f3 = r["o3"][-1]
        what = f"a {v[0]} written under registrations {[x['ref'] for x in c['pre']]}, killed before its metadata, stored again under {[x['ref'] for x in c['second']]}"
        if has != "B0":
            rep.violation("killed:blob-without-metadata-reported-present", f"{what}: has_blob answers true for a blob without metadata", {"killed_case": c, "o2": r["o2"]})
        if st != "S:" + m:
            rep.violation("model-mismatch:codec-selection-after-kill", f"{what}: metadata names {st}, the model of the registry selects {m}", {"killed_case": c, "o2": r["o2"]})
        if f2 != "F:equal" or f3 != "F:equal":
            rep.violation(f"read-back-differs:{v[0]}:after-kill", f"{what}: read back as {f2[:70]} (same process) / {f3[:70]} (next process)", {"killed_case": c, "o2": r["o2"], "o3": r["o3"]})
        want = v[1].encode("utf-8").hex() if v[0] == "str" else (v[1] if len(v) > 1 else None)
        if v[0] in ("str", "bytes", "bytearray") and st in ("S:local.string", "S:local.bytes") and raw != "R:" + want:
            rep.violation(f"not-verbatim:{v[0]}:after-kill", f"{what}: the blob file is not the text / the bytes themselves", {"killed_case": c, "raw": raw[:80]})
    return len(cases), n_killed


def run(rep, tier, seed, proof_ok):
    rng = random.Random(seed)
    rep.rule = ("values of every storable type (str: empty / ascii / non-ASCII incl. astral / 200 kB / CR, CRLF and other line separators, NUL, BOM; bytes: empty / binary / 140 kB; bytearray; "
                "None; picklable object; int; bool; instance of a user class; pandas frame; instances of subclasses of str / bytes incl. a str-mixin Enum) stored in the local store x sequences of codec "
                "registrations (file codecs and codecs for str, bytes, object, NoneType, the user class, and a second codec reusing the "
                "reference 'local.string') before the writes, between write and read, and in a second process in another order; "
                "checks: value read back equal in both processes, the reference recorded in the metadata is the one the Coq model of "
                "the registry selects, str / bytes blobs are byte-for-byte the UTF-8 text / the bytes; distinct = distinct case; "
                "non-trivial = at least one registration between write and read; + writer killed between the rename of the blob and the rename of its "
                "metadata, the key stored again by a process with other registrations, read there and in a third process")
    n = 10 if tier == "quick" and proof_ok else 80
    cases = []
    for i in range(n):
        pre = rng.sample(REGS, rng.choice([0, 0, 1, 2]))
        mid = rng.sample(REGS, rng.choice([1, 2, 3]))
        vals = rng.sample(VALUES, rng.randint(4, 8))
        regs_in_force = pre + [r for r in mid if r not in pre]
        second = list(regs_in_force)
        rng.shuffle(second)
        cases.append({"pre": pre, "mid": mid, "values": vals, "second": second})
    cases.insert(0, {"pre": [], "mid": [REGS[0]], "values": list(VALUES), "second": [REGS[0]]})     # every value, always
    with cf.ThreadPoolExecutor(max_workers=C.NPROC) as ex:
        res = list(ex.map(run_case, cases))
    # model: which reference each write selects, after the pre registrations
    exprs = []
    for c in cases:
        regs = "[" + "; ".join(reg_coq(r) for r in c["pre"]) + "]"
        for v in c["values"]:
            exprs.append(f"run_select {regs} {C.hexs(type_name(v))}")
    model = C.coq_eval_strings(PRELUDE, exprs, label="c17")
    mi = 0
    refs = {}
    for r in res:
        c = r["case"]
        rep.case(json.dumps(c)[:400], nontrivial=bool(c["mid"]))
        if "error" in r:
            rep.violation("harness-error:c17", r["error"][-300:], r, no_input=True)
            mi += len(c["values"])
            continue
        o1, o2 = r["o1"], r["o2"]
        stores = [x for x, s in zip(o1, r["steps1"]) if "store" in s]
        fetch1 = [x for x, s in zip(o1, r["steps1"]) if "fetch" in s]
        for v, s, f in zip(c["values"], stores, fetch1):
            m = model[mi]
            mi += 1
            refs[s] = refs.get(s, 0) + 1
            if s != "S:" + m:
                rep.violation("model-mismatch:codec-selection", f"value of type {type_name(v)} after registrations {[x['ref'] for x in c['pre']]}: "
                              f"written with {s}, the model of the registry selects {m}", {"case": c, "value": v[:1], "impl": s, "model": m})
            if f != "F:equal":
                rep.violation(f"read-back-differs:{v[0]}:same-process", f"value of type {v[0]} written with {s} is read back as {f[:80]} after registrations "
                              f"{[x['ref'] for x in c['mid']]}", {"case": c, "value": v[:1], "stored": s, "fetched": f})
        k = 0
        for s2, x in zip(r["steps2"], o2):
            if "fetch" in s2:
                v = s2["fetch"]
                if x != "F:equal":
                    rep.violation(f"read-back-differs:{v[0]}:second-process", f"value of type {v[0]} is read back as {x[:80]} in a second process that registered "
                                  f"{[y['ref'] for y in c['second']]}", {"case": c, "value": v[:1], "fetched": x})
            elif "raw" in s2:
                key = s2["key"]
                v = c["values"][int(key[1:])]
                stored_with = stores[int(key[1:])]
                want = v[1].encode("utf-8").hex() if v[0] == "str" else v[1]
                if stored_with in ("S:local.string", "S:local.bytes") and x != "R:" + want:
                    rep.violation(f"not-verbatim:{v[0]}", f"the blob file of a {v[0]} result is not the text / the bytes themselves", {"case": c, "value": v[:1], "raw": x[:80]})
    nk, nk_killed = check_killed(rep, rng, 16 if tier == "quick" and proof_ok else 120)
    rep.extra["input_distribution"] = {"cases": len(cases), "writes_by_selected_reference": refs, "killed_before_metadata_cases": nk, "of_which_reached_the_kill_point": nk_killed}
    rep.sample({"pre": cases[0]["pre"], "mid": cases[0]["mid"], "value_types": [v[0] for v in cases[0]["values"]]})


def replay(path):
    r = json.load(open(path))["replay"]
    if "killed_case" in r:
        out = run_killed(r["killed_case"])
        print(json.dumps({k: out.get(k) for k in ("o1", "o2", "o3", "error")}, indent=1)[:3000])
        return 1
    out = run_case(r["case"])
    print(json.dumps({"o1": out.get("o1"), "o2": out.get("o2")}, indent=1)[:3000])
    return 1
