"""C14, repeated-request part: the boundary of the accepted modules must not depend on WHAT THE PROCESS WAS ASKED BEFORE.
The other parts make one request per process; here ONE process (a notebook whose cells are run again, a driver that catches
the error and retries) makes a SCRIPT of 5..14 requests on one local store, in package trees of depth 1..6 (accepted prefix
at every depth, few / many accepted packages, the non-accepted twin package in a separate tree / under a near-miss name / as
a sibling of the accepted package, 5 import forms).  The accepted module <acc>.apipe and the non-accepted module <ext>.xpipe
define data functions, plain functions with and without arguments and functions that keep; every execution is reported to a
counter module that dds never looks at.  A request is  f()  of a data function,  dds.keep(path, f, *args)  or
dds.eval(f, *args); the requests of a script are
  * a REFUSAL scenario asked 2..4 times, through the different entry points in every order, with the same and with other
    arguments: top level (data function xvalue / plain function xplain / function with arguments xarg / function that keeps
    xkeeper of the non-accepted module) or nested (accepted root that calls the data function of the non-accepted module, that
    keeps a function of the non-accepted module, that calls a function of the non-accepted module which keeps);
  * a second refusal scenario asked 1..2 times;
  * 1..3 requests of functions of the accepted module (data function, kept function with / without arguments, root that uses a
    plain function of the non-accepted module - allowed, untracked), some asked twice, interleaved at random positions;
  * in some scripts dds.accept_module(<the twin prefix>) in the middle of the life of the process, followed by the requests
    that were refused before and by the accepted root that uses the non-accepted function.
Expected, from the property alone:
  * EVERY request of a function of a non-accepted module at top level is refused with a DDS error that names the module, runs
    no generated code at all and leaves the store (paths and blobs) exactly as it was - the first time and every later time;
  * every nested request is refused with a DDS error, the function of the non-accepted module that was to be stored is not
    executed and the store is left as it was (these errors name the store path, not the module: counted, not judged);
  * every request of the accepted module succeeds whatever was refused before, returns the value of plain execution and
    commits the signature that a BARE process (fresh process, fresh store, no refusal before) commits for the same request;
  * after dds.accept_module(twin) the requests succeed, return the value of plain execution and commit the signature of a
    process that accepted the twin from the start (a refusal must not be remembered either)."""
import collections
import concurrent.futures as cf
import json
import os
import shutil
import tempfile
import time

import common as C
import c14_shapes as S

FORMS = S.FORMS
ARGS = [1, 2, "t"]
# function -> (side, entry points, takes an argument, store paths it produces besides the path of a keep)
FUNS = {
    "xvalue": ("ext", ("call", "eval"), False, ["/ext_side/value"]),
    "xplain": ("ext", ("keep", "eval"), False, []),
    "xarg": ("ext", ("keep", "eval"), True, []),
    "xkeeper": ("ext", ("keep", "eval"), False, ["/ext_side/inner"]),
    "acalls_data": ("acc", ("keep", "eval"), False, ["/ext_side/value"]),
    "akeeps": ("acc", ("keep", "eval"), False, ["/ext_side/nested"]),
    "acalls_keeper": ("acc", ("keep", "eval"), False, ["/ext_side/inner"]),
    "avalue": ("acc", ("call", "eval"), False, ["/acc_side/value"]),
    "aplain": ("acc", ("keep", "eval"), False, []),
    "aarg": ("acc", ("keep", "eval"), True, []),
    "auses": ("acc", ("keep", "eval"), False, []),
}
TOP = ["xvalue", "xplain", "xarg", "xkeeper"]                 # refused at top level
NESTED = ["acalls_data", "akeeps", "acalls_keeper"]           # accepted root, refusal inside
ACCEPTED = ["avalue", "aplain", "aarg", "auses"]
# what a nested refusal must not execute: the function of the non-accepted module that was to be stored
FORBIDDEN = {"acalls_data": "ext.xvalue", "akeeps": "ext.xplain", "acalls_keeper": "ext.xplain"}

XPIPE = """import dds
import c14cnt

XVAR = {var}


@dds.data_function("/ext_side/value")
def xvalue():
    c14cnt.hit("ext.xvalue")
    return ("xvalue", {salt!r}, XVAR)


def xplain():
    c14cnt.hit("ext.xplain")
    return ("xplain", {salt!r}, XVAR)


def xarg(a):
    c14cnt.hit("ext.xarg")
    return ("xarg", {salt!r}, XVAR, a)


def xkeeper():
    c14cnt.hit("ext.xkeeper")
    return ("xkeeper", dds.keep("/ext_side/inner", xplain))
"""
APIPE = """import dds
import c14cnt
{imports}

AVAR = {var}


@dds.data_function("/acc_side/value")
def avalue():
    c14cnt.hit("acc.avalue")
    return ("avalue", {salt!r}, AVAR)


def aplain():
    c14cnt.hit("acc.aplain")
    return ("aplain", {salt!r}, AVAR)


def aarg(a):
    c14cnt.hit("acc.aarg")
    return ("aarg", {salt!r}, AVAR, a)


def auses():
    c14cnt.hit("acc.auses")
    return ("auses", {salt!r}, AVAR, {xplain}())


def acalls_data():
    c14cnt.hit("acc.acalls_data")
    return ("acalls_data", {salt!r}, AVAR, {xvalue}())


def akeeps():
    c14cnt.hit("acc.akeeps")
    return ("akeeps", {salt!r}, AVAR, dds.keep("/ext_side/nested", xplain_k))


def acalls_keeper():
    c14cnt.hit("acc.acalls_keeper")
    return ("acalls_keeper", {salt!r}, AVAR, {xkeeper}())
"""
COUNTER = "HITS = []\n\n\ndef hit(name):\n    HITS.append(name)\n"


def modules(cfg):
    acc, ext = S.packages(cfg)
    return {"acc": ".".join(acc + ["apipe"]), "ext": ".".join(ext + ["xpipe"])}


def twin_prefix(cfg):
    _, ext = S.packages(cfg)
    return ".".join(ext[:cfg["accept_depth"]])


def accept_list(cfg, early=False):
    acc, _ = S.packages(cfg)
    fill = [f"otherpkg{j}" for j in range(cfg["nfill"])]
    pos = cfg.get("accept_pos", 0) % (len(fill) + 1)
    return fill[:pos] + [".".join(acc[:cfg["accept_depth"]])] + fill[pos:] + ([twin_prefix(cfg)] if early else [])


def ext_ref(E, n, form, tag):
    parent, _, leaf = E.rpartition(".")
    if form == "from-import":
        return f"from {E} import {n}", n
    if form == "from-import-as":
        return f"from {E} import {n} as r{tag}_{n}", f"r{tag}_{n}"
    if form == "import-as-module":
        return f"import {E} as m{tag}", f"m{tag}.{n}"
    if form == "from-parent-import-module":
        return f"from {parent} import {leaf} as lm{tag}", f"lm{tag}.{n}"
    return f"import {E}", f"{E}.{n}"


def sources(cfg):
    """dotted module -> text of the generated modules of the configuration."""
    m = modules(cfg)
    (ca, va), (cx, vx) = cfg["state"]["acc"], cfg["state"]["ext"]
    imps, refs = [f"from {m['ext']} import xplain as xplain_k"], {}
    for j, n in enumerate(("xplain", "xvalue", "xkeeper")):
        imp, refs[n] = ext_ref(m["ext"], n, FORMS[(j + cfg["form_offset"]) % len(FORMS)], j)
        imps.append(imp)
    return {"c14cnt": COUNTER, m["ext"]: XPIPE.format(salt=f"s{cx}", var=vx + 1),
            m["acc"]: APIPE.format(imports="\n".join(imps), salt=f"s{ca}", var=va + 1, **refs)}


def write_tree(root, cfg):
    for mod, text in sources(cfg).items():
        S.put(root, mod, text)


def plain_value(cfg, fn, args):
    """repr of what plain execution of the generated function returns."""
    (ca, va), (cx, vx) = cfg["state"]["acc"], cfg["state"]["ext"]
    sa, sx, va, vx = f"s{ca}", f"s{cx}", va + 1, vx + 1
    xplain, xvalue = ("xplain", sx, vx), ("xvalue", sx, vx)
    v = {"xvalue": xvalue, "xplain": xplain, "xarg": ("xarg", sx, vx) + tuple(args), "xkeeper": ("xkeeper", xplain),
         "avalue": ("avalue", sa, va), "aplain": ("aplain", sa, va), "aarg": ("aarg", sa, va) + tuple(args), "auses": ("auses", sa, va, xplain),
         "acalls_data": ("acalls_data", sa, va, xvalue), "akeeps": ("akeeps", sa, va, xplain), "acalls_keeper": ("acalls_keeper", sa, va, ("xkeeper", xplain))}[fn]
    return repr(v)


def request(api, fn, args=()):
    st = {"api": api, "side": FUNS[fn][0], "fn": fn, "args": list(args)}
    if api == "keep":
        st["path"] = f"/{FUNS[fn][0]}_side/kept_{fn}"
    return st


def render(cfg, st):
    if st["api"] == "accept":
        return f"dds.accept_module({st['module']!r})"
    f = modules(cfg)[st["side"]] + "." + st["fn"]
    a = "".join(", " + repr(x) for x in st["args"])
    if st["api"] == "call":
        return f"{f}({a[2:]})"
    return f"dds.keep({st['path']!r}, {f}{a})" if st["api"] == "keep" else f"dds.eval({f}{a})"


def sig_of(st, out):
    """The signatures that the request committed: key of the kept path and of the paths that the function produces."""
    ps = ([st["path"]] if st["api"] == "keep" else []) + FUNS[st["fn"]][3]
    return [out["paths"].get(p) for p in ps]


def req_key(st):
    return json.dumps([st["api"], st["fn"], st["args"]])


def reference_steps(early):
    fns = ACCEPTED + (TOP + NESTED if early else [])
    return [request(api, fn, [a] if FUNS[fn][2] else []) for fn in fns for api in FUNS[fn][1] for a in (ARGS if FUNS[fn][2] else [None])]


def gen_script(rng, main, late):
    def asks(fn, n):
        first = [rng.choice(ARGS)] if FUNS[fn][2] else []
        apis = list(FUNS[fn][1])
        rng.shuffle(apis)
        res = []
        for j in range(n):
            args = first if not first or rng.random() < 0.5 else [rng.choice([a for a in ARGS if a != first[0]])]
            res.append(request(apis[j % len(apis)] if j < len(apis) else rng.choice(apis), fn, args))
        return res
    steps = asks(main, rng.randint(2, 4))
    second = rng.choice([f for f in TOP + NESTED if f != main])
    for st in asks(second, rng.randint(1, 2)):
        steps.insert(rng.randint(0, len(steps)), st)
    for _ in range(rng.randint(1, 3)):
        for st in asks(rng.choice(ACCEPTED), rng.choice((1, 1, 2))):
            steps.insert(rng.randint(0, len(steps)), st)
    if late:
        again = [dict(st) for st in steps if st["fn"] in TOP + NESTED]
        rng.shuffle(again)
        tail = again[:rng.randint(2, 3)] + [request(rng.choice(FUNS["auses"][1]), "auses")]
        rng.shuffle(tail)
        steps = steps + [{"api": "accept", "module": None}] + tail
    return steps


def run_cfg(cfg):
    """-> outcomes of the two reference processes (bare / twin accepted from the start) and of every script of the configuration."""
    base = tempfile.mkdtemp(prefix="c14r_", dir=C.scratch_dir())
    try:
        root = os.path.join(base, "tree")
        os.makedirs(root)
        write_tree(root, cfg)
        n = [0]

        def proc(steps, early=False):
            n[0] += 1
            return C.run_driver("drive_repeat.py", {"root": root, "accept": accept_list(cfg, early), "store_dir": os.path.join(base, f"store{n[0]}"),
                                                    "modules": modules(cfg), "steps": steps})
        res = {"cfg": cfg, "bare": proc(reference_steps(False)), "scripts": []}
        if any(st["api"] == "accept" for sc in cfg["scripts"] for st in sc):
            res["early"] = proc(reference_steps(True), early=True)
        for sc in cfg["scripts"]:
            res["scripts"].append(proc([dict(st, module=twin_prefix(cfg)) if st["api"] == "accept" else st for st in sc]))
        for k in ["bare", "early"] + list(range(len(res["scripts"]))):
            o = res["scripts"][k] if isinstance(k, int) else res.get(k)
            if isinstance(o, dict) and "__import__" in o:
                return {"cfg": cfg, "error": f"generated tree does not import: {o['__import__']}"}
        return res
    except Exception as e:  # noqa
        return {"cfg": cfg, "error": str(e)[-600:]}
    finally:
        shutil.rmtree(base, ignore_errors=True)


def names_module(err, mod):
    return mod in err or mod.replace(".", "/") in err


def judge(cfg, res, stats=None):
    """-> violations [(key, what, script index, step index)]: the first request of every script that contradicts the property,
    and the references that fail."""
    bad = []
    stats = stats if stats is not None else collections.Counter()
    m = modules(cfg)
    pre = f"accept={accept_list(cfg)}, generated modules {m['acc']} (accepted) and {m['ext']} (not accepted)"
    refs = {}
    for name, early in (("bare", False), ("early", True)):
        if name not in res:
            continue
        for st, o in zip(reference_steps(early), res[name]):
            refs[(name, req_key(st))] = (st, o)
            if o["error"] or o["value"] != plain_value(cfg, st["fn"], st["args"]):
                bad.append(("repeat:reference-request-fails", f"{pre}: in a fresh process on a fresh store" + (f" that accepted {twin_prefix(cfg)} too" if early else "")
                            + f", `{render(cfg, st)}` gave {o['error'] or o['value']}; plain execution gives {plain_value(cfg, st['fn'], st['args'])}", None, None))
    for si, (script, outs) in enumerate(zip(cfg["scripts"], res["scripts"])):
        accepted_twin, asked, refused_before = False, collections.Counter(), 0
        for i, (st, o) in enumerate(zip(script, outs)):
            if st["api"] == "accept":
                accepted_twin = True
                if o["error"]:
                    bad.append(("repeat:accept-module-fails", f"{pre}: dds.accept_module({twin_prefix(cfg)!r}) after {i} requests: {o['error'][:200]}", si, i))
                    break
                continue
            fn = st["fn"]
            asked[fn] += 1
            hist = "; ".join(f"`{render(cfg, dict(s, module=twin_prefix(cfg)))}` -> {'refused' if x['error'] else 'served'}" for s, x in zip(script[:i], outs[:i]))
            where = (f"{pre}: request #{i + 1} of one process, `{render(cfg, st)}` (request #{asked[fn]} of {fn} in this process"
                     + (f", after dds.accept_module({twin_prefix(cfg)!r})" if accepted_twin else "") + f"; before it: {hist or 'nothing'})")
            changed = o["added"] or o["changed"]
            what = None
            if fn in TOP and not accepted_twin:
                stats["top-level refusals judged"] += 1
                stats["repeated refusals judged (2nd..4th request of the same function)"] += asked[fn] > 1
                if not o["error"]:
                    what = ("repeat:non-accepted-function-evaluated", f"{where} returned {o['value']} (executed {o['hits']}, store files created {o['added']}) instead of "
                            f"being refused: {fn} is defined in the non-accepted module {m['ext']}")
                elif not o["error"].startswith("dds:"):
                    what = ("repeat:refusal-not-a-dds-error", f"{where} failed with {o['error'][:200]} instead of a DDS error naming the module {m['ext']}")
                elif not names_module(o["error"], m["ext"]):
                    what = ("repeat:refusal-does-not-name-module", f"{where}: the error does not name the module {m['ext']}: {o['error'][:240]}")
                elif o["hits"]:
                    what = ("repeat:refused-request-executed-code", f"{where} was refused ({o['error'][:80]}) but executed {o['hits']}")
                elif changed:
                    what = ("repeat:refused-request-changed-store", f"{where} was refused ({o['error'][:80]}) but created {o['added']} / modified {o['changed']} in the store")
                refused_before += 1
            elif fn in NESTED and not accepted_twin:
                stats["nested refusals judged"] += 1
                stats["repeated refusals judged (2nd..4th request of the same function)"] += asked[fn] > 1
                if not o["error"]:
                    what = ("repeat:non-accepted-function-evaluated-nested", f"{where} returned {o['value']} (executed {o['hits']}, store files created {o['added']}): "
                            f"{FORBIDDEN[fn]} of the non-accepted module {m['ext']} was stored by dds instead of being refused")
                elif not o["error"].startswith("dds:"):
                    what = ("repeat:refusal-not-a-dds-error", f"{where} failed with {o['error'][:200]} instead of a DDS error")
                elif FORBIDDEN[fn] in o["hits"]:
                    what = ("repeat:refused-request-executed-code", f"{where} was refused ({o['error'][:80]}) but executed {o['hits']}")
                elif changed:
                    what = ("repeat:refused-request-changed-store", f"{where} was refused ({o['error'][:80]}) but created {o['added']} / modified {o['changed']} in the store")
                stats["nested refusals whose error names the store path, not the module"] += bool(o["error"]) and not names_module(o["error"], m["ext"])
                refused_before += 1
            else:
                ref_name = "early" if accepted_twin else "bare"
                rst, ro = refs[(ref_name, req_key(st))]
                stats["requests after dds.accept_module of the twin judged" if accepted_twin else "accepted requests judged"] += 1
                stats["accepted requests made after at least one refusal"] += refused_before > 0
                exp = plain_value(cfg, fn, st["args"])
                refdesc = "a fresh process that accepted the twin from the start" if accepted_twin else "a bare process (no refusal before)"
                if o["error"]:
                    what = ("repeat:accepted-request-fails" + ("-after-late-accept" if accepted_twin else ""), f"{where} failed with {o['error'][:200]}; {refdesc} gives "
                            f"{ro['error'] or ro['value']}")
                elif o["value"] != exp:
                    what = ("repeat:wrong-value", f"{where} returned {o['value']}, plain execution gives {exp}")
                elif sig_of(st, o) != sig_of(rst, ro):
                    what = ("repeat:signature-differs-from-reference-process", f"{where} committed the signatures {sig_of(st, o)}, {refdesc} commits {sig_of(rst, ro)}")
            if what:
                bad.append(what + (si, i))
                break
    return bad


def gen_cfgs(rng, tier):
    cfgs = []
    n = 0
    for depth in range(1, 5 if tier == "quick" else 7):
        for k in range(1, depth + 1):
            if tier == "quick":
                variants = [(S.EXT_KINDS[n % 3], (0, 3, 39)[(n // 3) % 3], n % len(FORMS))]
            else:
                variants = rng.sample([(ek, nf, fo) for ek in S.EXT_KINDS for nf in (0, 1, 9, 39) for fo in range(len(FORMS))], 4)
            for ek, nf, fo in variants:
                ns = 3 if tier == "quick" else 6
                scripts = [gen_script(rng, (TOP + NESTED)[(ns * n + j) % 7], late=j % 3 == 2) for j in range(ns)]
                cfgs.append({"depth": depth, "accept_depth": k, "ext_kind": ek, "nfill": nf, "accept_pos": rng.randint(0, nf), "form_offset": fo,
                             "state": {"acc": [rng.randint(0, 3), rng.randint(0, 3)], "ext": [rng.randint(0, 3), rng.randint(0, 3)]}, "scripts": scripts})
                n += 1
    return cfgs


def run(rep, tier, seed, proof_ok, rng):
    t0 = time.time()
    cfgs = gen_cfgs(rng, tier)
    with cf.ThreadPoolExecutor(max_workers=C.NPROC) as ex:
        res = list(ex.map(run_cfg, cfgs))
    stats, n_scripts, n_req, seqs, late = collections.Counter(), 0, 0, set(), 0
    for r in res:
        cfg = r["cfg"]
        rep.case("repeat:" + json.dumps({k: v for k, v in cfg.items() if k != "scripts"}))
        for sc in cfg["scripts"]:
            rep.case("repeat-script:" + json.dumps(sc))
            n_scripts += 1
            n_req += sum(1 for st in sc if st["api"] != "accept")
            late += any(st["api"] == "accept" for st in sc)
            for fn in TOP + NESTED:
                s = [st["api"] + ("*" if st["args"] != [x for x in sc if x.get("fn") == fn][0]["args"] else "") for st in sc if st.get("fn") == fn]
                if len(s) > 1:
                    seqs.add((fn, tuple(s)))
        if "error" in r:
            rep.violation("harness-error:c14r", r["error"][-300:], r, no_input=True)
            continue
        for key, what, si, i in judge(cfg, r, stats):
            rep.violation(key, what, {"repeat_case": cfg, "script": si, "step": i, "accept": accept_list(cfg), "twin_prefix": twin_prefix(cfg), "modules": modules(cfg),
                                      "sources": sources(cfg), "requests": [render(cfg, dict(st, module=twin_prefix(cfg))) for st in cfg["scripts"][si]] if si is not None else None,
                                      "observed": r["scripts"][si] if si is not None else {k: r.get(k) for k in ("bare", "early")}})
    rep.sample({"repeat_case": {k: v for k, v in cfgs[0].items() if k != "scripts"}, "script": [render(cfgs[0], dict(st, module=twin_prefix(cfgs[0]))) for st in cfgs[0]["scripts"][0]]})
    rep.extra["repeat_part"] = {"configurations": len(cfgs), "scripts": n_scripts, "scripts_with_late_accept_module": late, "requests": n_req,
                                "refusal_scenarios": len(TOP + NESTED), "distinct_refusal_scenario_x_entry_point_sequence": len(seqs),
                                "wall_s": round(time.time() - t0, 1), **{k: v for k, v in sorted(stats.items())}}


def replay(r):
    cfg = r["repeat_case"]
    res = run_cfg(cfg)
    if "error" in res:
        print(res["error"])
        return 2
    bad = judge(cfg, res)
    hit = [b for b in bad if r.get("script") is None or b[2] == r["script"]]
    for key, what, si, i in hit:
        print(json.dumps({"key": key, "what": what, "script": si, "step": i, "observed": res["scripts"][si] if si is not None else None}, indent=1))
    print("REPRODUCED" if hit else "not reproduced")
    return 1 if hit else 0
