"""C14, program part: package trees on disk, accepted prefix at every depth, few / many accepted packages, several import
forms; edits on both sides of the boundary; data functions in non-accepted modules; sequences of authorisation queries
on one evaluation context."""
import concurrent.futures as cf
import json
import os
import random
import shutil
import tempfile

import common as C

# module dotted name -> how vpipe.main imports and calls its function (rotated per configuration)
TREE = ["apk", "apk.sub", "apk.sub.mod", "apk.sub.deep", "apk.sub.deep.x", "apk.sub.deep.y.z"]
FORMS = ["from-import", "from-import-as", "import-as-module", "from-parent-import-module", "import-dotted"]


def fname(mod):
    return "f_" + mod.replace(".", "_")


def import_and_call(mod, form):
    f = fname(mod)
    parent, _, leaf = mod.rpartition(".")
    if form == "from-import" or (not parent and form in ("from-parent-import-module",)):
        return f"from {mod} import {f}", f"{f}()"
    if form == "from-import-as":
        return f"from {mod} import {f} as {f}_al", f"{f}_al()"
    if form == "import-as-module":
        return f"import {mod} as m_{f}", f"m_{f}.{f}()"
    if form == "from-parent-import-module":
        return f"from {parent} import {leaf} as lm_{f}", f"lm_{f}.{f}()"
    return f"import {mod}", f"{mod}.{f}()"


def is_pkg(mod):
    return any(t.startswith(mod + ".") for t in TREE)


def write_tree(root, salts, forms, data_mod):
    for mod in TREE:
        parts = mod.split(".")
        for i in range(1, len(parts)):
            d = os.path.join(root, *parts[:i])
            os.makedirs(d, exist_ok=True)
            ini = os.path.join(d, "__init__.py")
            if not os.path.exists(ini):
                open(ini, "w").write("")
    for mod in TREE:
        parts = mod.split(".")
        if is_pkg(mod):
            os.makedirs(os.path.join(root, *parts), exist_ok=True)
            fp = os.path.join(root, *parts, "__init__.py")
        else:
            fp = os.path.join(root, *parts) + ".py"
        src = f"VAR_{fname(mod).upper()} = {salts.get(mod + ':var', 1)}\n\n\ndef {fname(mod)}():\n    return ({salts.get(mod, 's0')!r}, VAR_{fname(mod).upper()})\n"
        if mod == data_mod:
            src = "import dds\n" + src + f"\n\n@dds.data_function(\"/data_out\")\ndef data_fun():\n    return {fname(mod)}()\n"
        with open(fp, "a") as fh:
            fh.write(src)
    os.makedirs(os.path.join(root, "vpipe"), exist_ok=True)
    open(os.path.join(root, "vpipe", "__init__.py"), "w").write("")
    imps, calls = [], []
    for mod, form in zip(TREE, forms):
        i, c = import_and_call(mod, form)
        imps.append(i)
        calls.append(c)
    open(os.path.join(root, "vpipe", "main.py"), "w").write("import dds\n" + "\n".join(imps) + "\n\n\ndef root():\n    return (" + ", ".join(calls) + ",)\n")


def tracked(mod, accepted):
    parts = mod.split(".")
    return any(".".join(parts[:i]) in accepted for i in range(1, len(parts) + 1))


def run_cfg(cfg):
    base = tempfile.mkdtemp(prefix="c14p_", dir=C.scratch_dir())
    try:
        def sig(salts):
            root = tempfile.mkdtemp(prefix="t_", dir=base)
            write_tree(root, salts, cfg["forms"], cfg["data_mod"])
            return C.run_driver("drive_accept.py", {"root": root, "accept": cfg["accept"], "action": "sig"})
        out = {"base": sig({})}
        for mod in TREE:
            out["code:" + mod] = sig({mod: "s1"})
            out["var:" + mod] = sig({mod + ":var": 2})
        root = tempfile.mkdtemp(prefix="t_", dir=base)
        write_tree(root, {}, cfg["forms"], cfg["data_mod"])
        out["data"] = C.run_driver("drive_accept.py", {"root": root, "accept": cfg["accept"], "action": "data", "target": cfg["data_mod"] + ":data_fun"})
        return {"cfg": cfg, "out": out}
    except Exception as e:  # noqa
        return {"cfg": cfg, "error": str(e)[-600:]}
    finally:
        shutil.rmtree(base, ignore_errors=True)


def gen_seq_cases(rng, n):
    """Sequences of authorisation queries on ONE context: module paths and object paths that share prefixes, any order."""
    names = ["pkg", "core", "util", "deep"]
    cases = []
    for _ in range(n):
        depth = rng.randint(1, 3)
        mods = [names[:k] for k in range(1, depth + 1)]
        acc = {".".join(rng.choice(mods))} if rng.random() < 0.8 else set()
        if rng.random() < 0.4:
            acc.add(".".join(rng.choice(mods)) + "x")
        queries = []
        for _ in range(rng.randint(2, 6)):
            m = rng.choice(mods)
            r = rng.random()
            if r < 0.4:
                queries.append(m)                                   # the module itself
            elif r < 0.8:
                queries.append(m + [rng.choice(["fun", "helper", "VAR"])])   # an object defined in it
            else:
                queries.append(m + [rng.choice(names)])            # a sub-module or a name that looks like one
        cases.append({"accepted": sorted(acc), "queries": queries})
    return cases


def run(rep, tier, seed, proof_ok, rng):
    # 1. sequences on one context
    seqs = gen_seq_cases(rng, 300 if tier == "quick" else 3000)
    impl = C.run_driver("drive_small.py", {"kind": "authorized_seq", "cases": seqs})
    for c, outs in zip(seqs, impl):
        rep.case("seq:" + json.dumps(c), nontrivial=len(c["queries"]) >= 2)
        for i, (q, o) in enumerate(zip(c["queries"], outs)):
            exp = tracked(".".join(q), set(c["accepted"]))
            if o != exp:
                rep.violation("authorized:depends-on-earlier-queries", f"accepted={c['accepted']}: after the queries {['.'.join(x) for x in c['queries'][:i]]} on the same "
                              f"evaluation context, {'.'.join(q)} is {'authorised' if o else 'refused'} (expected {exp})", {"seq_case": c, "index": i, "impl": outs})
                break
    # 2. package trees
    cfgs = []
    fillers = [f"otherpkg{i}" for i in range(40)]
    k = 0
    for acc_mod in [None] + TREE:
        for nfill in ((0, 3) if tier == "quick" else (0, 1, 3, 10, 40)):
            forms = [FORMS[(k + j) % len(FORMS)] for j in range(len(TREE))]
            k += 1
            accept = ["vpipe"] + ([acc_mod] if acc_mod else []) + fillers[:nfill]
            rng.shuffle(accept)
            # the data function lives just outside the accepted subtree when there is one
            outside = [m for m in TREE if not tracked(m, set(accept))]
            data_mod = rng.choice(outside) if outside else TREE[-1]
            cfgs.append({"accept": accept, "forms": forms, "data_mod": data_mod, "accepted_subtree": acc_mod})
    # two nested prefixes accepted one after the other, in both orders (accept_module is called in the order of the list)
    for child, parent in (("apk.sub.deep", "apk.sub"), ("apk.sub.mod", "apk"), ("apk.sub.deep.x", "apk.sub.deep")):
        for order in ((child, parent), (parent, child)):
            forms = [FORMS[(k + j) % len(FORMS)] for j in range(len(TREE))]
            k += 1
            accept = ["vpipe", fillers[0]] + list(order) + [fillers[1]]
            outside = [m for m in TREE if not tracked(m, set(accept))]
            cfgs.append({"accept": accept, "forms": forms, "data_mod": rng.choice(outside) if outside else TREE[-1], "accepted_subtree": parent,
                         "order": "child-then-parent" if order[0] == child else "parent-then-child"})
    with cf.ThreadPoolExecutor(max_workers=C.NPROC) as ex:
        res = list(ex.map(run_cfg, cfgs))
    n_edit = 0
    for r in res:
        cfg = r["cfg"]
        rep.case("tree:" + json.dumps(cfg))
        if "error" in r:
            rep.violation("harness-error:c14p", r["error"][-300:], r, no_input=True)
            continue
        out = r["out"]
        replay = {"tree_case": cfg, "out": {k2: (v.get("sig"), v.get("error")) for k2, v in out.items()}}
        if out["base"]["error"]:
            rep.violation("tree:evaluation-fails", f"accept={cfg['accept']}: the pipeline does not evaluate: {out['base']['error'][:200]}", replay)
            continue
        acc = set(cfg["accept"])
        for mod in TREE:
            for kind in ("code", "var"):
                n_edit += 1
                o = out[f"{kind}:{mod}"]
                changed = o["sig"] != out["base"]["sig"]
                exp = tracked(mod, acc)
                if o["error"]:
                    rep.violation("tree:evaluation-fails", f"accept={cfg['accept']}: after editing {mod} the pipeline does not evaluate: {o['error'][:200]}", replay)
                elif changed and not exp:
                    rep.violation("tree:non-accepted-edit-changes-signature", f"accept={cfg['accept']}: editing the {kind} of non-accepted module {mod} "
                                  f"(import form {cfg['forms'][TREE.index(mod)]}) changed the signature", dict(replay, module=mod, kind=kind))
                elif not changed and exp:
                    rep.violation("tree:accepted-edit-ignored", f"accept={cfg['accept']}: editing the {kind} of accepted module {mod} "
                                  f"(import form {cfg['forms'][TREE.index(mod)]}) did not change the signature", dict(replay, module=mod, kind=kind))
        d = out["data"]
        dm = cfg["data_mod"]
        if not tracked(dm, acc):
            if not (d["error"] or "").startswith("dds:"):
                rep.violation("tree:unaccepted-data-function-evaluated", f"accept={cfg['accept']}: data function in non-accepted module {dm} gave "
                              f"{(d['error'] or d['value'])[:100]} instead of a DDS error", dict(replay, module=dm))
            elif dm.split(".")[0] not in d["error"]:
                rep.violation("tree:error-does-not-name-module", f"the error for the data function in {dm} does not name the module: {d['error'][:200]}", dict(replay, module=dm))
    rep.extra["program_part"] = {"query_sequences": len(seqs), "package_tree_configurations": len(cfgs), "edits": n_edit}


def replay(r):
    if "seq_case" in r:
        outs = C.run_driver("drive_small.py", {"kind": "authorized_seq", "cases": [r["seq_case"]]})[0]
        exp = [tracked(".".join(q), set(r["seq_case"]["accepted"])) for q in r["seq_case"]["queries"]]
        print(json.dumps({"impl": outs, "expected": exp}))
        print("REPRODUCED" if outs != exp else "not reproduced")
        return 1 if outs != exp else 0
    res = run_cfg(r["tree_case"])
    print(json.dumps(res, indent=1)[:3000])
    return 0
