"""Fail-closed translator from a restricted Python subset to Gallina (translator route of DESIGN.md 3.3b).

For a few small pure(ish) functions of /repo the Gallina definition is REGENERATED from the Python AST on every run
(coq/theories/Extracted/Gen*.v) and a hand-written, not regenerated proof file states that the generated definition
equals the hand-written model.  A semantic change of the Python code therefore breaks a proof obligation (or makes
the translator fail closed), a behaviour-preserving rewrite that keeps the shape does not.

How it works
  * `Tr` is a generic translator of statements / expressions in continuation-passing style (a statement is translated
    together with the statements that follow it, so that `if` without `else`, early `return` and re-assignments of
    locals need no mutable state: the continuation is duplicated in the two branches):
      statements : return, if/elif/else, assignment to a local (annotated or not), expression statement, raise of a
                   known exception, pass, docstring, `for i in range(n)` with a pure body that may only return,
                   the trimming loop `while len(D) > n: D.popitem(..)`
      expressions: names, constants, and/or/not (short-circuit, also around effectful calls), `is None` / `is not None`
                   (with narrowing of an Optional local tested by an `if`), in / not in, comparisons, +, len, l[:i],
                   [e for x in l if c], any(e for x in l), truth value of a list / a str
    Anything else raises `Unrecognised`: no statement or sub-expression is ever skipped silently.
  * every target function comes with an explicit VOCABULARY (`Target.rules`): Python patterns with metavariables
    `__X` and the Gallina term they denote (pure rules), the state update they perform (update rules), the call of
    another generated function (call / ecall rules) or of the wrapped store (icall rules: the answer is decoded, anything
    else - an exception - is propagated), and the statements that are known to have no effect on the model (noop:
    `_logger.debug(..)` whose arguments only read names).  Rules are tried before the generic translation.
    Values are typed (bool, nat, Z, bytes, opt(T), list(T) and the types named by the target); a type error is
    `Unrecognised`.  Variables of the Python code become `v_<name>`, intermediate results `t<n>`.
  * targets: GenLru (LRUCache.get/put, LRUCacheStore.has_blob/fetch_blob/store_blob/sync_paths/fetch_paths),
    GenCacheOpt (the decoding of cache_objects in set_store), GenAccept (is_authorized_path), GenStages (_parse_stages
    and its nested check), GenPath (path_segments).  The equivalence proofs are L5_Stores/GenLruProofs.v,
    L5_Stores/GenCacheOptProofs.v, L2_Disc/GenAcceptProofs.v, L4_Eval/GenStagesProofs.v, L5_Stores/GenPathProofs.v,
    summarised in Properties/Gen.v; harness/test_translate.py demonstrates the sensitivity on edited copies of /repo.

The generated files are registered with @register("Gen...") so that extract_constants.regenerate() writes them.
"""
import ast
import re
from dataclasses import dataclass, field

import extract_constants as EC
from extract_constants import HEADER, Unrecognised, find_def, parse, register


# ----------------------------------------------------------------------------- types of the Python values

def opt(t):
    return ("opt", t)


def lst(t):
    return ("list", t)


def show_ty(t):
    return t if isinstance(t, str) else f"{t[0]}({show_ty(t[1])})"


# ----------------------------------------------------------------------------- patterns

_SKIP_FIELDS = {"ctx", "type_comment", "kind"}


def _dump(n):
    return re.sub(r", ctx=\w+\(\)", "", ast.dump(n))


def _same_const(a, b):
    return type(a) is type(b) and a == b


def match(pat, node, b):
    """Structural match of a pattern AST (metavariables: names starting with `__`) against a node."""
    if isinstance(pat, ast.Name) and pat.id.startswith("__"):
        n = pat.id[2:]
        if n in b:
            return _dump(b[n]) == _dump(node)
        b[n] = node
        return True
    if type(pat) is not type(node):
        return False
    for f in pat._fields:
        if f in _SKIP_FIELDS:
            continue
        pv, nv = getattr(pat, f, None), getattr(node, f, None)
        if isinstance(pv, list):
            if not isinstance(nv, list) or len(pv) != len(nv):
                return False
            for p, n in zip(pv, nv):
                if isinstance(p, ast.AST):
                    if not isinstance(n, ast.AST) or not match(p, n, b):
                        return False
                elif not _same_const(p, n):
                    return False
        elif isinstance(pv, ast.AST):
            if not isinstance(nv, ast.AST) or not match(pv, nv, b):
                return False
        elif not _same_const(pv, nv):
            return False
    return True


@dataclass
class Rule:
    """One entry of a vocabulary.
    kind: pure   `pat` denotes the term `coq` of type `typ`
          update `pat` (expression or statement) rebinds the state variable `state` to `coq`; value: unit
          call   `pat` evaluates `coq`, a pair bound with the pattern `bind` ({r} = the result of type `typ`)
          icall  `pat` calls the wrapped store: `let '(s, raw) := coq in match raw with <ctor> => .. | _ => propagate`
          ecall  `pat` evaluates `coq`, an option: Some r is the result, None means that an exception was raised
          xcall  `pat` evaluates `coq`, a sum: inr r is the result, inl e the exception that is propagated as it is
          noop   `pat` has no effect on the model (logging); its arguments must be log-safe
    args: expected type of every metavariable ({X} in `coq` is the translation of `__X`)."""
    pat: str
    coq: str = ""
    typ: object = None
    args: dict = field(default_factory=dict)
    kind: str = "pure"
    state: str = None
    bind: str = None
    ctor: str = None
    shrinks: bool = False
    doc: str = ""

    def __post_init__(self):
        mod = ast.parse(self.pat)
        st = mod.body[0]
        if isinstance(st, ast.Expr):
            self.is_stmt, self.ast = False, st.value
        else:
            self.is_stmt, self.ast = True, st
        assert self.kind in ("pure", "update", "call", "icall", "ecall", "xcall", "noop"), self.kind

    def describe(self):
        what = {"pure": self.coq, "update": f"{self.state} := {self.coq}", "call": f"{self.bind} := {self.coq}",
                "icall": f"(s, raw) := {self.coq} ; raw decoded by {self.ctor}, anything else is propagated",
                "ecall": f"{self.coq} ; Some r: the result, None: an exception is raised",
                "xcall": f"{self.coq} ; inr r: the result, inl e: the exception e is propagated",
                "noop": "no effect on the model"}[self.kind]
        ty = f" : {show_ty(self.typ)}" if self.typ and self.kind != "noop" else ""
        d = f"   -- {self.doc}" if self.doc else ""
        return f"{self.pat}   |->   {what}{ty}{d}"


@dataclass
class Loop:
    """The only `while` shape that is understood: `while <test>: <updates of `state` that shrink it>`."""
    test: str
    test_coq: str
    state: str
    fuel: str

    def __post_init__(self):
        self.ast = ast.parse(self.test).body[0].value


@dataclass
class Target:
    name: str                     # name of the Gallina definition
    binders: str                  # binders of the definition that follow the translated parameters
    coq_ret: str                  # its Gallina type
    params: list                  # type of every Python parameter after self (None: the parameter is not modelled)
    ret_type: object              # type of the value returned by the Python function
    ret: str                      # {v}: how a returned value becomes the result of the definition
    rules: list
    prologue: str = ""            # text placed before the translated body
    raise_: str = None            # result for `raise <exception of `exceptions`>` (None: raise is not understood)
    exceptions: tuple = ("DDSException",)
    propagate: str = None         # icall: result when the wrapped store did not answer with the expected constructor
    none_values: dict = field(default_factory=dict)   # type -> Gallina spelling of the Python value None
    is_none: dict = field(default_factory=dict)       # type -> test `x is None` ({x})
    truthy: dict = field(default_factory=dict)        # type -> truth value of x ({x})
    coercions: dict = field(default_factory=dict)     # (from, to) -> term ({x})
    eqb: dict = field(default_factory=dict)           # type -> equality test
    annotations: dict = field(default_factory=dict)   # source text of a local annotation -> type
    coq_types: dict = field(default_factory=dict)     # type -> Gallina type
    loops: list = field(default_factory=list)
    fall: str = None              # result when the end of the statements is reached (default: return None)
    pre_binders: str = ""         # binders that precede the translated parameters
    local_types: dict = field(default_factory=dict)   # local variable -> type (when it is assigned values of several types)
    readers: tuple = ()           # zero-argument functions that may be called in a log line (they only read the state)
    raise_by: dict = field(default_factory=dict)      # exception class -> result of `raise <class>(..)` (takes precedence over raise_)


COQ_TYPES = {"bool": "bool", "nat": "nat", "Z": "Z", "bytes": "bytes", "unit": "unit"}
EQB = {"bytes": "bytes_eqb", "nat": "Nat.eqb", "Z": "Z.eqb", "bool": "Bool.eqb"}

_ATOM = re.compile(r"([\w.']+|\d+%Z)\Z")


def par(t):
    return t if _ATOM.match(t) or (t.startswith("[") and t.endswith("]") and t.count("[") == 1) else f"({t})"


def indent(text, n=2):
    return "\n".join((" " * n + l) if l else l for l in text.split("\n"))


def cstr(s):
    if not isinstance(s, str) or any(ord(ch) < 32 or ord(ch) > 126 for ch in s):
        raise Unrecognised(f"string constant {s!r}")
    return '"' + s.replace('"', '""') + '"'


_LOG_CALLS = {"type", "dir", "str", "repr", "len"}


def log_safe(node, extra=()):
    """Arguments of a log line / an exception message: may only read names (formatting is assumed pure).
    extra: further zero-argument functions the vocabulary of the target declares to be readers."""
    if isinstance(node, (ast.Constant, ast.Name)):
        return
    if isinstance(node, ast.JoinedStr):
        for v in node.values:
            log_safe(v, extra)
        return
    if isinstance(node, ast.FormattedValue):
        if node.format_spec is not None:
            log_safe(node.format_spec, extra)
        log_safe(node.value, extra)
        return
    if isinstance(node, ast.Attribute):
        log_safe(node.value, extra)
        return
    if isinstance(node, ast.Call) and isinstance(node.func, ast.Name) and node.func.id in extra and not node.keywords and not node.args:
        return
    if isinstance(node, ast.Call) and isinstance(node.func, ast.Attribute) and ("." + node.func.attr) in extra \
            and not node.keywords and not node.args:
        log_safe(node.func.value, extra)      # a declared zero-argument reader method, e.g. codec.ref()
        return
    if isinstance(node, ast.Call) and isinstance(node.func, ast.Name) and node.func.id in _LOG_CALLS and not node.keywords:
        for a in node.args:
            log_safe(a, extra)
        return
    raise Unrecognised(f"not a log-safe argument: {ast.unparse(node)}")


def seq(body, rest):
    """The statements executed from the start of `body`, given that `rest` follows the enclosing statement."""
    body = list(body)
    if body and isinstance(body[-1], (ast.Return, ast.Raise)):
        return body
    return body + list(rest)


@dataclass
class Ctx:
    ret: object      # term -> text
    fall: object     # env -> text
    raise_: object   # () -> text


class Tr:
    def __init__(self, target):
        self.T = target
        self.n = 0
        self.pure = 0
        self.raise_stack = []

    # -- helpers
    def fresh(self):
        self.n += 1
        return f"t{self.n}"

    def bad(self, node, why):
        src = ast.unparse(node) if isinstance(node, ast.AST) else str(node)
        return Unrecognised(f"{self.T.name}: {why}: `{src[:200]}` (line {getattr(node, 'lineno', '?')})")

    def coerce(self, t, ty, want, node):
        if want is None or ty == want:
            return t
        if want == opt(ty):
            return f"Some {par(t)}"
        if (ty, want) in self.T.coercions:
            return self.T.coercions[(ty, want)].format(x=par(t))
        if isinstance(want, tuple) and want[0] == "opt" and (ty, want[1]) in self.T.coercions:
            return "Some " + par(self.T.coercions[(ty, want[1])].format(x=par(t)))
        raise self.bad(node, f"type {show_ty(ty)} where {show_ty(want)} is expected")

    def coq_type(self, ty, node):
        if isinstance(ty, tuple):
            return {"opt": "option", "list": "list"}[ty[0]] + " " + par(self.coq_type(ty[1], node))
        c = self.T.coq_types.get(ty) or COQ_TYPES.get(ty)
        if c is None:
            raise self.bad(node, f"no Gallina type for {show_ty(ty)}")
        return c

    def to_bool(self, t, ty, node):
        if ty == "bool":
            return t
        if ty in self.T.truthy:
            return self.T.truthy[ty].format(x=par(t))
        if ty == "bytes" or (isinstance(ty, tuple) and ty[0] == "list"):
            return f"negb (Nat.eqb (List.length {par(t)}) 0)"
        raise self.bad(node, f"truth value of a {show_ty(ty)}")

    def eqb(self, ty, node):
        e = self.T.eqb.get(ty) or EQB.get(ty)
        if e is None:
            raise self.bad(node, f"no equality test for {show_ty(ty)}")
        return e

    def is_effectful(self, node):
        for sub in ast.walk(node):
            for r in self.T.rules:
                if not r.is_stmt and r.kind in ("update", "call", "icall", "ecall", "xcall") and match(r.ast, sub, {}):
                    return True
        return False

    def pure_term(self, e, env, want=None):
        """Translation of an expression that must not have effects; returns (term, type)."""
        cell = []
        self.pure += 1
        try:
            def k(t, ty):
                cell.append(ty)
                return t
            t = self.expr(e, env, want, k)
        finally:
            self.pure -= 1
        if len(cell) != 1:
            raise self.bad(e, "expression is not a plain term")
        return t, cell[0]

    # -- expressions: expr(e, env, want, k) where k(term, type) gives the text of what follows
    def expr(self, e, env, want, k):
        for r in self.T.rules:
            if r.is_stmt:
                continue
            b = {}
            if match(r.ast, e, b):
                return self.apply_rule(r, b, e, env, k)
        h = getattr(self, "e_" + type(e).__name__, None)
        if h is None:
            raise self.bad(e, f"expression {type(e).__name__} is not in the subset")
        return h(e, env, want, k)

    def args_then(self, r, b, env, k):
        for n in b:
            if n not in r.args:
                raise Unrecognised(f"rule `{r.pat}`: no type for metavariable {n}")
        items = [(n, node) for n, node in b.items() if r.args[n] != "_"]   # "_": a binder of the pattern, not a value

        def go(i, acc):
            if i == len(items):
                return k(acc)
            n, node = items[i]
            w = r.args[n]
            return self.expr(node, env, w, lambda t, ty: go(i + 1, {**acc, n: par(self.coerce(t, ty, w, node))}))
        return go(0, {})

    def apply_rule(self, r, b, node, env, k):
        if r.kind == "noop":
            for sub in b.values():
                log_safe(sub, self.T.readers)
            return k("tt", "unit")
        if r.kind != "pure" and self.pure:
            raise self.bad(node, "effect where only a pure expression is understood")
        raise_here = self.raise_stack[-1] if self.raise_stack else None

        def emit(a):
            term = r.coq.format(**a)
            if r.kind == "pure":
                return k(term, r.typ)
            if r.kind == "update":
                return f"let {r.state} := {term} in\n" + k("tt", "unit")
            if r.kind == "call":
                x = self.fresh()
                return f"let '{r.bind.format(r=x)} := {term} in\n" + k(x, r.typ)
            if r.kind == "ecall":
                if raise_here is None:
                    raise self.bad(node, "call that may raise where raise is not understood")
                x = self.fresh()
                return f"match {term} with\n| Some {x} =>\n{indent(k(x, r.typ), 4)}\n| None => {raise_here()}\nend"
            if r.kind == "xcall":
                x = self.fresh()
                e_ = self.fresh()
                return f"match {term} with\n| inr {x} =>\n{indent(k(x, r.typ), 4)}\n| inl {e_} => inl {e_}\nend"
            if r.kind == "icall":
                if self.T.propagate is None:
                    raise self.bad(node, "icall without a propagation rule")
                raw = self.fresh()
                if r.typ == "unit":
                    patt, val = r.ctor, "tt"
                else:
                    val = self.fresh()
                    patt = r.ctor.format(r=val)
                return (f"let '(s, {raw}) := {term} in\nmatch {raw} with\n| {patt} =>\n{indent(k(val, r.typ), 4)}\n"
                        f"| _ => {self.T.propagate.format(raw=raw)}\nend")
            raise AssertionError(r.kind)
        return self.args_then(r, b, env, emit)

    def e_Name(self, e, env, want, k):
        if e.id not in env:
            raise self.bad(e, "unknown name")
        c, ty = env[e.id]
        return k(c, ty)

    def e_Constant(self, e, env, want, k):
        v = e.value
        if v is None:
            if isinstance(want, tuple) and want[0] == "opt":
                return k("None", want)
            if want in self.T.none_values:
                return k(self.T.none_values[want], want)
            raise self.bad(e, f"None where {show_ty(want) if want else 'an unknown type'} is expected")
        if isinstance(v, bool):
            return k("true" if v else "false", "bool")
        if isinstance(v, int):
            if want == "Z":
                return k(f"{v}%Z" if v >= 0 else f"({v})%Z", "Z")
            if v < 0:
                raise self.bad(e, "negative natural number")
            return k(str(v), "nat")
        if isinstance(v, str):
            return k(f"bs {cstr(v)}%string", "bytes")
        raise self.bad(e, "constant")

    def e_BoolOp(self, e, env, want, k):
        is_or = isinstance(e.op, ast.Or)
        vals = e.values
        if not any(self.is_effectful(v) for v in vals[1:]):
            # all the operands after the first are pure: plain || / &&
            def go(i, acc):
                if i == len(vals):
                    return k((" || " if is_or else " && ").join(par(a) for a in acc), "bool")
                return self.expr(vals[i], env, "bool", lambda t, ty: go(i + 1, acc + [self.to_bool(t, ty, vals[i])]))
            return go(0, [])

        # short circuit around effectful operands: the continuation is duplicated
        def sc(i):
            def kk(t, ty):
                t = self.to_bool(t, ty, vals[i])
                if i == len(vals) - 1:
                    return k(t, "bool")
                if is_or:
                    return f"if {t} then\n{indent(k('true', 'bool'))}\nelse\n{indent(sc(i + 1))}"
                return f"if {t} then\n{indent(sc(i + 1))}\nelse\n{indent(k('false', 'bool'))}"
            return self.expr(vals[i], env, "bool", kk)
        return sc(0)

    def e_UnaryOp(self, e, env, want, k):
        if not isinstance(e.op, ast.Not):
            raise self.bad(e, "unary operator")
        return self.expr(e.operand, env, "bool", lambda t, ty: k(f"negb {par(self.to_bool(t, ty, e.operand))}", "bool"))

    def none_test(self, t, ty, positive, node):
        """positive: `is None`"""
        if isinstance(ty, tuple) and ty[0] == "opt":
            return f"{'is_none' if positive else 'is_some'} {par(t)}"
        if ty in self.T.is_none:
            s = self.T.is_none[ty].format(x=par(t))
            return s if positive else f"negb {par(s)}"
        raise self.bad(node, f"`is None` on a {show_ty(ty)}")

    def e_Compare(self, e, env, want, k):
        if len(e.ops) != 1:
            raise self.bad(e, "chained comparison")
        op, left, right = e.ops[0], e.left, e.comparators[0]
        if isinstance(op, (ast.Is, ast.IsNot)):
            if not (isinstance(right, ast.Constant) and right.value is None):
                raise self.bad(e, "`is` with something else than None")
            return self.expr(left, env, None, lambda t, ty: k(self.none_test(t, ty, isinstance(op, ast.Is), e), "bool"))
        if isinstance(op, (ast.In, ast.NotIn)):
            def with_right(rt, rty):
                if not (isinstance(rty, tuple) and rty[0] == "list"):
                    raise self.bad(e, f"membership in a {show_ty(rty)}")
                eq = self.eqb(rty[1], e)

                def with_left(lt, lty):
                    lt = self.coerce(lt, lty, rty[1], left)
                    s = f"existsb ({eq} {par(lt)}) {par(rt)}"
                    return k(s if isinstance(op, ast.In) else f"negb ({s})", "bool")
                return self.expr(left, env, rty[1], with_left)
            # Python evaluates the left operand first; both are required to be effect free unless they are rules
            if self.is_effectful(right) or self.is_effectful(left):
                raise self.bad(e, "effect inside a membership test")
            if isinstance(right, (ast.Tuple, ast.List)):
                elts = [self.pure_term(x, env) for x in right.elts]
                tys = {show_ty(ty) for _, ty in elts}
                if len(tys) != 1:
                    raise self.bad(right, "heterogeneous literal")
                return with_right("[" + "; ".join(t for t, _ in elts) + "]", lst(elts[0][1]))
            return self.expr(right, env, None, with_right)
        names = {ast.Lt: "ltb", ast.Gt: "gtb", ast.LtE: "leb", ast.GtE: "geb", ast.Eq: "eqb", ast.NotEq: "neqb"}
        if type(op) not in names:
            raise self.bad(e, "comparison operator")
        o = names[type(op)]

        def with_l(lt, lty):
            if lty in ("nat", "Z"):
                dom = lty
            elif (lty, "Z") in self.T.coercions:
                dom = "Z"
            elif o in ("eqb", "neqb"):
                dom = lty
            else:
                raise self.bad(e, f"ordering on a {show_ty(lty)}")
            lt2 = self.coerce(lt, lty, dom, left)

            def with_r(rt, rty):
                rt2 = self.coerce(rt, rty, dom, right)
                a, b_ = par(lt2), par(rt2)
                if dom == "Z":
                    s = f"negb (Z.eqb {a} {b_})" if o == "neqb" else f"Z.{o} {a} {b_}"
                elif dom == "nat":
                    s = {"ltb": f"Nat.ltb {a} {b_}", "gtb": f"Nat.ltb {b_} {a}", "leb": f"Nat.leb {a} {b_}",
                         "geb": f"Nat.leb {b_} {a}", "eqb": f"Nat.eqb {a} {b_}", "neqb": f"negb (Nat.eqb {a} {b_})"}[o]
                else:
                    eq = self.eqb(dom, e)
                    s = f"{eq} {a} {b_}" if o == "eqb" else f"negb ({eq} {a} {b_})"
                return k(s, "bool")
            return self.expr(right, env, dom, with_r)
        return self.expr(left, env, None, with_l)

    def e_BinOp(self, e, env, want, k):
        if not isinstance(e.op, ast.Add):
            raise self.bad(e, "arithmetic operator")

        def with_l(lt, lty):
            if lty not in ("nat", "Z"):
                raise self.bad(e, f"+ on a {show_ty(lty)}")

            def with_r(rt, rty):
                rt2 = self.coerce(rt, rty, lty, e.right)
                return k(f"{par(lt)} + {par(rt2)}" if lty == "nat" else f"Z.add {par(lt)} {par(rt2)}", lty)
            return self.expr(e.right, env, lty, with_r)
        return self.expr(e.left, env, want if want in ("nat", "Z") else None, with_l)

    def e_Subscript(self, e, env, want, k):
        s = e.slice
        if not (isinstance(s, ast.Slice) and s.lower is None and s.step is None and s.upper is not None):
            raise self.bad(e, "subscript other than l[:i]")

        def with_v(vt, vty):
            if not (isinstance(vty, tuple) and vty[0] == "list"):
                raise self.bad(e, f"slice of a {show_ty(vty)}")
            return self.expr(s.upper, env, "nat", lambda ut, uty: k(f"firstn {par(self.coerce(ut, uty, 'nat', s.upper))} {par(vt)}", vty))
        return self.expr(e.value, env, None, with_v)

    def comprehension(self, gens, env, node):
        """single `for x in l [if c]*`: returns (name of x, env of the body, filtered list term, element type)"""
        if len(gens) != 1 or gens[0].is_async or not isinstance(gens[0].target, ast.Name):
            raise self.bad(node, "comprehension shape")
        g = gens[0]
        it, ity = self.pure_term(g.iter, env)
        if not (isinstance(ity, tuple) and ity[0] == "list"):
            raise self.bad(g.iter, f"iteration over a {show_ty(ity)}")
        x = "v_" + g.target.id
        env2 = {**env, g.target.id: (x, ity[1])}
        for c in g.ifs:
            ct, cty = self.pure_term(c, env2, "bool")
            it = f"filter (fun {x} => {self.to_bool(ct, cty, c)}) {par(it)}"
        return g.target.id, x, env2, it, ity[1]

    def e_ListComp(self, e, env, want, k):
        name, x, env2, it, ety = self.comprehension(e.generators, env, e)
        if isinstance(e.elt, ast.Name) and e.elt.id == name:
            return k(it, lst(ety))
        et, ety2 = self.pure_term(e.elt, env2)
        return k(f"map (fun {x} => {et}) {par(it)}", lst(ety2))

    def e_Call(self, e, env, want, k):
        if isinstance(e.func, ast.Name) and not e.keywords and len(e.args) == 1:
            a = e.args[0]
            if e.func.id == "len":
                def with_a(t, ty):
                    if not (ty == "bytes" or (isinstance(ty, tuple) and ty[0] == "list")):
                        raise self.bad(e, f"len of a {show_ty(ty)}")
                    return k(f"List.length {par(t)}", "nat")
                return self.expr(a, env, None, with_a)
            if e.func.id == "any" and isinstance(a, ast.GeneratorExp):
                name, x, env2, it, ety = self.comprehension(a.generators, env, a)
                et, ety2 = self.pure_term(a.elt, env2, "bool")
                return k(f"existsb (fun {x} => {self.to_bool(et, ety2, a.elt)}) {par(it)}", "bool")
        raise self.bad(e, "call that is not in the vocabulary")

    # -- statements: block(stmts, env, ctx) gives the text of the Gallina term
    def block(self, ss, env, ctx):
        if not ss:
            return ctx.fall(env)
        st, rest = ss[0], ss[1:]
        for r in self.T.rules:
            if r.is_stmt:
                b = {}
                if match(r.ast, st, b):
                    if r.kind != "update":
                        raise Unrecognised(f"statement rule `{r.pat}` must be an update")
                    if self.pure:
                        raise self.bad(st, "effect in a pure context")
                    return self.args_then(r, b, env, lambda a: f"let {r.state} := {r.coq.format(**a)} in\n" + self.block(rest, env, ctx))
        h = getattr(self, "s_" + type(st).__name__, None)
        if h is None:
            raise self.bad(st, f"statement {type(st).__name__} is not in the subset")
        return h(st, rest, env, ctx)

    def s_Pass(self, st, rest, env, ctx):
        return self.block(rest, env, ctx)

    def s_Expr(self, st, rest, env, ctx):
        if isinstance(st.value, ast.Constant) and isinstance(st.value.value, str):
            return self.block(rest, env, ctx)      # docstring
        def kk(t, ty):
            if ty != "unit":
                raise self.bad(st, f"value of type {show_ty(ty)} is dropped")
            return self.block(rest, env, ctx)
        return self.expr(st.value, env, "unit", kk)

    def s_Return(self, st, rest, env, ctx):
        if rest:
            raise self.bad(rest[0], "statement after return")
        v = st.value if st.value is not None else ast.Constant(value=None)
        rt = self.T.ret_type
        return self.expr(v, env, rt, lambda t, ty: ctx.ret(self.coerce(t, ty, rt, v)))

    def s_Raise(self, st, rest, env, ctx):
        if rest:
            raise self.bad(rest[0], "statement after raise")
        x = st.exc
        if st.cause is None and isinstance(x, ast.Call) and isinstance(x.func, ast.Name) and x.func.id in self.T.raise_by:
            for a in list(x.args) + [kw.value for kw in x.keywords]:
                log_safe(a, self.T.readers)
            return self.T.raise_by[x.func.id]
        if st.cause is not None or not (isinstance(x, ast.Call) and isinstance(x.func, ast.Name) and x.func.id in self.T.exceptions):
            raise self.bad(st, "raise of something else than a known exception")
        for a in list(x.args) + [kw.value for kw in x.keywords]:
            log_safe(a, self.T.readers)
        return ctx.raise_()

    def s_If(self, st, rest, env, ctx):
        t = st.test
        # narrowing of an Optional local: `if x is [not] None`
        if isinstance(t, ast.Compare) and len(t.ops) == 1 and isinstance(t.ops[0], (ast.Is, ast.IsNot)) \
                and isinstance(t.left, ast.Name) and isinstance(t.comparators[0], ast.Constant) and t.comparators[0].value is None \
                and t.left.id in env and isinstance(env[t.left.id][1], tuple) and env[t.left.id][1][0] == "opt":
            c, ty = env[t.left.id]
            env_some = {**env, t.left.id: (c, ty[1])}
            when_none, when_some = (st.body, st.orelse) if isinstance(t.ops[0], ast.Is) else (st.orelse, st.body)
            a = self.block(seq(when_some, rest), env_some, ctx)
            b = self.block(seq(when_none, rest), env, ctx)
            return f"match {c} with\n| Some {c} =>\n{indent(a, 4)}\n| None =>\n{indent(b, 4)}\nend"

        def kk(tt, ty):
            tt = self.to_bool(tt, ty, t)
            if tt == "true":      # literal produced by a short circuit: the test is decided
                return self.block(seq(st.body, rest), env, ctx)
            if tt == "false":
                return self.block(seq(st.orelse, rest), env, ctx)
            a = self.block(seq(st.body, rest), env, ctx)
            b = self.block(seq(st.orelse, rest), env, ctx)
            return f"if {tt} then\n{indent(a)}\nelse\n{indent(b)}"
        return self.expr(t, env, "bool", kk)

    def assign(self, name, value, declared, st, rest, env, ctx):
        if not isinstance(name, ast.Name):
            raise self.bad(st, "assignment to something else than a local variable")
        # the type of the local: its annotation, the vocabulary, the Optional type it already has; otherwise that of the value
        want = declared or self.T.local_types.get(name.id)
        if want is None and name.id in env and isinstance(env[name.id][1], tuple) and env[name.id][1][0] == "opt":
            want = env[name.id][1]
        c = "v_" + name.id

        def kk(t, ty):
            ty2 = want if want is not None else ty
            t2 = self.coerce(t, ty, ty2, value)
            return f"let {c} : {self.coq_type(ty2, st)} := {t2} in\n" + self.block(rest, {**env, name.id: (c, ty2)}, ctx)
        return self.expr(value, env, want, kk)

    def s_Assign(self, st, rest, env, ctx):
        if len(st.targets) != 1:
            raise self.bad(st, "multiple assignment")
        return self.assign(st.targets[0], st.value, None, st, rest, env, ctx)

    def s_AnnAssign(self, st, rest, env, ctx):
        if st.value is None:
            # a bare declaration `x: T`: no effect; the type must be the one the vocabulary gives to the local
            a0 = ast.unparse(st.annotation)
            if isinstance(st.target, ast.Name) and self.T.annotations.get(a0) is not None \
                    and self.T.local_types.get(st.target.id) == self.T.annotations[a0]:
                return self.block(rest, env, ctx)
            raise self.bad(st, "annotation without value")
        a = ast.unparse(st.annotation)
        if a not in self.T.annotations:
            raise self.bad(st, f"annotation {a} is not in the vocabulary")
        return self.assign(st.target, st.value, self.T.annotations[a], st, rest, env, ctx)

    def s_While(self, st, rest, env, ctx):
        if st.orelse:
            raise self.bad(st, "while/else")
        if self.pure:
            raise self.bad(st, "loop in a pure context")
        for lp in self.T.loops:
            if match(lp.ast, st.test, {}):
                break
        else:
            raise self.bad(st.test, "while loop whose test is not in the vocabulary")
        body = []
        for b_st in st.body:
            if not isinstance(b_st, ast.Expr):
                raise self.bad(b_st, "statement in a trimming loop")
            for r in self.T.rules:
                b = {}
                if not r.is_stmt and r.kind == "update" and r.state == lp.state and r.shrinks and match(r.ast, b_st.value, b):
                    if b:
                        raise self.bad(b_st, "shrinking update with arguments")
                    body.append(r.coq)
                    break
            else:
                raise self.bad(b_st, "loop body is not a shrinking update of " + lp.state)
        if not body:
            raise self.bad(st, "empty loop body")
        x = lp.state
        bt = body[0] if len(body) == 1 else "".join(f"let {x} := {b} in " for b in body) + x
        return (f"let {x} := while_fuel ({lp.fuel}) (fun {x} => {lp.test_coq}) (fun {x} => {bt}) {x} in\n"
                + self.block(rest, env, ctx))

    def s_For(self, st, rest, env, ctx):
        if st.orelse or not isinstance(st.target, ast.Name):
            raise self.bad(st, "for loop shape")
        it = st.iter
        if not (isinstance(it, ast.Call) and isinstance(it.func, ast.Name) and it.func.id == "range" and len(it.args) == 1 and not it.keywords):
            raise self.bad(it, "for loop over something else than range(n)")
        nt, nty = self.pure_term(it.args[0], env, "nat")
        nt = self.coerce(nt, nty, "nat", it.args[0])
        x = "v_" + st.target.id
        env2 = {**env, st.target.id: (x, "nat")}

        def no_raise():
            raise self.bad(st, "raise inside a for loop")
        inner = Ctx(ret=lambda t: f"Some {par(ctx.ret(t))}", fall=lambda _env: "None", raise_=no_raise)
        self.pure += 1
        self.raise_stack.append(no_raise)
        try:
            body = self.block(list(st.body), env2, inner)
        finally:
            self.pure -= 1
            self.raise_stack.pop()
        r = self.fresh()
        after = self.block(rest, env, ctx)
        return (f"match for_range_first {par(nt)} (fun {x} =>\n{indent(body, 6)}) with\n| Some {r} => {r}\n| None =>\n"
                f"{indent(after, 4)}\nend")


def translate(target, fdef_or_stmts, arg_names=None):
    """Text of `Definition <name> <binders> : <type> := ...` for a function definition (or a list of statements)."""
    T = target
    tr = Tr(T)
    env = {}
    if isinstance(fdef_or_stmts, ast.FunctionDef):
        f = fdef_or_stmts
        a = f.args
        if a.vararg or a.kwarg or a.kwonlyargs or a.posonlyargs or a.defaults or f.decorator_list:
            raise Unrecognised(f"{T.name}: signature of {f.name}")
        names = [x.arg for x in a.args]
        if arg_names is not None:
            if names[:len(arg_names)] != list(arg_names):
                raise Unrecognised(f"{T.name}: parameters of {f.name} are {names}")
            names = names[len(arg_names):]
        if len(names) != len(T.params):
            raise Unrecognised(f"{T.name}: {f.name} has parameters {names}")
        for n, ty in zip(names, T.params):
            if ty is not None:
                env[n] = ("v_" + n, ty)
        stmts = list(f.body)
        binders = " ".join(f"(v_{n} : {tr.coq_type(ty, f)})" for n, ty in zip(names, T.params) if ty is not None)
        binders = " ".join(x for x in (T.pre_binders, binders, T.binders) if x)
    else:
        stmts = list(fdef_or_stmts)
        binders = T.binders
        for n, (c, ty) in (arg_names or {}).items():
            env[n] = (c, ty)

    def fall(_env):
        if T.fall is not None:
            return T.fall
        none = ast.Constant(value=None)
        return tr.expr(none, _env, T.ret_type, lambda t, ty: T.ret.format(v=par(tr.coerce(t, ty, T.ret_type, none))))

    def raise_():
        if T.raise_ is None:
            raise Unrecognised(f"{T.name}: raise is not understood here")
        return T.raise_
    ctx = Ctx(ret=lambda t: T.ret.format(v=par(t)), fall=fall, raise_=raise_)
    tr.raise_stack.append(raise_)
    body = tr.block(stmts, env, ctx)
    pro = (T.prologue + "\n") if T.prologue else ""
    return f"Definition {T.name} {binders} : {T.coq_ret} :=\n{indent(pro + body)}."


def vocabulary_doc(rules, loops=()):
    out = []
    for r in rules:
        out.append("     " + r.describe().replace("(*", "( *").replace("*)", "* )"))
    for lp in loops:
        out.append(f"     while {lp.test}: <updates that shrink {lp.state}>   |->   {lp.state} := while_fuel ({lp.fuel}) "
                   f"(fun {lp.state} => {lp.test_coq}) (fun {lp.state} => <updates>) {lp.state}")
    return "\n".join(out)


def check_methods(cls, expected):
    names = sorted(n.name for n in cls.body if isinstance(n, (ast.FunctionDef, ast.AsyncFunctionDef)))
    if names != sorted(expected):
        raise Unrecognised(f"class {cls.name}: methods {names}, expected {sorted(expected)}")
    for n in cls.body:
        if not isinstance(n, (ast.FunctionDef, ast.Expr)) or (isinstance(n, ast.Expr) and not isinstance(n.value, ast.Constant)):
            raise Unrecognised(f"class {cls.name}: member {ast.unparse(n)[:80]}")


def check_body(fdef, expected, what):
    got = [ast.unparse(s) for s in fdef.body if not (isinstance(s, ast.Expr) and isinstance(s.value, ast.Constant))]
    if got != list(expected):
        raise Unrecognised(f"{what}: body is {got}")


def method(cls, name):
    ms = [n for n in cls.body if isinstance(n, ast.FunctionDef) and n.name == name]
    if len(ms) != 1:
        raise Unrecognised(f"{cls.name}.{name}: found {len(ms)} definitions")
    return ms[0]


def only_toplevel(tree, name):
    fs = [n for n in tree.body if isinstance(n, ast.FunctionDef) and n.name == name]
    if len(fs) != 1:
        raise Unrecognised(f"{name}: found {len(fs)} top-level definitions")
    return fs[0]


LOGGING = Rule("_logger.debug(__M)", kind="noop", doc="logging")

GEN_HEADER = ("(* REGENERATED on every run by harness/translate_py.py from /repo's current source: a translation of the\n"
              "   Python AST, driven by the vocabulary documented below.  Do not edit by hand. *)\n"
              "From Coq Require Import String List ZArith Bool Arith.\nImport ListNotations.\n")


# ============================================================================= T1  dds/_lru_store.py

LRU_TYPES = {"key": "key", "blob": "blob", "entry": "blob", "pathmap": "list (dpath * key)", "pathlist": "list dpath"}

OD_PRELUDE = """(* OrderedDict[PyHash, Entry] as an association list (cache = list (key * blob), oldest entry first, keys distinct);
   Entry(v) is v.  A KeyError (move_to_end / D[k] of an absent key, popitem of an empty dictionary) is not modelled:
   it is a no-op / None below, and LRUCache never triggers it. *)
Definition od_contains (k : key) (c : cache) : bool := is_some (alookup k c).
Definition od_getitem (k : key) (c : cache) : option blob := alookup k c.
(* D[k] = v : replaces the value in place when k is present, appends otherwise *)
Definition od_setitem (k : key) (v : blob) (c : cache) : cache := aupdate k v c.
Definition od_move_to_end (k : key) (c : cache) : cache :=
  match alookup k c with Some v => cremove k c ++ [(k, v)] | None => c end.
Definition od_popitem_first (c : cache) : cache := tl c.
Definition od_popitem_last (c : cache) : cache := removelast c.
(* capacity: None = unbounded (sys.maxsize // 2), as in Lru.v.  `n > capacity` *)
Definition cap_lt (cap : option nat) (n : nat) : bool :=
  match cap with None => false | Some m => Nat.ltb m n end.
Definition blob_is_none (v : blob) : bool := match v with BNone => true | BVal _ => false end.
"""

OD_RULES = [
    Rule("__K not in self._cache", "negb (od_contains {K} c)", "bool", {"K": "key"}),
    Rule("__K in self._cache", "od_contains {K} c", "bool", {"K": "key"}),
    Rule("self._cache[__K]", "od_getitem {K} c", opt("entry"), {"K": "key"}, doc="None stands for KeyError"),
    Rule("self._cache.move_to_end(__K)", "od_move_to_end {K} c", "unit", {"K": "key"}, kind="update", state="c"),
    Rule("self._cache[__K] = __V", "od_setitem {K} {V} c", "unit", {"K": "key", "V": "entry"}, kind="update", state="c"),
    Rule("Entry(__V)", "{V}", "entry", {"V": "blob"}),
    Rule("self._cache.popitem(last=False)", "od_popitem_first c", "unit", kind="update", state="c", shrinks=True),
    Rule("self._cache.popitem(last=True)", "od_popitem_last c", "unit", kind="update", state="c", shrinks=True),
    Rule("self._cache.popitem()", "od_popitem_last c", "unit", kind="update", state="c", shrinks=True),
    LOGGING,
]
OD_LOOPS = [Loop("len(self._cache) > self._capacity", "cap_lt cap (List.length c)", "c", "List.length c")]

STORE_RULES = [
    Rule("self._cache.get(__K)", "gen_cget {K} c", opt("entry"), {"K": "key"}, kind="call", bind="({r}, c)",
         doc="the method LRUCache.get translated above"),
    Rule("self._cache.put(__K, __V)", "gen_cput cap {K} {V} c", "unit", {"K": "key", "V": "blob"}, kind="update", state="c",
         doc="the method LRUCache.put translated above"),
    Rule("__E.obj", "{E}", "blob", {"E": "entry"}),
    Rule("self._store.has_blob(__K)", "inner s (OHas {K})", "bool", {"K": "key"}, kind="icall", ctor="RBool {r}"),
    Rule("self._store.fetch_blob(__K)", "inner s (OFetch {K})", "blob", {"K": "key"}, kind="icall", ctor="RBlob {r}"),
    Rule("self._store.store_blob(__K, __B, codec)", "inner s (OPut {K} {B})", "unit", {"K": "key", "B": "blob"}, kind="icall",
         ctor="RUnit", doc="the codec is not modelled"),
    Rule("self._store.sync_paths(__P)", "inner s (OSync {P})", "unit", {"P": "pathmap"}, kind="icall", ctor="RUnit"),
    Rule("self._store.fetch_paths(__P)", "inner s (OFetchPaths {P})", "pathmap", {"P": "pathlist"}, kind="icall", ctor="RPaths {r}"),
    LOGGING,
]

# method -> (parameter types, type of the result, constructor of sout, constructor of sop, its arguments)
STORE_METHODS = [
    ("has_blob", ["key"], "bool", "RBool {v}", "OHas k", "k"),
    ("fetch_blob", ["key"], "blob", "RBlob {v}", "OFetch k", "k"),
    ("store_blob", ["key", "blob", None], "unit", "RUnit", "OPut k v", "k v"),
    ("sync_paths", ["pathmap"], "unit", "RUnit", "OSync ps", "ps"),
    ("fetch_paths", ["pathlist"], "pathmap", "RPaths {v}", "OFetchPaths ps", "ps"),
]


@register("GenLru")
def gen_lru():
    tree = parse("dds/_lru_store.py")
    entry = find_def(tree, "Entry", (ast.ClassDef,))
    if [ast.unparse(s) for s in entry.body] != ["obj: Any"] or [ast.unparse(d) for d in entry.decorator_list] != ["dataclass(frozen=True)"]:
        raise Unrecognised("class Entry is not the frozen dataclass with the single field obj")
    lc = find_def(tree, "LRUCache", (ast.ClassDef,))
    check_methods(lc, ["__init__", "get", "put"])
    check_body(method(lc, "__init__"), ["self._cache: OrderedDict[PyHash, Entry] = OrderedDict()", "self._capacity = capacity"],
               "LRUCache.__init__")
    ls = find_def(tree, "LRUCacheStore", (ast.ClassDef,))
    check_methods(ls, ["__init__", "__repr__", "codec_registry"] + [m[0] for m in STORE_METHODS])
    check_body(method(ls, "__init__"), ["self._store: Store = store", "self._num_elem = num_elem", "self._cache = LRUCache(num_elem)"],
               "LRUCacheStore.__init__")
    check_body(method(ls, "codec_registry"), ["return self._store.codec_registry()"], "LRUCacheStore.codec_registry")
    none_values = {"blob": "BNone", "unit": "tt"}
    is_none = {"blob": "blob_is_none {x}"}
    t_get = Target("gen_cget", "(c : cache)", "option blob * cache", ["key"], opt("entry"), "({v}, c)", OD_RULES,
                   coq_types=LRU_TYPES, loops=OD_LOOPS, none_values=none_values, is_none=is_none)
    t_put = Target("gen_cput", "(c : cache)", "cache", ["key", "blob"], "unit", "c", OD_RULES,
                   coq_types=LRU_TYPES, loops=OD_LOOPS, none_values=none_values, is_none=is_none, pre_binders="(cap : option nat)")
    d_get = translate(t_get, method(lc, "get"), ["self"])
    d_put = translate(t_put, method(lc, "put"), ["self"])
    defs = []
    for name, params, rty, ctor, _, _ in STORE_METHODS:
        t = Target("gen_" + name, "(st : cache * S)", "(cache * S) * sout", params, rty, "((c, s), " + ctor + ")", STORE_RULES,
                   prologue="let '(c, s) := st in", propagate="((c, s), {raw})", coq_types=LRU_TYPES,
                   none_values=none_values, is_none=is_none)
        defs.append(translate(t, method(ls, name), ["self"]))
    dispatch = "  Definition gen_lru_step (st : cache * S) (o : sop) : (cache * S) * sout :=\n    match o with\n"
    for name, _, _, _, op, args in STORE_METHODS:
        dispatch += f"    | {op} => gen_{name} {args} st\n"
    dispatch += "    end.\n"
    body = GEN_HEADER
    body += "From DDS Require Import Base.Bytes Base.PyRt L4_Eval.Store L5_Stores.Lru.\n\n"
    body += "(* dds/_lru_store.py : LRUCache.get, LRUCache.put, LRUCacheStore.has_blob / fetch_blob / store_blob / sync_paths /\n"
    body += "   fetch_paths, over the types of L5_Stores/Lru.v.\n\n"
    body += "   Vocabulary of LRUCache (state: c = self._cache; cap = self._capacity):\n" + vocabulary_doc(OD_RULES, OD_LOOPS) + "\n\n"
    body += "   Vocabulary of LRUCacheStore (state: c = the dictionary of self._cache, an LRUCache of capacity cap;\n"
    body += "   s = the state of self._store, whose methods are the step function inner; a method returns its value\n"
    body += "   wrapped in the constructor of sout of its return type; when the wrapped store does not answer with the expected\n"
    body += "   constructor - it raised - the answer is propagated):\n" + vocabulary_doc(STORE_RULES) + "\n"
    body += "   Python variables x are v_x; t<n> are intermediate results. *)\n\n"
    body += OD_PRELUDE + "\n" + d_get + "\n\n" + d_put + "\n\n"
    body += "Section GenWrapped.\n  Variable S : Type.\n  Variable inner : S -> sop -> S * sout.\n  Variable cap : option nat.\n\n"
    body += "\n\n".join(indent(d) for d in defs) + "\n\n"
    body += "  (* one constructor of sop per method of the Store interface *)\n" + dispatch + "End GenWrapped.\n"
    return body


# ============================================================================= T2  dds/_api.py : set_store(cache_objects=...)

CO_PRELUDE = """(* the result: the decoding raises DDSException / the capacity of the LRUCacheStore that is installed (None: no wrapper;
   Some None: unbounded = sys.maxsize // 2, as in Lru.v) *)
Inductive dres := DRaise | DVal (w : option (option nat)).
(* cache_objects : Union[bool, int, None] is a cache_opt; bool is a subclass of int *)
Definition co_is_none (o : cache_opt) : bool := match o with CNone => true | _ => false end.
Definition co_isinstance_bool (o : cache_opt) : bool := match o with CBool _ => true | _ => false end.
Definition co_isinstance_int (o : cache_opt) : bool := match o with CBool _ | CInt _ => true | CNone => false end.
Definition co_truthy (o : cache_opt) : bool :=
  match o with CNone => false | CBool b => b | CInt z => negb (Z.eqb z 0) end.
(* the integer value (True = 1, False = 0); never taken on None *)
Definition co_int (o : cache_opt) : Z :=
  match o with CNone => 0%Z | CBool true => 1%Z | CBool false => 0%Z | CInt z => z end.
"""

CO_RULES = [
    Rule("isinstance(__X, (int, bool))", "co_isinstance_int {X}", "bool", {"X": "copt"}),
    Rule("isinstance(__X, (bool, int))", "co_isinstance_int {X}", "bool", {"X": "copt"}),
    Rule("isinstance(__X, int)", "co_isinstance_int {X}", "bool", {"X": "copt"}),
    Rule("isinstance(__X, bool)", "co_isinstance_bool {X}", "bool", {"X": "copt"}),
    Rule("default_cache_size", "Some default_size", "cap", doc="dds/_lru_store.py, see Extracted/ConstLru.v"),
    Rule("sys.maxsize // 2", "@None nat", "cap", doc="unbounded"),
    Rule("_store_var = LRUCacheStore(_store(), num_elem=__N)", "Some {N}", "unit", {"N": "cap"}, kind="update", state="w",
         doc="the wrapper that is installed"),
    LOGGING,
]


@register("GenCacheOpt")
def gen_cache_opt():
    tree = parse("dds/_api.py")
    f = find_def(tree, "set_store", (ast.FunctionDef,))
    for n in ast.walk(f):
        if isinstance(n, (ast.Assign, ast.AnnAssign, ast.AugAssign, ast.NamedExpr, ast.For, ast.With, ast.Delete, ast.Global, ast.Nonlocal)):
            tgts = n.targets if isinstance(n, (ast.Assign, ast.Delete)) else [getattr(n, "target", None)]
            if isinstance(n, (ast.Global, ast.Nonlocal)):
                tgts = [ast.Name(id=x) for x in n.names]
            if isinstance(n, ast.With):
                tgts = [i.optional_vars for i in n.items]
            for t in tgts:
                for m in ast.walk(t) if t is not None else []:
                    if isinstance(m, ast.Name) and m.id == "cache_objects":
                        raise Unrecognised("set_store: cache_objects is rebound")
    idx = [i for i, st in enumerate(f.body) if isinstance(st, ast.If) and ast.unparse(st.test) == "cache_objects is not None"]
    if len(idx) != 1:
        raise Unrecognised(f"set_store: {len(idx)} top-level statements `if cache_objects is not None`")
    i = idx[0]
    for st in f.body[:i]:
        if any(isinstance(m, ast.Name) and m.id == "num_objects" for m in ast.walk(st)):
            raise Unrecognised("set_store: num_objects is used before the decoding of cache_objects")
    t = Target("gen_decode_cache_objects", "(default_size : nat) (o : cache_opt)", "dres", [], "unit", "DVal w", CO_RULES,
               prologue="let w : option (option nat) := None in", raise_="DRaise", fall="DVal w",
               is_none={"copt": "co_is_none {x}"}, truthy={"copt": "co_truthy {x}"},
               coercions={("copt", "Z"): "co_int {x}", ("copt", "cap"): "Some (Z.to_nat (co_int {x}))"},
               annotations={"Optional[int]": opt("cap")}, readers=("_store",), coq_types={"copt": "cache_opt", "cap": "option nat"})
    d = translate(t, f.body[i:], {"cache_objects": ("o", "copt")})
    body = GEN_HEADER + "From DDS Require Import Base.Bytes Base.PyRt L5_Stores.Lru.\n\n"
    body += "(* dds/_api.py : set_store, from the statement `if cache_objects is not None:` to the end of the function, over\n"
    body += "   cache_opt of L5_Stores/Lru.v (o = cache_objects; w = the capacity of the wrapper put around _store_var).\n"
    body += "   Vocabulary:\n" + vocabulary_doc(CO_RULES) + "\n"
    body += "     _store() in a log line: reads _store_var, which is set at that point\n"
    body += "     x is None |-> co_is_none x ; truth value of x |-> co_truthy x ; x as an int |-> co_int x ;\n"
    body += "     x as a capacity |-> Some (Z.to_nat (co_int x)) ; raise DDSException(..) |-> DRaise *)\n\n"
    body += CO_PRELUDE + "\n" + d + "\n"
    return body


# ============================================================================= T3  dds/_eval_ctx.py : is_authorized_path

ACCEPT_RULES = [
    Rule("cp._path.parts", "parts", lst("bytes"), doc="the components of the canonical path"),
    Rule("self.whitelisted_packages", "accepted", lst("bytes"), doc="a set of package names, as a list"),
    Rule("__S.join(__X)", "join {S} {X}", "bytes", {"S": "bytes", "X": lst("bytes")}),
]


@register("GenAccept")
def gen_accept():
    tree = parse("dds/_eval_ctx.py")
    cls = find_def(tree, "EvalMainContext", (ast.ClassDef,))
    t = Target("gen_is_authorized_path", "(parts accepted : list bytes)", "bool", [None], "bool", "{v}", ACCEPT_RULES)
    d = translate(t, method(cls, "is_authorized_path"), ["self"])
    body = GEN_HEADER + "From DDS Require Import Base.Bytes Base.PyRt.\n\n"
    body += "(* dds/_eval_ctx.py : EvalMainContext.is_authorized_path, over the types of L2_Disc/Accept.v.\n   Vocabulary:\n"
    body += vocabulary_doc(ACCEPT_RULES) + "\n"
    body += "     for i in range(n): <body that may only return>  |->  for_range_first n (fun i => Some <returned> or None) *)\n\n"
    body += d + "\n"
    return body


# ============================================================================= T5  dds/store.py : path_segments

PATH_RULES = [
    Rule("__P.split('/')", "split_slash {P} []", lst("bytes"), {"P": "bytes"}, doc="str.split on the one-character separator /"),
]


@register("GenPath")
def gen_path():
    tree = parse("dds/store.py")
    f = only_toplevel(tree, "path_segments")
    t = Target("gen_path_segments", "", "option (list bytes)", ["bytes"], lst("bytes"), "Some {v}", PATH_RULES, raise_="None")
    d = translate(t, f)
    body = GEN_HEADER + "From DDS Require Import Base.Bytes Base.PyRt L5_Stores.PathMap.\n\n"
    body += "(* dds/store.py : path_segments, over the types of L5_Stores/PathMap.v (a str is its list of bytes).\n   Vocabulary:\n"
    body += vocabulary_doc(PATH_RULES) + "\n"
    body += "     [x for x in l if c] |-> filter (fun x => c) l ; any(c for x in l) |-> existsb (fun x => c) l ;\n"
    body += "     truth value of a str / a list |-> it is not empty ; raise DDSException(..) |-> None ; return v |-> Some v *)\n\n"
    body += d + "\n"
    return body


# ============================================================================= T4  dds/_api.py : _parse_stages

STAGES_PRELUDE = """(* an element of dds_stages is a stage_arg of Stages.v.  ProcessingStage(str, Enum): a member is a str, whose
   upper-cased value is its name (obligations c_stage_bases, c_stage_values_are_lower_names of Extracted/ConstStages.v,
   checked by StageProofs.stage_constants); the name carried by SAName is already upper-cased. *)
Definition sa_is_str (a : stage_arg) : bool := match a with SAName _ | SAEnum _ => true | SAOther => false end.
Definition sa_is_enum (a : stage_arg) : bool := match a with SAEnum _ => true | _ => false end.
Definition name_of_stage (s : stage) : string :=
  match s with
  | Analysis => "ANALYSIS" | StoreInspect => "STORE_INSPECT" | Eval => "EVAL"
  | StoreCommit => "STORE_COMMIT" | PathCommit => "PATH_COMMIT"
  end%string.
Definition sa_upper (a : stage_arg) : string :=
  match a with SAName n => n | SAEnum x => name_of_stage x | SAOther => EmptyString end.
Definition sa_enum (a : stage_arg) : option stage := match a with SAEnum x => Some x | _ => None end.
Definition ostage_eqb (a b : option stage) : bool :=
  match a, b with Some x, Some y => stage_eqb x y | None, None => true | _, _ => false end.
"""

CHECK_RULES = [
    Rule("isinstance(__X, str)", "sa_is_str {X}", "bool", {"X": "sarg"}),
    Rule("isinstance(__X, ProcessingStage)", "sa_is_enum {X}", "bool", {"X": "sarg"}),
    Rule("__X.upper()", "sa_upper {X}", "name", {"X": "sarg"}),
    Rule("__N not in dir(ProcessingStage)", "negb (is_some (stage_of_name {N}))", "bool", {"N": "name"},
         doc="the upper-case names of dir(ProcessingStage) are the member names"),
    Rule("ProcessingStage[__N]", "stage_of_name {N}", opt("stage"), {"N": "name"}, doc="None stands for KeyError"),
]
STAGES_RULES = [
    Rule("ProcessingStage.all_phases()", "all_phases", lst("stage"), doc="Stages.all_phases, from Extracted/ConstStages.v"),
    Rule("[check(__A, __B) for (__A, __B) in zip(__X, __Y)]", "zip_map_exc gen_check {X} {Y}", lst("stage"),
         {"A": "_", "B": "_", "X": lst("sarg"), "Y": lst("stage")}, kind="ecall",
         doc="check is the nested function translated above"),
]
STAGES_TYPES = {"sarg": "stage_arg", "stage": "stage", "name": "string"}


@register("GenStages")
def gen_stages():
    tree = parse("dds/_api.py")
    f = only_toplevel(tree, "_parse_stages")
    nested = [st for st in f.body if isinstance(st, (ast.FunctionDef, ast.AsyncFunctionDef, ast.ClassDef))]
    if len(nested) != 1 or not isinstance(nested[0], ast.FunctionDef) or nested[0].name != "check":
        raise Unrecognised("_parse_stages: expected exactly one nested function, `check`")
    chk = nested[0]
    for n in ast.walk(chk):
        if isinstance(n, (ast.Global, ast.Nonlocal)) or (isinstance(n, ast.Name) and n.id == "dds_stages"):
            raise Unrecognised("_parse_stages.check is not closed")
    outer = [st for st in f.body if st is not chk]
    for st in outer:
        for n in ast.walk(st):
            if isinstance(n, ast.Name) and n.id == "check" and not isinstance(n.ctx, ast.Load):
                raise Unrecognised("_parse_stages: check is rebound")
    eqb = {opt("stage"): "ostage_eqb", "stage": "stage_eqb"}
    t_chk = Target("gen_check", "", "option stage", ["sarg", "stage"], "stage", "Some {v}", CHECK_RULES, raise_="None",
                   coercions={("sarg", opt("stage")): "sa_enum {x}"}, eqb=eqb, coq_types=STAGES_TYPES,
                   local_types={"x": opt("stage")})
    t_out = Target("gen_parse_stages", "", "parse_res", [opt(lst("sarg"))], lst("stage"), "POk {v}", STAGES_RULES, raise_="PErr",
                   eqb=eqb, coq_types=STAGES_TYPES)
    d_chk = translate(t_chk, chk)
    d_out = translate(t_out, ast.FunctionDef(name=f.name, args=f.args, body=outer, decorator_list=f.decorator_list,
                                             returns=f.returns, lineno=f.lineno))
    body = GEN_HEADER + "From DDS Require Import Base.Bytes Base.PyRt L4_Eval.Stages.\n\n"
    body += "(* dds/_api.py : _parse_stages and its nested function check, over the types of L4_Eval/Stages.v\n"
    body += "   (DDSException |-> None for check, PErr for _parse_stages).\n   Vocabulary of check (the local x : an Optional stage):\n"
    body += vocabulary_doc(CHECK_RULES) + "\n     x = s with s an element |-> sa_enum s\n   Vocabulary of _parse_stages:\n"
    body += vocabulary_doc(STAGES_RULES) + " *)\n\n"
    body += STAGES_PRELUDE + "\n" + d_chk + "\n\n" + d_out + "\n"
    return body


# ============================================================================= T6  dds/codec.py : CodecRegistry

CODEC_PRELUDE = """(* a codec object: its identity (reference, registration index: Codec.cid) and the types it declares.
   self._handled_types and self._protocols (dict, insertion ordered) are the association lists h and p of Codec.v. *)
Record cobj := CObj { co_id : cid; co_types : list bytes }.
Definition co_ref (c : cobj) : bytes := fst (co_id c).
Definition dict_contains {A : Type} (k : bytes) (d : list (bytes * A)) : bool := is_some (rget k d).
(* truth value of an Optional[str]: neither None nor the empty string *)
Definition opt_nonempty (o : option bytes) : bool := match o with Some (_ :: _) => true | _ => false end.
(* the str inside an Optional[str] that an `if` has found to be true *)
Definition opt_get (o : option bytes) : bytes := match o with Some x => x | None => [] end.
(* `a or b` on Optional[codec object]: codec objects are always true *)
Definition get_or {A : Type} (a b : option A) : option A := match a with Some x => Some x | None => b end.
"""

CODEC_REG_RULES = [
    Rule("self.codecs.insert(0, __C)", kind="noop", doc="self.codecs is read by no method"),
    Rule("self.file_codecs.insert(0, __C)", kind="noop", doc="self.file_codecs is read by no method after __init__"),
    Rule("for t in __C.handled_types():\n    self._handled_types[t] = __C",
         "fold_left (fun h0 t => rset t (co_id {C}) h0) (co_types {C}) h", "unit", {"C": "codec"}, kind="update", state="h"),
    Rule("for t in __C.handled_types():\n    if t not in self._handled_types:\n        self._handled_types[t] = __C",
         "fold_left (fun h0 t => rset_if_absent t (co_id {C}) h0) (co_types {C}) h", "unit", {"C": "codec"}, kind="update", state="h"),
    Rule("self._protocols[__C.ref()] = __C", "rset (co_ref {C}) (co_id {C}) p", "unit", {"C": "codec"}, kind="update", state="p"),
    Rule("__C.ref() in self._protocols", "dict_contains (co_ref {C}) p", "bool", {"C": "codec"}),
    Rule("_logger.warning(__M)", kind="noop", doc="logging"),
    LOGGING,
]
CODEC_GET_RULES = [
    Rule("__R not in self._protocols", "negb (dict_contains {R} p)", "bool", {"R": "ref"}),
    Rule("self._protocols[__R]", "rget {R} p", opt("cid"), {"R": "ref"}, doc="None stands for KeyError"),
    Rule("self._handled_types.get(__A) or self._handled_types.get(SupportedTypeUtils.from_type(object))",
         "get_or (rget {A} h) (rget object_type h)", opt("cid"), {"A": "ty"},
         doc="SupportedTypeUtils.from_type(object) is the str object (body of from_type checked)"),
    LOGGING,
]
CODEC_TYPES = {"codec": "cobj", "cid": "cid", "ty": "bytes", "ref": "bytes"}


@register("GenCodec")
def gen_codec():
    tree = parse("dds/codec.py")
    cls = find_def(tree, "CodecRegistry", (ast.ClassDef,))
    check_methods(cls, ["__init__", "add_codec", "add_file_codec", "get_codec"])
    check_body(method(cls, "__init__"),
               ["self.codecs = list(codecs)", "self.file_codecs = list(file_codecs)",
                "self._handled_types: Dict[SupportedType, Union[CodecProtocol, FileCodecProtocol]] = {}",
                "self._protocols: Dict[ProtocolRef, Union[CodecProtocol, FileCodecProtocol]] = {}",
                "for c in list(codecs):\n    self.add_codec(c)", "for fc in list(self.file_codecs):\n    self.add_file_codec(fc)"],
               "CodecRegistry.__init__")
    su = find_def(parse("dds/structures_utils.py"), "SupportedTypeUtils", (ast.ClassDef,))
    check_body(method(su, "from_type"),
               ["if t is None:\n    return SupportedTypeUtils.from_type(type(None))", "module = t.__module__",
                "if module is None or module == str.__class__.__module__:\n    return SupportedType(t.__name__)",
                "return SupportedType(module + '.' + t.__name__)"], "SupportedTypeUtils.from_type")
    # the two lists of codec objects are written by __init__ and the two registration methods only and read nowhere else
    for m in cls.body:
        if isinstance(m, ast.FunctionDef) and m.name == "get_codec":
            for n in ast.walk(m):
                if isinstance(n, ast.Attribute) and n.attr in ("codecs", "file_codecs"):
                    raise Unrecognised("CodecRegistry.get_codec reads the lists of codec objects")
    pair = "list (bytes * cid) * list (bytes * cid)"
    t_add = Target("gen_add_codec", "(h p : list (bytes * cid))", pair, ["codec"], "unit", "(h, p)", CODEC_REG_RULES,
                   coq_types=CODEC_TYPES, none_values={"unit": "tt"})
    t_addf = Target("gen_add_file_codec", "(h p : list (bytes * cid))", pair, ["codec"], "unit", "(h, p)", CODEC_REG_RULES,
                    coq_types=CODEC_TYPES, none_values={"unit": "tt"}, readers=(".ref",))
    t_get = Target("gen_get_codec", "(h p : list (bytes * cid))", "option cid", [opt("ty"), opt("ref")], opt("cid"), "{v}",
                   CODEC_GET_RULES, raise_="None", coq_types=CODEC_TYPES, truthy={opt("ref"): "opt_nonempty {x}"},
                   coercions={(opt("ref"), "ref"): "opt_get {x}"}, annotations={"SupportedType": "ty"})
    d_add = translate(t_add, method(cls, "add_codec"), ["self"])
    d_addf = translate(t_addf, method(cls, "add_file_codec"), ["self"])
    d_get = translate(t_get, method(cls, "get_codec"), ["self"])
    body = GEN_HEADER + "From DDS Require Import Base.Bytes Base.PyRt L5_Stores.Codec.\n\n"
    body += "(* dds/codec.py : CodecRegistry.add_codec / add_file_codec / get_codec, over the types of L5_Stores/Codec.v\n"
    body += "   (state: h = self._handled_types, p = self._protocols; get_codec: DDSException / KeyError |-> None).\n"
    body += "   Vocabulary of the registration methods:\n" + vocabulary_doc(CODEC_REG_RULES) + "\n"
    body += "   Vocabulary of get_codec (truth value of ref |-> opt_nonempty ref ; ref as a str |-> opt_get ref):\n"
    body += vocabulary_doc(CODEC_GET_RULES) + " *)\n\n"
    body += CODEC_PRELUDE + "\n" + d_add + "\n\n" + d_addf + "\n\n" + d_get + "\n"
    return body


# ============================================================================= T7  dds/store.py : MemoryStore

MEM_PRELUDE = """(* self._cache : Dict[PyHash, Any] is the association list b, self._paths : Dict[DDSPath, PyHash] the association list ps
   (Store.v: alookup / aupdate; a Python dict keeps the position of a key that is assigned again, as aupdate does).
   A stored value is a blob of Store.v; the Python value None is BNone. *)
Definition dict_has {A : Type} (k : bytes) (d : list (bytes * A)) : bool := is_some (alookup k d).
Definition dict_get_blob (k : key) (d : list (key * blob)) : blob := match alookup k d with Some v => v | None => BNone end.
Definition upd_pair (acc : list (dpath * key)) (pk : dpath * key) : list (dpath * key) := aupdate (fst pk) (snd pk) acc.
(* [(p, D[p]) for p in l] - a KeyError is not modelled: MemoryStore.fetch_paths raises before, when a path is missing *)
Definition lookup_pairs (l : list dpath) (d : list (dpath * key)) : list (dpath * key) :=
  flat_map (fun p => match alookup p d with Some k => [(p, k)] | None => [] end) l.
(* OrderedDict(list of pairs) *)
Definition od_of_pairs (l : list (dpath * key)) : list (dpath * key) := fold_left upd_pair l [].
"""

MEM_RULES = [
    Rule("__K in self._cache", "dict_has {K} b", "bool", {"K": "key"}),
    Rule("self._cache.get(__K)", "dict_get_blob {K} b", "blob", {"K": "key"}, doc="None (absent) is the value None"),
    Rule("self._cache[__K] = __V", "aupdate {K} {V} b", "unit", {"K": "key", "V": "blob"}, kind="update", state="b"),
    Rule("for (p, k) in __P.items():\n    self._paths[p] = k", "fold_left upd_pair {P} ps", "unit", {"P": "pathmap"}, kind="update", state="ps",
         doc="after the log-only statements of the loop body have been removed (strip_logs)"),
    Rule("__P not in self._paths", "negb (dict_has {P} ps)", "bool", {"P": "dpath"}),
    Rule("OrderedDict([(p, self._paths[p]) for p in __L])", "od_of_pairs (lookup_pairs {L} ps)", "pathmap", {"L": lst("dpath")}),
    Rule("_logger.warning(__M)", kind="noop", doc="logging"),
    LOGGING,
]
MEM_TYPES = {"key": "key", "blob": "blob", "dpath": "dpath", "pathmap": "list (dpath * key)", "pathlist": "list dpath"}
MEM_METHODS = [
    ("has_blob", ["key"], "bool", "RBool {v}", "OHas k", "k"),
    ("fetch_blob", ["key"], "blob", "RBlob {v}", "OFetch k", "k"),
    ("store_blob", ["key", "blob", None], "unit", "RUnit", "OPut k v", "k v"),
    ("sync_paths", ["pathmap"], "unit", "RUnit", "OSync ps0", "ps0"),
    ("fetch_paths", [lst("dpath")], "pathmap", "RPaths {v}", "OFetchPaths l", "l"),
]


def _is_log_call(st):
    if not (isinstance(st, ast.Expr) and isinstance(st.value, ast.Call)):
        return False
    f = st.value.func
    if not (isinstance(f, ast.Attribute) and isinstance(f.value, ast.Name) and f.value.id == "_logger"
            and f.attr in ("debug", "info", "warning")):
        return False
    for a in list(st.value.args) + [kw.value for kw in st.value.keywords]:
        log_safe(a)
    return True


def _pure_membership(t):
    """`x in self.attr` / `x not in self.attr` with x a name: a test without effect."""
    return (isinstance(t, ast.Compare) and len(t.ops) == 1 and isinstance(t.ops[0], (ast.In, ast.NotIn)) and isinstance(t.left, ast.Name)
            and isinstance(t.comparators[0], ast.Attribute) and isinstance(t.comparators[0].value, ast.Name) and t.comparators[0].value.id == "self")


def strip_logs(stmts):
    """Removes the statements that only log: `_logger.debug/info/warning(<log-safe arguments>)`, and an `if` on a pure membership
    test whose two branches are empty after that.  Everything else is kept as it is."""
    out = []
    for st in stmts:
        if _is_log_call(st):
            continue
        if isinstance(st, ast.If) and _pure_membership(st.test):
            body, orelse = strip_logs(st.body), strip_logs(st.orelse)
            if not body and not orelse:
                continue
        if isinstance(st, ast.For):
            st = ast.For(target=st.target, iter=st.iter, body=strip_logs(st.body) or [ast.Pass()], orelse=st.orelse, lineno=st.lineno,
                         type_comment=None)
        out.append(st)
    return out


@register("GenMemStore")
def gen_memstore():
    tree = parse("dds/store.py")
    cls = find_def(tree, "MemoryStore", (ast.ClassDef,))
    check_methods(cls, ["__init__", "codec_registry"] + [m[0] for m in MEM_METHODS])
    check_body(method(cls, "__init__"), ["self._cache: Dict[PyHash, Any] = {}", "self._paths: Dict[DDSPath, PyHash] = {}"], "MemoryStore.__init__")
    defs = []
    for name, params, rty, ctor, _, _ in MEM_METHODS:
        t = Target("gen_mem_" + name, "(st : sstate)", "sstate * sout", params, rty, "(SState b ps, " + ctor + ")", MEM_RULES,
                   prologue="let b := blobs st in\nlet ps := paths st in", raise_="(SState b ps, RErr)", coq_types=MEM_TYPES,
                   none_values={"blob": "BNone", "unit": "tt"})
        m = method(cls, name)
        m = ast.FunctionDef(name=m.name, args=m.args, body=strip_logs(m.body), decorator_list=m.decorator_list, returns=m.returns, lineno=m.lineno)
        defs.append(translate(t, m, ["self"]))
    dispatch = "Definition gen_mem_step (st : sstate) (o : sop) : sstate * sout :=\n  match o with\n"
    for name, _, _, _, op, args in MEM_METHODS:
        dispatch += f"  | {op} => gen_mem_{name} {args} st\n"
    dispatch += "  end.\n"
    body = GEN_HEADER + "From DDS Require Import Base.Bytes Base.PyRt L4_Eval.Store.\n\n"
    body += "(* dds/store.py : MemoryStore.has_blob / fetch_blob / store_blob / sync_paths / fetch_paths, over the types of L4_Eval/Store.v\n"
    body += "   (state: the record sstate of Store.v, b = self._cache, ps = self._paths; DDSException |-> RErr).  Vocabulary:\n" + vocabulary_doc(MEM_RULES) + " *)\n\n"
    body += MEM_PRELUDE + "\n" + "\n\n".join(defs) + "\n\n(* one constructor of sop per method of the Store interface *)\n" + dispatch
    return body


# ============================================================================= T8  dds/fun_args.py : get_arg_ctx, get_arg_ctx_ast

ARG_PRELUDE = """(* inspect.signature(f).parameters is a list of param (ArgCtx.v); the values passed at run time are pyval, the arguments seen in
   the source are aarg.  _hash_arg(x) = dds_hash(x if x is not None else MARKER) is hash_opt (subst_default x): the shape of
   _hash_arg is the regenerated constant c_default_style of Extracted/ConstHash.v.  An exception is inl e. *)
Definition pkind_eqb (a b : pkind) : bool :=
  match a, b with POK, POK | VARKW, VARKW | VARPOS, VARPOS | KWONLY, KWONLY | POSONLY, POSONLY => true | _, _ => false end.
Section GenArgs.
  Variable H : bytes -> bytes.
  Variable maxlen : option N.
  Definition gen_hash_arg (v : pyval) : actx_err + option bytes := hash_opt H maxlen (subst_default v).
  (* args[idx] with idx < len(args), kwargs[n] with n in kwargs, p.default with a default: the other case is never evaluated *)
  Definition hash_nth (pos : list pyval) (i : nat) : actx_err + option bytes :=
    match nth_error pos i with Some v => gen_hash_arg v | None => inr None end.
  Definition hash_kw (kw : list (bytes * pyval)) (n : bytes) : actx_err + option bytes :=
    match kw_lookup n kw with Some v => gen_hash_arg v | None => inr None end.
  Definition hash_default (p : param) : actx_err + option bytes :=
    match p_default p with Some d => gen_hash_arg d | None => inr None end.
  Definition aarg_is_constant (a : aarg) : bool := match a with ALit _ => true | ARun => false end.
  Definition hash_constant_value (a : aarg) : actx_err + option bytes :=
    match a with ALit v => gen_hash_arg v | ARun => inr None end.
  (* for (idx, (n, p_)) in enumerate(parameters.items()): <body>; args_hashes.append((ArgName(n), h)) *)
  Fixpoint loop_params (body : nat -> param -> actx_err + option bytes) (ps : list param) (idx : nat)
    : actx_err + list (bytes * option bytes) :=
    match ps with
    | [] => inr []
    | p :: r =>
      match body idx p with
      | inl e => inl e
      | inr h => match loop_params body r (S idx) with inl e => inl e | inr l => inr ((p_name p, h) :: l) end
      end
    end.
"""

KIND_NAMES = {"POSITIONAL_OR_KEYWORD": "POK", "VAR_KEYWORD": "VARKW", "VAR_POSITIONAL": "VARPOS", "KEYWORD_ONLY": "KWONLY",
              "POSITIONAL_ONLY": "POSONLY"}


def _kind_rules():
    rules = []
    for py, cq in KIND_NAMES.items():
        rules.append(Rule(f"__P.kind == Parameter.{py}", f"pkind_eqb (p_kind {{P}}) {cq}", "bool", {"P": "param"}))
    rules.append(Rule("__P.kind not in (Parameter.POSITIONAL_OR_KEYWORD, Parameter.VAR_KEYWORD)",
                      "negb (pkind_eqb (p_kind {P}) POK || pkind_eqb (p_kind {P}) VARKW)", "bool", {"P": "param"}))
    rules.append(Rule("__P.kind not in (Parameter.POSITIONAL_OR_KEYWORD, Parameter.VAR_KEYWORD, Parameter.VAR_POSITIONAL)",
                      "negb (pkind_eqb (p_kind {P}) POK || pkind_eqb (p_kind {P}) VARKW || pkind_eqb (p_kind {P}) VARPOS)", "bool", {"P": "param"}))
    rules.append(Rule("__P.default != Parameter.empty", "is_some (p_default {P})", "bool", {"P": "param"}))
    rules.append(Rule("_hash_arg(__P.default)", "hash_default {P}", opt("hash"), {"P": "param"}, kind="xcall"))
    return rules


ARG_RT_RULES = _kind_rules() + [
    Rule("_hash_arg(args[__I])", "hash_nth pos {I}", opt("hash"), {"I": "nat"}, kind="xcall"),
    Rule("__N in kwargs", "is_some (kw_lookup {N} kw)", "bool", {"N": "bytes"}),
    Rule("_hash_arg(kwargs[__N])", "hash_kw kw {N}", opt("hash"), {"N": "bytes"}, kind="xcall"),
    Rule("num_args", "List.length pos", "nat", doc="num_args = len(args), checked"),
]
ARG_AST_RULES = _kind_rules() + [
    Rule("process_arg(args[__I])", "match nth_error pos {I} with Some a => gen_process_arg a | None => inr None end", opt("hash"),
         {"I": "nat"}, kind="xcall", doc="the nested function translated above; idx < len(args)"),
    Rule("__N in kwargs", "is_some (kw_lookup {N} kw)", "bool", {"N": "bytes"}),
    Rule("process_arg(kwargs[__N])", "match kw_lookup {N} kw with Some a => gen_process_arg a | None => inr None end", opt("hash"),
         {"N": "bytes"}, kind="xcall", doc="n in kwargs"),
    Rule("num_args", "List.length pos", "nat", doc="num_args = len(args), checked"),
]
PROCESS_RULES = [
    Rule("isinstance(__X, (ast.Constant, ast.NameConstant))", "aarg_is_constant {X}", "bool", {"X": "aarg"}),
    Rule("_hash_arg(__X.value)", "hash_constant_value {X}", opt("hash"), {"X": "aarg"}, kind="xcall"),
]
ARG_TYPES = {"param": "param", "hash": "bytes", "aarg": "aarg"}
ARG_RAISES = {"NotImplementedError": "inl AENotImplemented", "DDSException": "inl AEMissing"}


def _arg_loop(fdef, what, ret_stmt, extra_prefix=()):
    """Checks the frame of get_arg_ctx / get_arg_ctx_ast around the loop over the parameters and returns the loop body, with the
    final `args_hashes.append((ArgName(n), h))` turned into `return h`."""
    body = [st for st in fdef.body if not (isinstance(st, ast.Expr) and isinstance(st.value, ast.Constant))]
    pre = [ast.unparse(st) for st in body[:-2] if not isinstance(st, ast.FunctionDef)]
    want_pre = ["arg_sig = inspect.signature(f)", "num_args = len(args)"] + list(extra_prefix)
    if pre != want_pre:
        raise Unrecognised(f"{what}: statements before the loop are {pre}")
    loop, last = body[-2], body[-1]
    if not (isinstance(loop, ast.For) and not loop.orelse and ast.unparse(loop.target) == "(idx, (n, p_))"
            and ast.unparse(loop.iter) == "enumerate(arg_sig.parameters.items())"):
        raise Unrecognised(f"{what}: the loop over the parameters is not `for (idx, (n, p_)) in enumerate(arg_sig.parameters.items())`")
    if ast.unparse(last) != ret_stmt:
        raise Unrecognised(f"{what}: last statement is `{ast.unparse(last)}`")
    lb = list(loop.body)
    if not lb or ast.unparse(lb[-1]) != "args_hashes.append((ArgName(n), h))":
        raise Unrecognised(f"{what}: the loop body does not end with args_hashes.append((ArgName(n), h))")
    for st in lb[:-1]:
        for n in ast.walk(st):
            if isinstance(n, ast.Name) and n.id == "args_hashes":
                raise Unrecognised(f"{what}: args_hashes is used inside the loop body")
            if isinstance(n, (ast.Break, ast.Continue, ast.Return)):
                raise Unrecognised(f"{what}: break / continue / return inside the loop body")
            if isinstance(n, ast.Name) and n.id in ("idx", "n", "p_", "num_args", "args", "kwargs", "arg_sig") and not isinstance(n.ctx, ast.Load):
                raise Unrecognised(f"{what}: {n.id} is rebound inside the loop body")
    return lb[:-1] + [ast.Return(value=ast.Name(id="h", ctx=ast.Load()))]


@register("GenArgCtx")
def gen_argctx():
    tree = parse("dds/fun_args.py")
    loop_env = {"idx": ("idx", "nat"), "n": ("(p_name p)", "bytes"), "p_": ("p", "param")}
    common = dict(raise_by=ARG_RAISES, coq_types=ARG_TYPES, annotations={"inspect.Parameter": "param", "Optional[PyHash]": opt("hash")},
                  local_types={"h": opt("hash")})
    # get_arg_ctx
    f1 = only_toplevel(tree, "get_arg_ctx")
    b1 = _arg_loop(f1, "get_arg_ctx", "return FunctionArgContext(OrderedDict(args_hashes), None)", ["args_hashes = []"])
    t1 = Target("gen_rt_body", "(pos : list pyval) (kw : list (bytes * pyval)) (idx : nat) (p : param)", "actx_err + option bytes",
                [], opt("hash"), "inr {v}", ARG_RT_RULES, **common)
    d1 = translate(t1, b1, loop_env)
    # get_arg_ctx_ast and its nested process_arg
    f2 = only_toplevel(tree, "get_arg_ctx_ast")
    nested = [st for st in f2.body if isinstance(st, ast.FunctionDef)]
    if len(nested) != 1 or nested[0].name != "process_arg":
        raise Unrecognised("get_arg_ctx_ast: expected exactly one nested function, process_arg")
    for n in ast.walk(nested[0]):
        if isinstance(n, (ast.Global, ast.Nonlocal)) or (isinstance(n, ast.Name) and n.id in ("args", "kwargs", "args_hashes", "arg_sig", "num_args")):
            raise Unrecognised("get_arg_ctx_ast.process_arg is not closed")
    t_p = Target("gen_process_arg", "", "actx_err + option bytes", ["aarg"], opt("hash"), "inr {v}", PROCESS_RULES, coq_types=ARG_TYPES)
    d_p = translate(t_p, nested[0])
    b2 = _arg_loop(f2, "get_arg_ctx_ast", "return OrderedDict(args_hashes)", ["args_hashes: List[Tuple[ArgName, Optional[PyHash]]] = []"])
    t2 = Target("gen_ast_body", "(pos : list aarg) (kw : list (bytes * aarg)) (idx : nat) (p : param)", "actx_err + option bytes",
                [], opt("hash"), "inr {v}", ARG_AST_RULES, **common)
    d2 = translate(t2, b2, loop_env)
    body = GEN_HEADER + "From Coq Require Import NArith.\nFrom DDS Require Import Base.Bytes Base.PyRt Extracted.ConstHash L0_Hash.PyVal L0_Hash.DdsHash L1_Args.ArgCtx.\n\n"
    body += "(* dds/fun_args.py : the body of the loop over the parameters of get_arg_ctx and of get_arg_ctx_ast (with its nested process_arg),\n"
    body += "   over the types of L1_Args/ArgCtx.v.  The frame around the loop (arg_sig, num_args = len(args), args_hashes = [], the loop header,\n"
    body += "   the final append of (ArgName(n), h) and the returned OrderedDict) is checked by shape and is loop_params below.\n"
    body += "   NotImplementedError |-> inl AENotImplemented ; DDSException |-> inl AEMissing ; idx, n, p_ are idx, p_name p, p.\n"
    body += "   Vocabulary of get_arg_ctx:\n" + vocabulary_doc(ARG_RT_RULES) + "\n   Vocabulary of process_arg:\n" + vocabulary_doc(PROCESS_RULES)
    body += "\n   Vocabulary of get_arg_ctx_ast:\n" + vocabulary_doc(ARG_AST_RULES) + " *)\n\n"
    body += ARG_PRELUDE + "\n" + indent(d1) + "\n\n" + indent(d_p) + "\n\n" + indent(d2) + "\n\n"
    body += "  Definition gen_get_arg_ctx (ps : list param) (pos : list pyval) (kw : list (bytes * pyval)) := loop_params (gen_rt_body pos kw) ps 0.\n"
    body += "  Definition gen_get_arg_ctx_ast (ps : list param) (pos : list aarg) (kw : list (bytes * aarg)) := loop_params (gen_ast_body pos kw) ps 0.\n"
    body += "End GenArgs.\n"
    return body
