"""Implementation driver for store-level properties (C12, C08 ...): runs operation sequences on real dds stores.
stdin: {"seqs":[{"store":"memory"|"local","cap":null|int|"unbounded"|"bare","ops":[...]}]}"""
import json
import os
import shutil
import sys
import tempfile
from collections import OrderedDict


def mk(kind, root, state=None):
    from dds.store import MemoryStore, LocalFileStore
    if kind == "memory":
        return MemoryStore()
    if kind == "local":
        return LocalFileStore(os.path.join(root, "internal"), os.path.join(root, "data"))
    if kind.startswith("dbfs"):
        from dds.codecs.databricks import DBFSStore, DBFSURI, CommitType
        import fake_dbutils
        if state is not None and "dbutils" in state:
            dbu = state["dbutils"]
        else:
            dbu = fake_dbutils.FakeDbutils()
            if state is not None:
                state["dbutils"] = dbu
        ct = {"dbfs": CommitType.FULL, "dbfs-full": CommitType.FULL, "dbfs-links": CommitType.LINK_ONLY, "dbfs-none": CommitType.NO_COMMIT}[kind]
        return DBFSStore(DBFSURI.parse("dbfs:/store/internal"), DBFSURI.parse("dbfs:/store/data"), dbu, ct)
    raise ValueError(kind)


class Val(object):
    """a weakly referenceable, picklable value (prints like the string it wraps)"""

    def __init__(self, s):
        self.s = s

    def __str__(self):
        return self.s

    def __eq__(self, o):
        return isinstance(o, Val) and o.s == self.s

    def __hash__(self):
        return hash(self.s)


TRACK = {"on": False, "refs": []}


def val(v):
    if v is None:
        return None
    return Val(v) if TRACK["on"] else v


def alive():
    # (CPython frees unreferenced objects at once; no cycle is involved, so no gc pass is needed)
    return len({id(w()) for w in TRACK["refs"] if w() is not None})


def do(store, op):
    from dds.structures import DDSException
    t = op[0]
    try:
        if t == "has":
            return "B1" if store.has_blob(op[1]) else "B0"
        if t == "fetch":
            r = store.fetch_blob(op[1])
            if TRACK["on"] and r is not None:
                import weakref
                TRACK["refs"].append(weakref.ref(r))
            return "N" if r is None else "V:" + str(r)
        if t == "put":
            store.store_blob(op[1], val(op[2]), None)
            return "U"
        if t == "sync":
            store.sync_paths(OrderedDict(op[1]))
            return "U"
        if t == "fpaths":
            r = store.fetch_paths(op[1])
            return "P:" + ",".join(f"{p}={k}" for p, k in r.items())
    except DDSException:
        return "E"
    except BaseException as e:
        return "X:" + type(e).__name__
    raise ValueError(t)


def main():
    from dds._lru_store import LRUCacheStore
    payload = json.load(sys.stdin)
    res = []
    for s in payload["seqs"]:
        root = tempfile.mkdtemp(prefix="drvstore_")
        state = {}
        try:
            if s.get("gate"):
                from dds.codec import codec_registry
                codec_registry()
                import fsgate
                fsgate.install([os.path.join(root, "internal"), os.path.join(root, "data")], mode="trace")
            TRACK["on"], TRACK["refs"] = bool(s.get("track_alive")), []
            store = mk(s["store"], root, state)
            cap = s["cap"]
            wrapped = None
            if cap != "bare":
                n = sys.maxsize // 2 if cap == "unbounded" else cap
                wrapped = LRUCacheStore(store, num_elem=n)
            outs, lens, alive_counts = [], [], []
            if s.get("clients"):
                # several cache wrappers (processes) over ONE inner store; ops are [client, op]
                ws = [LRUCacheStore(store, num_elem=(sys.maxsize // 2 if cap == "unbounded" else cap)) for _ in range(s["clients"])]
                for ci, op in s["ops"]:
                    outs.append(do(ws[ci], op))
                    lens.append(max(len(w._cache._cache) for w in ws))
                res.append({"outs": outs, "lens": lens})
                continue
            for op in s["ops"]:
                if op[0] == "reopen":
                    # a new store object on the same directories / the same remote file system
                    store = mk(s["store"], root, state)
                    if wrapped is not None:
                        wrapped = LRUCacheStore(store, num_elem=wrapped._num_elem)
                    outs.append("U")
                    continue
                outs.append(do(wrapped or store, op))
                if wrapped is not None:
                    lens.append(len(wrapped._cache._cache))
                    if TRACK["on"]:
                        alive_counts.append(alive())
            entry = {"outs": outs, "lens": lens, "alive": alive_counts}
            if s.get("gate"):
                import fsgate
                entry["gate_log"] = fsgate.log()
                fsgate.STATE["mode"] = "off"
            if s.get("listing"):
                # every file / link created under the data directory, with its resolved location
                if s["store"] == "local":
                    data = os.path.realpath(os.path.join(root, "data"))
                    top = os.path.realpath(root)
                    created = []
                    for d, dirs, files in os.walk(top):
                        for f in files + [x for x in dirs if os.path.islink(os.path.join(d, x))]:
                            fp = os.path.join(d, f)
                            if os.path.realpath(d).startswith(os.path.join(top, "internal")):
                                continue
                            created.append([os.path.relpath(fp, data), os.path.islink(fp),
                                            os.path.basename(os.path.realpath(fp)) if os.path.islink(fp) else None])
                    entry["listing"] = sorted(created)
                    entry["outside"] = sorted(x[0] for x in created if x[0] == ".." or x[0].startswith("../"))
                elif s["store"].startswith("dbfs"):
                    entry["listing"] = sorted(k for k in state["dbutils"].fs.files if not k.startswith("dbfs:/store/internal"))
            res.append(entry)
        finally:
            shutil.rmtree(root, ignore_errors=True)
    dec = []
    for co in payload.get("decode", []):
        import dds
        from dds import _api
        from dds.structures import DDSException
        arg = {"none": None, "true": True, "false": False}.get(co, co)
        try:
            dds.set_store("memory", cache_objects=arg)
            st = _api._store()
            if isinstance(st, LRUCacheStore):
                dec.append("unbounded" if st._num_elem == sys.maxsize // 2 else f"cap:{st._num_elem}")
            else:
                dec.append("nowrap")
        except DDSException:
            dec.append("E")
    print("@@RESULT@@" + json.dumps({"seqs": res, "decode": dec}))


if __name__ == "__main__":
    sys.path.insert(0, os.path.dirname(os.path.abspath(__file__)))
    main()
