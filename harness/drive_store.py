"""Implementation driver for store-level properties (C12, C08 ...): runs operation sequences on real dds stores.
stdin: {"seqs":[{"store":"memory"|"local","cap":null|int|"unbounded"|"bare","ops":[...]}]}"""
import json
import os
import shutil
import sys
import tempfile
from collections import OrderedDict


def mk(kind, root):
    from dds.store import MemoryStore, LocalFileStore
    if kind == "memory":
        return MemoryStore()
    if kind == "local":
        return LocalFileStore(os.path.join(root, "internal"), os.path.join(root, "data"))
    raise ValueError(kind)


def val(v):
    return None if v is None else v


def do(store, op):
    from dds.structures import DDSException
    t = op[0]
    try:
        if t == "has":
            return "B1" if store.has_blob(op[1]) else "B0"
        if t == "fetch":
            r = store.fetch_blob(op[1])
            return "N" if r is None else "V:" + str(r)
        if t == "put":
            store.store_blob(op[1], val(op[2]), None)
            return "U"
        if t == "sync":
            store.sync_paths(OrderedDict(op[1]))
            return "U"
        if t == "fpaths":
            r = store.fetch_paths(op[1])
            return "P:" + ",".join(f"{p}={k}" for p, k in r.items())
    except DDSException:
        return "E"
    except BaseException as e:
        return "X:" + type(e).__name__
    raise ValueError(t)


def main():
    from dds._lru_store import LRUCacheStore
    payload = json.load(sys.stdin)
    res = []
    for s in payload["seqs"]:
        root = tempfile.mkdtemp(prefix="drvstore_")
        try:
            store = mk(s["store"], root)
            cap = s["cap"]
            wrapped = None
            if cap != "bare":
                n = sys.maxsize // 2 if cap == "unbounded" else cap
                wrapped = LRUCacheStore(store, num_elem=n)
            outs, lens = [], []
            for op in s["ops"]:
                outs.append(do(wrapped or store, op))
                if wrapped is not None:
                    lens.append(len(wrapped._cache._cache))
            res.append({"outs": outs, "lens": lens})
        finally:
            shutil.rmtree(root, ignore_errors=True)
    dec = []
    for co in payload.get("decode", []):
        import dds
        from dds import _api
        from dds.structures import DDSException
        arg = {"none": None, "true": True, "false": False}.get(co, co)
        try:
            dds.set_store("memory", cache_objects=arg)
            st = _api._store()
            if isinstance(st, LRUCacheStore):
                dec.append("unbounded" if st._num_elem == sys.maxsize // 2 else f"cap:{st._num_elem}")
            else:
                dec.append("nowrap")
        except DDSException:
            dec.append("E")
    print("@@RESULT@@" + json.dumps({"seqs": res, "decode": dec}))


if __name__ == "__main__":
    main()
