"""Implementation driver for C14 (accepted modules): a package tree on disk, an accept list, one action.
stdin: {"root": dir, "accept": [...], "action": "sig" | "data", "target": "module:function"}
sig  -> {"sig": signature of dds.keep("/out", vpipe.main.root), "value": repr, "error": None | text}
data -> outcome of calling the data function `target` directly."""
import importlib
import json
import sys
from collections import OrderedDict


def main():
    payload = json.load(sys.stdin)
    sys.path.insert(0, payload["root"])
    import dds
    from dds.store import MemoryStore
    from dds.structures import DDSException
    for a in payload["accept"]:
        dds.accept_module(a)
    synced = {}

    class RS(MemoryStore):
        def sync_paths(self, paths):
            synced.update({str(p): str(k) for p, k in paths.items()})
            return super().sync_paths(paths)
    dds.set_store(RS())
    res = {"sig": None, "value": None, "error": None}
    try:
        if payload["action"] == "sig":
            mod = importlib.import_module("vpipe.main")
            res["value"] = repr(dds.keep("/out", mod.root))
            res["sig"] = synced.get("/out")
        else:
            mname, fname = payload["target"].split(":")
            mod = importlib.import_module(mname)
            res["value"] = repr(getattr(mod, fname)())
            res["sig"] = json.dumps(synced, sort_keys=True)
    except DDSException as e:
        res["error"] = "dds:" + (e.error_code.name if getattr(e, "error_code", None) is not None else "NONE") + ":" + str(e)[:400]
    except BaseException as e:  # noqa
        res["error"] = "exc:" + type(e).__name__ + ":" + str(e)[:300]
    print("@@RESULT@@" + json.dumps(res))


if __name__ == "__main__":
    main()
