"""Search support for C18 (the alphabet of the paths): random interaction trees - shared sub-trees, run-time-argument
nodes, loads - whose store paths are taken from the given lists of names are drawn by the REAL dds._plotting.draw_graph
(plain format, what dds.eval does for dds_export_graph); returns, per tree, the text of the file and the graph the real
_structure gives for the same tree (nodes, styled edges), for the harness to read the file back and compare.  Both are
called the way dds.eval calls draw_graph: parameters beyond the tree, the file, the present blobs and the resolved
references are given, by name, what the evaluation has for them; "mutated" = tables of the evaluation that the real
draw_graph did not leave as they were.
stdin: {"seed": int, "trees": [{"names": [path, ...], "present": bool} | {"tree": a tree as returned, "names", "present"}]}"""
import json
import os
import pathlib
import random
import sys
import tempfile
from collections import OrderedDict


def main():
    payload = json.load(sys.stdin)
    from dds.structures import FunctionInteractions, FunctionArgContext
    from dds._plotting import _structure, draw_graph
    from drive_graphfuzz import evaluation_tables, changed_tables
    import copy
    rng = random.Random(payload["seed"])
    tmp = tempfile.mkdtemp(prefix="c18render_")

    def mk(sig, path, nargs, children, loads):
        named = OrderedDict((f"a{i}", None) for i in range(nargs))
        return FunctionInteractions(FunctionArgContext(named, None), "b" + sig, sig, [], list(children), path, None, list(loads))

    def gen(depth, pool, counter, names, top=False):
        if pool and not top and rng.random() < 0.3:
            return rng.choice(pool)
        counter[0] += 1
        sig = f"s{counter[0]}"
        nch = 0 if depth == 0 else rng.choice([1, 2, 2, 3] if top else [0, 1, 2, 2, 3])
        kept_before = [n.store_path for n in pool if n.store_path]
        children = [gen(depth - 1, pool, counter, names) for _ in range(nch)]
        path = names.pop() if names and (top or rng.random() < 0.7) else None
        loads = [rng.choice(kept_before)] if path and kept_before and rng.random() < 0.35 else []
        node = mk(sig, path, rng.choice([0, 0, 1]), children, loads)
        pool.append(node)
        return node

    def dump(x):
        return [x.fun_return_sig, x.store_path, len(x.arg_input.named_args), list(x.indirect_deps), [dump(c) for c in x.parsed_body]]
    def load(d, pool, memo):
        """A tree given as it was returned (replay): one object per signature."""
        if d[0] not in memo:
            memo[d[0]] = mk(d[0], d[1], d[2], [load(c, pool, memo) for c in d[4]], d[3])
            pool.append(memo[d[0]])
        return memo[d[0]]
    out = []
    for it, spec in enumerate(payload["trees"]):
        pool, counter = [], [0]
        if spec.get("tree"):
            root = load(spec["tree"], pool, {})
        else:
            root = gen(rng.choice([2, 3]), pool, counter, list(reversed(spec["names"])), top=True)
        refs = {n.store_path: n.fun_return_sig for n in pool if n.store_path}
        res = {"tree": dump(root), "names": spec["names"], "present": spec.get("present", False)}
        try:
            g = _structure(root, dict(refs), **evaluation_tables(_structure, root, given=("fis", "indirect_refs")))
            res["nodes"] = sorted(str(n.path) for n in g.fnodes)
            res["edges"] = sorted([str(e.from_path), str(e.to_path), {1: "solid", 2: "dotted", 3: "dashed"}[int(e.edge_type)]] for e in g.deps)
        except BaseException as e:  # noqa
            res["structure_error"] = type(e).__name__ + ": " + str(e)[:200]
            out.append(res)
            continue
        f = pathlib.Path(os.path.join(tmp, f"g{it}.plain"))
        try:
            # present blobs (dds_extra_debug): some of the nodes are drawn as already in the store
            present = set(n.node_hash for k, n in enumerate(g.fnodes) if k % 2 == 0) if spec.get("present") else None
            tables = dict(evaluation_tables(draw_graph, root, given=("fis", "out", "present_blobs", "indirect_refs")), indirect_refs=dict(refs))
            before = copy.deepcopy(tables)
            draw_graph(root, f, present, tables["indirect_refs"], **{k: v for k, v in tables.items() if k != "indirect_refs"})
            res["plain"] = f.read_text(encoding="utf-8")
            if changed_tables(before, tables):
                res["mutated"] = changed_tables(before, tables)[:6]
        except BaseException as e:  # noqa
            res["draw_error"] = type(e).__name__ + ": " + " ".join(str(e).split())[-200:]
        out.append(res)
    import shutil
    shutil.rmtree(tmp, ignore_errors=True)
    print("@@RESULT@@" + json.dumps(out))


if __name__ == "__main__":
    main()
