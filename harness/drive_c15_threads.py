"""Implementation driver for C15, thread dimension: one process runs a history of evaluations of a generated pipeline
whose kept steps are reached from other threads than the one that called dds.eval (c15_threads.py writes the package).
stdin: {"root": dir with the package + vthreadlog.py, "pkg": name, "store": {...}, "paths": [every path the pipeline keeps],
        "actions": [...], "nodds": bool}
Each action:
  {"a":"call","fn":f,"stages": None | [["name",s]|["enum",S]...], "caller": "main"|"thread"}
  {"a":"setvar","name":n,"value":int}
  {"a":"loads"}                         dds.load of every path of the pipeline, one outcome per path
Output per action: outcome, execution log [[tag, "caller"|"other"]...], recorded store calls (with the kind of thread that
made them), the committed paths (path -> key) and the blob keys of the store before and after the action, and whether an
evaluation is still considered in progress afterwards (observed by behaviour, not by reading dds internals)."""
import importlib
import json
import os
import sys
import threading

LOGMOD = "vthreadlog"


def install_fake_dds():
    """dds-free reference (plain execution): keep = call, load = value most recently kept.  Thread-safe: a plain dict."""
    import functools
    import types
    fake = types.ModuleType("dds")
    kept = {}

    class DDSException(BaseException):
        error_code = None

    def keep(path, fun, *a, **k):
        fun = getattr(fun, "__wrapped__", fun)
        r = fun(*a, **k)
        kept[str(path)] = r
        return r

    def load(path):
        if str(path) not in kept:
            raise DDSException("no such path")
        return kept[str(path)]

    def eval_(fun, *a, **k):
        for o in ("dds_stages", "dds_export_graph", "dds_extra_debug"):
            k.pop(o, None)
        return fun(*a, **k)

    def data_function(path):
        def deco(f):
            @functools.wraps(f)
            def w(*a, **k):
                return keep(path, f, *a, **k)
            return w
        return deco
    fake.keep, fake.load, fake.eval, fake.data_function, fake.dds_function = keep, load, eval_, data_function, data_function
    fake.DDSException = DDSException
    fake.accept_module = lambda m: None
    sys.modules["dds"] = fake
    return fake


def on_thread(f):
    """Run f() on a fresh thread (the caller of dds.eval is then not the main thread); result or exception handed back."""
    box = {}

    def w():
        box["ident"] = threading.get_ident()
        try:
            box["r"] = f()
        except BaseException as e:  # noqa  (DDSException derives from BaseException)
            box["e"] = e
    t = threading.Thread(target=w, name="c15-caller")
    t.start()
    t.join()
    if "e" in box:
        raise box["e"]
    return box["r"]


def unwrap(store):
    while hasattr(store, "_store"):        # LRUCacheStore
        store = store._store
    return store


def blob_keys(inner, cfg):
    """The keys that have a blob, observed below dds (directory listing / the dictionary of the memory store)."""
    base = unwrap(inner)
    if cfg["kind"] in ("local", "local+lru"):
        d = os.path.join(cfg["internal_dir"], "blobs")
        if not os.path.isdir(d):
            return []
        return sorted(f for f in os.listdir(d) if not f.endswith(".meta") and ".tmp" not in f)
    c = getattr(base, "_cache", None)
    return sorted(c) if isinstance(c, dict) else None


def committed(inner, paths):
    """path -> key as the store (below the recording layer) reports it; a path that was never committed has no entry."""
    res = {}
    for p in paths:
        try:
            k = inner.fetch_paths([p]).get(p)
        except BaseException:  # noqa  the local store raises for a path whose directory does not exist
            k = None
        if k is not None:
            res[p] = str(k)
    return res


def main():
    payload = json.load(sys.stdin)
    sys.path.insert(0, payload["root"])
    sys.path.insert(0, os.path.dirname(os.path.abspath(__file__)))
    nodds = bool(payload.get("nodds"))
    if nodds:
        dds = install_fake_dds()
        canon = importlib.import_module("drive_prog").canon
    else:
        import dds
        from drive_prog import canon, make_store, exc_desc
    logmod = importlib.import_module(LOGMOD)
    mod = importlib.import_module(payload["pkg"] + ".pipe")
    rec, inner = [], None
    if not nodds:
        dds.accept_module(payload["pkg"])
        store = make_store(payload["store"], rec)
        inner = store.inner
        # the recording layer also notes which kind of thread made each call of the store
        orig_sync, orig_put = store.sync_paths, store.store_blob

        def sync_paths(paths):
            logmod.STORE_THREADS.append(["sync", threading.get_ident()])
            return orig_sync(paths)

        def store_blob(key, blob, codec=None):
            logmod.STORE_THREADS.append(["put", threading.get_ident()])
            return orig_put(key, blob, codec)
        store.sync_paths, store.store_blob = sync_paths, store_blob
        dds.set_store(store)

    def describe(e):
        if nodds:
            return "dds:NONE" if type(e).__name__ == "DDSException" else "exc:" + type(e).__name__
        return exc_desc(e, logmod)

    def stage_arg(st):
        if st is None or nodds:
            return None
        from dds.structures import ProcessingStage
        return [ProcessingStage[s[1]] if s[0] == "enum" else s[1] for s in st]

    out = []
    for act in payload["actions"]:
        del rec[:]
        del logmod.LOG[:]
        del logmod.STORE_THREADS[:]
        res = {}
        caller = {"ident": threading.get_ident()}
        if not nodds:
            res["paths_before"] = committed(inner, payload["paths"])
            res["blobs_before"] = blob_keys(inner, payload["store"])
        try:
            if act["a"] == "call":
                fn = getattr(mod, act["fn"])
                opts = {}
                if act.get("stages") is not None and not nodds:
                    opts["dds_stages"] = stage_arg(act["stages"])

                def go():
                    caller["ident"] = threading.get_ident()
                    return dds.eval(fn, **opts)
                r = on_thread(go) if act.get("caller") == "thread" else go()
                res["out"] = "ok:" + canon(r)
            elif act["a"] == "setvar":
                setattr(mod, act["name"], act["value"])
                res["out"] = "ok:N"
            elif act["a"] == "loads":
                vals = []
                for p in payload["paths"]:
                    try:
                        vals.append("ok:" + canon(dds.load(p)))
                    except BaseException as e:  # noqa
                        vals.append(describe(e).split(":")[0] + ":")
                res["out"] = "ok:N"
                res["loads"] = vals
            else:
                raise ValueError(act["a"])
        except BaseException as e:  # noqa
            res["out"] = describe(e)
            import traceback
            res["tb"] = traceback.format_exc()[-600:]
        logmod.quiesce()
        kind = lambda i: "caller" if i == caller["ident"] else "other"  # noqa
        res["log"] = [[t, kind(i)] for t, i in logmod.LOG]
        if not nodds:
            res["rec"] = [list(r) for r in rec]
            res["store_threads"] = [[w, kind(i)] for w, i in logmod.STORE_THREADS]
            res["paths_after"] = committed(inner, payload["paths"])
            res["blobs_after"] = blob_keys(inner, payload["store"])
        out.append(res)
    if not nodds and out:
        # is an evaluation still considered in progress at the end of the history?  Observed by behaviour (dds.eval inside
        # an evaluation is refused with EVAL_IN_EVAL), not by reading dds internals; done once, after everything else
        try:
            dds.eval(mod.idle, dds_stages=["analysis"])
            out[-1]["in_eval_at_end"] = False
        except BaseException as e:  # noqa
            out[-1]["in_eval_at_end"] = describe(e)
    print("@@RESULT@@" + json.dumps(out))


if __name__ == "__main__":
    main()
