"""Implementation driver for C05, end to end: 'a result computed for one value is never served for the other'.
For each pair of encoded values (a, b): dds.keep(path, describe, a) then dds.keep(path, describe, b) on the same path of a
fresh local store (one per pair), where describe (a function of an accepted module) renders EVERY part of its argument as text; the
expected results are the plain executions describe(a), describe(b).
stdin: {"pairs":[[<enc>,<enc>]...]}  ->  @@RESULT@@[{"r1":..,"r2":..,"p1":..,"p2":..} | {"r":"dds"|"low",...}]"""
import importlib
import json
import os
import shutil
import sys
import tempfile

from drive_c05 import build

RENDER_SRC = '''
import dataclasses
import struct


def render(v):
    """Text of a value: all the fields of dataclasses (dataclasses.fields order), elements, keys and values."""
    if dataclasses.is_dataclass(v) and not isinstance(v, type):
        return type(v).__name__ + "(" + ",".join(f.name + "=" + render(getattr(v, f.name)) for f in dataclasses.fields(v)) + ")"
    if isinstance(v, (list, tuple)):
        return "[" + ",".join(render(x) for x in v) + "]"
    if isinstance(v, dict):
        return "{" + ",".join(render(k) + ":" + render(x) for (k, x) in v.items()) + "}"
    if isinstance(v, float):
        return "f" + struct.pack("!d", v).hex()
    if isinstance(v, str):
        return "s" + v.encode("utf-8", "surrogatepass").hex()
    if isinstance(v, bool) or isinstance(v, int):
        return "i" + str(int(v))
    return "o" + repr(v)
'''

MOD_SRC = '''
import c05keep_render


def describe(v):
    return c05keep_render.render(v)
'''


def main():
    payload = json.load(sys.stdin)
    tmp = tempfile.mkdtemp(prefix="c05keep_")
    res = []
    try:
        with open(os.path.join(tmp, "c05keep_render.py"), "w") as f:
            f.write(RENDER_SRC)
        with open(os.path.join(tmp, "c05keep_mod.py"), "w") as f:
            f.write(MOD_SRC)
        sys.path.insert(0, tmp)
        mod = importlib.import_module("c05keep_mod")
        import dds
        from dds.structures import DDSException
        dds.accept_module(mod)
        for i, (ea, eb) in enumerate(payload["pairs"]):
            # a fresh store for every pair: blobs are addressed by signature, pairs must not see each other's results
            dds.set_store("local", internal_dir=os.path.join(tmp, "internal%d" % i), data_dir=os.path.join(tmp, "data%d" % i))
            try:
                a, b = build(ea), build(eb)
            except Exception as ex:
                res.append({"r": "build-error", "exc": repr(ex)[:2000]})
                continue
            p1, p2 = mod.describe(a), mod.describe(b)
            try:
                r1 = dds.keep("/c05/pair%d" % i, mod.describe, a)
                r2 = dds.keep("/c05/pair%d" % i, mod.describe, b)
                res.append({"r": "ok", "r1": r1, "r2": r2, "p1": p1, "p2": p2})
            except DDSException as ex:
                code = getattr(ex, "error_code", None)
                res.append({"r": "dds", "code": code.name if code is not None else "NONE"})
            except BaseException as ex:
                res.append({"r": "low", "exc": type(ex).__module__ + "." + type(ex).__name__ + ": " + str(ex)[:300]})
    finally:
        shutil.rmtree(tmp, ignore_errors=True)
    print("@@RESULT@@" + json.dumps(res))


if __name__ == "__main__":
    main()
