"""Pinned corpus of programs with their signatures (C03): generation, recording and replay."""
import copy
import json
import os
import random

import common as C
import hist
import progs as P

CORPUS = os.path.join(C.VERIF, "corpus", "C03")


def corpus_programs():
    """Deterministic list of (name, prog, call)."""
    out = []
    for i in range(40):
        rng = random.Random(777000 + i)
        prog = P.gen_program(rng, pkg="vpc")
        call = P.root_call(prog, rng)
        out.append((f"rand{i:02d}", prog, call))
    import c01_targeted
    for name, mk in c01_targeted.SCENARIOS:
        ev = mk()
        out.append(("t-" + name.replace(":", "-"), ev[0][1], ev[1][1]))
    return out


def signatures_of(prog, call, **kw):
    recs = hist.run_history([("prog", prog), ("act", call)], **kw)
    o = hist.impl_obs(recs[0])
    return {"impl": o["sigs"] if o["sigs"] is not None else o["out"], "model": recs[0]["model"]["sigs"] if o["sigs"] is not None else recs[0]["model"]["out"]}


def record():
    os.makedirs(CORPUS, exist_ok=True)
    for name, prog, call in corpus_programs():
        s = signatures_of(prog, call)
        json.dump({"name": name, "prog": prog, "call": call, "signatures": s["impl"]}, open(os.path.join(CORPUS, name + ".json"), "w"))
        print(name, s["impl"][:70], "model-agrees" if s["impl"] == s["model"] else "MODEL-DIFFERS")


def check(rep=None):
    """Replays the pinned corpus: implementation and model must reproduce the committed signatures."""
    import concurrent.futures as cf
    files = sorted(f for f in os.listdir(CORPUS) if f.endswith(".json"))

    def one(fn):
        e = json.load(open(os.path.join(CORPUS, fn)))
        prog = e["prog"]
        prog["root"] = tuple(prog["root"])
        for m in prog["modules"].values():
            for f in m["funcs"]:
                for st in f["stmts"]:
                    if "callee" in st:
                        st["callee"] = tuple(st["callee"])
        s = signatures_of(prog, e["call"])
        return e, s
    with cf.ThreadPoolExecutor(max_workers=12) as ex:
        res = list(ex.map(one, files))
    out = []
    for e, s in res:
        out.append({"name": e["name"], "pinned": e["signatures"], "impl": s["impl"], "model": s["model"],
                    "expected_change": e.get("changed_by")})
    return out


if __name__ == "__main__":
    import sys
    if len(sys.argv) > 1 and sys.argv[1] == "record":
        record()
    else:
        for r in check():
            st = "same" if r["pinned"] == r["impl"] else "CHANGED"
            print(r["name"], st, "model-agrees" if r["impl"] == r["model"] else "MODEL-DIFFERS")
