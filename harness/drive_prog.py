"""Implementation driver for generated pipelines: one process = one 'process lifetime' of a history.
stdin: {"root": dir with the package, "pkg": name, "store": {...}, "actions": [...], "options": {...}}
Each action:
  {"a":"call","mod":m,"fn":f,"style":"eval"|"keep"|"direct","path":p,"pos":[enc],"kw":[[n,enc]],
   "stages":..., "export":bool, "extra_debug":bool|None}
  {"a":"setvar","mod":m,"name":n,"value":enc}
  {"a":"load","path":p}
  {"a":"set_store", ...store cfg}
Output per action: outcome (canonical result / exception), execution log, recorded store calls."""
import importlib
import json
import os
import sys
from collections import OrderedDict


def canon(v):
    """Canonical text of a result value (must match L4_Eval.RunEval.render_rv)."""
    if v is None:
        return "N"
    if v is True:
        return "T"
    if v is False:
        return "F"
    if isinstance(v, int):
        return "i" + str(v)
    if isinstance(v, float):
        import struct
        return "f" + struct.pack("!d", v).hex()
    if isinstance(v, str):
        return "s" + v.encode("utf-8", "surrogatepass").hex()
    if isinstance(v, (list, tuple)):
        return ("L" if isinstance(v, list) else "U") + "(" + ",".join(canon(x) for x in v) + ")"
    if isinstance(v, dict):
        return "D(" + ",".join(canon(k) + ":" + canon(x) for k, x in v.items()) + ")"
    from pathlib import PurePath
    if isinstance(v, PurePath):
        return "p" + str(v).encode().hex()
    return "?" + type(v).__name__


def exc_desc(e, logmod):
    from dds.structures import DDSException
    if isinstance(e, DDSException):
        c = getattr(e, "error_code", None)
        return "dds:" + (c.name if c is not None else "NONE")
    # user exception raised by a generated function: check identity with the object the function created
    ident, name = "", type(e).__name__
    for tag, ex in getattr(logmod, "_EXC", {}).items():
        if ex is e:
            ident = ":same-object:" + tag
            k = getattr(logmod, "_KIND", {}).get(tag, name)      # "Class/variant" for the exceptions the interpreter creates
            if k.split("/")[0] == name:
                name = k
    return "exc:" + name + ident


class RecordingStore(object):
    """Delegating store that records the calls dds makes (public Store API only)."""

    def __init__(self, inner, rec):
        self.inner, self.rec = inner, rec

    def has_blob(self, key):
        r = self.inner.has_blob(key)
        self.rec.append(["has", key, bool(r)])
        return r

    def fetch_blob(self, key):
        r = self.inner.fetch_blob(key)
        self.rec.append(["fetch", key])
        return r

    def store_blob(self, key, blob, codec=None):
        self.rec.append(["put", key, canon(blob)])
        return self.inner.store_blob(key, blob, codec)

    def sync_paths(self, paths):
        self.rec.append(["sync", [[p, k] for p, k in paths.items()]])
        return self.inner.sync_paths(paths)

    def fetch_paths(self, paths):
        r = self.inner.fetch_paths(paths)
        self.rec.append(["fpaths", list(paths)])
        return r

    def codec_registry(self):
        return self.inner.codec_registry()


def make_store(cfg, rec):
    import dds
    from dds.store import Store, MemoryStore, LocalFileStore, NoOpStore
    from dds._lru_store import LRUCacheStore
    kind = cfg["kind"]
    if kind == "memory":
        inner = MemoryStore()
    elif kind == "noop":
        inner = NoOpStore()
    elif kind in ("local", "local+lru"):
        inner = LocalFileStore(cfg["internal_dir"], cfg["data_dir"])
        if kind == "local+lru":
            inner = LRUCacheStore(inner, num_elem=cfg.get("cap", 3))
    else:
        raise ValueError(kind)

    class RS(RecordingStore, Store):
        pass
    return RS(inner, rec)


def run_other_process(payload, act):
    """Another process works on the same store while this one stays alive: its own copy of the package (possibly
    edited code) under <root>_sub, the same store configuration.  Returns the list of its per-action results."""
    import shutil
    import subprocess
    sys.path.insert(0, os.path.dirname(os.path.abspath(__file__)))
    import progs
    sub_root = payload["root"].rstrip("/") + "_sub"
    shutil.rmtree(sub_root, ignore_errors=True)
    os.makedirs(sub_root)
    prog = act["prog"]
    prog["root"] = tuple(prog["root"])
    for m in prog["modules"].values():
        for f in m["funcs"]:
            for st in f["stmts"]:
                if "callee" in st:
                    st["callee"] = tuple(st["callee"])
    progs.write_package(prog, sub_root)
    sub = dict(payload, root=sub_root, pkg=prog["pkg"], actions=act["actions"])
    sub.pop("gate", None)
    p = subprocess.run([sys.executable, os.path.abspath(__file__)], input=json.dumps(sub), stdout=subprocess.PIPE, stderr=subprocess.STDOUT,
                       text=True, timeout=600)
    lines = [l for l in p.stdout.splitlines() if l.startswith("@@RESULT@@")]
    if not lines:
        raise RuntimeError("other process failed: " + p.stdout[-1500:])
    return json.loads(lines[-1][len("@@RESULT@@"):])


def install_fake_dds(kept_file):
    """dds-free reference: keep = call, load = value most recently kept, data_function = call + remember."""
    import functools
    import pickle
    import types
    fake = types.ModuleType("dds")
    kept = {}
    if os.path.exists(kept_file):
        kept.update(pickle.load(open(kept_file, "rb")))

    class DDSException(BaseException):
        error_code = None

    def save():
        pickle.dump(kept, open(kept_file, "wb"))

    def reload_kept():
        if os.path.exists(kept_file):
            kept.clear()
            kept.update(pickle.load(open(kept_file, "rb")))
    fake._reload = reload_kept

    def keep(path, fun, *a, **k):
        fun = getattr(fun, "__wrapped__", fun)
        r = fun(*a, **k)
        kept[str(path)] = r
        save()
        return r

    def load(path):
        if str(path) not in kept:
            raise DDSException("no such path")
        return kept[str(path)]

    def eval_(fun, *a, **k):
        for o in ("dds_stages", "dds_export_graph", "dds_extra_debug"):
            k.pop(o, None)
        return fun(*a, **k)

    def data_function(path):
        def deco(f):
            @functools.wraps(f)
            def w(*a, **k):
                return keep(path, f, *a, **k)
            return w
        return deco
    fake.keep, fake.load, fake.eval, fake.data_function, fake.dds_function = keep, load, eval_, data_function, data_function
    fake.DDSException = DDSException
    fake.accept_module = lambda m: None
    sys.modules["dds"] = fake
    return fake


def main_nodds(payload):
    sys.path.insert(0, payload["root"])
    sys.path.insert(0, os.path.dirname(os.path.abspath(__file__)))
    fake = install_fake_dds(payload["kept_file"])
    import struct
    from pathlib import PurePosixPath

    def build(e):  # drive_c05.build without importing the real dds
        t = e[0]
        if t == "none":
            return None
        if t == "bool":
            return bool(e[1])
        if t == "int":
            return int(e[1])
        if t == "float":
            return struct.unpack("!d", bytes.fromhex(e[1]))[0]
        if t == "str":
            return bytes.fromhex(e[1]).decode("utf-8", "surrogatepass")
        if t == "list":
            return [build(x) for x in e[1]]
        if t == "tuple":
            return tuple(build(x) for x in e[1])
        if t == "dict":
            return dict((build(k), build(v)) for k, v in e[1])
        if t == "path":
            return PurePosixPath(bytes.fromhex(e[1]).decode())
        if t == "ppath":
            import pathlib
            return pathlib.Path(bytes.fromhex(e[1]).decode())
        raise ValueError(t)
    logmod = importlib.import_module("vlogmod")
    out = []
    for act in payload["actions"]:
        del logmod.LOG[:]
        res = {}
        try:
            if act["a"] == "call":
                mod = importlib.import_module(payload["pkg"] + "." + act["mod"])
                fn = getattr(mod, act["fn"])
                pos = [build(x) for x in act.get("pos", [])]
                kw = dict((n, build(x)) for n, x in act.get("kw", []))
                style = act.get("style", "eval")
                if style == "keep":
                    r = fake.keep(act["path"], fn, *pos, **kw)
                else:
                    r = fn(*pos, **kw)
                res["out"] = "ok:" + canon(r)
            elif act["a"] == "setvar":
                mod = importlib.import_module(payload["pkg"] + "." + act["mod"])
                setattr(mod, act["name"], build(act["value"]))
                res["out"] = "ok:N"
            elif act["a"] in ("load", "rawfile"):
                res["out"] = "ok:" + canon(fake.load(act["path"]))
            elif act["a"] == "subprocess":
                res["sub"] = run_other_process(payload, act)
                fake._reload()
                res["out"] = "ok:N"
        except BaseException as e:  # noqa
            if type(e).__name__ == "DDSException":
                res["out"] = "dds:NONE"
            else:
                ident, name = "", type(e).__name__
                for tag, ex in getattr(logmod, "_EXC", {}).items():
                    if ex is e:
                        ident = ":same-object:" + tag
                        k = getattr(logmod, "_KIND", {}).get(tag, name)
                        if k.split("/")[0] == name:
                            name = k
                res["out"] = "exc:" + name + ident
        res["log"] = list(logmod.LOG)
        out.append(res)
    print("@@RESULT@@" + json.dumps(out))


def main():
    payload = json.load(sys.stdin)
    if payload.get("nodds"):
        return main_nodds(payload)
    sys.path.insert(0, payload["root"])
    sys.path.insert(0, os.path.dirname(os.path.abspath(__file__)))
    from drive_c05 import build
    import dds
    from dds import _api
    logmod = importlib.import_module("vlogmod")
    if payload.get("accept", True):
        for a in payload.get("accept_modules", [payload["pkg"]]):
            dds.accept_module(a)
    for k, v in payload.get("options", {}).items():
        dds.set_option(k, v)
    rec = []
    gate = payload.get("gate")
    if gate:
        # warm-up of everything that touches the file system lazily (codec registry, importlib caches)
        from dds.codec import codec_registry
        codec_registry()
        for a in payload["actions"]:
            if a.get("mod"):
                importlib.import_module(payload["pkg"] + "." + a["mod"])
        import fsgate
        fsgate.install([payload["store"].get("internal_dir", "/nonexistent"), payload["store"].get("data_dir", "/nonexistent")],
                       mode=gate.get("mode", "trace"), crash_at=gate.get("crash_at"), half=gate.get("half", False),
                       logfile=gate.get("logfile"), after_open=gate.get("after_open", False))
    store = make_store(payload["store"], rec)
    dds.set_store(store)
    out = []
    # other ways of using dds than an importable package: the (single) module is run as the __main__ script of this
    # process, or its source is executed as a notebook cell of an IPython shell (functions then live in __main__)
    usage = payload.get("usage")
    shell = None

    def load_main(modname):
        path = os.path.join(payload["root"], payload["pkg"], modname + ".py")
        src = open(path).read()
        if usage == "script":
            import linecache
            linecache.checkcache(path)
            exec(compile(src, path, "exec"), sys.modules["__main__"].__dict__)
        else:
            res_ = shell.run_cell(src)
            if res_.error_in_exec is not None or res_.error_before_exec is not None:
                raise RuntimeError("cell failed: %r %r" % (res_.error_before_exec, res_.error_in_exec))
    if usage == "notebook":
        from IPython.core.interactiveshell import InteractiveShell
        shell = InteractiveShell.instance()
    if usage:
        load_main(payload["main_module"])
    for act in payload["actions"]:
        a = act["a"]
        del rec[:]
        del logmod.LOG[:]
        res = {}
        try:
            if usage and a == "reprog":
                import progs
                newp = act["prog"]
                newp["root"] = tuple(newp["root"])
                for m in newp["modules"].values():
                    for f in m["funcs"]:
                        for st in f["stmts"]:
                            if "callee" in st:
                                st["callee"] = tuple(st["callee"])
                progs.write_package(newp, payload["root"])
                load_main(payload["main_module"])
                res["out"] = "ok:N"
            elif a == "call":
                if usage == "notebook":
                    import types
                    mod = types.SimpleNamespace(**shell.user_ns)
                elif usage == "script":
                    mod = sys.modules["__main__"]
                else:
                    mod = importlib.import_module(payload["pkg"] + "." + act["mod"]) if act["mod"] != "__main__" else sys.modules["__main__"]
                fn = getattr(mod, act["fn"])
                pos = [build(x) for x in act.get("pos", [])]
                kw = dict((n, build(x)) for n, x in act.get("kw", []))
                opts = {}
                if act.get("stages") is not None:
                    opts["dds_stages"] = act["stages"]
                if act.get("export"):
                    opts["dds_export_graph"] = act["export"]
                if act.get("extra_debug") is not None:
                    opts["dds_extra_debug"] = act["extra_debug"]
                style = act.get("style", "eval")
                if style == "eval":
                    r = dds.eval(fn, *pos, **kw, **opts)
                elif style == "keep":
                    r = dds.keep(act["path"], fn, *pos, **kw)
                else:
                    r = fn(*pos, **kw)
                res["out"] = "ok:" + canon(r)
                if act.get("export") and os.path.exists(act["export"]):
                    res["graph"] = open(act["export"]).read()
            elif a == "setvar":
                mod = importlib.import_module(payload["pkg"] + "." + act["mod"])
                setattr(mod, act["name"], build(act["value"]))
                res["out"] = "ok:N"
            elif a == "reprog":
                # the code changes while the process lives (notebook cell re-executed / module reloaded):
                # the files are rewritten, removed functions are deleted, modules are reloaded
                import linecache
                import progs
                newp = act["prog"]
                newp["root"] = tuple(newp["root"])
                for m in newp["modules"].values():
                    for f in m["funcs"]:
                        for st in f["stmts"]:
                            if "callee" in st:
                                st["callee"] = tuple(st["callee"])
                progs.write_package(newp, payload["root"])
                linecache.clearcache()
                for mname in sorted(newp["modules"]):
                    mod = importlib.import_module(payload["pkg"] + "." + mname)
                    keep_names = {f["name"] for f in newp["modules"][mname]["funcs"]}
                    for n in [n for n, o in list(vars(mod).items()) if callable(o) and getattr(o, "__module__", None) == mod.__name__ and n not in keep_names]:
                        delattr(mod, n)
                    importlib.reload(mod)
                res["out"] = "ok:N"
            elif a == "subprocess":
                res["sub"] = run_other_process(payload, act)
                res["out"] = "ok:N"
            elif a == "load":
                res["out"] = "ok:" + canon(dds.load(act["path"]))
            elif a == "rawfile":
                # the file found under the data directory of the local store, read without dds
                import pickle
                fp = os.path.join(payload["store"]["data_dir"], act["path"].lstrip("/"))
                with open(fp, "rb") as fh:
                    res["out"] = "ok:" + canon(pickle.load(fh))
            else:
                raise ValueError(a)
        except BaseException as e:  # noqa
            res["out"] = exc_desc(e, logmod)
            import traceback
            res["tb"] = traceback.format_exc()[-600:]
        res["log"] = list(logmod.LOG)
        res["rec"] = [list(r) for r in rec]
        res["in_eval"] = getattr(_api, "_eval_ctx", None) is not None
        out.append(res)
    if gate:
        import fsgate
        out.append({"gate_log": fsgate.log()})
    print("@@RESULT@@" + json.dumps(out))


if __name__ == "__main__":
    main()
