"""Implementation driver for C09, thread dimension: one process runs the histories of a batch of generated scenarios
(c09_threads.py writes one package per scenario + vthreadlog.py under one root) in which the dds.load, the kept reader and
the producer's dds.keep are executed by other threads than the one that called dds.eval.
stdin: {"root": dir, "nodds": bool, "scenarios": [{"pkg": name, "store": {...}, "paths": [...], "actions": [...]}]}
Each action:
  {"a":"call","fn":f,"caller":"main"|"thread"}     dds.eval(f) called from the main thread / from a fresh thread
  {"a":"setvar","name":n,"value":int}
  {"a":"loads"}                                     dds.load of every path of the scenario (outside any evaluation)
Output: per scenario the list of per-action results {out, log [[tag, "caller"|"other"]...], loads?, paths_after?} or
{"error": text}.  With "nodds" the same files run against the dds-free reference of drive_c15_threads.py (keep = call,
load = value most recently kept in program order), re-installed for every scenario."""
import importlib
import json
import os
import sys
import threading
import traceback

LOGMOD = "vthreadlog"


def run_scenario(sc, nodds, helpers):
    install_fake_dds, on_thread, committed = helpers
    if nodds:
        dds = install_fake_dds()           # a fresh reference store for every scenario
        canon = importlib.import_module("drive_prog").canon
    else:
        import dds
        from drive_prog import canon, make_store, exc_desc
    logmod = importlib.import_module(LOGMOD)
    mod = importlib.import_module(sc["pkg"] + ".pipe")
    inner = None
    if not nodds:
        dds.accept_module(sc["pkg"])
        store = make_store(sc["store"], [])
        inner = store.inner
        dds.set_store(inner)

    def describe(e):
        if nodds:
            return "dds:NONE" if type(e).__name__ == "DDSException" else "exc:" + type(e).__name__
        return exc_desc(e, logmod)

    out = []
    for act in sc["actions"]:
        del logmod.LOG[:]
        res = {}
        caller = {"ident": threading.get_ident()}
        try:
            if act["a"] == "call":
                fn = getattr(mod, act["fn"])

                def go():
                    caller["ident"] = threading.get_ident()
                    return dds.eval(fn)
                r = on_thread(go) if act.get("caller") == "thread" else go()
                res["out"] = "ok:" + canon(r)
            elif act["a"] == "setvar":
                setattr(mod, act["name"], act["value"])
                res["out"] = "ok:N"
            elif act["a"] == "loads":
                vals = []
                for p in sc["paths"]:
                    try:
                        vals.append("ok:" + canon(dds.load(p)))
                    except BaseException as e:  # noqa
                        vals.append(describe(e).split(":")[0] + ":")
                res["out"] = "ok:N"
                res["loads"] = vals
            else:
                raise ValueError(act["a"])
        except BaseException as e:  # noqa  (DDSException derives from BaseException)
            res["out"] = describe(e)
            res["tb"] = traceback.format_exc()[-500:]
        logmod.quiesce()
        kind = lambda i: "caller" if i == caller["ident"] else "other"  # noqa
        res["log"] = [[t, kind(i)] for t, i in logmod.LOG]
        if not nodds:
            res["paths_after"] = committed(inner, sc["paths"])
        out.append(res)
    if not nodds and out:
        # is an evaluation still considered in progress at the end of the history?  (observed by behaviour)
        try:
            dds.eval(mod.idle, dds_stages=["analysis"])
            out[-1]["in_eval_at_end"] = False
        except BaseException as e:  # noqa
            out[-1]["in_eval_at_end"] = describe(e)
    return out


def main():
    payload = json.load(sys.stdin)
    sys.path.insert(0, payload["root"])
    sys.path.insert(0, os.path.dirname(os.path.abspath(__file__)))
    d15 = importlib.import_module("drive_c15_threads")
    helpers = (d15.install_fake_dds, d15.on_thread, d15.committed)
    nodds = bool(payload.get("nodds"))
    res = []
    for sc in payload["scenarios"]:
        try:
            res.append(run_scenario(sc, nodds, helpers))
        except BaseException as e:  # noqa
            res.append({"error": (type(e).__name__ + ": " + str(e) + "\n" + traceback.format_exc())[-1200:]})
    print("@@RESULT@@" + json.dumps(res))


if __name__ == "__main__":
    main()
