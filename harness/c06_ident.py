"""C06, second dimension of the crash enumeration: the IDENTITY of the processes of a crash history, and histories with
more than one crash.

A history is a list of process lifetimes on one local store, started on empty directories:
    {"v": code version, "pid": what os.getpid() answers in that process, "kill": [i, half] | None, "probe": bool}
  kill  : the process evaluates the pipeline and is killed before its i-th file-system operation (in the middle of it when
          it is a write and half is set); when it has fewer operations it simply runs to completion (and is checked);
  probe : the process only loads the paths (no evaluation);
  init  : the process only configures the store (which creates its directories) and ends;
  else  : the process evaluates the pipeline, then loads every path.
What the property demands of every history (the expected values are those of an uncrashed evaluation of the same code
version on a bare store, cross-checked against plain execution without dds by the caller):
  * a process that runs to completion returns the value of its version, and every path then loads the value of its version:
    no exception, whatever was left behind by whichever process, without any cleaning of the directories;
  * a probe loads, for every path, the complete value of the last completed process or of a process killed since (absent is
    acceptable only while no process has completed).
Nothing else distinguishes the processes of a history than their code version and their pid: a later process has lost all
the state of the killed one, but it may well have its pid (the entry point of a container is pid 1 at every start; pids are
reused after a reboot or a wrap), and whatever a process derives from its pid - names of temporaries, lock owners - then
collides with the leftovers of the killed process.  The processes are forked children of harness/drive_c06srv.py."""
import hashlib
import json
import os
import re
import shutil
import subprocess
import tempfile
import threading

import common as C
import progs as P

CALL = {"a": "call", "mod": "m0", "fn": "root", "style": "keep", "path": "/root_out", "pos": [], "kw": []}
PATHS = ["/root_out", "/d/k", "/e"]
LOADS = [{"a": "load", "path": p} for p in PATHS]

_servers = []
_idle = {}                # version -> servers not in use
_lock = threading.Lock()
_pipeline = None          # version -> program (set by the caller: harness/c06.py's pipeline)


class Server(object):
    """One harness/drive_c06srv.py process for one code version."""

    def __init__(self, version):
        self.root = tempfile.mkdtemp(prefix="c06s_", dir=C.scratch_dir())
        prog = _pipeline(version)
        P.write_package(prog, self.root)
        self.p = subprocess.Popen([C.PY, os.path.join(C.HARNESS, "drive_c06srv.py")], stdin=subprocess.PIPE, stdout=subprocess.PIPE,
                                  stderr=subprocess.DEVNULL, text=True, env=C.impl_env(), cwd=C.scratch_dir())
        self.p.stdin.write(json.dumps({"root": self.root, "pkg": prog["pkg"], "mods": sorted(prog["modules"])}) + "\n")
        self.p.stdin.flush()
        line = self.p.stdout.readline()
        if not line.startswith("@@READY@@"):
            raise RuntimeError("process server did not start: " + line[:300])

    def run(self, base, actions, pid=None, gate=None, layout=None):
        internal, data, roots = store_dirs(base, layout)
        store = {"kind": "local", "internal_dir": internal, "data_dir": data}
        if gate and roots:
            gate = dict(gate, roots=roots)     # every operation under the volume is a crash point, not only those under the two directories
        self.p.stdin.write(json.dumps({"store": store, "actions": actions, "gate": gate, "pid": pid}) + "\n")
        self.p.stdin.flush()
        while True:
            line = self.p.stdout.readline()
            if not line:
                raise RuntimeError("process server died")
            if line.startswith("@@REPLY@@"):
                r = json.loads(line[len("@@REPLY@@"):])
                return r["rc"], r["res"], r["out"]

    def close(self):
        try:
            self.p.stdin.close()
            self.p.wait(timeout=20)
        except Exception:  # noqa
            self.p.kill()
        shutil.rmtree(self.root, ignore_errors=True)


def store_dirs(base, layout):
    """(internal_dir, data_dir, roots of the interposition or None) of a history run under base.  Without a layout: the two
    sibling directories <base>/internal and <base>/data, not yet existing.  With a layout (c06_layout.py): the two names of
    the layout under the volume <base>/vol, which exists when the first process starts and holds what the layout puts there."""
    if not layout:
        return os.path.join(base, "internal"), os.path.join(base, "data"), None
    vol = os.path.join(base, "vol")
    return os.path.join(vol, layout["internal"]), os.path.join(vol, layout["data"]), [vol]


def prepare_layout(base, layout):
    """What exists on the volume before the first process of the history starts."""
    if not layout:
        return
    vol = os.path.join(base, "vol")
    os.makedirs(vol)
    for e in layout.get("pre", []):
        fp = os.path.join(vol, e[1])
        if e[0] == "dir":
            os.makedirs(fp, exist_ok=True)
        elif e[0] == "file":
            os.makedirs(os.path.dirname(fp), exist_ok=True)
            with open(fp, "w") as f:
                f.write(e[2])
        elif e[0] == "link":
            os.makedirs(os.path.dirname(fp), exist_ok=True)
            os.symlink(os.path.join(vol, e[2]), fp)
        else:
            raise ValueError(e[0])


def run_process(version, base, actions, pid=None, gate=None, layout=None):
    """One process lifetime, in a server of the pool (at most one server per version and worker thread is ever started)."""
    with _lock:
        srv = _idle.setdefault(version, []).pop() if _idle.get(version) else None
    if srv is None:
        srv = Server(version)
        with _lock:
            _servers.append(srv)
    r = srv.run(base, actions, pid, gate, layout)     # a server that fails is not used again
    with _lock:
        _idle.setdefault(version, []).append(srv)
    return r


def close_servers():
    with _lock:
        for s in _servers:
            s.close()
        del _servers[:]
        _idle.clear()


_HEX32 = re.compile(r"(?<![0-9a-f])[0-9a-f]{32}(?![0-9a-f])")
_DIGITS = re.compile(rb"\d{6,}")


def state_digest(base, subs=("internal", "data")):
    """The directory state left by a history, up to the random part of names and the time stamps: what a later process can see."""
    items = []
    for sub in subs:
        top = os.path.join(base, sub)
        for d, dirs, files in os.walk(top):
            for n in dirs + files:
                fp = os.path.join(d, n)
                rel = _HEX32.sub("U", fp[len(base):])
                if os.path.islink(fp):
                    items.append((rel, "l", _HEX32.sub("U", os.readlink(fp).replace(base, ""))))
                elif os.path.isdir(fp):
                    items.append((rel, "d", ""))
                else:
                    with open(fp, "rb") as f:
                        items.append((rel, "f", hashlib.sha1(_DIGITS.sub(b"T", f.read())).hexdigest()[:12]))
    return hashlib.sha1(json.dumps(sorted(items)).encode()).hexdigest()[:16], [i[0] for i in sorted(items) if ".tmp" in i[0]]


def obj_kind(op):
    """Which object of the store an intercepted operation works on."""
    tgt = str(op[3] if op[1] in ("symlink", "replace", "rename") and len(op) > 3 else op[2])
    if ".meta" in tgt:
        return "meta"
    if "/blobs/" in tgt:
        return "blob"
    if tgt.startswith("D:") and (op[1] in ("symlink", "replace", "rename", "readlink", "lstat") or ".tmp" in tgt):
        return "link"
    return "dir"


def run_history(hist, ref, layout=None):
    """Runs a history on empty directories (layout: on the directory layout of c06_layout.py instead).  Returns
    {"problems": [[kind, step, detail]], "killed": [...], "ops": {step: killed
    operation}, "digests": {step: digest of the state left by the kill}, "leftovers": {...}, "traces": {step: operations of
    a completed traced process}}."""
    base = tempfile.mkdtemp(prefix="c06h_", dir=C.scratch_dir())
    ref = dict((int(k), r) for k, r in ref.items())
    out = {"problems": [], "killed": [], "ops": {}, "digests": {}, "leftovers": {}, "traces": {}}
    allowed = dict((p, set()) for p in PATHS)
    completed = False
    try:
        prepare_layout(base, layout)
        for n, st in enumerate(hist):
            if out["problems"]:
                break                  # what follows a failing process is a consequence of it
            v, pid = st["v"], st.get("pid")
            vals = ref[v]["vals"]

            def check_eval(res, txt):
                if res is None:
                    out["problems"].append(["recovery-process-died", n, txt[-300:].replace(base, "<store>")])
                    return False
                if res[0]["out"] != ref[v]["expected"]:
                    out["problems"].append(["evaluation-wrong-after-crash", n, res[0]["out"][:120] + " " + ([""] + [l for l in res[0].get("tb", "").splitlines() if l.strip()])[-1].replace(base, "<store>")[:300]])
                    return False
                return True
            if st.get("kill"):
                logf = os.path.join(base, "gate.json")
                rc, res, txt = run_process(v, base, [CALL], pid, {"mode": "crash", "crash_at": st["kill"][0], "half": bool(st["kill"][1]), "logfile": logf}, layout)
                out["killed"].append(rc == 77)
                if rc == 77:
                    try:
                        out["ops"][n] = json.load(open(logf))[-1]
                    except (OSError, ValueError, IndexError):
                        out["ops"][n] = [st["kill"][0], "?", "?"]
                    out["digests"][n], out["leftovers"][n] = state_digest(base, ("vol",) if layout else ("internal", "data"))
                    for p in PATHS:
                        allowed[p].add(vals[p])
                elif check_eval(res, txt):
                    completed, allowed = True, dict((p, {vals[p]}) for p in PATHS)
            elif st.get("init"):
                # the process only configures the store (creation of the directories) and ends
                out["killed"].append(False)
                rc, res, txt = run_process(v, base, [], pid, {"mode": "trace"}, layout)
                if res is None:
                    out["problems"].append(["store-creation-died", n, txt[-300:].replace(base, "<store>")])
                else:
                    out["traces"][n] = res[-1]["gate_log"]
            elif st.get("probe"):
                out["killed"].append(False)
                rc, res, txt = run_process(v, base, LOADS, pid, None, layout)
                if res is None:
                    out["problems"].append(["load-process-died", n, txt[-300:]])
                    continue
                for p, r in zip(PATHS, res):
                    if not (r["out"] in allowed[p] or (not completed and r["out"].startswith("dds:"))):
                        out["problems"].append(["committed-path-lost-or-wrong:" + p, n, r["out"][:120]])
            else:
                out["killed"].append(False)
                rc, res, txt = run_process(v, base, [CALL] + LOADS, pid, {"mode": "trace"}, layout)
                if check_eval(res, txt):
                    for p, r in zip(PATHS, res[1:4]):
                        if r["out"] != vals[p]:
                            out["problems"].append(["load-wrong-after-recovery:" + p, n, r["out"][:120]])
                    out["traces"][n] = eval_ops(res[-1]["gate_log"])
                completed, allowed = True, dict((p, {vals[p]}) for p in PATHS)
        return out
    finally:
        shutil.rmtree(base, ignore_errors=True)


MUTATING = ("symlink", "replace", "rename", "write", "mkdir", "remove", "unlink", "open", "rmdir")


def eval_ops(gate_log):
    """The operations of the evaluation itself (the loads that follow it in the same process only read)."""
    last = max([0] + [e[0] for e in gate_log if e[1] in MUTATING and not (e[1] == "open" and str(e[3]).startswith("r"))])
    return [e for e in gate_log if e[0] <= last + 1]


def safe_history(args):
    hist, ref = args[:2]
    try:
        return run_history(hist, ref, *args[2:])
    except Exception as e:  # noqa: reported by the caller as a harness error, never silently dropped
        return {"harness_error": type(e).__name__ + ": " + str(e)[:200], "problems": [], "killed": [], "ops": {}, "digests": {}, "leftovers": {}, "traces": {}}


def describe(hist, res):
    parts = []
    for n, st in enumerate(hist):
        s = f"v{st['v']} pid {st.get('pid')}"
        if n >= len(res["killed"]):
            s += " (not run)"
        elif st.get("kill"):
            if res["killed"][n]:
                op = res["ops"].get(n, ["?", "?", "?"])
                s += f" killed {'in the middle of' if st['kill'][1] and op[1] == 'write' else 'before'} its operation {st['kill'][0]} {op[1:4]}"
            else:
                s += f" evaluates (kill point {st['kill'][0]} not reached)"
        elif st.get("init"):
            s += " only configures the store"
        elif st.get("probe"):
            s += " loads the paths"
        else:
            s += " evaluates + loads"
        parts.append(s)
    return "; ".join(parts)


IDENT_TEXT = {"no-kill": "no process was killed before it", "same-pid": "same pid as every process killed before it",
              "same-pid-as-one": "same pid as one of the processes killed before it", "other-pid": "another pid than the processes killed before it",
              "pid-prefix": "its pid is a textual prefix / extension of the pid of a process killed before it"}


def ident_class(hist, step):
    """How the pid of the failing process relates to the pids of the processes killed before it."""
    pid = hist[step].get("pid")
    killed = [st.get("pid") for st in hist[:step] if st.get("kill")]
    if not killed:
        return "no-kill"
    if all(k == pid for k in killed):
        return "same-pid"
    if pid in killed:
        return "same-pid-as-one"
    if any(str(k).startswith(str(pid)) or str(pid).startswith(str(k)) for k in killed):
        return "pid-prefix"
    return "other-pid"


# ---------------------------------------------------------------------------------------------------------------------------
# the families of histories


def setup_steps(scenario, pid):
    return [{"v": 0, "pid": pid}] if scenario == "re-keep-changed" else []


def crash_version(scenario):
    return 1 if scenario == "re-keep-changed" else 0


def single_kill(scenario, i, half, pid=1):
    """Everything runs under one pid (a container restarted on its volume): kill, load-only probe, two recoveries in a row."""
    v = crash_version(scenario)
    return setup_steps(scenario, pid) + [{"v": v, "pid": pid, "kill": [i, half]}, {"v": v, "pid": pid, "probe": True}, {"v": v, "pid": pid},
                                          {"v": v, "pid": pid}]


def variants(scenario, i, half, full=True):
    """Other identities / code versions of the recovery processes, for one crash point (full: also the near-duplicates)."""
    v = crash_version(scenario)
    kill = {"v": v, "pid": 31337, "kill": [i, half]}
    s = setup_steps(scenario, 4242)
    res = [
        ("other-then-same", s + [kill, {"v": v, "pid": 31338}, {"v": 1 - v, "pid": 31337}, {"v": v, "pid": 31337}]),
        ("code-changed-after-crash", s + [kill, {"v": 1 - v, "pid": 31337}, {"v": v, "pid": 31337}]),
        ("pid-prefix", setup_steps(scenario, 1) + [dict(kill, pid=11), {"v": v, "pid": 1}, {"v": 1 - v, "pid": 11}]),
    ]
    if full:
        res += [("pid-reuse", s + [kill, {"v": v, "pid": 31337}, {"v": v, "pid": 31337, "probe": True}]),
                ("pid-prefix-rev", setup_steps(scenario, 11) + [dict(kill, pid=1), {"v": v, "pid": 11}, {"v": 1 - v, "pid": 1}])]
    return res


def double_kill(scenario, i, half, j, half2, same=True):
    v = crash_version(scenario)
    p2 = 1 if same else 2
    return setup_steps(scenario, 1) + [{"v": v, "pid": 1, "kill": [i, half]}, {"v": v, "pid": p2, "kill": [j, half2]}, {"v": v, "pid": 1, "probe": True},
                                        {"v": v, "pid": 1}, {"v": v, "pid": p2}]


def logical(op):
    """An intercepted operation up to the private part of the names of temporaries."""
    return [op[1]] + [re.sub(r"\.tmp\..*$", ".tmp", str(a)) for a in op[2:]]


def crash_loop(scenario, i, half, j):
    """The process dies at the same place at every restart (the same big write, the same memory limit), always under pid 1."""
    v = crash_version(scenario)
    return setup_steps(scenario, 1) + [{"v": v, "pid": 1, "kill": [i, half]}, {"v": v, "pid": 1, "kill": [j, half]}, {"v": v, "pid": 1, "kill": [j, half]},
                                        {"v": v, "pid": 1, "probe": True}, {"v": v, "pid": 1}, {"v": v, "pid": 1}]


def random_chain(rng, versions, max_ops):
    """Several kills in a row at random points, pids drawn from a small set (mostly the same), versions changing at random."""
    pids = rng.choice([[1], [1, 1, 1, 11], [5, 5, 6], [70001, 70002]])
    hist = []
    if rng.random() < 0.5:
        hist.append({"v": rng.choice(versions), "pid": rng.choice(pids)})
    for _ in range(rng.randint(2, 4)):
        hist.append({"v": rng.choice(versions), "pid": rng.choice(pids), "kill": [rng.randint(1, max_ops), rng.random() < 0.5]})
        if rng.random() < 0.25:
            hist.append({"v": rng.choice(versions), "pid": rng.choice(pids), "probe": True})
    v = rng.choice(versions)
    hist += [{"v": v, "pid": rng.choice(pids)}, {"v": rng.choice(versions), "pid": rng.choice(pids)}, {"v": v, "pid": rng.choice(pids), "probe": True}]
    return hist
