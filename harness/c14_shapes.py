"""C14, object-shape part: the boundary of the accepted modules must not depend on HOW a function of an accepted module is
reached.  In package trees of depth 1..6 (accepted prefix at every depth, few / many accepted packages, the non-accepted twin
package in a separate tree, under a near-miss name or as a sibling of the accepted package) every function `base` lives in
its own definition module and is exposed to the accepted pipeline module vpipe.main under one of the SHAPES below (plain,
alias by assignment, old name kept by a functools.wraps wrapper, decorated in place, closure wrapper, functools.partial,
lambda, function made by a factory, static / instance method of a class, class alias, re-export through a facade module or
a package __init__ with or without renaming, two hops), imported with one of the import FORMS.  The definition module and the
exposing module are each on the accepted or on the non-accepted side.  One root function per scenario is kept at its own path.
A history of edits (code and tracked variable of every definition module of one side, both sides, random order) is replayed
on the tree, every step evaluated by a fresh process on the same local store.  Expected, from the property alone:
  * an edit of definition modules on the non-accepted side changes no signature;
  * an edit of definition modules on the accepted side changes the signature of every root that reaches them - whatever the
    shape - and of no other root; the value returned by dds.keep then equals plain execution (no stale value);
  * every root evaluates."""
import collections
import concurrent.futures as cf
import json
import os
import shutil
import tempfile
import time

import common as C

FORMS = ["from-import", "from-import-as", "import-as-module", "from-parent-import-module", "import-dotted"]
EXT_KINDS = ["separate-top", "near-miss-name", "sibling"]

WRAPS = """import functools


def _deprecated(fn):
    @functools.wraps(fn)
    def inner(*args, **kwargs):
        return fn(*args, **kwargs)
    return inner
"""
NOWRAPS = """def _plain_wrap(fn):
    def inner(*args, **kwargs):
        return fn(*args, **kwargs)
    return inner
"""
BASE = "VAR{i} = {var}\n\n\ndef base{i}():\n    return ({salt!r}, VAR{i})\n"

# shape -> where the exposed name lives ("def": the definition module, "facade": another module, "init": the __init__ of the
# package that contains the definition module), the text before / after the base function in the definition module, the text
# of the facade, the exposed name and how the root calls it ({r} = the expression that denotes the exposed name)
SHAPES = {
    "plain": dict(where="def", name="base{i}"),
    "alias-assign": dict(where="def", post="base{i}_alias = base{i}\n", name="base{i}_alias"),
    "wraps-new-name": dict(where="def", pre=WRAPS, post="# old name kept for backward compatibility\nbase{i}_old = _deprecated(base{i})\n", name="base{i}_old"),
    "wraps-decorated": dict(where="def", pre=WRAPS, deco="@_deprecated\n", name="base{i}"),
    "closure-new-name": dict(where="def", pre=NOWRAPS, post="base{i}_wrapped = _plain_wrap(base{i})\n", name="base{i}_wrapped"),
    "partial": dict(where="def", pre="import functools\n", post="base{i}_part = functools.partial(base{i})\n", name="base{i}_part"),
    "lambda": dict(where="def", post="base{i}_lam = lambda: base{i}()\n", name="base{i}_lam"),
    "factory": dict(where="def", post="def _make():\n    def produced():\n        return base{i}()\n    return produced\n\n\nbase{i}_made = _make()\n", name="base{i}_made"),
    "static-method": dict(where="def", post="class K{i}(object):\n    @staticmethod\n    def sm():\n        return base{i}()\n", name="K{i}", call="{r}.sm()"),
    "instance-method": dict(where="def", post="class K{i}(object):\n    def m(self):\n        return base{i}()\n", name="K{i}", call="{r}().m()"),
    "class-alias": dict(where="def", post="class K{i}(object):\n    def m(self):\n        return base{i}()\n\n\nK{i}_alias = K{i}\n", name="K{i}_alias", call="{r}().m()"),
    "reexport-facade": dict(where="facade", facade="from {D} import base{i}\n", name="base{i}"),
    "reexport-facade-as": dict(where="facade", facade="from {D} import base{i} as base{i}_pub\n", name="base{i}_pub"),
    "reexport-facade-assign": dict(where="facade", facade="import {D} as _d\n\nbase{i}_pub = _d.base{i}\n", name="base{i}_pub"),
    "reexport-facade-of-alias": dict(where="facade", post="base{i}_alias = base{i}\n", facade="from {D} import base{i}_alias\n", name="base{i}_alias"),
    "reexport-facade-of-wraps": dict(where="facade", pre=WRAPS, post="base{i}_old = _deprecated(base{i})\n", facade="from {D} import base{i}_old\n", name="base{i}_old"),
    "reexport-facade-wraps-there": dict(where="facade", facade_code=True, facade=WRAPS + "from {D} import base{i}\n\nbase{i}_old = _deprecated(base{i})\n", name="base{i}_old"),
    "reexport-facade-calls": dict(where="facade", facade_code=True, facade="from {D} import base{i}\n\n\ndef via{i}():\n    return base{i}()\n", name="via{i}"),
    "reexport-two-hops": dict(where="facade2", facade="from {D} import base{i} as base{i}_mid\n", facade2="from {F} import base{i}_mid as base{i}_pub\n", name="base{i}_pub"),
    "reexport-init": dict(where="init", init="from .impl import base{i}\n", name="base{i}"),
    "reexport-init-as": dict(where="init", init="from .impl import base{i} as base{i}_pub\n", name="base{i}_pub"),
    "reexport-init-of-wraps": dict(where="init", pre=WRAPS, post="base{i}_old = _deprecated(base{i})\n", init="from .impl import base{i}_old\n", name="base{i}_old"),
}
# facade_code: the facade contains code that runs between the root and the base function; when the facade is not accepted the
# base function is reached through non-accepted code only and nothing is expected of it (that combination is not generated).
# Shapes that hide the function inside an object that is not a function (functools.partial): reported under their own key
OPAQUE = {"partial": "partial"}


def packages(cfg):
    """Dotted package of the accepted side and of the non-accepted side."""
    d, k = cfg["depth"], cfg["accept_depth"]
    acc = ["apk"] + [f"n{j}" for j in range(1, d)]
    kind = cfg["ext_kind"]
    if kind == "sibling" and k >= 2:
        ext = acc[:k - 1] + ["sib"] + acc[k:]
    elif kind == "near-miss-name":
        ext = acc[:k - 1] + [acc[k - 1] + "x"] + acc[k:]
    else:
        ext = ["ext"] + acc[1:]
    return acc, ext


def accept_list(cfg):
    acc, _ = packages(cfg)
    fill = [f"otherpkg{j}" for j in range(cfg["nfill"])]
    pos = cfg.get("accept_pos", 0) % (len(fill) + 1)
    return fill[:pos] + [".".join(acc[:cfg["accept_depth"]])] + fill[pos:] + ["vpipe"]


def scenarios(cfg):
    """The scenarios of a configuration: every shape x (definition side, exposure side), import forms rotated."""
    res = []
    for shape, sp in SHAPES.items():
        sides = [("acc", "acc"), ("ext", "ext")]
        if sp["where"] in ("facade", "facade2"):
            sides += [("ext", "acc")] if sp.get("facade_code") else [("acc", "ext"), ("ext", "acc")]
        for dside, eside in sides:
            i = len(res)
            res.append({"i": i, "shape": shape, "def": dside, "exp": eside, "form": FORMS[(i + cfg["form_offset"]) % len(FORMS)]})
    return res


def modules_of(cfg, sc):
    """(definition module, exposing module) of a scenario."""
    acc, ext = packages(cfg)
    pk = {"acc": acc, "ext": ext}
    i, sp = sc["i"], SHAPES[sc["shape"]]
    if sp["where"] == "init":
        pkg = ".".join(pk[sc["def"]] + [f"p{i}"])
        return pkg + ".impl", pkg
    D = ".".join(pk[sc["def"]] + [f"d{i}"])
    if sp["where"] == "def":
        return D, D
    return D, ".".join(pk[sc["exp"]] + [f"e{i}"])


def import_and_call(cfg, sc):
    _, E = modules_of(cfg, sc)
    i, sp = sc["i"], SHAPES[sc["shape"]]
    n = sp["name"].format(i=i)
    parent, _, leaf = E.rpartition(".")
    form = sc["form"]
    if form == "from-import":
        imp, ref = f"from {E} import {n}", n
    elif form == "from-import-as":
        imp, ref = f"from {E} import {n} as r{i}_{n}", f"r{i}_{n}"
    elif form == "import-as-module":
        imp, ref = f"import {E} as m{i}", f"m{i}.{n}"
    elif form == "from-parent-import-module":
        imp, ref = f"from {parent} import {leaf} as lm{i}", f"lm{i}.{n}"
    else:
        imp, ref = f"import {E}", f"{E}.{n}"
    return imp, sp.get("call", "{r}()").format(r=ref)


def put(root, mod, text, package=False):
    parts = mod.split(".")
    for j in range(1, len(parts) + (1 if package else 0)):
        d = os.path.join(root, *parts[:j])
        os.makedirs(d, exist_ok=True)
        ini = os.path.join(d, "__init__.py")
        if not os.path.exists(ini):
            open(ini, "w").write("")
    fp = os.path.join(root, *parts, "__init__.py") if package else os.path.join(root, *parts) + ".py"
    open(fp, "w").write(text)


def def_source(sc, state):
    i, sp = sc["i"], SHAPES[sc["shape"]]
    salt, var = state[sc["def"]]
    base = BASE.format(i=i, salt=f"s{salt}", var=var + 1)
    head, _, fun = base.partition("def ")
    return sp.get("pre", "") + ("\n\n" if sp.get("pre") else "") + head + sp.get("deco", "") + "def " + fun + ("\n\n" + sp["post"].format(i=i) if sp.get("post") else "")


def write_tree(root, cfg, state):
    """state: {"acc": (code edits, variable edits), "ext": (...)} applied to every definition module of that side."""
    imps, roots = ["import dds"], []
    for sc in scenarios(cfg):
        i, sp = sc["i"], SHAPES[sc["shape"]]
        D, E = modules_of(cfg, sc)
        put(root, D, def_source(sc, state))
        if sp["where"] == "init":
            put(root, E, sp["init"].format(i=i), package=True)
        elif sp["where"] == "facade":
            put(root, E, sp["facade"].format(i=i, D=D))
        elif sp["where"] == "facade2":
            F = E + "_mid"
            put(root, F, sp["facade"].format(i=i, D=D))
            put(root, E, sp["facade2"].format(i=i, F=F))
        imp, call = import_and_call(cfg, sc)
        imps.append(imp)
        roots.append(f"def root{i}():\n    return ({sc['shape']!r}, {call})\n")
    put(root, "vpipe.main", "\n".join(imps) + "\n\n\n" + "\n\n".join(roots))


def sources(cfg, sc):
    """The files of one scenario before the first edit (for the replay file: readable without regenerating the tree)."""
    i, sp = sc["i"], SHAPES[sc["shape"]]
    D, E = modules_of(cfg, sc)
    imp, call = import_and_call(cfg, sc)
    res = {D: def_source(sc, {"acc": (0, 0), "ext": (0, 0)}), "vpipe.main": f"{imp}\n\n\ndef root{i}():\n    return ({sc['shape']!r}, {call})\n"}
    if sp["where"] == "init":
        res[E + ".__init__"] = sp["init"].format(i=i)
    elif sp["where"] == "facade":
        res[E] = sp["facade"].format(i=i, D=D)
    elif sp["where"] == "facade2":
        res[E + "_mid"] = sp["facade"].format(i=i, D=D)
        res[E] = sp["facade2"].format(i=i, F=E + "_mid")
    return res


def run_cfg(cfg):
    """Replays the history of the configuration; -> list (one entry per step) of {root: {sig, value, plain, error}}."""
    base = tempfile.mkdtemp(prefix="c14s_", dir=C.scratch_dir())
    try:
        root, store = os.path.join(base, "tree"), os.path.join(base, "store")
        state = {"acc": (0, 0), "ext": (0, 0)}
        names = [f"root{sc['i']}" for sc in scenarios(cfg)]
        outs = []
        for step in [None] + cfg["steps"]:
            if step:
                side, kind = step
                c, v = state[side]
                state[side] = (c + 1, v) if kind == "code" else (c, v + 1)
            shutil.rmtree(root, ignore_errors=True)
            os.makedirs(root)
            write_tree(root, cfg, state)
            o = C.run_driver("drive_shapes.py", {"root": root, "accept": accept_list(cfg), "module": "vpipe.main", "roots": names, "store_dir": store})
            if "__import__" in o:
                return {"cfg": cfg, "error": f"generated tree does not import at step {step}: {o['__import__']}"}
            outs.append(o)
        return {"cfg": cfg, "steps": outs}
    except Exception as e:  # noqa
        return {"cfg": cfg, "error": str(e)[-600:]}
    finally:
        shutil.rmtree(base, ignore_errors=True)


def judge(cfg, outs):
    """-> (violations [(key, what, scenario, step index)], refusals [(scenario, "dds" | "uncoded")]) from the property alone.
    A construct that is refused at every step of the history (no value is ever served) is not a violation: it is counted."""
    bad, refused = [], []
    acc, ext = packages(cfg)
    for sc in scenarios(cfg):
        g = f"root{sc['i']}"
        D, E = modules_of(cfg, sc)
        imp, call = import_and_call(cfg, sc)
        desc = (f"accept={accept_list(cfg)}: base{sc['i']} defined in the {'accepted' if sc['def'] == 'acc' else 'non-accepted'} module {D}, shape "
                f"{sc['shape']}" + (f" (exposed by the {'accepted' if sc['exp'] == 'acc' else 'non-accepted'} module {E})" if E != D else "")
                + f", used in vpipe.main as `{imp}` / `{call}`")
        errs = [o[g]["error"] for o in outs]
        if all(errs):
            refused.append((sc, "dds" if all(e.startswith("dds:") for e in errs) else "uncoded"))
            continue
        if any(errs):
            si = [j for j, e in enumerate(errs) if e][0]
            bad.append(("shape:evaluation-fails-after-edit" if si else "shape:evaluation-fails-before-edit", f"{desc}: dds.keep fails at step {si} of the history "
                        f"{cfg['steps']} and not at the other steps: {errs[si][:160]} (plain execution gives {outs[si][g]['plain']})", sc, si))
            continue
        prev = outs[0][g]
        if prev["value"] != prev["plain"]:
            bad.append(("shape:wrong-value", f"{desc}: dds.keep on an empty store returned {prev['value']}, plain execution gives {prev['plain']}", sc, 0))
        for si, (step, o) in enumerate(zip(cfg["steps"], outs[1:]), 1):
            side, kind = step
            cur = o[g]
            what_edit = f"editing the {'body' if kind == 'code' else 'tracked variable VAR%d' % sc['i']} of base{sc['i']}"
            changed = cur["sig"] != prev["sig"]
            reaches = side == sc["def"] == "acc"
            if reaches and not changed:
                key = "shape:accepted-edit-ignored" + (":" + OPAQUE[sc["shape"]] if sc["shape"] in OPAQUE else "")
                bad.append((key, f"{desc}: {what_edit} did not change the signature of /out_{g}; dds.keep returned {cur['value']}, plain execution gives {cur['plain']}", sc, si))
            elif reaches and cur["value"] != cur["plain"]:
                bad.append(("shape:wrong-value", f"{desc}: after {what_edit} dds.keep returned {cur['value']}, plain execution gives {cur['plain']}", sc, si))
            elif changed and side == "ext":
                bad.append(("shape:non-accepted-edit-changes-signature", f"{desc}: editing the non-accepted definition modules under {'.'.join(ext)} ({kind}) changed the "
                            f"signature of /out_{g}", sc, si))
            elif changed and not reaches:
                bad.append(("shape:unrelated-accepted-edit-changes-signature", f"{desc}: editing the accepted definition modules under {'.'.join(acc)} ({kind}), none of "
                            f"which this root reaches, changed the signature of /out_{g}", sc, si))
            prev = cur
    return bad, refused


def gen_cfgs(rng, tier):
    cfgs = []
    n = 0
    edits = [["acc", "code"], ["acc", "var"], ["ext", "code"], ["ext", "var"]]
    for depth in range(1, 7):
        for k in range(1, depth + 1):
            if tier == "quick":
                variants = [(EXT_KINDS[n % 3], (0, 3, 39)[(n // 3) % 3], n % len(FORMS))]
            else:
                variants = [(ek, nf, fo) for ek in EXT_KINDS for nf in (0, 1, 9, 39) for fo in range(len(FORMS))]
                variants = rng.sample(variants, 12)
            for ek, nf, fo in variants:
                steps = list(edits)
                rng.shuffle(steps)
                cfgs.append({"depth": depth, "accept_depth": k, "ext_kind": ek, "nfill": nf, "accept_pos": rng.randint(0, nf), "form_offset": fo, "steps": steps})
                n += 1
    return cfgs


def run(rep, tier, seed, proof_ok, rng):
    t0 = time.time()
    cfgs = gen_cfgs(rng, tier)
    with cf.ThreadPoolExecutor(max_workers=C.NPROC) as ex:
        res = list(ex.map(run_cfg, cfgs))
    n_sc, n_checks, n_ok, seen, dist = 0, 0, 0, set(), collections.defaultdict(set)
    for r in res:
        cfg = r["cfg"]
        rep.case("shapes:" + json.dumps(cfg))
        if "error" in r:
            rep.violation("harness-error:c14s", r["error"][-300:], r, no_input=True)
            continue
        scs = scenarios(cfg)
        n_sc += len(scs)
        n_checks += len(scs) * (len(cfg["steps"]) + 1)
        for sc in scs:
            seen.add((sc["shape"], sc["def"], sc["exp"], sc["form"]))
        bad, refused = judge(cfg, r["steps"])
        for sc, how in refused:
            dist[f"refused-{'by-dds' if how == 'dds' else 'with-uncoded-exception'}:{'accepted' if sc['def'] == 'acc' else 'non-accepted'}-side"].add(f"{sc['shape']}/{sc['form']}")
        n_ok += len(scs) - len(refused) - len(set(sc["i"] for _, _, sc, _ in bad))
        for key, what, sc, si in bad:
            g = f"root{sc['i']}"
            rep.violation(key, what, {"shape_case": cfg, "scenario": sc, "step": si, "accept": accept_list(cfg), "sources_before_the_edits": sources(cfg, sc),
                                      "observed": [o[g] for o in r["steps"]]})
    rep.sample({"shape_case": cfgs[0], "scenarios": len(scenarios(cfgs[0]))})
    rep.extra["shape_part"] = {"configurations": len(cfgs), "shapes": len(SHAPES), "import_forms": len(FORMS), "scenarios": n_sc,
                               "distinct_shape_sides_form": len(seen), "edit_steps_per_configuration": 4, "root_evaluations_judged": n_checks,
                               "scenarios_tracked_as_expected": n_ok, "wall_s": round(time.time() - t0, 1), **{k: sorted(v) for k, v in sorted(dist.items())}}


def replay(r):
    cfg = r["shape_case"]
    res = run_cfg(cfg)
    if "error" in res:
        print(res["error"])
        return 2
    bad, _ = judge(cfg, res["steps"])
    want = r.get("scenario", {}).get("i")
    hit = [b for b in bad if want is None or b[2]["i"] == want]
    for key, what, sc, si in hit:
        print(json.dumps({"key": key, "what": what, "step": si, "observed": [o[f"root{sc['i']}"] for o in res["steps"]]}, indent=1))
    print("REPRODUCED" if hit else "not reproduced")
    return 1 if hit else 0
