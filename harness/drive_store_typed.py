"""Implementation driver for C08 histories with TYPED blob values: the same operation sequences as drive_store.py, but the
value of a put is an encoded Python value (str / bytes / bytearray / None / other picklable) and the answer of a fetch is the
canonical text of the fetched value (type and content), so that the harness can compare it with the value stored last.
stdin: {"seqs":[{"store":"memory"|"local"|"dbfs-full","cap":"bare"|int|"unbounded","ops":[...]}]}
value encodings: ["str", s] | ["bytes", hex] | ["bytearray", hex] | ["none"] | ["json", x] | ["tuple", [enc...]] |
                 ["pickled", enc] (the bytes of the pickle of the encoded value)"""
import json
import os
import pickle
import shutil
import sys
import tempfile
from collections import OrderedDict


def decode(e):
    t = e[0]
    if t == "str":
        return e[1]
    if t == "bytes":
        return bytes.fromhex(e[1])
    if t == "bytearray":
        return bytearray(bytes.fromhex(e[1]))
    if t == "none":
        return None
    if t == "json":
        return e[1]
    if t == "tuple":
        return tuple(decode(x) for x in e[1])
    if t == "pickled":
        return pickle.dumps(decode(e[1]), protocol=2)
    raise ValueError(t)


def canon(v):
    """type and content of a value; a bytearray is identified with the bytes of the same content (the documented codec
    of both is the bytes codec, and they compare equal)"""
    if isinstance(v, bytearray):
        v = bytes(v)
    return type(v).__name__ + ":" + repr(v)


def do(store, op):
    from dds.structures import DDSException
    t = op[0]
    try:
        if t == "has":
            return "B1" if store.has_blob(op[1]) else "B0"
        if t == "fetch":
            r = store.fetch_blob(op[1])
            return "N" if r is None else "V:" + canon(r)
        if t == "put":
            store.store_blob(op[1], decode(op[2]), None)
            return "U"
        if t == "sync":
            store.sync_paths(OrderedDict(op[1]))
            return "U"
        if t == "fpaths":
            r = store.fetch_paths(op[1])
            return "P:" + ",".join(f"{p}={k}" for p, k in r.items())
    except DDSException as e:
        return "E:" + str(e)[:120].replace(";", ",")
    except BaseException as e:
        return "X:" + type(e).__name__ + ":" + str(e)[:120].replace(";", ",")
    raise ValueError(t)


def main():
    import drive_store as DS
    from dds._lru_store import LRUCacheStore
    payload = json.load(sys.stdin)
    res = []
    for s in payload["seqs"]:
        root = tempfile.mkdtemp(prefix="drvtyped_")
        state = {}
        try:
            store = DS.mk(s["store"], root, state)
            cap = s["cap"]
            num = None if cap == "bare" else (sys.maxsize // 2 if cap == "unbounded" else cap)
            wrapped = LRUCacheStore(store, num_elem=num) if num is not None else None
            outs = []
            for op in s["ops"]:
                if op[0] == "reopen":
                    # a new store object (and a new, empty cache) on the same directories / the same remote file system
                    store = DS.mk(s["store"], root, state)
                    if num is not None:
                        wrapped = LRUCacheStore(store, num_elem=num)
                    outs.append("U")
                    continue
                outs.append(do(wrapped or store, op))
            res.append({"outs": outs})
        finally:
            shutil.rmtree(root, ignore_errors=True)
    print("@@RESULT@@" + json.dumps({"seqs": res}))


if __name__ == "__main__":
    sys.path.insert(0, os.path.dirname(os.path.abspath(__file__)))
    main()
