"""C06 - a process killed at any instant never leaves a store that serves wrong data."""
import concurrent.futures as cf
import copy
import json
import os
import shutil
import tempfile
import time

import random

import common as C
import progs as P
import values as V
import c01_targeted as T
import c06_ident as I
import c06_layout as L

COQ_FILES = ("L6_Conc/FsOps.v", "L6_Conc/LocalProgs.v", "L6_Conc/CrashProofs.v", "L6_Conc/SeqRefine.v", "L6_Conc/Recovery.v", "Properties/C06.v", "Properties/C06b.v")
PROPERTY_FILES = ("C06", "C06b")
EXTRACTED = ("ConstStore",)
ALLOWED_AXIOMS = ()
i_ = V.i_


def pipeline(version):
    """root (kept at /root_out) keeps g(1) at /d/k and h() at /e; version changes g's body and argument."""
    prog = T.base_prog()
    prog["modules"]["m0"]["funcs"].insert(1, {"name": "h", "params": [], "annot": "/e", "salt": "h0", "stmts": [], "reads": []})
    root = P.find_func(prog, "m0", "root")
    root["stmts"] = [{"k": "keep", "path": "/d/k", "callee": ("m0", "g"), "pos": [["lit", i_(1 + version)]], "kw": [], "layout": "single"},
                     {"k": "call", "callee": ("m0", "h"), "args": []}]
    P.find_func(prog, "m0", "g")["salt"] = f"g{version}"
    return prog


CALL = {"a": "call", "mod": "m0", "fn": "root", "style": "keep", "path": "/root_out", "pos": [], "kw": []}
PATHS = ["/root_out", "/d/k", "/e"]


def run_child(base, prog, actions, gate=None, store_kind="local"):
    src = os.path.join(base, "src")
    shutil.rmtree(src, ignore_errors=True)
    P.write_package(prog, src)
    store = {"kind": store_kind, "internal_dir": os.path.join(base, "internal"), "data_dir": os.path.join(base, "data")}
    payload = {"root": src, "pkg": prog["pkg"], "store": store, "actions": actions}
    if gate:
        payload["gate"] = dict(gate, after_open=True)      # "the file was just created / truncated" is a crash point of its own
    return C.run_driver_raw("drive_prog.py", payload, extra_env=EXTRA_ENV[0])


# The environment of the evaluating processes (a second dimension of the crash-point enumeration): None, or the variables that place the
# system scratch directory (tempfile.gettempdir()) on ANOTHER FILE SYSTEM than the store - a store on a data volume, /tmp on tmpfs.
EXTRA_ENV = [None]


def scenario(name):
    """Returns (setup program or None, crashing program)."""
    if name == "first-keep":
        return None, pipeline(0)
    if name == "re-keep-changed":
        return pipeline(0), pipeline(1)
    raise ValueError(name)


def crash_case(args):
    name, template, i, half, expected, old_vals, new_vals = args
    base = tempfile.mkdtemp(prefix="c06_", dir=C.scratch_dir())
    try:
        if template:
            shutil.copytree(os.path.join(template, "internal"), os.path.join(base, "internal"), symlinks=True)
            shutil.copytree(os.path.join(template, "data"), os.path.join(base, "data"), symlinks=True)
            # links are absolute: re-point them into the copy
            for d, _, files in os.walk(os.path.join(base, "data")):
                for f in files:
                    fp = os.path.join(d, f)
                    if os.path.islink(fp):
                        t = os.readlink(fp).replace(template, base)
                        os.remove(fp)
                        os.symlink(t, fp)
        _, prog = scenario(name)
        rc, res, out = run_child(base, prog, [CALL], gate={"mode": "crash", "crash_at": i, "half": half})
        if rc != 77:
            return {"i": i, "half": half, "crashed": False}
        # recovery: a later process evaluates the same pipeline, then loads every path
        acts = [CALL] + [{"a": "load", "path": p} for p in PATHS]
        rc2, res2, out2 = run_child(base, prog, acts)
        problems = []
        if res2 is None:
            problems.append(("recovery-process-died", out2[-300:]))
        else:
            if res2[0]["out"] != expected:
                problems.append(("evaluation-wrong-after-crash", res2[0]["out"][:120]))
            for p, r in zip(PATHS, res2[1:]):
                if r["out"] not in (new_vals.get(p),):
                    problems.append(("load-wrong-after-recovery:" + p, r["out"][:120]))
        # paths committed before the crash must load old or new complete value WITHOUT re-evaluation (fresh copy of the crashed state)
        return {"i": i, "half": half, "crashed": True, "problems": problems}
    finally:
        shutil.rmtree(base, ignore_errors=True)


def load_only_case(args):
    """After the crash, only load the previously committed paths (no re-evaluation): old or new complete value."""
    name, template, i, half, old_vals, new_vals = args
    base = tempfile.mkdtemp(prefix="c06l_", dir=C.scratch_dir())
    try:
        shutil.copytree(os.path.join(template, "internal"), os.path.join(base, "internal"), symlinks=True)
        shutil.copytree(os.path.join(template, "data"), os.path.join(base, "data"), symlinks=True)
        for d, _, files in os.walk(os.path.join(base, "data")):
            for f in files:
                fp = os.path.join(d, f)
                if os.path.islink(fp):
                    t = os.readlink(fp).replace(template, base)
                    os.remove(fp)
                    os.symlink(t, fp)
        _, prog = scenario(name)
        rc, res, out = run_child(base, prog, [CALL], gate={"mode": "crash", "crash_at": i, "half": half})
        if rc != 77:
            return {"i": i, "half": half, "crashed": False}
        rc2, res2, out2 = run_child(base, prog, [{"a": "load", "path": p} for p in PATHS])
        problems = []
        if res2 is None:
            problems.append(("load-process-died", out2[-300:]))
        else:
            for p, r in zip(PATHS, res2):
                if r["out"] not in (old_vals.get(p), new_vals.get(p)):
                    problems.append(("committed-path-lost-or-wrong:" + p, r["out"][:120]))
        return {"i": i, "half": half, "crashed": True, "problems": problems}
    finally:
        shutil.rmtree(base, ignore_errors=True)


def run(rep, tier, seed, proof_ok):
    rep.rule = ("crash-point enumeration on the real code: for the scenarios {first keep on a cold store incl. store creation, re-keep "
                "with changed code on a populated store}, each with a kept root, a nested dds.keep with an argument and a data "
                "function, the evaluating process is killed (os._exit) before every intercepted file-system operation (stat, mkdir, "
                "open, write, close, remove, symlink, replace, ...), right after every open for writing returned, and in the middle of every write; then a new process (a) evaluates "
                "the same pipeline and loads all paths: results must equal the uncrashed run, no exception; (b) without re-evaluation "
                "loads the paths committed before the crash: old or new complete value; exhaustive over the operation indices of the "
                "traced uncrashed run; payloads are pickled tuples; the whole enumeration is repeated with the system scratch directory (TMPDIR) on "
                "ANOTHER FILE SYSTEM than the store (when the machine has one: found by st_dev / EXDEV probe).  Second dimension, the identity of the processes (c06_ident.py): "
                "crash HISTORIES of several process lifetimes on one store (forked children of drive_c06srv.py, each with the code "
                "version and the pid the history gives it: os.getpid is what the history says), checked against the values of an "
                "uncrashed evaluation on a bare store (= plain execution without dds): (A) every crash point of both scenarios with "
                "the killed process, a load-only probe and two recoveries in a row all under ONE pid (container restarted on its "
                "volume: pid 1 at every start); (A') crash loop: the restarted process is killed again at the same logical operation, "
                "twice, before a recovery gets through; (B) for every distinct directory state left by a crash point (names up to their "
                "random part): recovery under another pid then the same pid with changed code, under a pid that is a textual prefix "
                "of the killed one, and with the code changed after the crash (thorough: also the pid reused after a setup under "
                "another pid, and the prefix pair in the other order); (C) double crash: the recovery is "
                "killed again before / in the middle of each of ITS operations (same or another pid), then probe + two recoveries "
                "(quick: seeded sample of the pairs; thorough: all pairs over the distinct states); (D) seeded random chains of 2-4 "
                "kills with pids drawn from small sets and versions changing in between, so that leftovers of every kind (temporary "
                "blob, metadata, link, of several processes) are present when the next evaluation starts.  Third dimension, the LAYOUT "
                "of the two directories with the crash points of STORE CREATION (c06_layout.py): the same histories on a volume where "
                "the directories are {new siblings, data inside internal, internal inside data, both there and empty, nested and both "
                "there, internal / data / the data directory around the internal one there with unrelated files, below deep parents "
                "that do not exist, deep data below deep internal} (thorough: 7 more: one of the two there, trailing slashes, internal "
                "a link to a directory, shared parent with unrelated files, ...), every operation under the volume being a crash point "
                "(stat / mkdir of the parents included); per layout: uncrashed use with a code change and a process that only "
                "configures the store (its operations are those of store creation); a kill before EVERY operation of store creation "
                "and right after it, followed by probe + two recoveries under one pid and by recoveries under another pid with changed "
                "code (thorough: by a process that only configures the store, then a recovery); double kills inside store creation (the "
                "process that finds the half created store is killed in its own store creation; quick: seeded sample, thorough: all "
                "pairs); kills at the operations of the first evaluation and of the re-keep with changed code (quick: seeded sample "
                "spread over operation x object, thorough: all); expected values: plain execution, whatever the layout")
    rep.assumptions += ["kill -9 semantics: completed system calls are durable, in order (no power-loss reordering)",
                        "writes that do not go through Python's file objects (pyarrow) are not interposed; payloads are pickle/str/bytes",
                        "histories: the pid of a process is what os.getpid() answers in it (patched in the forked child that plays the process); "
                        "a process started by fork from a parent that imported but never used dds stands for a newly started interpreter",
                        "layouts: the volume that holds the two directories exists before the first process starts; directory listings (os.listdir / "
                        "scandir) are not interposed: they are not crash points of their own (a kill before a read-only call leaves what a kill "
                        "before the next interposed operation leaves)"]
    total, crashed = 0, 0
    real = {}
    import c16_fs
    second = c16_fs.second_file_system()
    envs = [("default", None)]
    if second:
        envs.append(("tmpdir-on-another-file-system", {"TMPDIR": second, "TEMP": second, "TMP": second}))
    for envname, extra in envs:
        EXTRA_ENV[0] = extra
        envtag = "" if extra is None else ":" + envname
        envdesc = "" if extra is None else f" [TMPDIR={second}, another file system than the store]"
        for name in ("first-keep", "re-keep-changed"):
            setup, prog = scenario(name)
            template = None
            old_vals = {}
            tdir = tempfile.mkdtemp(prefix="c06t_", dir=C.scratch_dir())
            if setup:
                rc, res, out = run_child(tdir, setup, [CALL] + [{"a": "load", "path": p} for p in PATHS])
                old_vals = {p: r["out"] for p, r in zip(PATHS, res[1:])}
                template = tdir
            # uncrashed traced run on a copy, to learn the operations and the expected results
            ref = tempfile.mkdtemp(prefix="c06r_", dir=C.scratch_dir())
            if template:
                for sub in ("internal", "data"):
                    shutil.copytree(os.path.join(template, sub), os.path.join(ref, sub), symlinks=True)
            rc, res, out = run_child(ref, prog, [CALL] + [{"a": "load", "path": p} for p in PATHS], gate={"mode": "trace"})
            expected = res[0]["out"]
            new_vals = {p: r["out"] for p, r in zip(PATHS, res[1:4])}
            if envname == "default":
                real[I.crash_version(name)] = {"expected": expected, "vals": new_vals}
            trace = [e for e in res[-1]["gate_log"]]
            # only the operations of the evaluation itself (the loads that follow are probes)
            n_eval = max(e[0] for e in trace if e[1] in ("symlink", "replace", "write", "mkdir", "remove", "close", "open")) + 1
            ops = [e for e in trace if e[0] <= n_eval]
            rep.extra.setdefault("traces", {})[name + envtag] = [e[1:3] for e in ops][:80]
            jobs = []
            for e in ops:
                jobs.append((name, template, e[0], False, expected, old_vals, new_vals))
                if e[1] == "write":
                    jobs.append((name, template, e[0], True, expected, old_vals, new_vals))
            with cf.ThreadPoolExecutor(max_workers=C.NPROC) as ex:
                results = list(ex.map(crash_case, jobs))
                lres = list(ex.map(load_only_case, [(j[0], j[1], j[2], j[3], j[5], j[6]) for j in jobs])) if template else []
            for j, r in list(zip(jobs, results)) + list(zip(jobs, lres)):
                total += 1
                rep.case(json.dumps([name + envtag, r["i"], r["half"], "load-only" if r in lres else "re-evaluate"]), nontrivial=r.get("crashed", False))
                if not r.get("crashed"):
                    continue
                crashed += 1
                op = next(e for e in ops if e[0] == r["i"])
                for kind, detail in r.get("problems", []):
                    what = f"{op[1]}{'-torn' if r['half'] else ''}:{'meta' if str(op[2]).endswith('.meta') else ('blob' if '/blobs/' in str(op[2]) else ('link' if str(op[2]).startswith('D:') or op[1] == 'symlink' else 'dir'))}"
                    rep.violation(f"crash{envtag}:{kind.split(':')[0]}:{what}", f"scenario {name}{envdesc}: process killed before operation {r['i']} {op[1:4]}"
                                  f"{' (in the middle of the write)' if r['half'] else ''}: {kind} -> {detail}",
                                  {"scenario": name, "env": envname, "crash_at": r["i"], "half": r["half"], "operation": op, "problem": kind, "detail": detail})
            shutil.rmtree(ref, ignore_errors=True)
            shutil.rmtree(tdir, ignore_errors=True)
    EXTRA_ENV[0] = None
    rep.extra["input_distribution"] = {"crash_runs": total, "actually_crashed": crashed, "environments": [e[0] for e in envs]}
    rep.sample({"scenario": "first-keep", "crash_before_operation": 13, "half_write": True})
    t0 = time.time()
    try:
        identity_histories(rep, tier, seed, real)
    finally:
        I.close_servers()
    rep.extra["input_distribution"]["wall_seconds_of_the_histories"] = round(time.time() - t0, 1)


def plain_reference(version):
    """The values the pipeline has without dds (keep = call, load = the value most recently kept)."""
    base = tempfile.mkdtemp(prefix="c06p_", dir=C.scratch_dir())
    try:
        prog = pipeline(version)
        P.write_package(prog, os.path.join(base, "src"))
        res = C.run_driver("drive_prog.py", {"root": os.path.join(base, "src"), "pkg": prog["pkg"], "store": {"kind": "memory"}, "nodds": True,
                                             "kept_file": os.path.join(base, "kept.pickle"), "actions": [CALL] + I.LOADS})
        return {"expected": res[0]["out"], "vals": {p: r["out"] for p, r in zip(PATHS, res[1:4])}}
    finally:
        shutil.rmtree(base, ignore_errors=True)


def identity_histories(rep, tier, seed, real):
    """The identity of the processes as a dimension of the crash enumeration: see c06_ident.py."""
    I._pipeline = pipeline
    rng = random.Random(seed)
    quick = tier == "quick"
    versions = (0, 1) if quick else (0, 1, 2)
    scenarios = ("first-keep", "re-keep-changed")
    # expected values: an uncrashed evaluation of each version on a bare store, by a forked process; they must be what plain
    # execution gives, and what the separate interpreter processes of the first dimension returned
    ref, ok_plain, ok_real = {}, True, True
    with cf.ThreadPoolExecutor(max_workers=C.NPROC) as ex:
        plains = list(ex.map(plain_reference, versions))
    for v, plain in zip(versions, plains):
        r = I.run_history([{"v": v, "pid": 1}], {v: plain})
        ref[v] = plain
        if r["problems"]:
            ok_plain = False
            rep.violation("crash-history:uncrashed-run-differs-from-plain-execution", f"version {v}: an evaluation on a bare local store does not "
                          f"return the values of plain execution: {r['problems'][:2]}", {"history": [{"v": v, "pid": 1}], "plain": plain})
        if v in real and real[v] != plain:
            ok_real = False
    rep.obligation("C06 histories: uncrashed evaluation on a bare store = plain execution without dds", ok_plain)
    rep.obligation("C06 histories: forked processes of drive_c06srv.py return what separate interpreter processes return", ok_real)
    if not (ok_plain and ok_real):
        if not ok_real:
            rep.violation("harness-error:c06-histories", f"the reference values differ: {real} / {ref}", {"real": real, "ref": ref}, no_input=True)
        return
    fam_count, classes, leftover_kinds = {}, {}, {}

    def run_family(family, hists):
        with cf.ThreadPoolExecutor(max_workers=C.NPROC) as ex:
            results = list(ex.map(I.safe_history, [(h, ref) for h in hists]))
        for h, r in zip(hists, results):
            fam_count[family] = fam_count.get(family, 0) + 1
            rep.case(json.dumps([family, h]), nontrivial=any(r["killed"]))
            if r.get("harness_error"):
                rep.violation("harness-error:c06-histories", f"{family} history could not be run: {r['harness_error']}", {"history": h}, no_input=True)
                continue
            for n in r["ops"]:
                c = I.ident_class(h, min(n + 1, len(h) - 1))
                classes[c] = classes.get(c, 0) + 1
                for l in r["leftovers"].get(n, []):
                    k = ("temporary-metadata" if ".meta" in l else "temporary-blob") if "/blobs/" in l else "temporary-link"
                    leftover_kinds[k] = leftover_kinds.get(k, 0) + 1
            for kind, n, detail in r["problems"]:
                kills = [k for k in sorted(r["ops"]) if k < n]
                op = r["ops"][kills[-1]] if kills else None
                where = (f"{op[1]}{'-torn' if h[kills[-1]]['kill'][1] and op[1] == 'write' else ''}:{I.obj_kind(op)}" if op else "no-kill")
                ic = I.ident_class(h, n)
                rep.violation(f"crash-history:{kind.split(':')[0]}:{ic}:{where}",
                              f"history ({family}) [{I.describe(h, r)}]: process #{n + 1} ({I.IDENT_TEXT[ic]}): "
                              f"{kind} -> {detail}",
                              {"family": family, "history": h, "failing_process": n, "identity": ic, "problem": kind, "detail": detail,
                               "killed_operations": r["ops"], "leftovers": r["leftovers"], "expected": ref})
        return results
    # (A) every crash point, everything under one pid
    points, traces = {}, {}
    for name, r in zip(scenarios, run_family("trace", [I.setup_steps(n, 1) + [{"v": I.crash_version(n), "pid": 1}] for n in scenarios])):
        tr = r["traces"].get(len(I.setup_steps(name, 1)), [])
        traces[name] = tr
        points[name] = [(e[0], False) for e in tr] + [(e[0], True) for e in tr if e[1] == "write"]
    jobs = [(name, i, half) for name in scenarios for i, half in sorted(points[name])]
    res_a = run_family("one-pid", [I.single_kill(*j) for j in jobs])
    # distinct directory states left by the crash points, with the operations of the recovery that follows
    reps = {}
    for (name, i, half), r in zip(jobs, res_a):
        k = len(I.setup_steps(name, 1))
        if k in r["digests"] and (name, r["digests"][k]) not in reps:
            reps[(name, r["digests"][k])] = (name, i, half, r["traces"].get(k + 2, []))
    reps = [reps[k] for k in sorted(reps)]
    # (A') crash loop: the restarted process is killed at the same logical operation again, twice, before a recovery gets through
    loops = []
    for (name, i, half), r in zip(jobs, res_a):
        k = len(I.setup_steps(name, 1))
        same = [e[0] for e in r["traces"].get(k + 2, []) if k in r["ops"] and I.logical(e) == I.logical(r["ops"][k])]
        if same:
            loops.append(I.crash_loop(name, i, half, same[0]))
    run_family("crash-loop", loops)
    # (B) other identities and code versions of the recovery
    run_family("identities", [h for (name, i, half, _) in reps for _, h in I.variants(name, i, half, full=not quick)])
    # (C) the recovery is killed again
    pairs, strata = [], {}
    for (name, i, half, tr) in reps:
        for e in tr:
            for h2 in ((False, True) if e[1] == "write" else (False,)):
                pairs.append((name, i, half, e[0], h2))
                strata.setdefault((name, e[1], I.obj_kind(e), h2), []).append(pairs[-1])
    n_pairs = len(pairs)
    if quick and pairs:
        # a seeded sample, spread over the kinds of operation at which the recovery is killed
        for k in strata:
            rng.shuffle(strata[k])
        pairs = [ps[r] for r in range(max(len(ps) for ps in strata.values())) for _, ps in sorted(strata.items()) if r < len(ps)][:120]
        dk = [I.double_kill(*p, same=rng.random() < 0.7) for p in pairs]
    else:
        dk = [I.double_kill(*p, same=s) for p in pairs for s in (True, False)]
    run_family("double-kill", dk)
    # (D) random chains
    max_ops = max(len(t) for t in traces.values()) + 2
    run_family("chain", [I.random_chain(rng, versions, max_ops) for _ in range(40 if quick else 600)])
    rep.extra["input_distribution"].update({"history_runs": sum(fam_count.values()), "histories_by_family": fam_count,
                                            "distinct_crash_states": len(reps), "double_kill_histories": len(dk), "double_kill_pairs_over_the_distinct_states": n_pairs,
                                            "kills_by_identity_of_the_next_process": classes, "leftovers_present_at_a_later_start": leftover_kinds,
                                            "pids": "1 everywhere | 31337 reused | 31337 then 31338 | 1 / 11 | chains: {1}, {1,11}, {5,6}, {70001,70002}",
                                            "code_versions": list(versions)})
    rep.sample({"history": I.double_kill("re-keep-changed", 41, False, 7, False)})
    # third dimension: the layout of the two directories, with the crash points of store creation
    t1 = time.time()
    L.layout_histories(rep, tier, random.Random(f"{seed}:layouts"), ref)
    rep.extra["input_distribution"]["wall_seconds_of_the_layout_histories"] = round(time.time() - t1, 1)


def replay(path):
    r = json.load(open(path))["replay"]
    if "history" in r:
        I._pipeline = pipeline
        try:
            ref = r.get("expected") or dict((v, plain_reference(v)) for v in sorted({st["v"] for st in r["history"]}))
            res = I.run_history(r["history"], dict((int(k), v) for k, v in ref.items()), r.get("layout"))
        finally:
            I.close_servers()
        if r.get("layout"):
            print("layout:", json.dumps(r["layout"]))
        print(I.describe(r["history"], res))
        print("problems:", res["problems"] or "none")
        return 1 if res["problems"] else 0
    setup, prog = scenario(r["scenario"])
    if r.get("env", "default") != "default":
        import c16_fs
        second = c16_fs.second_file_system()
        EXTRA_ENV[0] = {"TMPDIR": second, "TEMP": second, "TMP": second} if second else None
    base = tempfile.mkdtemp(prefix="c06replay_", dir=C.scratch_dir())
    if setup:
        run_child(base, setup, [CALL])
    rc, res, out = run_child(base, prog, [CALL], gate={"mode": "crash", "crash_at": r["crash_at"], "half": r["half"]})
    rc2, res2, out2 = run_child(base, prog, [CALL] + [{"a": "load", "path": p} for p in PATHS])
    print("crash rc", rc, "recovery:", [x["out"][:80] for x in res2] if res2 else out2[-400:])
    shutil.rmtree(base, ignore_errors=True)
    print("see the replay file for the expected values")
    return 1
