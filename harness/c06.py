"""C06 - a process killed at any instant never leaves a store that serves wrong data."""
import concurrent.futures as cf
import copy
import json
import os
import shutil
import tempfile

import common as C
import progs as P
import values as V
import c01_targeted as T

COQ_FILES = ("L6_Conc/FsOps.v", "L6_Conc/LocalProgs.v", "L6_Conc/CrashProofs.v", "L6_Conc/SeqRefine.v", "L6_Conc/Recovery.v", "Properties/C06.v", "Properties/C06b.v")
PROPERTY_FILES = ("C06", "C06b")
EXTRACTED = ("ConstStore",)
ALLOWED_AXIOMS = ()
i_ = V.i_


def pipeline(version):
    """root (kept at /root_out) keeps g(1) at /d/k and h() at /e; version changes g's body and argument."""
    prog = T.base_prog()
    prog["modules"]["m0"]["funcs"].insert(1, {"name": "h", "params": [], "annot": "/e", "salt": "h0", "stmts": [], "reads": []})
    root = P.find_func(prog, "m0", "root")
    root["stmts"] = [{"k": "keep", "path": "/d/k", "callee": ("m0", "g"), "pos": [["lit", i_(1 + version)]], "kw": [], "layout": "single"},
                     {"k": "call", "callee": ("m0", "h"), "args": []}]
    P.find_func(prog, "m0", "g")["salt"] = f"g{version}"
    return prog


CALL = {"a": "call", "mod": "m0", "fn": "root", "style": "keep", "path": "/root_out", "pos": [], "kw": []}
PATHS = ["/root_out", "/d/k", "/e"]


def run_child(base, prog, actions, gate=None, store_kind="local"):
    src = os.path.join(base, "src")
    shutil.rmtree(src, ignore_errors=True)
    P.write_package(prog, src)
    store = {"kind": store_kind, "internal_dir": os.path.join(base, "internal"), "data_dir": os.path.join(base, "data")}
    payload = {"root": src, "pkg": prog["pkg"], "store": store, "actions": actions}
    if gate:
        payload["gate"] = gate
    return C.run_driver_raw("drive_prog.py", payload)


def scenario(name):
    """Returns (setup program or None, crashing program)."""
    if name == "first-keep":
        return None, pipeline(0)
    if name == "re-keep-changed":
        return pipeline(0), pipeline(1)
    raise ValueError(name)


def crash_case(args):
    name, template, i, half, expected, old_vals, new_vals = args
    base = tempfile.mkdtemp(prefix="c06_", dir=C.scratch_dir())
    try:
        if template:
            shutil.copytree(os.path.join(template, "internal"), os.path.join(base, "internal"), symlinks=True)
            shutil.copytree(os.path.join(template, "data"), os.path.join(base, "data"), symlinks=True)
            # links are absolute: re-point them into the copy
            for d, _, files in os.walk(os.path.join(base, "data")):
                for f in files:
                    fp = os.path.join(d, f)
                    if os.path.islink(fp):
                        t = os.readlink(fp).replace(template, base)
                        os.remove(fp)
                        os.symlink(t, fp)
        _, prog = scenario(name)
        rc, res, out = run_child(base, prog, [CALL], gate={"mode": "crash", "crash_at": i, "half": half})
        if rc != 77:
            return {"i": i, "half": half, "crashed": False}
        # recovery: a later process evaluates the same pipeline, then loads every path
        acts = [CALL] + [{"a": "load", "path": p} for p in PATHS]
        rc2, res2, out2 = run_child(base, prog, acts)
        problems = []
        if res2 is None:
            problems.append(("recovery-process-died", out2[-300:]))
        else:
            if res2[0]["out"] != expected:
                problems.append(("evaluation-wrong-after-crash", res2[0]["out"][:120]))
            for p, r in zip(PATHS, res2[1:]):
                if r["out"] not in (new_vals.get(p),):
                    problems.append(("load-wrong-after-recovery:" + p, r["out"][:120]))
        # paths committed before the crash must load old or new complete value WITHOUT re-evaluation (fresh copy of the crashed state)
        return {"i": i, "half": half, "crashed": True, "problems": problems}
    finally:
        shutil.rmtree(base, ignore_errors=True)


def load_only_case(args):
    """After the crash, only load the previously committed paths (no re-evaluation): old or new complete value."""
    name, template, i, half, old_vals, new_vals = args
    base = tempfile.mkdtemp(prefix="c06l_", dir=C.scratch_dir())
    try:
        shutil.copytree(os.path.join(template, "internal"), os.path.join(base, "internal"), symlinks=True)
        shutil.copytree(os.path.join(template, "data"), os.path.join(base, "data"), symlinks=True)
        for d, _, files in os.walk(os.path.join(base, "data")):
            for f in files:
                fp = os.path.join(d, f)
                if os.path.islink(fp):
                    t = os.readlink(fp).replace(template, base)
                    os.remove(fp)
                    os.symlink(t, fp)
        _, prog = scenario(name)
        rc, res, out = run_child(base, prog, [CALL], gate={"mode": "crash", "crash_at": i, "half": half})
        if rc != 77:
            return {"i": i, "half": half, "crashed": False}
        rc2, res2, out2 = run_child(base, prog, [{"a": "load", "path": p} for p in PATHS])
        problems = []
        if res2 is None:
            problems.append(("load-process-died", out2[-300:]))
        else:
            for p, r in zip(PATHS, res2):
                if r["out"] not in (old_vals.get(p), new_vals.get(p)):
                    problems.append(("committed-path-lost-or-wrong:" + p, r["out"][:120]))
        return {"i": i, "half": half, "crashed": True, "problems": problems}
    finally:
        shutil.rmtree(base, ignore_errors=True)


def run(rep, tier, seed, proof_ok):
    rep.rule = ("crash-point enumeration on the real code: for the scenarios {first keep on a cold store incl. store creation, re-keep "
                "with changed code on a populated store}, each with a kept root, a nested dds.keep with an argument and a data "
                "function, the evaluating process is killed (os._exit) before every intercepted file-system operation (stat, mkdir, "
                "open, write, close, remove, symlink, replace, ...) and in the middle of every write; then a new process (a) evaluates "
                "the same pipeline and loads all paths: results must equal the uncrashed run, no exception; (b) without re-evaluation "
                "loads the paths committed before the crash: old or new complete value; exhaustive over the operation indices of the "
                "traced uncrashed run; payloads are pickled tuples")
    rep.assumptions += ["kill -9 semantics: completed system calls are durable, in order (no power-loss reordering)",
                        "writes that do not go through Python's file objects (pyarrow) are not interposed; payloads are pickle/str/bytes"]
    total, crashed = 0, 0
    for name in ("first-keep", "re-keep-changed"):
        setup, prog = scenario(name)
        template = None
        old_vals = {}
        tdir = tempfile.mkdtemp(prefix="c06t_", dir=C.scratch_dir())
        if setup:
            rc, res, out = run_child(tdir, setup, [CALL] + [{"a": "load", "path": p} for p in PATHS])
            old_vals = {p: r["out"] for p, r in zip(PATHS, res[1:])}
            template = tdir
        # uncrashed traced run on a copy, to learn the operations and the expected results
        ref = tempfile.mkdtemp(prefix="c06r_", dir=C.scratch_dir())
        if template:
            for sub in ("internal", "data"):
                shutil.copytree(os.path.join(template, sub), os.path.join(ref, sub), symlinks=True)
        rc, res, out = run_child(ref, prog, [CALL] + [{"a": "load", "path": p} for p in PATHS], gate={"mode": "trace"})
        expected = res[0]["out"]
        new_vals = {p: r["out"] for p, r in zip(PATHS, res[1:4])}
        trace = [e for e in res[-1]["gate_log"]]
        # only the operations of the evaluation itself (the loads that follow are probes)
        n_eval = max(e[0] for e in trace if e[1] in ("symlink", "replace", "write", "mkdir", "remove", "close", "open")) + 1
        ops = [e for e in trace if e[0] <= n_eval]
        rep.extra.setdefault("traces", {})[name] = [e[1:3] for e in ops][:80]
        jobs = []
        for e in ops:
            jobs.append((name, template, e[0], False, expected, old_vals, new_vals))
            if e[1] == "write":
                jobs.append((name, template, e[0], True, expected, old_vals, new_vals))
        with cf.ThreadPoolExecutor(max_workers=C.NPROC) as ex:
            results = list(ex.map(crash_case, jobs))
            lres = list(ex.map(load_only_case, [(j[0], j[1], j[2], j[3], j[5], j[6]) for j in jobs])) if template else []
        for j, r in list(zip(jobs, results)) + list(zip(jobs, lres)):
            total += 1
            rep.case(json.dumps([name, r["i"], r["half"], "load-only" if r in lres else "re-evaluate"]), nontrivial=r.get("crashed", False))
            if not r.get("crashed"):
                continue
            crashed += 1
            op = next(e for e in ops if e[0] == r["i"])
            for kind, detail in r.get("problems", []):
                what = f"{op[1]}{'-torn' if r['half'] else ''}:{'meta' if str(op[2]).endswith('.meta') else ('blob' if '/blobs/' in str(op[2]) else ('link' if str(op[2]).startswith('D:') or op[1] == 'symlink' else 'dir'))}"
                rep.violation(f"crash:{kind.split(':')[0]}:{what}", f"scenario {name}: process killed before operation {r['i']} {op[1:4]}"
                              f"{' (in the middle of the write)' if r['half'] else ''}: {kind} -> {detail}",
                              {"scenario": name, "crash_at": r["i"], "half": r["half"], "operation": op, "problem": kind, "detail": detail})
        shutil.rmtree(ref, ignore_errors=True)
        shutil.rmtree(tdir, ignore_errors=True)
    rep.extra["input_distribution"] = {"crash_runs": total, "actually_crashed": crashed}
    rep.sample({"scenario": "first-keep", "crash_before_operation": 13, "half_write": True})


def replay(path):
    r = json.load(open(path))["replay"]
    setup, prog = scenario(r["scenario"])
    base = tempfile.mkdtemp(prefix="c06replay_")
    if setup:
        run_child(base, setup, [CALL])
    rc, res, out = run_child(base, prog, [CALL], gate={"mode": "crash", "crash_at": r["crash_at"], "half": r["half"]})
    rc2, res2, out2 = run_child(base, prog, [CALL] + [{"a": "load", "path": p} for p in PATHS])
    print("crash rc", rc, "recovery:", [x["out"][:80] for x in res2] if res2 else out2[-400:])
    shutil.rmtree(base, ignore_errors=True)
    print("see the replay file for the expected values")
    return 1
