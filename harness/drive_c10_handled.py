"""Implementation driver for C10, handled-failure dimension: one process runs a history of evaluations of a generated
pipeline in which a kept function fails (for its first n calls, or for every call, for a reason that lives outside the code
dds sees) and the USER code deals with the failure inside the evaluation: retry loops, defaults, fallbacks, a second call
site, a second thread (c10_handled.py writes the package and the log module vhlog.py).
stdin: {"root": dir with the package + vhlog.py, "pkg": name, "store": {...}, "paths": [every path the pipeline keeps],
        "kind": exception class raised by the failing function, "fail": {tag: number of next calls that fail, -1: all},
        "hold": [tags whose next failing call waits for a second thread before it raises], "actions": [...], "nodds": bool}
Each action:
  {"a":"call","fn":f,"style":"eval"|"direct","caller":"main"|"thread"}
  {"a":"arm","fail":{tag: n}}           the cause of the failure (outside the code dds sees) appears again / disappears
  {"a":"loads"}                         dds.load of every path of the pipeline, one outcome per path
With "nodds" the same files run without the library, under the reference the property describes: plain execution where
dds.keep calls the function, a result that COMPLETED is remembered and reused (a failure never is), and the paths kept by
an evaluation become loadable when the evaluation returns, not when it raises.
Output per action: outcome (user exceptions with their identity), execution log [[tag, "caller"|"other"]...] (it contains
the entries the user handlers write when they catch an exception: class and identity of the object they saw), the values
stored as blobs in order, recorded store calls, the committed paths (path -> key), the raw content of the data directory
before and after the action, and whether an evaluation is still considered in progress afterwards (by behaviour)."""
import importlib
import json
import os
import sys
import threading

sys.path.insert(0, os.path.dirname(os.path.abspath(__file__)))
from drive_c15_threads import on_thread, blob_keys, committed  # noqa: E402
from drive_c10_threads import raw_entries  # noqa: E402

LOGMOD = "vhlog"


def install_memo_dds(canon, puts):
    """The reference: keep = call, completed results reused, paths committed when the evaluation returns."""
    import functools
    import types
    fake = types.ModuleType("dds")
    state = {"depth": 0, "pending": {}}
    kept, memo, lock = {}, {}, threading.Lock()

    class DDSException(BaseException):
        error_code = None

    def scope(body):
        with lock:
            top = state["depth"] == 0
            state["depth"] += 1
            if top:
                state["pending"] = {}
        try:
            r = body()
            if top:
                kept.update(state["pending"])
            return r
        finally:
            with lock:
                state["depth"] -= 1

    def keep(path, fun, *a, **k):
        fun = getattr(fun, "__wrapped__", fun)

        def body():
            name = fun.__name__
            if name in memo:
                r = memo[name]
            else:
                r = fun(*a, **k)
                with lock:
                    memo[name] = r
                    puts.append(canon(r))
            state["pending"][str(path)] = r
            return r
        return scope(body)

    def load(path):
        if str(path) not in kept:
            raise DDSException("no such path")
        return kept[str(path)]

    def eval_(fun, *a, **k):
        for o in ("dds_stages", "dds_export_graph", "dds_extra_debug"):
            k.pop(o, None)
        return scope(lambda: fun(*a, **k))

    def data_function(path):
        def deco(f):
            @functools.wraps(f)
            def w(*a, **k):
                return keep(path, f, *a, **k)
            return w
        return deco
    fake.keep, fake.load, fake.eval, fake.data_function, fake.dds_function = keep, load, eval_, data_function, data_function
    fake.DDSException = DDSException
    fake.accept_module = lambda m: None
    sys.modules["dds"] = fake
    return fake


def main():
    payload = json.load(sys.stdin)
    sys.path.insert(0, payload["root"])
    nodds = bool(payload.get("nodds"))
    puts = []
    if nodds:
        canon = importlib.import_module("drive_prog").canon
        dds = install_memo_dds(canon, puts)
    else:
        import dds
        from drive_prog import canon, make_store
    logmod = importlib.import_module(LOGMOD)
    logmod.KIND = payload.get("kind", "ValueError")
    logmod.arm(payload.get("fail", {}), payload.get("hold", []))
    mod = importlib.import_module(payload["pkg"] + ".pipe")
    rec, inner = [], None
    if not nodds:
        dds.accept_module(payload["pkg"])
        store = make_store(payload["store"], rec)
        inner = store.inner
        orig_sync, orig_put = store.sync_paths, store.store_blob

        def sync_paths(paths):
            logmod.STORE_THREADS.append(["sync", threading.get_ident()])
            return orig_sync(paths)

        def store_blob(key, blob, codec=None):
            logmod.STORE_THREADS.append(["put", threading.get_ident()])
            puts.append(canon(blob))
            return orig_put(key, blob, codec)
        store.sync_paths, store.store_blob = sync_paths, store_blob
        dds.set_store(store)

    def describe(e):
        if type(e).__name__ == "DDSException":
            c = getattr(e, "error_code", None)
            return "dds:" + (c.name if c is not None else "NONE")
        ident = "".join(":same-object:" + tag for tag, ex in logmod.RAISED[-1:] if ex is e) or \
                "".join(":earlier-object:" + tag for tag, ex in logmod.RAISED[:-1] if ex is e)
        return "exc:" + type(e).__name__ + ident

    def in_evaluation():
        """Is dds inside an evaluation as seen from the current thread?  By behaviour only."""
        try:
            dds.eval(mod.idle, dds_stages=["analysis"])
            return False
        except BaseException as e:  # noqa
            return describe(e)

    out = []
    for act in payload["actions"]:
        del rec[:]
        del puts[:]
        del logmod.LOG[:]
        del logmod.STORE_THREADS[:]
        del logmod.RAISED[:]
        res = {}
        caller = {"ident": threading.get_ident()}
        if not nodds:
            res["paths_before"] = committed(inner, payload["paths"])
            res["blobs_before"] = blob_keys(inner, payload["store"])
            res["raw_before"] = raw_entries(payload["store"])
        try:
            if act["a"] == "call":
                fn = getattr(mod, act["fn"])

                def go():
                    caller["ident"] = threading.get_ident()
                    return fn() if act.get("style") == "direct" else dds.eval(fn)
                r = on_thread(go) if act.get("caller") == "thread" else go()
                res["out"] = "ok:" + canon(r)
            elif act["a"] == "arm":
                logmod.arm(act["fail"], [])
                res["out"] = "ok:N"
            elif act["a"] == "loads":
                vals = []
                for p in payload["paths"]:
                    try:
                        vals.append("ok:" + canon(dds.load(p)))
                    except BaseException as e:  # noqa
                        vals.append(describe(e).split(":")[0] + ":")
                res["out"] = "ok:N"
                res["loads"] = vals
            else:
                raise ValueError(act["a"])
        except BaseException as e:  # noqa
            res["out"] = describe(e)
            import traceback
            res["tb"] = traceback.format_exc()[-600:]
        logmod.quiesce()
        kind = lambda i: "caller" if i == caller["ident"] else "other"  # noqa
        res["log"] = [[t, kind(i)] for t, i in logmod.LOG]
        res["puts"] = list(puts)
        if not nodds:
            res["rec"] = [list(r) for r in rec if r[0] in ("put", "sync")]
            res["store_threads"] = [[w, kind(i)] for w, i in logmod.STORE_THREADS]
            res["paths_after"] = committed(inner, payload["paths"])
            res["blobs_after"] = blob_keys(inner, payload["store"])
            res["raw_after"] = raw_entries(payload["store"])
            if act["a"] == "call":
                res["in_eval"] = [x for x in [in_evaluation()] if x]
        out.append(res)
    print("@@RESULT@@" + json.dumps(out))


if __name__ == "__main__":
    main()
