"""Implementation driver for C16: local-store configurations.  stdin: {"base": dir, "steps": [...]}; each step runs in
this process: {"chdir": rel} | {"set_store": {...}} | {"keep": [path, value]} | {"load": path} | {"symlink": [target, name]}
| {"mkdir": rel} | {"repoint": [target, name]} | {"rmtree": rel}"""
import json
import os
import sys


def main():
    payload = json.load(sys.stdin)
    import dds
    from dds import _api
    from dds.structures import DDSException
    os.chdir(payload["base"])
    log = []
    sys.path.insert(0, payload["base"])
    import cfgmod
    dds.accept_module("cfgmod")
    out = []
    for st in payload["steps"]:
        try:
            if "chdir" in st:
                os.chdir(os.path.join(payload["base"], st["chdir"]))
                out.append("U")
            elif "mkdir" in st:
                os.makedirs(os.path.join(payload["base"], st["mkdir"]), exist_ok=True)
                out.append("U")
            elif "symlink" in st:
                os.symlink(os.path.join(payload["base"], st["symlink"][0]), os.path.join(payload["base"], st["symlink"][1]))
                out.append("U")
            elif "repoint" in st:
                # a symbolic link of the test volume is made to designate another directory (a volume mounted elsewhere, a release switched)
                name = os.path.join(payload["base"], st["repoint"][1])
                os.remove(name)
                os.symlink(os.path.join(payload["base"], st["repoint"][0]), name)
                out.append("U")
            elif "rmtree" in st:
                import shutil
                shutil.rmtree(os.path.join(payload["base"], st["rmtree"]))
                out.append("U")
            elif "set_store" in st:
                c = st["set_store"]
                co = {"none": None, "true": True, "false": False}.get(c.get("cache_objects", "none"), c.get("cache_objects"))
                dds.set_store("local", internal_dir=c["internal_dir"], data_dir=c["data_dir"], cache_objects=co)
                out.append("U:" + type(_api._store()).__name__)
            elif "keep" in st:
                cfgmod.SALT = st["keep"][1]
                n0 = cfgmod.COUNT[0]
                r = dds.keep(st["keep"][0], cfgmod.f)
                out.append(f"V:{r}:ran={cfgmod.COUNT[0] - n0}")
            elif "load" in st:
                out.append("L:" + str(dds.load(st["load"])))
        except DDSException as e:
            c = getattr(e, "error_code", None)
            out.append("E:" + (c.name if c is not None else "NONE"))
        except BaseException as e:  # noqa
            out.append("X:" + type(e).__name__ + ":" + str(e)[:100])
    print("@@RESULT@@" + json.dumps(out))


if __name__ == "__main__":
    main()
