"""C03, import state of the process as a dimension.

One program (fixed source text, fresh store per evaluation) is evaluated in processes that differ only by what the
interpreter has imported so far: nothing but the module of the pipeline (a fresh process), the same process again (the first
evaluation executed the function-local imports of the bodies), unrelated code of the host program imported the helper
modules before (or after) the module of the pipeline, the helpers were imported and then removed from sys.modules (test
runners, reloaders; before / after the module of the pipeline was imported; with / without the attribute of the parent package),
only the top-level / only the sub-modules were imported, another pipeline of the same module that uses some of the helpers was
evaluated earlier.

The programs bind names INSIDE function bodies in every way that is not a plain assignment: import X / import X as a (a =
no module, or the name of ANOTHER module) / import P.sub / import P.sub.deep / from X import f / from P import sub (also where a
top-level module of the same name exists) / imports of a module that is not accepted / of a standard-library module; an import in a
branch that never executes; in a helper reached by a plain call, in a helper passed by name; a helper module that itself keeps a path;
and names that merely COINCIDE with importable modules: the parameter of an inner function or of a lambda, the name of an inner
function, an `except ... as` name.  Two controls: a helper imported at the top of the module (only an eviction changes its
state) and a function without any of this.  The shapes whose refusal is plausible (dotted imports, a helper module that keeps a
path) have entry functions of their own, so that a loud refusal of one does not hide what the others do.

Expected results come from the property: the reference is the first evaluation in a fresh process; its value must be the value
of the plain execution of the same text (a pass-through stub stands for dds, in a process of its own); where the fresh process
refuses the program loudly (allowed, counted) the first evaluation that succeeds is the reference.  Every other evaluation
(of the same entry function) must hand the SAME path -> signature map to Store.sync_paths and return the same value, or fail
loudly: an exception, no other map synced, no blob stored under a key that the reference does not assign.  The driver reports
which of the modules were in sys.modules right before each evaluation, so the harness can tell (and count) that the import
state really differed."""
import random
import tempfile

import common as C

DRIVER = "drive_c03imp.py"

# standard-library modules that user code plausibly shadows with a local name (nothing here prints / opens anything on import)
STD_NAMES = ("code", "secrets", "statistics", "calendar", "sched", "wave", "cmd", "queue", "shlex", "numbers", "fractions",
             "colorsys", "pprint", "profile", "getopt", "mailcap", "symtable", "tabnanny", "netrc", "plistlib")
# (module, expression over RATE) for a function-local import of a standard-library module that the body really uses
STD_USES = (("colorsys", "int(colorsys.rgb_to_hsv(0.2, 0.4, RATE)[2])"), ("fractions", "int(fractions.Fraction(RATE, 1))"),
            ("statistics", "int(statistics.mean([RATE, RATE]))"), ("calendar", "calendar.monthrange(2020, 2)[1] + RATE"),
            ("shlex", 'len(shlex.split("a b")) + RATE'), ("getopt", 'len(getopt.getopt(["-a"], "a")[0]) + RATE'))

SHAPES = ("import-top", "import-top-alias", "import-alias-is-other-module", "import-sub", "import-sub-deep", "from-top-import-function",
          "from-pkg-import-module", "from-pkg-import-module-named-like-top-level", "import-not-accepted", "import-stdlib",
          "import-in-dead-branch", "import-in-called-helper", "import-in-helper-passed-by-name", "imported-module-keeps-a-path",
          "inner-param-named-like-accepted-module", "inner-param-named-like-stdlib", "lambda-param-named-like-stdlib",
          "inner-def-named-like-stdlib", "except-as-named-like-stdlib", "module-level-import", "no-import")


def _shape(kind, n, pkg, rng):
    """-> (helper definitions (lines, module level, before the function), body lines of the kept function k<n>, modules the shape depends on)"""
    U, U2, CFG, EXT = f"{pkg}_units", f"{pkg}_units2", f"{pkg}_cfg", f"{pkg}_ext"
    std = rng.choice(STD_NAMES)
    if kind == "import-top":
        return [], [f"import {U}", f"return {U}.to_si(RATE)"], [U]
    if kind == "import-top-alias":
        return [], [f"import {U} as un", "return un.to_si(RATE) + BIAS"], [U]
    if kind == "import-alias-is-other-module":
        # `import units_v2 as units`: the local name is the name of another module with the same API
        return [], [f"import {U2} as {U}", f"return {U}.to_si(RATE)"], [U, U2]
    if kind == "import-sub":
        return [], [f"import {pkg}.tbl", f"return {pkg}.tbl.look(RATE)"], [f"{pkg}.tbl"]
    if kind == "import-sub-deep":
        return [], [f"import {pkg}.sub.deep", f"return {pkg}.sub.deep.dig(RATE) + BIAS"], [f"{pkg}.sub", f"{pkg}.sub.deep"]
    if kind == "from-top-import-function":
        return [], [f"from {U} import to_si", "return to_si(RATE)"], [U]
    if kind == "from-pkg-import-module":
        return [], [f"from {pkg} import tbl", "return tbl.look(RATE) + 1"], [f"{pkg}.tbl"]
    if kind == "from-pkg-import-module-named-like-top-level":
        return [], [f"from {pkg} import {CFG}", f"return {CFG}.level(RATE)"], [f"{pkg}.{CFG}", CFG]
    if kind == "import-not-accepted":
        return [], [f"import {EXT}", f"return {EXT}.norm(RATE)"], [EXT]
    if kind == "import-stdlib":
        m, e = rng.choice(STD_USES)
        return [], [f"import {m}", f"return {e}"], [m]
    if kind == "import-in-dead-branch":
        return [], ["if RATE > 1000:", f"    import {U}", f"    return {U}.to_si(RATE)", "return RATE + BIAS"], [U]
    if kind == "import-in-called-helper":
        return [f"def conv{n}(x):", f"    import {U2}", f"    return {U2}.to_si(x)", "", ""], [f"return conv{n}(RATE) + 1"], [U2]
    if kind == "import-in-helper-passed-by-name":
        return [f"def conv{n}(x):", f"    import {pkg}.tbl as t", f"    import {U}", f"    return t.look(x) + {U}.to_si(x)", "", ""], \
            [f"return sum(map(conv{n}, [RATE, BIAS]))"], [U, f"{pkg}.tbl"]
    if kind == "imported-module-keeps-a-path":
        return [], [f"import {U}", f"return {U}.stored(RATE)"], [U]
    if kind == "inner-param-named-like-accepted-module":
        return [], [f"def inner({U}):", f"    return {U} + BIAS", "return inner(RATE)"], [U]
    if kind == "inner-param-named-like-stdlib":
        return [], [f"def label({std}):", f"    return {std} * 2 + BIAS", "return label(RATE)"], [std]
    if kind == "lambda-param-named-like-stdlib":
        return [], [f"g = lambda {std}: {std} + BIAS", "return g(RATE)"], [std]
    if kind == "inner-def-named-like-stdlib":
        return [], [f"def {std}(v):", "    return v + BIAS", f"return {std}(RATE)"], [std]
    if kind == "except-as-named-like-stdlib":
        return [], ["try:", "    return 10 // (RATE - RATE)", f"except ZeroDivisionError as {std}:", f"    return len(str({std})) + RATE"], [std]
    if kind == "module-level-import":
        # no function-local binding at all: the module of the pipeline imports the helper at its top (the control of the catalogue: only
        # an eviction can make its state differ)
        return [], [f"return {pkg}_base.shift(RATE) + BIAS"], [f"{pkg}_base"]
    if kind == "no-import":
        return [], ["return RATE * 2 + BIAS"], []
    raise ValueError(kind)


# shapes that get an entry function of their own (a loud refusal of one of them must not hide what the others do):
# the dotted forms (the library refuses `import p.sub; p.sub.f()` with OBJECT_PATH_NOT_FOUND while p.sub is not loaded: loud, known as F32a-C14)
# and the helper module that keeps a path itself (a keep that the analysis does not see is refused at run time)
ENTRY_OF = {"import-sub": "pipeline_sub", "import-sub-deep": "pipeline_sub", "imported-module-keeps-a-path": "pipeline_nested",
            "module-level-import": "pipeline_static"}
ENTRIES = ("pipeline", "pipeline_sub", "pipeline_nested", "pipeline_static")


FIXED = ("import-top", "no-import", "module-level-import")


def gen_lazy(rng, idx, kinds=None):
    """-> program spec.  Every kept function k<i> has one shape; /k<i>_<shape> is its path; it is kept by one entry function."""
    pkg = f"vqi{idx}"
    # every program: the plain `import X` and the two controls; plan() deals the other shapes round the programs
    kinds = list(kinds if kinds is not None else rng.sample([s for s in SHAPES if s not in FIXED], rng.randint(5, 7))) + list(FIXED)
    rng.shuffle(kinds)
    consts = {k: rng.randint(2, 9) for k in ("RATE", "BIAS", "SCALE", "SCALE2", "K", "D", "LVL_SUB", "LVL_TOP", "SHIFT")}
    funcs = []
    for i, kind in enumerate(kinds):
        helpers, body, deps = _shape(kind, i, pkg, rng)
        funcs.append({"name": f"k{i}", "shape": kind, "path": f"/k{i}_{kind}", "helpers": helpers, "body": body, "deps": deps,
                      "entry": ENTRY_OF.get(kind, "pipeline")})
    # the other pipeline of the module (evaluated earlier in some processes): re-uses the text of two of the kept functions that import something
    imp = [f for f in funcs if f["shape"].startswith(("import-", "from-")) and f["shape"] != "import-in-dead-branch" and f["entry"] == "pipeline"]
    warm = rng.sample(imp, min(2, len(imp)))
    return {"pkg": pkg, "funcs": funcs, "consts": consts, "warm": [f["name"] for f in warm],
            "entries": [e for e in ENTRIES if any(f["entry"] == e for f in funcs)]}


def modules_of(spec):
    """the helper modules of the program (everything importable except the module of the pipeline), parents first"""
    pkg = spec["pkg"]
    return [f"{pkg}_units", f"{pkg}_units2", f"{pkg}_cfg", f"{pkg}_ext", f"{pkg}_base", f"{pkg}.tbl", f"{pkg}.sub", f"{pkg}.sub.deep", f"{pkg}.{pkg}_cfg"]


def watch_of(spec):
    std = sorted({d for f in spec["funcs"] for d in f["deps"] if "." not in d and not d.startswith(spec["pkg"])})
    return modules_of(spec) + std


def render(spec):
    pkg, c = spec["pkg"], spec["consts"]
    U, U2, CFG, EXT = f"{pkg}_units", f"{pkg}_units2", f"{pkg}_cfg", f"{pkg}_ext"
    main = ["import dds", f"import {pkg}_base", "", f"RATE = {c['RATE']}", f"BIAS = {c['BIAS']}", "", ""]
    for f in spec["funcs"]:
        main += f["helpers"]
        main += [f"def {f['name']}():"] + ["    " + ln for ln in f["body"]] + ["", ""]
    for ent in spec["entries"]:
        main += [f"def {ent}():", "    t = 0"]
        for f in spec["funcs"]:
            if f["entry"] == ent:
                main += [f'    t = t * 3 + dds.keep("{f["path"]}", {f["name"]})']
        main += ["    return t", "", ""]
    main += ["def warmup():", "    t = 1"]
    for nm in spec["warm"]:
        main += [f'    t = t * 5 + dds.keep("/warm_{nm}", {nm})']
    main += ["    return t", ""]
    return {
        f"{pkg}/__init__.py": "",
        f"{pkg}/main.py": "\n".join(main),
        f"{pkg}/tbl.py": f"K = {c['K']}\n\n\ndef look(x):\n    return x + K\n",
        f"{pkg}/sub/__init__.py": "",
        f"{pkg}/sub/deep.py": f"D = {c['D']}\n\n\ndef dig(x):\n    return x * D\n",
        f"{pkg}/{CFG}.py": f"LEVEL = {c['LVL_SUB']}\n\n\ndef level(x):\n    return x + LEVEL\n",
        f"{CFG}.py": f"LEVEL = {c['LVL_TOP'] + 10}\n\n\ndef level(x):\n    return x - LEVEL\n",
        f"{U}.py": f"import dds\n\nSCALE = {c['SCALE']}\n\n\ndef to_si(x):\n    return x * SCALE\n\n\ndef _impl(x):\n    return x + SCALE\n\n\n"
                   f"def stored(x):\n    return dds.keep(\"/units_inner\", _impl, x) + 1\n",
        f"{U2}.py": f"SCALE2 = {c['SCALE2']}\n\n\ndef to_si(x):\n    return x * SCALE2 + 1\n",
        f"{EXT}.py": "def norm(x):\n    return x % 7\n",
        f"{pkg}_base.py": f"SHIFT = {c['SHIFT']}\n\n\ndef shift(x):\n    return x + SHIFT\n",
    }


def accept_of(spec):
    pkg = spec["pkg"]
    return [pkg, f"{pkg}_units", f"{pkg}_units2", f"{pkg}_cfg", f"{pkg}_base"]


def _ev(fn="pipeline"):
    return {"op": "eval", "fn": fn}


def processes(tier, rng, spec):
    """-> [(process name, steps, hashseed)]; the process "fresh-then-again:<entry>" starts with the reference evaluation of <entry>"""
    mods = modules_of(spec)
    std = [m for m in watch_of(spec) if m not in mods]
    tops = [m for m in mods if "." not in m]
    subs = [m for m in mods if "." in m]
    allm = mods + std
    others = [_ev(e) for e in spec["entries"] if e != "pipeline"]        # evaluated after the main pipeline: in whatever state it leaves
    P = [("fresh-then-again:pipeline", [_ev(), _ev()] + others, "0")]
    P += [(f"fresh-then-again:{e['fn']}", [e, e], "0") for e in others]
    P += [("helpers-imported-before-the-pipeline-module", [{"op": "import", "mods": allm}, {"op": "import_entry"}, _ev()] + others, "0"),
          ("helpers-imported-after-the-pipeline-module", [{"op": "import_entry"}, {"op": "import", "mods": allm}, _ev()], "0"),
          ("helpers-imported-then-evicted", [{"op": "import", "mods": allm}, {"op": "evict", "mods": allm}, _ev(), _ev()] + others, "0"),
          ("helpers-evicted-after-the-pipeline-module-was-imported", [{"op": "import_entry"}, {"op": "import", "mods": allm}, {"op": "evict", "mods": allm}, _ev()] + others, "0"),
          ("after-another-pipeline", [_ev("warmup"), _ev(), _ev("warmup")], "0")]
    some = sorted(rng.sample(allm, max(1, len(allm) // 2)))
    P.append(("some-helpers-imported", [{"op": "import", "mods": some}, _ev()] + others, "0"))
    if tier != "quick":
        P += [("only-top-level-helpers-imported", [{"op": "import", "mods": tops}, _ev()] + others, "0"),
              ("only-sub-modules-imported", [{"op": "import", "mods": subs}] + others + [_ev()], "0"),
              ("only-stdlib-imported", [{"op": "import", "mods": std}, _ev()], "0"),
              ("sub-modules-evicted-and-detached", [{"op": "import", "mods": mods}, {"op": "evict", "mods": subs[::-1], "detach": True}] + others + [_ev(), _ev()], "0"),
              ("sub-modules-evicted-parent-attribute-left", [{"op": "import_entry"}, {"op": "import", "mods": subs}, {"op": "evict", "mods": subs}] + others + [_ev()], "0"),
              ("evicted-between-evaluations", [_ev(), {"op": "evict", "mods": allm}, _ev()] + others, "0"),
              ("fresh,hashseed=random", [_ev(), _ev()], "random"),
              ("helpers-imported,hashseed=random", [{"op": "import", "mods": allm}, _ev()] + others, "random")]
        for j in range(4):
            some = sorted(rng.sample(allm, rng.randint(1, len(allm) - 1)))
            steps = [{"op": "import", "mods": some}]
            if rng.random() < 0.5:
                steps.insert(rng.randrange(2), {"op": "import_entry"})
            if rng.random() < 0.4:
                steps.append({"op": "evict", "mods": rng.sample(some, rng.randint(1, len(some))), "detach": rng.random() < 0.5})
            if rng.random() < 0.3:
                steps.append(_ev("warmup"))
            evs = [_ev()] + others
            rng.shuffle(evs)
            P.append((f"random-import-state-{j}", steps + evs, "0"))
    return P


def payload_of(spec, steps, plain=False):
    return {"files": render(spec), "accept": accept_of(spec), "module": spec["pkg"] + ".main", "watch": watch_of(spec), "steps": steps, "plain": plain}


def n_programs(tier):
    return 3 if tier == "quick" else 10


def plan(tier, seed):
    """-> list of (spec, [(process name, payload, hashseed)]); the plain execution is the last process of each program"""
    rng = random.Random(seed * 6007 + 11)
    out = []
    rest = [s for s in SHAPES if s not in FIXED]
    rng.shuffle(rest)
    cur = 0
    for i in range(n_programs(tier)):
        # 6 per program in the quick tier: its 3 programs cover the catalogue
        k = 6 if tier == "quick" else rng.randint(5, 7)
        spec = gen_lazy(rng, i, [rest[(cur + j) % len(rest)] for j in range(k)])
        cur += k
        procs = [(pn, payload_of(spec, steps), hs) for pn, steps, hs in processes(tier, rng, spec)]
        procs.append(("plain-execution", payload_of(spec, [_ev(e) for e in spec["entries"] + ["warmup"]], plain=True), "0"))
        out.append((spec, procs))
    return out


def run_proc(job):
    pname, payload, hashseed = job
    payload = dict(payload, root=tempfile.mkdtemp(prefix="c03imp_", dir=C.scratch_dir()))
    try:
        return C.run_driver(DRIVER, payload, hashseed=hashseed, timeout=600)
    except Exception as e:  # noqa
        return {"harness_error": str(e)[-600:]}


def _short(m):
    return {p: s[:12] for p, s in sorted(m.items())} if isinstance(m, dict) else m


def _steps_text(steps, upto):
    t = []
    for st in steps[:upto]:
        if st["op"] == "import":
            t.append("import " + ",".join(st["mods"]))
        elif st["op"] == "evict":
            t.append(("evict+detach " if st.get("detach") else "evict ") + ",".join(st["mods"]))
        elif st["op"] == "import_entry":
            t.append("import the pipeline module")
        else:
            t.append(f"dds.eval({st['fn']})")
    return "; ".join(t) or "nothing"


def judge(rep, spec, results, stats):
    """results: [(process name, payload, hashseed, driver result)] of ONE program, the plain execution last"""
    tag = spec["pkg"]
    shape_of = {f["path"]: f for f in spec["funcs"]}
    shape_of.update({"/warm_" + f["name"]: f for f in spec["funcs"]})
    byname = {r[0]: r for r in results}

    def rp(pname, extra=None, ref_proc=None):
        r, r0 = byname[pname], byname[ref_proc or "fresh-then-again:pipeline"]
        return {"import_state": dict({"driver": DRIVER, "process": pname, "payload": r[1], "hashseed": r[2],
                                      "reference_process": {"process": r0[0], "payload": r0[1], "hashseed": r0[2]},
                                      "plain_payload": results[-1][1]}, **(extra or {}))}
    for pname, payload, hs, res in results:
        if "harness_error" in res or res.get("import_error"):
            rep.violation("harness-error:c03-import-state", f"{tag} process {pname}: driver failed: {str(res.get('harness_error') or res.get('import_error'))[-300:]}",
                          rp(pname), no_input=True)
            return
    plain = {e["fn"]: e for e in results[-1][3]["evals"]}
    if any(e["error"] for e in plain.values()):
        rep.violation("harness-error:c03-import-state", f"{tag}: the plain execution of the generated program fails: {[e['error'] for e in plain.values()]}",
                      rp(results[-1][0]), no_input=True)
        return
    # reference per entry function: its first evaluation in a fresh process if that one succeeds, else (loud there: allowed) the first successful one
    refs = {}
    order = sorted(results[:-1], key=lambda r: 0 if r[0].startswith("fresh-then-again:") or r[0] == "after-another-pipeline" else 1)
    for fn in spec["entries"] + ["warmup"]:
        home = "after-another-pipeline" if fn == "warmup" else f"fresh-then-again:{fn}"
        cands = [(r[0], e) for r in [byname[home]] + [x for x in order if x[0] != home] for e in r[3]["evals"] if e["fn"] == fn]
        good = [(pn, e) for pn, e in cands if e["error"] is None and len(e["synced"]) == 1]
        if cands and cands[0][1]["error"] is not None:
            stats["fresh_process_refuses"].append(f"{tag}:{fn}:{cands[0][1]['error'][:60]}")
        if not good:
            rep.violation("harness-error:c03-import-state", f"{tag}: no process evaluates {fn}: {cands[0][1]['error'] if cands else 'never run'}", rp(home), no_input=True)
            continue
        refs[fn] = good[0]
        pn, e = good[0]
        if e["value"] != plain[fn]["value"]:
            rep.violation("import-state:value-differs-from-plain-execution", f"{tag}: dds.eval({fn}) returns {e['value']} in the process [{pn}], the plain execution "
                          f"of the same text returns {plain[fn]['value']}", rp(pn, {"observed": e}))
    for pname, payload, hs, res in results[:-1]:
        for e in res["evals"]:
            if e["fn"] not in refs:
                continue
            rname, ref = refs[e["fn"]]
            ref_map = ref["synced"][0]
            allowed = set(ref_map.values())
            changed = sorted(m for m in e["present"] if e["present"][m] != ref["present"].get(m))
            stats["evaluations"] += 1
            stats["by_process"][pname.split(":")[0]] = stats["by_process"].get(pname.split(":")[0], 0) + 1
            if e is not ref:
                stats["modules_in_other_state_than_reference"] += len(changed)
                stats["evaluations_with_other_import_state"] += bool(changed)
            ok = e["error"] is None
            rep.case(f"import-state:{tag}:{pname}:{e['step']}", nontrivial=ok and bool(e["synced"]))
            stats["agree" if ok else "loud"] += 1
            if e.get("ctx_left"):
                stats["ctx_left"] += 1
            where = (f"{tag} process [{pname}], evaluation of {e['fn']} after [{_steps_text(payload['steps'], e['step'])}] "
                     f"(sys.modules differs from the reference [{rname}, step {ref['step']}] in: {', '.join(changed) or 'nothing watched'})")
            bad = [m for m in e["synced"] if m != ref_map]
            if bad:
                diff = sorted(p for p in set(ref_map) | set(bad[0]) if ref_map.get(p) != bad[0].get(p))
                shapes = sorted({shape_of[p]["shape"] for p in diff if p in shape_of})
                for sh in shapes or ["other-path"]:
                    p0 = ([p for p in diff if p in shape_of and shape_of[p]["shape"] == sh] or diff)[0]
                    f0 = shape_of.get(p0)
                    body = (" (kept function with the body `" + "; ".join(x.strip() for x in f0["helpers"][:-2] + f0["body"]) + "`)") if f0 else ""
                    # modules removed from sys.modules by hand are a state of their own (distinct key: a module object that is still reachable
                    # through its parent package but is no longer registered)
                    evicted = any(st["op"] == "evict" for st in payload["steps"][:e["step"]])
                    rep.violation("import-state-dependent:" + ("evicted:" if evicted else "") + sh,
                                  f"{where}: " + ("the evaluation succeeds" if ok else f"the evaluation fails ({e['error'][:60]})") +
                                  f" and hands other signatures to the store for the same text: {len(diff)} path(s) differ ({', '.join(diff)}), "
                                  f"e.g. {p0}{body} -> {str(bad[0].get(p0))[:12]} instead of {str(ref_map.get(p0))[:12]}",
                                  rp(pname, {"observed": e, "reference": ref, "differing_paths": diff, "shapes": shapes}, rname))
                continue
            stray = [k for k in e["stored"] if k not in allowed]
            if stray:
                rep.violation("import-state-dependent:blob", f"{where}: a blob is stored under the key {stray[0][:12]}, which the reference assigns to no path "
                              f"(outcome: {e['error'] or 'success'})", rp(pname, {"observed": e, "reference": ref, "stray_keys": stray}, rname))
                continue
            if ok and not e["synced"]:
                rep.violation("import-state-dependent:nosync", f"{where}: the evaluation returns {e['value']} without committing any path",
                              rp(pname, {"observed": e, "reference": ref}, rname))
            elif ok and e["value"] != plain[e["fn"]]["value"]:
                rep.violation("import-state-dependent:value", f"{where}: same signatures but the value is {e['value']}, the plain execution gives {plain[e['fn']]['value']}",
                              rp(pname, {"observed": e, "reference": ref}, rname))
            elif not ok:
                # loud and nothing wrong committed: allowed by the rule; counted and listed
                stats["loud_cases"].append(f"{tag}:{pname}:{e['fn']}:{e['error'][:60]}")


def start(tier, seed, ex):
    plans = plan(tier, seed)
    jobs = [(spec, p) for spec, procs in plans for p in procs]
    return plans, jobs, [ex.submit(run_proc, p) for _, p in jobs]


def finish(rep, started):
    plans, jobs, futs = started
    results = [f.result() for f in futs]
    stats = {"programs": len(plans), "processes": len(jobs), "kept_functions": sum(len(s["funcs"]) for s, _ in plans), "shapes": {},
             "evaluations": 0, "by_process": {}, "agree": 0, "loud": 0, "ctx_left": 0, "fresh_process_refuses": [], "loud_cases": [],
             "evaluations_with_other_import_state": 0, "modules_in_other_state_than_reference": 0}
    k = 0
    for spec, procs in plans:
        for f in spec["funcs"]:
            stats["shapes"][f["shape"]] = stats["shapes"].get(f["shape"], 0) + 1
        rs = [(pn, pl, hs, results[k + j]) for j, (pn, pl, hs) in enumerate(procs)]
        k += len(procs)
        judge(rep, spec, rs, stats)
    stats["evaluations_same_signatures"] = stats.pop("agree")
    stats["evaluations_failing_loudly"] = stats.pop("loud")
    stats["loud_cases"] = sorted(set(stats["loud_cases"]))[:10]
    stats["fresh_process_refuses"] = sorted(set(stats["fresh_process_refuses"]))[:10]
    return stats


def replay(r):
    import json
    x = r["import_state"]
    outs = []
    for nm, pl, hs in ((x["reference_process"]["process"], x["reference_process"]["payload"], x["reference_process"]["hashseed"]),
                       (x["process"], x["payload"], x["hashseed"])):
        res = C.run_driver(x["driver"], dict(pl, root=tempfile.mkdtemp(prefix="c03imp_replay_")), hashseed=hs, timeout=600)
        outs.append(res)
        print(json.dumps({"process": nm, "steps": pl["steps"],
                          "evals": [dict(e, synced=[_short(m) for m in e["synced"]], stored=[s[:12] for s in e["stored"]],
                                         present={m: v for m, v in e["present"].items() if v}) for e in res.get("evals", [])]}, indent=1))
    refs = {}
    for e in outs[0].get("evals", []) + outs[1].get("evals", []):
        if e["fn"] not in refs and e["synced"]:
            refs[e["fn"]] = e["synced"][0]
    bad = False
    for e in outs[1].get("evals", []):
        ref = refs.get(e["fn"])
        if ref is None:          # refused loudly everywhere it was tried, nothing synced: allowed
            bad = bad or bool(e["stored"])
        elif any(m != ref for m in e["synced"]) or any(s not in set(ref.values()) for s in e["stored"]) or (e["error"] is None and not e["synced"]):
            bad = True
    print("REPRODUCED" if bad else "not reproduced")
    return 1 if bad else 0
