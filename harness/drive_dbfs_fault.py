"""Implementation driver for C19, fault dimension: the DBFS store over the in-process fake dbutils whose n-th file-system call fails.
stdin: {"base": dir (contains dbfsfault.py), "commit_type": name, "defaults": {global: value},
        "prefix": [step...], "faulted": step, "after": [step...], "paths": [path...],
        "modes": {op: [mode...]}, "excs": [exc...], "torn_put": bool, "only": [[n, mode, exc]...] | null, "max": int | null, "seed": int}
step: {"set": {global: value}, then one of "keep": [path, function] | "eval": function | "load": path}
One trial = fresh file system + store; prefix (no fault); the faulted step with the n-th file-system call failing; a probe of the store
(every blob key: has_blob / fetch_blob / raw bytes; every path: record / load; all files but the blob metadata); the steps after (no fault); loads; probe; all files.
The first trial has no fault: it gives the number and kind of the calls of the faulted step, over which the faults are enumerated."""
import json
import os
import random
import re
import sys

sys.path.insert(0, os.path.dirname(os.path.abspath(__file__)))

BLOBS = "dbfs:/s/internal/blobs/"


def main():
    payload = json.load(sys.stdin)
    import dds
    from dds import _api
    from dds.structures import DDSException
    import fake_dbutils
    sys.path.insert(0, payload["base"])
    import dbfsfault
    dds.accept_module("dbfsfault")

    def outcome(thunk):
        try:
            return "V:" + repr(thunk())
        except DDSException as e:
            c = getattr(e, "error_code", None)
            return "E:" + (c.name if c is not None else "NONE") + ":" + str(e)[:80]
        except (fake_dbutils.InjectedFault, fake_dbutils.InjectedKill):
            return "F:injected"
        except BaseException as e:  # noqa
            return "X:" + type(e).__name__ + ":" + re.sub(r"file:///\S*", "file://<tmp>", str(e))[:100]

    def do(step):
        for k, v in step.get("set", {}).items():
            setattr(dbfsfault, k, v)
        if "keep" in step:
            return outcome(lambda: dds.keep(step["keep"][0], getattr(dbfsfault, step["keep"][1])))
        if "eval" in step:
            return outcome(lambda: dds.eval(getattr(dbfsfault, step["eval"])))
        return outcome(lambda: dds.load(step["load"]))

    def probe(dbu):
        store = _api._store()
        keys = sorted(set(k[len(BLOBS):].split(".meta")[0] for k in dbu.fs.files if k.startswith(BLOBS)))
        blobs = {}
        for k in keys:
            has = outcome(lambda: store.has_blob(k))
            raw = dbu.fs.files.get(BLOBS + k)
            blobs[k] = {"has": has, "fetch": outcome(lambda: store.fetch_blob(k)) if has == "V:True" else None,
                        "raw": None if raw is None else raw.hex()}
        paths = {}
        for p in payload["paths"]:
            rec = outcome(lambda: str(store.fetch_paths([p])[p]))
            paths[p] = {"record": rec, "load": outcome(lambda: dds.load(p)) if rec.startswith("V:") else None}
        return {"blobs": blobs, "paths": paths}

    def listing(dbu):
        return {k: v.hex() for k, v in dbu.fs.files.items() if not (k.startswith(BLOBS) and k.endswith(".meta"))}

    def trial(fault):
        for k, v in payload["defaults"].items():
            setattr(dbfsfault, k, v)
        dbu = fake_dbutils.FakeDbutils()
        dds.set_store("dbfs", internal_dir="dbfs:/s/internal", data_dir="dbfs:/s/data", dbutils=dbu, commit_type=payload["commit_type"])
        t = {"fault": fault, "mode": _api._store()._commit_type.name}
        t["prefix"] = [do(s) for s in payload["prefix"]]
        c0 = len(dbu.fs.calls)
        if fault is not None:
            dbu.fs.arm(fault[0], fault[1], fault[2], torn_put=bool(payload.get("torn_put")))
        t["faulted"] = do(payload["faulted"])
        fired = dbu.fs.fired
        dbu.fs.disarm()
        t["fired"] = None if fired is None else [re.sub(r"file:///\S*", "file://<tmp>", str(c)) for c in fired]
        calls = [list(c) for c in dbu.fs.calls[c0:]]
        t["mid"] = probe(dbu)
        t["mid_files"] = listing(dbu)
        t["after"] = [do(s) for s in payload["after"]]
        t["loads"] = {p: outcome(lambda: dds.load(p)) for p in payload["paths"]}
        t["end"] = probe(dbu)
        t["files"] = listing(dbu)
        t["blob_metas"] = sorted(k[len(BLOBS):-5] for k in dbu.fs.files if k.startswith(BLOBS) and k.endswith(".meta"))
        return t, calls

    ref, calls = trial(None)
    ref["calls"] = [[re.sub(r"file:///\S*", "file://<tmp>", str(c)) for c in call] for call in calls]
    faults = []
    for n, call in enumerate(calls, 1):
        for mode in payload["modes"].get(call[0], ["before"]):
            for exc in payload["excs"]:
                faults.append([n, mode, exc])
    total = len(faults)
    if payload.get("only") is not None:
        faults = [f for f in faults if f in payload["only"]] or payload["only"]
    elif payload.get("max") and len(faults) > payload["max"]:
        faults = sorted(random.Random(payload.get("seed", 0)).sample(faults, payload["max"]))
    trials = [trial(f)[0] for f in faults]
    print("@@RESULT@@" + json.dumps({"ref": ref, "enumerated": total, "trials": trials}))


if __name__ == "__main__":
    main()
