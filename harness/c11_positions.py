"""C11, syntactic placement part: the offending call of an ill-formed evaluation (a call closing a cycle, a nested
dds.eval, a keep under a sub-path of another keep) in every position of the source where Python executes it during the
evaluation: argument / keyword / starred argument of a tracked, of an untracked and of a builtin call, argument of a call
whose result is called or whose attribute is called (call chains), operand of every kind of expression, comprehension,
f-string, every kind of statement.  The expected verdict comes from the property (the error code of the offence, nothing
executed, store untouched); the well-formed twin of every placement must be accepted and give the result and the
execution log of plain Python execution (dds replaced by keep = call)."""
import concurrent.futures as cf
import json
import os
import shutil
import tempfile

import common as C
import progs as P

# (name, statement template, usable in the random call graphs, class).  {E} is the call expression under test; the
# statement may set x (the value returned by the function).  Relative indentation of nested blocks: 4 spaces.
POSITIONS = [
    ("assign", "x = {E}", True, "statement"),
    ("expr-stmt", "{E}", True, "statement"),
    ("return", "return {E}", False, "statement"),
    # argument positions: tracked head (function / class / method of the accepted module), untracked head, builtin head
    ("arg", "x = vident({E})", True, "argument"),
    ("kwarg", "x = vident(v={E})", True, "argument"),
    ("arg-nested", "x = vident(vident({E}))", True, "argument"),
    ("arg-second", "x = vsecond(0, {E})", True, "argument"),
    ("star-arg", "x = vident(*[{E}])", True, "argument"),
    ("dstar-arg", "x = vident(**{{'v': {E}}})", True, "argument"),
    ("ctor-arg", "x = VBox({E}).v", True, "argument"),
    ("method-arg", "x = VBox(0).put({E})", True, "argument"),
    ("ext-arg", "x = vlogmod.ident({E})", True, "argument"),
    ("ext-ctor-arg", "x = vlogmod.Box({E}).v", True, "argument"),
    ("builtin-arg", "x = str({E})", True, "argument"),
    # call chains: the call that has {E} as an argument is itself the head of a call
    ("chain-attr", "x = VBox({E}).get()", True, "chain"),
    ("chain-attr2", "x = VBox({E}).me().get()", True, "chain"),
    ("chain-call", "x = vmake({E})()", True, "chain"),
    ("chain-call-arg", "x = vmake(0)({E})", True, "chain"),
    ("chain-subscript", "x = vlist({E})[0]", True, "chain"),
    ("chain-ext", "x = vlogmod.Box({E}).get()", True, "chain"),
    ("chain-on-result", "x = {E}.upper()", False, "chain"),  # graphs: see literal-head-arg
    ("chain-method-arg-chain", "x = VBox(0).me().put({E})", True, "chain"),
    # operands
    ("ifexp-body", "x = {E} if vlogmod.yes() else None", True, "operand"),
    ("ifexp-test", "x = 1 if {E} else 0", True, "operand"),
    ("ifexp-else", "x = None if vlogmod.no() else {E}", True, "operand"),
    ("boolop", "x = vlogmod.yes() and {E}", True, "operand"),
    ("unaryop", "x = not {E}", True, "operand"),
    ("binop", "x = [{E}] + []", True, "operand"),
    ("compare", "x = ({E} == 0)", True, "operand"),
    ("subscript-value", "x = [{E}][0]", True, "operand"),
    ("subscript-index", "x = [0, 1][{E} is None]", True, "operand"),
    # (not in the random graphs: the library fails on the well-formed twins of these two, reported by the sweep only)
    ("literal-head-arg", "x = {{None: 1}}.get({E})", False, "operand"),
    ("dict-value", "x = {{'k': {E}}}", True, "operand"),
    ("tuple", "x = (0, {E})", True, "operand"),
    ("fstring", "x = f'{{{E}}}'", True, "operand"),
    ("listcomp-elt", "x = [{E} for _i in range(1)]", True, "operand"),
    ("listcomp-iter", "x = [_y for _y in [{E}]]", True, "operand"),
    ("listcomp-cond", "x = [1 for _i in range(1) if {E}]", True, "operand"),
    ("dictcomp", "x = {{_i: {E} for _i in range(1)}}", True, "operand"),
    ("genexp", "x = list({E} for _i in range(1))", True, "operand"),
    # statements
    ("starred-assign", "x, *_r = [{E}, 0]", True, "statement"),
    ("augassign", "x = []\nx += [{E}]", True, "statement"),
    ("annassign", "x: object = {E}", True, "statement"),
    ("walrus", "if (x := {E}):\n    pass", True, "statement"),
    ("if-body", "if vlogmod.yes():\n    x = {E}", True, "statement"),
    ("else-body", "if vlogmod.no():\n    pass\nelse:\n    x = {E}", True, "statement"),
    ("if-test", "if {E}:\n    x = 1", True, "statement"),
    ("for-iter", "for _y in [{E}]:\n    x = _y", True, "statement"),
    ("for-body", "for _i in range(1):\n    x = {E}", True, "statement"),
    ("while-test", "while {E} is None:\n    pass", True, "statement"),
    ("try-body", "try:\n    x = {E}\nfinally:\n    pass", True, "statement"),
    ("except-body", "try:\n    vlogmod.fail()\nexcept ValueError:\n    x = {E}", True, "statement"),
    ("finally-body", "try:\n    pass\nfinally:\n    x = {E}", True, "statement"),
    ("with-item", "with vlogmod.ctx({E}) as x:\n    pass", True, "statement"),
    ("with-body", "with vlogmod.ctx(0):\n    x = {E}", True, "statement"),
    ("assert", "assert {E} is not None", True, "statement"),
]
POS = {p[0]: p[1] for p in POSITIONS}
GRAPH_POSITIONS = [p[0] for p in POSITIONS if p[2]]
# by class, for the random graphs: the class is drawn first (the classes have very different sizes)
GRAPH_CLASSES = {c: [p[0] for p in POSITIONS if p[2] and p[3] == c and p[0] != "assign"] for c in ("argument", "chain", "operand", "statement")}

# accepted helpers (tracked heads of calls) written into every generated module
HELPERS = """class VBox(object):
    def __init__(self, v=None):
        self.v = v

    def get(self):
        return self.v

    def me(self):
        return self

    def put(self, v=None):
        self.v = v
        return v


def vident(v=None):
    return v


def vsecond(a=None, v=None):
    return v


def vmake(v=None):
    return lambda *a: v


def vlist(v=None):
    return [v]

""".split("\n")

# non-accepted helpers (untracked heads of calls), appended to the log module
LOGMOD_EXTRA = '''

import contextlib


class Box(object):
    def __init__(self, v):
        self.v = v

    def get(self):
        return self.v


def ident(v):
    return v


def yes():
    return True


def no():
    return False


def deep():
    # run-time guard of the generated recursive functions (they are never meant to run: the evaluation is ill-formed)
    return len(LOG) > 8


def fail():
    raise ValueError("expected")


@contextlib.contextmanager
def ctx(v):
    yield v
'''
LOGMOD_SRC = P.LOGMOD_SRC + LOGMOD_EXTRA


def place(pos, E):
    """The statement lines (relative indentation) executing the expression E in the given position."""
    return POS[pos].format(E=E).split("\n")


def plain(E):
    return place("assign", E)


def fn(name, stmts):
    """A logged function; the guard makes the recursive ones terminate when they are (wrongly) executed."""
    return ([f"def {name}():", f"    vlogmod.log({name!r})", "    if vlogmod.deep():", "        return 'stop'", "    x = None"]
            + ["    " + s for s in stmts] + ["    return x", "", ""])


def leaf(name):
    return fn(name, [f"x = 'v_{name}'"])


def scenario(kind, pos, s):
    """Source lines of scenario number s (functions r<s>, a<s>, ...) for modules m0 and m1; expected verdict."""
    r, a, b, c, K = f"r{s}", f"a{s}", f"b{s}", f"c{s}", f"K{s}"
    pl = lambda E: place(pos, E)  # noqa
    m1 = []
    if kind == "cycle-call":
        m0, exp = fn(r, pl(f"{a}()")) + fn(a, plain(f"{r}()")), "dds:CIRCULAR_CALL"
    elif kind == "cycle-deep":
        m0, exp = fn(r, plain(f"{a}()")) + fn(a, pl(f"{b}()")) + fn(b, plain(f"{a}()")), "dds:CIRCULAR_CALL"
    elif kind == "cycle-self":
        m0, exp = fn(r, pl(f"{r}()")), "dds:CIRCULAR_CALL"
    elif kind == "cycle-keep":
        m0, exp = fn(r, pl(f'dds.keep("/k{s}", {a})')) + fn(a, plain(f"{r}()")), "dds:CIRCULAR_CALL"
    elif kind == "cycle-keep-back":
        m0, exp = fn(r, plain(f"{a}()")) + fn(a, pl(f'dds.keep("/k{s}", {r})')), "dds:CIRCULAR_CALL"
    elif kind == "cycle-ref":
        m0, exp = fn(r, pl(f"vlogmod.apply({a})")) + fn(a, plain(f"{r}()")), "dds:CIRCULAR_CALL"
    elif kind == "cycle-method":
        m0 = [f"class {K}(object):", "    def run(self):", f"        return {r}()", "", ""] + fn(r, pl(f"{K}().run()"))
        exp = "dds:CIRCULAR_CALL"
    elif kind == "cycle-xmod":
        m0, m1, exp = fn(r, pl(f"m1.{a}()")), fn(a, plain(f"m0.{r}()")), "dds:CIRCULAR_CALL"
    elif kind in ("eval", "eval-bare"):
        m0, exp = fn(r, pl(f"dds.eval({a})" if kind == "eval" else f"eval({a})")) + leaf(a), "dds:EVAL_IN_EVAL"
    elif kind == "eval-deep":
        m0, exp = fn(r, plain(f"{a}()")) + fn(a, pl(f"dds.eval({b})")) + leaf(b), "dds:EVAL_IN_EVAL"
    elif kind == "overlap-after":
        m0 = fn(r, plain(f'dds.keep("/p{s}", {a})') + pl(f'dds.keep("/p{s}/q", {b})')) + leaf(a) + leaf(b)
        exp = "dds:OVERLAPPING_PATH"
    elif kind == "overlap-before":
        m0 = fn(r, ["y = " + f'dds.keep("/p{s}/q/z", {a})'] + pl(f'dds.keep("/p{s}/q", {b})')) + leaf(a) + leaf(b)
        exp = "dds:OVERLAPPING_PATH"
    elif kind == "overlap-deep":
        m0 = fn(r, plain(f'dds.keep("/p{s}", {a})') + plain(f"{c}()")) + fn(c, pl(f'dds.keep("/p{s}/q", {b})')) + leaf(a) + leaf(b)
        exp = "dds:OVERLAPPING_PATH"
    elif kind == "ok-call":
        m0, exp = fn(r, pl(f"{a}()")) + leaf(a), "plain"
    elif kind == "ok-keep":
        m0 = fn(r, ["y = " + f'dds.keep("/q{s}", {b})'] + pl(f'dds.keep("/p{s}", {a})')) + leaf(a) + leaf(b)
        exp = "plain"
    elif kind == "ok-deep":
        m0 = fn(r, plain(f"{c}()")) + fn(c, pl(f'dds.keep("/p{s}", {a})') + ["y = " + f"{b}()"]) + leaf(a) + leaf(b)
        exp = "plain"
    else:
        raise ValueError(kind)
    return m0, m1, exp


ILL_KINDS = ["cycle-call", "cycle-deep", "cycle-self", "cycle-keep", "cycle-keep-back", "cycle-ref", "cycle-method", "cycle-xmod",
             "eval", "eval-bare", "eval-deep", "overlap-after", "overlap-before", "overlap-deep"]
OK_KINDS = ["ok-call", "ok-keep", "ok-deep"]
# kinds whose call under test is a call of dds.keep / dds.eval itself (the others: a plain call, a method call, vlogmod.apply)
DDS_HEAD_KINDS = ["cycle-keep", "cycle-keep-back", "eval", "eval-bare", "eval-deep", "overlap-after", "overlap-before", "overlap-deep", "ok-keep", "ok-deep"]


def write_pkg(root, pkg, kind, scen):
    """scen: list of (s, pos).  One package per kind: modules m0, m1 hold the functions of all its scenarios."""
    src = {"m0": ["import dds", "import vlogmod", "from . import m1"] + (["from dds import eval"] if kind == "eval-bare" else []) + ["", ""] + HELPERS,
           "m1": ["import dds", "import vlogmod", "from . import m0", "", ""] + HELPERS}
    exps = {}
    for s, pos in scen:
        l0, l1, exp = scenario(kind, pos, s)
        src["m0"] += l0
        src["m1"] += l1
        exps[s] = exp
    pdir = os.path.join(root, pkg)
    os.makedirs(pdir, exist_ok=True)
    open(os.path.join(pdir, "__init__.py"), "w").write("")
    for m in src:
        open(os.path.join(pdir, m + ".py"), "w").write("\n".join(src[m]) + "\n")
    open(os.path.join(root, P.LOGMOD + ".py"), "w").write(LOGMOD_SRC)
    open(os.path.join(root, P.EXTMOD + ".py"), "w").write("")
    return exps


def run_kind(args):
    """All the scenarios of one kind in one process, each evaluated with dds.eval on the same (local) store: a rejected
    evaluation leaves it untouched, so that the scenarios are independent; the well-formed kinds are also run by plain
    Python in a second process."""
    kind, scen = args
    root = tempfile.mkdtemp(prefix="c11p_", dir=C.scratch_dir())
    try:
        exps = write_pkg(root, "vpp", kind, scen)
        store = {"kind": "local", "internal_dir": os.path.join(root, "i"), "data_dir": os.path.join(root, "d")}
        acts = [{"a": "call", "mod": "m0", "fn": f"r{s}", "style": "eval", "pos": [], "kw": []} for s, _ in scen]
        out = C.run_driver("drive_prog.py", {"root": root, "pkg": "vpp", "store": store, "actions": acts})
        ref = None
        if kind in OK_KINDS:
            ref = C.run_driver("drive_prog.py", {"root": root, "pkg": "vpp", "nodds": True, "kept_file": os.path.join(root, "kept.pkl"),
                                                 "actions": [dict(a, style="direct") for a in acts]})
        res = []
        for i, (s, pos) in enumerate(scen):
            l0, l1, _ = scenario(kind, pos, s)
            res.append({"kind": kind, "position": pos, "s": s, "expected": exps[s], "impl": out[i], "ref": ref[i] if ref else None,
                        "src": {"m0": "\n".join(l0), "m1": "\n".join(l1)}})
        return res
    except Exception as e:  # noqa
        return [{"kind": kind, "error": str(e)[-800:]}]
    finally:
        shutil.rmtree(root, ignore_errors=True)


def judge(r):
    """List of (violation key, what) for one scenario result.  Keys: position:<position>:<head of the call under test>:<what>."""
    kind, pos, out = r["kind"], r["position"], r["impl"]["out"]
    head = "dds-call" if kind in DDS_HEAD_KINDS else "plain-call"
    where = f"{kind} with the offending call in position '{pos}' [{POS[pos].format(E='<call>')!r}], dds.eval(m0.r{r['s']})"
    ran = r["impl"]["log"]
    wrote = [x[0] for x in r["impl"]["rec"] if x[0] in ("put", "sync")]
    bad = []
    if r["expected"] == "plain":
        where = f"well-formed {kind} with the call in position '{pos}' [{POS[pos].format(E='<call>')!r}], dds.eval(m0.r{r['s']})"
        if out != r["ref"]["out"] or ran != r["ref"]["log"]:
            key = "well-formed-rejected" if out.startswith("dds:") else "well-formed-differs-from-plain-execution"
            bad.append((f"position:{pos}:{head}:{key}", f"{where}: {out[:60]} log {ran} but plain execution gives {r['ref']['out'][:60]} log {r['ref']['log']}"))
        return bad
    fam = {"dds:CIRCULAR_CALL": "cycle-not-rejected", "dds:EVAL_IN_EVAL": "nested-eval-not-rejected", "dds:OVERLAPPING_PATH": "overlap-eval-missed"}[r["expected"]]
    if out != r["expected"]:
        bad.append((f"position:{pos}:{head}:{fam}", f"{where}: expected {r['expected']} but the evaluation gave {out[:60]} (executed {ran[:6]})"))
    if ran or wrote:
        bad.append((f"position:{pos}:{head}:rejected-but-ran", f"{where}: the ill-formed evaluation executed {ran[:8]} and made store calls {wrote[:6]}"))
    return bad


def sweep_cases(tier, rng):
    """quick: every position with every kind of cycle / nested eval / overlap / well-formed twin (one process per kind);
    thorough: the same (the sweep is exhaustive already), twice, in two different orders of the scenarios."""
    jobs = []
    for rnd in range(1 if tier == "quick" else 2):
        for kind in ILL_KINDS + OK_KINDS:
            names = [p[0] for p in POSITIONS]
            if rnd:
                rng.shuffle(names)
            jobs.append((kind, [(i, p) for i, p in enumerate(names)]))
    return jobs


def run(rep, tier, seed, proof_ok, rng):
    jobs = sweep_cases(tier, rng)
    with cf.ThreadPoolExecutor(max_workers=C.NPROC) as ex:
        res = list(ex.map(run_kind, jobs))
    n, verdicts = 0, {}
    for rs in res:
        for r in rs:
            if "error" in r:
                rep.violation("harness-error:c11p", f"position sweep of kind {r['kind']} could not be run: " + r["error"][-300:], r, no_input=True)
                continue
            n += 1
            rep.case(f"position:{r['kind']}:{r['position']}")
            out = r["impl"]["out"]
            verdicts[out if not out.startswith("ok") else "ok"] = verdicts.get(out if not out.startswith("ok") else "ok", 0) + 1
            for key, what in judge(r):
                rep.violation(key, what, {"position_sweep": True, "kind": r["kind"], "position": r["position"], "expected": r["expected"],
                                          "impl": {k: r["impl"].get(k) for k in ("out", "log", "tb")}, "ref": r["ref"], "src": r["src"],
                                          "cmd": "harness/c11_positions.py: run_kind((kind, [(0, position)])) then dds.eval(vpp.m0.r0)"})
    rep.extra["position_sweep"] = {"positions": len(POSITIONS), "ill_formed_kinds": len(ILL_KINDS), "well_formed_kinds": len(OK_KINDS),
                                   "scenarios": n, "verdicts": verdicts}
    return n


def replay(r):
    res = run_kind((r["kind"], [(0, r["position"])]))[0]
    if "error" in res:
        print(res["error"])
        return 2
    bad = judge(res)
    print(res["src"]["m0"])
    print(res["src"]["m1"])
    print(json.dumps({"kind": r["kind"], "position": r["position"], "expected": res["expected"], "impl": res["impl"]["out"],
                      "executed": res["impl"]["log"], "ref": res["ref"], "violations": bad}, indent=1))
    print("REPRODUCED" if bad else "not reproduced")
    return 1 if bad else 0
