"""Trace correspondence for the file-system layer (C06 / C07 / C16): the system calls of the real LocalFileStore for a
sequence of store operations vs the system calls of the Coq model (L6_Conc.LocalProgs, run sequentially)."""
import json
import random
import re

import common as C

PRELUDE = """From Coq Require Import List String.
From DDS Require Import Base.Bytes L6_Conc.FsOps L6_Conc.LocalProgs L6_Conc.RunFs.
Import ListNotations.
"""
KEYS = ["aa01", "bb02", "cc03"]
VALUE = {"aa01": "v-aa", "bb02": "v-bb", "cc03": "v-cc"}
PATHS = ["/p", "/d/q", "/d/e/r", "/d/s"]
TMP = re.compile(r"\.tmp\.\d+\.[0-9a-f]{32}")


def canon_real(log):
    """Mutating system calls of a gate log, temporaries canonicalised, consecutive writes to one file collapsed."""
    out = []
    for e in log:
        op = e[1]
        args = [TMP.sub(".tmp", a).replace(":/", "/").rstrip("/") if isinstance(a, str) else a for a in e[2:]]
        if op == "mkdir":
            out.append(f"mkdir {args[0]}")
        elif op == "open" and "w" in str(args[1]):
            out.append(f"open {args[0]}")
        elif op == "write":
            w = f"write {args[0]}"
            if not out or out[-1] != w:
                out.append(w)
        elif op in ("replace", "rename"):
            out.append(f"replace {args[0]} {args[1]}")
        elif op == "symlink":
            out.append(f"symlink {args[0]} {args[1]}")
        elif op in ("remove", "unlink"):
            out.append(f"remove {args[0]}")
    return out


def op_coq(op):
    h = C.hexs
    t = op[0]
    if t == "put":
        return f"OpStore {h(op[1])}"
    if t == "has":
        return f"OpHas {h(op[1])}"
    if t == "fetch":
        return f"OpFetch {h(op[1])}"
    if t == "sync":
        return "OpSync [" + "; ".join(f"(loc_of_segs [{'; '.join(h(s) for s in p.split('/') if s)}], {h(k)})" for p, k in op[1]) + "]"
    if t == "fpaths":
        return "OpFetchPath (loc_of_segs [" + "; ".join(h(s) for s in op[1][0].split("/") if s) + "])"
    raise ValueError(t)


def gen_ops(rng, n):
    ops, stored = [], []
    for _ in range(n):
        r = rng.random()
        k = rng.choice(KEYS)
        if r < 0.3:
            ops.append(["put", k, VALUE[k]])
            stored.append(k) if k not in stored else None
        elif r < 0.4:
            ops.append(["has", k])
        elif r < 0.55:
            ops.append(["fetch", k])
        elif r < 0.85 and stored:
            ops.append(["sync", [[p, rng.choice(stored)] for p in rng.sample(PATHS, rng.randint(1, 2))]])
        else:
            ops.append(["fpaths", [rng.choice(PATHS)]])
    return ops


def run(rep, rng, n_seq):
    """Returns nothing; reports disagreements as violations of the calling property's report."""
    seqs = [gen_ops(rng, rng.randint(3, 14)) for _ in range(n_seq)]
    jobs = [{"store": "local", "cap": "bare", "ops": s, "gate": True} for s in seqs]
    res = C.run_driver("drive_store.py", {"seqs": jobs})["seqs"]
    model = C.coq_eval_strings(PRELUDE, ["run_trace (OpInit :: [" + "; ".join(op_coq(o) for o in s) + "])" for s in seqs], label="fstrace")
    kinds = {}
    for s, r, m in zip(seqs, res, model):
        real = canon_real(r["gate_log"])
        mtrace, mouts = m.split("#")
        mt = [x for x in mtrace.split(";") if x]
        rep.case("fstrace:" + json.dumps(s), nontrivial=any(o[0] == "sync" for o in s))
        for x in real:
            kinds[x.split()[0]] = kinds.get(x.split()[0], 0) + 1
        if real != mt:
            idx = next((i for i, (a, b) in enumerate(zip(real, mt)) if a != b), min(len(real), len(mt)))
            rep.violation("model-mismatch:fs-trace", f"system calls of the real store and of the model differ at call {idx}: "
                          f"real {real[idx] if idx < len(real) else '<end>'} vs model {mt[idx] if idx < len(mt) else '<end>'}",
                          {"ops": s, "real": real, "model": mt})
        # results: has / fetch-absent / fetch_paths error patterns must agree too
        mo = [x for x in mouts.split(";") if x][1:]
        ro = []
        for o, x in zip(s, r["outs"]):
            if o[0] == "fetch":
                ro.append("N" if x == "N" else "V")
            elif o[0] == "fpaths":
                ro.append("E" if x == "E" else "K:I/blobs/" + x.split("=")[1])
            else:
                ro.append(x)
        if ro != mo:
            rep.violation("model-mismatch:fs-results", f"results of the real store and of the model differ: {ro} vs {mo}", {"ops": s, "real": ro, "model": mo})
    rep.extra["fs_trace_correspondence"] = {"sequences": len(seqs), "system_calls_by_kind": kinds}
