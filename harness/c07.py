"""C07 - processes sharing a local store never observe partial or foreign results."""
import itertools
import json
import random

import re

import common as C
import fstrace

COQ_FILES = ("L6_Conc/FsOps.v", "L6_Conc/LocalProgs.v", "L6_Conc/ConcSpec.v", "L6_Conc/RunFs.v", "L6_Conc/CrashProofs.v", "Properties/C07.v")
EXTRACTED = ("ConstStore",)
ALLOWED_AXIOMS = ()

VALUES = {"aa01": "value-of-aa01-" + "x" * 40, "bb02": "value-of-bb02-" + "y" * 40}
# (for the os-buffered dimension) a value larger than the buffer of any file object: its bytes are written through while the
# program is still inside f.write, in contrast with the small ones, which stay in the buffer until the file is closed
BIG_VALUES = dict(VALUES, cc03="value-of-cc03-" + "z" * 20000)
TMP = re.compile(r"\.tmp\.\d+\.[0-9a-f]{32}")


def scenarios():
    init = ["init", "internal", "data"]
    return {
        "same-keep-cold-store": {"procs": [[init, ["keep", "aa01", "/d/p"]], [init, ["keep", "aa01", "/d/p"]]],
                                 "final": [["internal", "data", ["/d/p"]]]},
        "three-writers": {"procs": [[init, ["keep", "aa01", "/d/p"]], [init, ["keep", "aa01", "/d/p"]], [init, ["keep", "bb02", "/d/q"]]],
                          "final": [["internal", "data", ["/d/p", "/d/q"]]]},
        "keep-vs-load": {"procs": [[init, ["keep", "aa01", "/d/p"]], [init, ["load", "/d/p"], ["has", "aa01"], ["load", "/d/p"]]],
                         "final": [["internal", "data", ["/d/p"]]]},
        "rekeep-changed-vs-reader": {"procs": [[init, ["keep", "aa01", "/d/p"], ["keep", "bb02", "/d/p"]], [init, ["load", "/d/p"], ["load", "/d/p"]]],
                                     "final": [["internal", "data", ["/d/p"]]]},
        "two-committers-one-path": {"procs": [[init, ["keep", "aa01", "/d/p"]], [init, ["keep", "bb02", "/d/p"]]],
                                    "final": [["internal", "data", ["/d/p"]]]},
        "two-data-views": {"procs": [[["init", "internal", "data1"], ["keep", "aa01", "/d/p"]], [["init", "internal", "data2"], ["keep", "aa01", "/d/p"], ["load", "/d/p"]]],
                           "final": [["internal", "data1", ["/d/p"]], ["internal", "data2", ["/d/p"]]]},
    }


def with_inheritance(sc, hows, warm=None):
    """The scenario `sc` when the store object was built by a parent BEFORE the processes were started, as in every
    program that calls dds.set_store(...) once and then starts workers: process i does not build its store but works with
    the image of the parent's object that hows[i] names ("fork": memory image of a forked child = deep copy; "spawn":
    pickle round trip; "self": the parent itself goes on; None: the process still builds its own store).  The parent
    builds the store of process 0 and, when `warm` is given, first does that much work with it (so that whatever the
    object accumulates while being used is inherited as well).  The expected results do not change: the property does
    not depend on who built the store object."""
    init0 = sc["procs"][0][0]
    procs = []
    for prog, how in zip(sc["procs"], hows):
        if how is not None and prog[0] == init0:
            prog = [["inherit", how]] + prog[1:]
        procs.append(prog)
    # a path that only the parent committed must keep serving the parent's value
    touched = {a[2] for prog in sc["procs"] for a in prog if a[0] == "keep"}
    exact = {init0[2] + a[2]: a[1] for a in (warm or []) if a[2] not in touched}
    final = [[i, d, ps + [a[2] for a in (warm or []) if [i, d] == init0[1:] and a[2] not in ps]] for i, d, ps in sc["final"]]
    return dict(sc, procs=procs, parent=[init0] + list(warm or []), final=final, final_exact=exact)


def inherited_scenarios(tier):
    """The scenarios of scenarios() along the dimension 'where does the store object of a process come from'."""
    base = scenarios()
    warm = [["keep", "aa01", "/d/w"], ["keep", "bb02", "/d/v"]]      # the parent has stored blobs and committed (other) paths
    out = {}

    def add(tag, name, hows, w=None):
        sc = with_inheritance(base[name], hows, w)
        if any(a[0] == "inherit" for prog in sc["procs"] for a in prog) and not any((o["procs"], o["parent"]) == (sc["procs"], sc["parent"]) for o in out.values()):
            out[f"{name}@{tag}"] = sc
    add("fork", "same-keep-cold-store", ["fork", "fork"])
    add("spawn", "same-keep-cold-store", ["spawn", "spawn"])
    add("parent+fork", "same-keep-cold-store", ["self", "fork"])
    add("fork+own", "same-keep-cold-store", ["fork", None])
    add("fork", "two-committers-one-path", ["fork", "fork"])
    add("warm-fork", "two-committers-one-path", ["fork", "fork"], warm)
    # (the parent has committed the path itself: what its object remembers about the path is stale in the children)
    add("stale-fork", "two-committers-one-path", ["fork", "fork"], [["keep", "bb02", "/d/p"]])
    add("fork", "keep-vs-load", ["fork", "fork"])
    add("warm1-parent+spawn", "rekeep-changed-vs-reader", ["self", "spawn"], warm[:1])
    add("fork", "two-data-views", ["fork", None])
    if tier != "quick":
        for name, sc in base.items():
            n = len(sc["procs"])
            for tag, hows, w in (("fork", ["fork"] * n, None), ("spawn", ["spawn"] * n, None), ("parent+fork", ["self"] + ["fork"] * (n - 1), None),
                                 ("fork+spawn", ["fork"] + ["spawn"] * (n - 1), None),
                                 ("own+fork", [None] + ["fork"] * (n - 1), None), ("warm-fork", ["fork"] * n, warm),
                                 ("warm-parent+spawn", ["self"] + ["spawn"] * (n - 1), warm)):
                add(tag, name, hows, w)
    return out


def buffered_scenarios(tier):
    """The dimension 'when do the bytes of a write reach the file': the scenarios of scenarios() and scenarios with readers
    that USE what they find (probe = has_blob and, if present, fetch_blob; load; a second evaluation of the same keep),
    run with io = "buffered": the program's writes go through real buffered file objects, and the scheduling points are
    the os-level writes (each half) and closes at the place where they really happen - a process can be preempted
    between publishing a name (replace / symlink) or opening a file and the write / close that follows.  Small values stay
    in the buffer until the close; the big one is written through during f.write."""
    init = ["init", "internal", "data"]
    out = {}
    for name, sc in scenarios().items():
        # (quick: the 3-process shape is covered by writer+prober+loader, two committers / two data directories only thorough)
        if tier != "quick" or name not in ("three-writers", "two-committers-one-path", "two-data-views"):
            out[name + "@os-buffered"] = dict(sc, io="buffered", values=VALUES)
    more = {
        "keep-vs-probe": {"procs": [[init, ["keep", "aa01", "/d/p"]], [init, ["probe", "aa01"], ["load", "/d/p"], ["probe", "aa01"]]],
                          "final": [["internal", "data", ["/d/p"]]]},
        "big-keep-vs-probe": {"procs": [[init, ["keep", "cc03", "/d/p"]], [init, ["probe", "cc03"], ["load", "/d/p"], ["probe", "cc03"]]],
                              "final": [["internal", "data", ["/d/p"]]]},
        "big-same-keep-cold-store": {"procs": [[init, ["keep", "cc03", "/d/p"]], [init, ["keep", "cc03", "/d/p"], ["load", "/d/p"]]],
                                     "final": [["internal", "data", ["/d/p"]]]},
        "rekeep-big-vs-probe": {"procs": [[init, ["keep", "aa01", "/d/p"], ["keep", "cc03", "/d/p"]],
                                          [init, ["probe", "aa01"], ["load", "/d/p"], ["probe", "cc03"], ["load", "/d/p"]]],
                                "final": [["internal", "data", ["/d/p"]]]},
        "writer+prober+loader": {"procs": [[init, ["keep", "aa01", "/d/p"]], [init, ["probe", "aa01"], ["probe", "aa01"]], [init, ["load", "/d/p"], ["load", "/d/p"]]],
                                 "final": [["internal", "data", ["/d/p"]]]},
    }
    if tier != "quick":
        more["two-big-committers-vs-prober"] = {"procs": [[init, ["keep", "cc03", "/d/p"]], [init, ["keep", "aa01", "/d/p"], ["keep", "cc03", "/d/q"]],
                                                          [init, ["probe", "cc03"], ["load", "/d/p"], ["probe", "aa01"], ["load", "/d/q"]]],
                                                "final": [["internal", "data", ["/d/p", "/d/q"]]]}
        more["two-data-views-vs-probe"] = {"procs": [[["init", "internal", "data1"], ["keep", "cc03", "/d/p"]],
                                                     [["init", "internal", "data2"], ["probe", "cc03"], ["keep", "cc03", "/d/p"], ["load", "/d/p"]]],
                                           "final": [["internal", "data1", ["/d/p"]], ["internal", "data2", ["/d/p"]]]}
    for name, sc in more.items():
        out[name + "@os-buffered"] = dict(sc, io="buffered", values=BIG_VALUES)
    if tier != "quick":
        # a store object inherited from a parent that has already written through it
        for name, tag, hows, w in (("same-keep-cold-store", "fork", ["fork", "fork"], None),
                                   ("keep-vs-load", "warm-parent+spawn", ["self", "spawn"], [["keep", "bb02", "/d/v"]])):
            out[f"{name}@{tag}@os-buffered"] = dict(with_inheritance(scenarios()[name], hows, w), io="buffered", values=VALUES)
    return out


def full_op_counts(sc):
    """File-system operations of each process at most, over the runs in which one process goes first to completion (the
    process that finds the store cold does the most): the preemption points of EVERY process as the writer are enumerated."""
    n = len(sc["procs"])
    res = C.run_driver("drive_sched.py", {"scenario": sc, "schedules": [[]] + [[t] * 2000 for t in range(n)]})
    return [max(r["ops_per_thread"][t] for r in res) for t in range(n)]


def file_kind(p):
    """Kind of store object a (root-relative) file name designates."""
    p = TMP.sub(".tmp", p)
    tmp = p.endswith(".tmp")
    p = p[:-4] if tmp else p
    kind = "meta" if p.endswith(".meta") else "blob" if "/blobs/" in p else "dir" if p.endswith("/blobs") or p.count("/") <= 2 else "path"
    return kind + (".tmp" if tmp else "")


def windows(r):
    """The preemptions that took place in a run: after which operation a process that was not finished lost the processor."""
    ws = [w for w in r.get("switches", []) if not w["outgoing_finished"]]
    return "; ".join(f"process {w['after'][0]} preempted after {w['after'][1]}({', '.join(TMP.sub('.tmp', str(x)) for x in w['after'][2:])}), process {w['then']} goes on"
                     for w in ws[:3]) + (f"; ... ({len(ws)} preemptions)" if len(ws) > 3 else "")


def schedules_for(n_threads, ops_per_thread, bound, rng, cap):
    """Schedules with at most `bound` preemptions: the running thread is switched after a chosen number of operations."""
    out = [[]]          # no preemption: thread 0 to completion, then 1, ...
    total = sum(ops_per_thread)
    order0 = list(range(n_threads))
    for first in order0:
        out.append([first] * ops_per_thread[first])
    # one preemption: run `a` for i ops, then `b` to completion, then the rest
    for a in order0:
        for i in range(1, ops_per_thread[a] + 1):
            for b in order0:
                if b != a:
                    out.append([a] * i + [b] * ops_per_thread[b])
    if bound >= 2:
        two = []
        for a in order0:
            for i in range(1, ops_per_thread[a] + 1):
                for b in order0:
                    if b == a:
                        continue
                    for j in range(1, ops_per_thread[b] + 1):
                        for c in order0:
                            if c != b:
                                two.append([a] * i + [b] * j + [c] * ops_per_thread[c])
        rng.shuffle(two)
        out += two[:cap]
    if bound >= 3:
        for _ in range(cap):
            out.append([rng.randrange(n_threads) for _ in range(total)])
    return out


def serial_final(sc):
    """Key that every path must serve after the parent and then the processes 0, 1, ... have run ONE AFTER THE OTHER (the
    schedule []): the one of the last keep of that path in that order, per data directory."""
    parent = sc.get("parent") or []
    exp = {}
    for prog in [parent] + [(parent[:1] if any(a[0] == "inherit" for a in prog) else []) + prog for prog in sc["procs"]]:
        ddir = None
        for a in prog:
            if a[0] == "init":
                ddir = a[2]
            elif a[0] == "keep":
                exp[ddir + a[2]] = a[1]
    return exp


def check_result(name, sc, r, schedule=None):
    """Problems of one scheduled run."""
    probs = []
    vals = {k: repr(v) for k, v in (sc.get("values") or VALUES).items()}
    if r.get("parent_error"):
        return [("parent-failed", r["parent_error"])]
    for tid, outs in enumerate(r["out"]):
        if outs is None:
            probs.append(("thread-hung", tid))
            continue
        # (one output per action, in program order) a keep returns the value of ITS key; a process reads back its own commit
        own = set()
        for a, o in zip(sc["procs"][tid], outs):
            if a[0] == "keep" and o.startswith("V:") and o[2:] in vals.values() and o[2:] != vals.get(a[1]):
                probs.append(("keep-returned-foreign-value", f"keep of {a[1]}: {o[:60]}"))
            if a[0] == "load" and o == "E" and a[1] in own:
                probs.append(("load-after-own-keep-failed", f"process {tid}: load {a[1]}"))
            if a[0] == "keep":
                own.add(a[2])
        for o in outs:
            if o.startswith("X:"):
                probs.append(("process-failed:" + o.split(":")[1], o))
            elif o.startswith("V:"):
                if o[2:] not in vals.values():
                    probs.append(("keep-returned-wrong-value", o[:60]))
            elif o.startswith("P:"):
                # the blob was reported present: its complete value must come back
                _, k, v = o.split(":", 2)
                if vals.get(k) != v:
                    probs.append(("present-blob-fetched-partial-or-foreign", o[:60] + (f" ({len(v)} characters of {len(vals.get(k, ''))})" if len(v) > 60 else "")))
            elif o.startswith("PE:"):
                probs.append(("present-blob-not-fetchable", o))
            elif o.startswith("L:"):
                _, k, v = o.split(":", 2)
                if vals.get(k) != v:
                    probs.append(("load-returned-partial-or-foreign", o[:60]))
    for p, v in r["final"].items():
        if p == "error":
            probs.append(("final-state-error", v))
            continue
        if v == "E":
            probs.append(("final-path-missing", p))
        else:
            k, val = v.split(":", 1)
            if vals.get(k) != val:
                probs.append(("final-value-wrong", p + " " + v[:50]))
            elif sc.get("final_exact", {}).get(p, k) != k:
                probs.append(("final-value-foreign", p + " " + v[:50]))
            elif schedule == [] and serial_final(sc).get(p, k) != k:
                probs.append(("final-value-not-of-last-committer", p + " " + v[:50] + " after a serial run, expected " + serial_final(sc)[p]))
    return probs


def run(rep, tier, seed, proof_ok):
    rng = random.Random(seed)
    bound = 2 if tier == "quick" and proof_ok else 3
    cap = 120 if tier == "quick" and proof_ok else 1500
    cap_inh = 30 if tier == "quick" and proof_ok else 60
    inh = inherited_scenarios(tier)
    buf = buffered_scenarios(tier)
    cap_buf = 30 if tier == "quick" and proof_ok else 300
    rep.rule = (f"controlled scheduler over the real LocalFileStore code: scenarios {{same keep on a cold store (2 and 3 processes), keep vs "
                "load, re-keep with another key vs reader, two committers of one path, one internal directory with two data "
                "directories}, every process includes store creation; the same scenarios along the dimension 'origin of the store "
                "object of a process': built by the process itself (above), or built (and possibly already used for keeps) by a parent "
                "BEFORE the processes were started and inherited as the memory image of a forked child (deep copy), through a pickle "
                "round trip (spawn), or used by the parent itself next to its children, also mixed with processes that build their "
                f"own ({len(inh)} inherited scenarios{': ' + ', '.join(inh) if len(inh) <= 12 else ' = every scenario x 7 origins'}); scheduling points = "
                "every intercepted file-system operation and "
                "each half of every write; the dimension 'when do written bytes reach the file': above every Python-level f.write is "
                "the system call (bytes in the file at once), and in the os-buffered runs the files are real buffered file objects "
                "(harness/fsbuf.py) whose os-level writes (each half) and os-level close are the scheduling points at the place "
                "where they really happen - buffer overflow, flush, close - so that a process is also preempted between EVERY "
                "rename / symlink / open and the write or close that follows it, with values that stay in the buffer until the close "
                "(54 bytes) and one that is written through during f.write (20 kB), and with reader processes that use what they "
                "find scheduled into every such window of the blob, the metadata file and the path link: probe = has_blob and, "
                "when it says present, fetch_blob (which must then return the complete value and may not fail, not even with a DDS "
                "error), load, a second evaluation of the same keep "
                f"({len(buf)} os-buffered scenarios: {', '.join(n.split('@os-buffered')[0] for n in buf)}; for these the preemption points of every process are "
                "enumerated over its longest run, i.e. as the one that finds the store cold); "
                f"schedules: all with <= 1 preemption (exhaustive, in both write models), {cap} ({cap_inh} for inherited stores, {cap_buf} for os-buffered) sampled with 2 preemptions"
                f"{', plus random schedules' if bound >= 3 else ''}; each keep / load / probe that returns must return the complete value of its "
                "key (a keep: of the key it was called with), a process reads back a path it has committed itself, no thread may die with an exception, and the final store must serve a correct value for every path (a path "
                "committed only by the parent: the parent's value; after the serial schedule: the value of the last committer); "
                "plus the system-call trace correspondence between the real store and the Coq model; distinct = distinct "
                "(scenario, schedule); non-trivial = schedule with at least one preemption")
    rep.assumptions += ["processes are threads with separate store objects, driven at the store interface exactly as dds._api drives it "
                        "(has_blob, store_blob, sync_paths, fetch_paths, fetch_blob); dds's own module state is per process and not shared",
                        "a forked child's image of its parent's store object is copy.deepcopy of it, a spawned child's is its pickle round "
                        "trip; os.getpid() differs between simulated processes and is the parent's for the parent",
                        "the operating system executes each intercepted call atomically",
                        "os-buffered runs: files opened for writing are built as io.open builds them (FileIO, BufferedWriter / BufferedRandom, "
                        "TextIOWrapper, buffer size of the running Python) on a FileIO subclass whose write / close are gated; pyarrow and other "
                        "non-Python writers are not seen"]
    dist = {}
    inherited = inh
    buffered = buf
    import concurrent.futures as cf
    for name, sc in list(scenarios().items()) + list(inherited.items()) + list(buffered.items()):
        sc = dict(sc, values=sc.get("values") or VALUES)
        if name in buffered:
            opt = full_op_counts(sc)
        else:
            opt = C.run_driver("drive_sched.py", {"scenario": sc, "schedules": [[]]})[0]["ops_per_thread"]
        sch = schedules_for(len(sc["procs"]), opt, bound, rng, cap_buf if name in buffered else cap_inh if name in inherited else cap)
        res = []
        chunk = 40 if (name in inherited or name in buffered) and tier == "quick" else 250     # (few schedules per scenario: still spread them)
        with cf.ThreadPoolExecutor(max_workers=C.NPROC) as ex:
            parts = list(ex.map(lambda c: C.run_driver("drive_sched.py", {"scenario": sc, "schedules": c}, timeout=900),
                                [sch[i:i + chunk] for i in range(0, len(sch), chunk)]))
        for p in parts:
            res += p
        dist[name] = {"schedules": len(sch), "ops_per_thread": opt}
        if name in inherited:
            dist[name]["store_objects"] = [next((a[1] for a in prog if a[0] == "inherit"), "own") for prog in sc["procs"]]
            dist[name]["parent_ops_before_fork"] = len(sc["parent"]) - 1
        if name in buffered:
            dist[name]["io"] = "buffered"
            dist[name]["one_preemption_schedules"] = sum(1 for s in sch if sum(1 for a, b in zip(s, s[1:]) if a != b) == 1)
            dist[name]["value_sizes"] = sorted({len(sc["values"][a[1]]) for prog in sc["procs"] for a in prog if a[0] in ("keep", "probe")})
            win = dist[name]["preempted_after"] = {}
        for s, r in zip(sch, res):
            switches = sum(1 for a, b in zip(s, s[1:]) if a != b)
            rep.case(json.dumps([name, s]), nontrivial=switches >= 1)
            if name in buffered:
                # which windows were really entered: (operation, kind of file) after which a process lost the processor
                for w in r.get("switches", []):
                    if not w["outgoing_finished"]:
                        k = w["after"][1] + ":" + file_kind(str(w["after"][-1] if w["after"][1] in ("replace", "rename", "symlink") else w["after"][2]))
                        win[k] = win.get(k, 0) + 1
            for kind, detail in check_result(name, sc, r, s):
                rep.violation(f"race:{kind}:{name}", f"scenario {name}: {kind}: {detail} under schedule with {switches} switches"
                              + (f" [{windows(r)}]" if windows(r) else ""),
                              {"scenario": name, "schedule": s, "result": r, "spec": sc})
    rep.extra["input_distribution"] = dist
    fstrace.run(rep, rng, 20 if tier == "quick" else 150)
    rep.sample({"scenario": "keep-vs-load", "schedule": [0, 0, 0, 1, 1, 0, 0]})


def replay(path):
    r = json.load(open(path))["replay"]
    out = C.run_driver("drive_sched.py", {"scenario": r["spec"], "schedules": [r["schedule"]]})[0]
    print(json.dumps(out, indent=1))
    bad = bool(check_result(r["scenario"], r["spec"], out, r["schedule"]))
    print("REPRODUCED" if bad else "not reproduced")
    return 1 if bad else 0
