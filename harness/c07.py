"""C07 - processes sharing a local store never observe partial or foreign results."""
import itertools
import json
import random

import common as C
import fstrace

COQ_FILES = ("L6_Conc/FsOps.v", "L6_Conc/LocalProgs.v", "L6_Conc/ConcSpec.v", "L6_Conc/RunFs.v", "L6_Conc/CrashProofs.v", "Properties/C07.v")
EXTRACTED = ("ConstStore",)
ALLOWED_AXIOMS = ()

VALUES = {"aa01": "value-of-aa01-" + "x" * 40, "bb02": "value-of-bb02-" + "y" * 40}


def scenarios():
    init = ["init", "internal", "data"]
    return {
        "same-keep-cold-store": {"procs": [[init, ["keep", "aa01", "/d/p"]], [init, ["keep", "aa01", "/d/p"]]],
                                 "final": [["internal", "data", ["/d/p"]]]},
        "three-writers": {"procs": [[init, ["keep", "aa01", "/d/p"]], [init, ["keep", "aa01", "/d/p"]], [init, ["keep", "bb02", "/d/q"]]],
                          "final": [["internal", "data", ["/d/p", "/d/q"]]]},
        "keep-vs-load": {"procs": [[init, ["keep", "aa01", "/d/p"]], [init, ["load", "/d/p"], ["has", "aa01"], ["load", "/d/p"]]],
                         "final": [["internal", "data", ["/d/p"]]]},
        "rekeep-changed-vs-reader": {"procs": [[init, ["keep", "aa01", "/d/p"], ["keep", "bb02", "/d/p"]], [init, ["load", "/d/p"], ["load", "/d/p"]]],
                                     "final": [["internal", "data", ["/d/p"]]]},
        "two-committers-one-path": {"procs": [[init, ["keep", "aa01", "/d/p"]], [init, ["keep", "bb02", "/d/p"]]],
                                    "final": [["internal", "data", ["/d/p"]]]},
        "two-data-views": {"procs": [[["init", "internal", "data1"], ["keep", "aa01", "/d/p"]], [["init", "internal", "data2"], ["keep", "aa01", "/d/p"], ["load", "/d/p"]]],
                           "final": [["internal", "data1", ["/d/p"]], ["internal", "data2", ["/d/p"]]]},
    }


def schedules_for(n_threads, ops_per_thread, bound, rng, cap):
    """Schedules with at most `bound` preemptions: the running thread is switched after a chosen number of operations."""
    out = [[]]          # no preemption: thread 0 to completion, then 1, ...
    total = sum(ops_per_thread)
    order0 = list(range(n_threads))
    for first in order0:
        out.append([first] * ops_per_thread[first])
    # one preemption: run `a` for i ops, then `b` to completion, then the rest
    for a in order0:
        for i in range(1, ops_per_thread[a] + 1):
            for b in order0:
                if b != a:
                    out.append([a] * i + [b] * ops_per_thread[b])
    if bound >= 2:
        two = []
        for a in order0:
            for i in range(1, ops_per_thread[a] + 1):
                for b in order0:
                    if b == a:
                        continue
                    for j in range(1, ops_per_thread[b] + 1):
                        for c in order0:
                            if c != b:
                                two.append([a] * i + [b] * j + [c] * ops_per_thread[c])
        rng.shuffle(two)
        out += two[:cap]
    if bound >= 3:
        for _ in range(cap):
            out.append([rng.randrange(n_threads) for _ in range(total)])
    return out


def check_result(name, sc, r):
    """Problems of one scheduled run."""
    probs = []
    vals = {k: repr(v) for k, v in VALUES.items()}
    for tid, outs in enumerate(r["out"]):
        if outs is None:
            probs.append(("thread-hung", tid))
            continue
        for o in outs:
            if o.startswith("X:"):
                probs.append(("process-failed:" + o.split(":")[1], o))
            elif o.startswith("V:"):
                if o[2:] not in vals.values():
                    probs.append(("keep-returned-wrong-value", o[:60]))
            elif o.startswith("L:"):
                _, k, v = o.split(":", 2)
                if vals.get(k) != v:
                    probs.append(("load-returned-partial-or-foreign", o[:60]))
    for p, v in r["final"].items():
        if p == "error":
            probs.append(("final-state-error", v))
            continue
        if v == "E":
            probs.append(("final-path-missing", p))
        else:
            k, val = v.split(":", 1)
            if vals.get(k) != val:
                probs.append(("final-value-wrong", p + " " + v[:50]))
    return probs


def run(rep, tier, seed, proof_ok):
    rng = random.Random(seed)
    bound = 2 if tier == "quick" and proof_ok else 3
    cap = 120 if tier == "quick" and proof_ok else 1500
    rep.rule = (f"controlled scheduler over the real LocalFileStore code: scenarios {{same keep on a cold store (2 and 3 processes), keep vs "
                "load, re-keep with another key vs reader, two committers of one path, one internal directory with two data "
                "directories}, every process includes store creation; scheduling points = every intercepted file-system operation and "
                f"each half of every write; schedules: all with <= 1 preemption, {cap} sampled with 2 preemptions"
                f"{', plus random schedules' if bound >= 3 else ''}; each keep / load that returns must return the complete value of its "
                "key, no thread may die with an exception, and the final store must serve a correct value for every path; "
                "plus the system-call trace correspondence between the real store and the Coq model; distinct = distinct "
                "(scenario, schedule); non-trivial = schedule with at least one preemption")
    rep.assumptions += ["processes are threads with separate store objects, driven at the store interface exactly as dds._api drives it "
                        "(has_blob, store_blob, sync_paths, fetch_paths, fetch_blob); dds's own module state is per process and not shared",
                        "the operating system executes each intercepted call atomically"]
    dist = {}
    for name, sc in scenarios().items():
        sc = dict(sc, values=VALUES)
        base = C.run_driver("drive_sched.py", {"scenario": sc, "schedules": [[]]})[0]
        opt = base["ops_per_thread"]
        sch = schedules_for(len(sc["procs"]), opt, bound, rng, cap)
        res = []
        chunk = 250
        import concurrent.futures as cf
        with cf.ThreadPoolExecutor(max_workers=C.NPROC) as ex:
            parts = list(ex.map(lambda c: C.run_driver("drive_sched.py", {"scenario": sc, "schedules": c}, timeout=900),
                                [sch[i:i + chunk] for i in range(0, len(sch), chunk)]))
        for p in parts:
            res += p
        dist[name] = {"schedules": len(sch), "ops_per_thread": opt}
        for s, r in zip(sch, res):
            switches = sum(1 for a, b in zip(s, s[1:]) if a != b)
            rep.case(json.dumps([name, s]), nontrivial=switches >= 1)
            for kind, detail in check_result(name, sc, r):
                rep.violation(f"race:{kind}:{name}", f"scenario {name}: {kind}: {detail} under schedule with {switches} switches",
                              {"scenario": name, "schedule": s, "result": r, "spec": sc})
    rep.extra["input_distribution"] = dist
    fstrace.run(rep, rng, 20 if tier == "quick" else 150)
    rep.sample({"scenario": "keep-vs-load", "schedule": [0, 0, 0, 1, 1, 0, 0]})


def replay(path):
    r = json.load(open(path))["replay"]
    out = C.run_driver("drive_sched.py", {"scenario": r["spec"], "schedules": [r["schedule"]]})[0]
    print(json.dumps(out, indent=1))
    bad = bool(check_result(r["scenario"], r["spec"], out))
    print("REPRODUCED" if bad else "not reproduced")
    return 1 if bad else 0
