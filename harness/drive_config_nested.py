"""Implementation driver for C16 (pipelines with nested keeps on local-store configurations / data views).
stdin: {"base": dir, "steps": [...]}; the generated module pipemod_c16 (and its non-accepted helper holder_c16n, which
counts the executions of the function bodies) are in base.  Each step runs in this process:
  {"chdir": rel} | {"set_store": {...}} | {"salts": {node: salt}} (module variables read by the bodies: the code version)
  | {"run": {"kind": "keep", "path": p, "node": n}}  dds.keep(p, pipemod_c16.<n>)           -> {"v": value, "ran": {node: count}}
  | {"run": {"kind": "eval", "fun": name}}           dds.eval(pipemod_c16.<name>)           -> idem
  | {"run": {"kind": "plain", "node": n}}            pipemod_c16.<n>() without an evaluation -> idem
  | {"load": [paths]}                                                                       -> {path: "L:value" | "E:code" | "X:..."}"""
import json
import os
import sys


def main():
    payload = json.load(sys.stdin)
    import dds
    from dds import _api
    from dds.structures import DDSException
    os.chdir(payload["base"])
    sys.path.insert(0, payload["base"])
    import pipemod_c16
    import holder_c16n
    dds.accept_module("pipemod_c16")

    def guarded(th):
        try:
            return th()
        except DDSException as e:
            c = getattr(e, "error_code", None)
            return "E:" + (c.name if c is not None else "NONE") + ":" + str(e)[:120]
        except BaseException as e:  # noqa
            return "X:" + type(e).__name__ + ":" + str(e)[:120]

    out = []
    for st in payload["steps"]:
        if "chdir" in st:
            os.chdir(os.path.join(payload["base"], st["chdir"]))
            out.append("U")
        elif "set_store" in st:
            c = st["set_store"]
            co = {"none": None, "true": True, "false": False}.get(c.get("cache_objects", "none"), c.get("cache_objects"))
            out.append(guarded(lambda: (dds.set_store("local", internal_dir=c["internal_dir"], data_dir=c["data_dir"], cache_objects=co),
                                        "U:" + type(_api._store()).__name__)[1]))
        elif "salts" in st:
            for n, s in st["salts"].items():
                setattr(pipemod_c16, "S_" + n, s)
            out.append("U")
        elif "run" in st:
            r = st["run"]
            before = dict(holder_c16n.COUNTS)
            if r["kind"] == "keep":
                v = guarded(lambda: "V:" + str(dds.keep(r["path"], getattr(pipemod_c16, r["node"]))))
            elif r["kind"] == "eval":
                v = guarded(lambda: "V:" + str(dds.eval(getattr(pipemod_c16, r["fun"]))))
            else:
                v = guarded(lambda: "V:" + str(getattr(pipemod_c16, r["node"])()))
            ran = {n: k - before.get(n, 0) for n, k in holder_c16n.COUNTS.items() if k - before.get(n, 0)}
            out.append({"v": v, "ran": ran})
        elif "load" in st:
            out.append({p: guarded(lambda: "L:" + str(dds.load(p))) for p in st["load"]})
    print("@@RESULT@@" + json.dumps(out))


if __name__ == "__main__":
    main()
