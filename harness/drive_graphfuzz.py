"""Search support for C18: random interaction trees - with shared sub-trees (one function reached from several places),
run-time-argument nodes and loads - are given to the REAL dds._plotting._structure; reports cycles and returns the graphs
of a sample for comparison with the Coq model.  _structure is called the way dds.eval's draw_graph calls it: the parameters
it has beyond (fis, indirect_refs) are given, by name, what the evaluation has for them (call_structure); the tables
handed to it are the evaluation's own: it must leave them as they are (reported as "mutated").  A second batch of trees
(generator of its own), in which a path may be reached again under another signature (F23), is only checked for that.
stdin: {"n": int, "seed": int, "sample": int}"""
import json
import random
import sys
from collections import OrderedDict


def evaluation_tables(fun, root, given=()):
    """What dds.eval has at hand for the parameters of fun (_structure / build_graph / draw_graph) beyond the ones in
    given: {name: value}.  Raises LookupError for a required parameter this driver knows nothing about."""
    import inspect
    from dds.structures_utils import FunctionInteractionsUtils
    known = {"store_paths": lambda: FunctionInteractionsUtils.all_store_paths(root), "requested_paths": lambda: FunctionInteractionsUtils.all_store_paths(root),
             "present_blobs": lambda: None}
    out = {}
    for name, p in inspect.signature(fun).parameters.items():
        if name in given or p.kind in (p.VAR_POSITIONAL, p.VAR_KEYWORD):
            continue
        if name in known:
            out[name] = known[name]()
        elif p.default is p.empty:
            raise LookupError(f"{fun.__name__} has a required parameter '{name}' that this driver cannot provide")
    return out


def changed_tables(before, after):
    """Differences between the tables given to the export and what they are afterwards: [[table, path, before, after]]."""
    out = []
    for name in before:
        a, b = before[name], after[name]
        if isinstance(a, dict) and dict(a) != dict(b):
            out += [[name, p, a.get(p), b.get(p)] for p in sorted(set(a) | set(b), key=str) if a.get(p) != b.get(p)]
        elif isinstance(a, dict) and list(a) != list(b):
            out.append([name, "(order of the entries)", list(a)[:6], list(b)[:6]])
    return out


def main():
    payload = json.load(sys.stdin)
    from dds.structures import FunctionInteractions, FunctionArgContext
    from dds._plotting import _structure
    rng = random.Random(payload["seed"])

    def mk(sig, path, nargs, children, loads):
        named = OrderedDict((f"a{i}", None) for i in range(nargs))
        return FunctionInteractions(FunctionArgContext(named, None), "b" + sig, sig, [], list(children), path, None, list(loads))

    def gen(depth, pool, counter, widths=(0, 1, 2, 2, 3), top=None):
        if pool and rng.random() < 0.3:
            return rng.choice(pool)
        counter[0] += 1
        sig = f"s{counter[0]}"
        nch = 0 if depth == 0 else rng.choice(top if top is not None else widths)
        kept_before = [n.store_path for n in pool if n.store_path]
        children = [gen(depth - 1, pool, counter, widths) for _ in range(nch)]
        path = f"/p{sig[1:]}" if rng.random() < 0.6 else None
        loads = [rng.choice(kept_before)] if path and kept_before and rng.random() < 0.25 else []
        node = mk(sig, path, rng.choice([0, 0, 1]), children, loads)
        pool.append(node)
        return node

    def cyc(edges):
        adj = {}
        for a, b in edges:
            adj.setdefault(a, set()).add(b)
        state = {}

        def dfs(u):
            state[u] = 1
            for v in adj.get(u, ()):
                if state.get(v) == 1 or (state.get(v) is None and dfs(v)):
                    return True
            state[u] = 2
            return False
        return any(state.get(u) is None and dfs(u) for u in list(adj))

    def dump(x):
        return [x.fun_return_sig, x.store_path, len(x.arg_input.named_args), list(x.indirect_deps), [dump(c) for c in x.parsed_body]]
    import copy
    out = {"trees": 0, "cyclic": [], "errors": [], "sample": [], "shared": 0, "mutated": [], "trees_two_signatures": 0}

    def call_structure(root, refs):
        """The real _structure on the tables of an evaluation; records the tree when a table is not left as it was."""
        tables = dict(evaluation_tables(_structure, root, given=("fis", "indirect_refs")), indirect_refs=dict(refs))
        before = copy.deepcopy(tables)
        try:
            return _structure(root, tables["indirect_refs"], **{k: v for k, v in tables.items() if k != "indirect_refs"})
        finally:
            ch = changed_tables(before, tables)
            if ch and len(out["mutated"]) < 3:
                out["mutated"].append({"tree": dump(root), "changed": ch[:6]})
    for it in range(payload["n"]):
        pool, counter = [], [0]
        root = gen(rng.choice([2, 3, 4]), pool, counter)
        refs = {n.store_path: n.fun_return_sig for n in pool if n.store_path}
        out["trees"] += 1
        try:
            g = call_structure(root, refs)
        except LookupError as e:
            out["unsupported"] = str(e)
            break
        except BaseException as e:  # noqa
            if len(out["errors"]) < 3:
                out["errors"].append({"tree": dump(root), "error": type(e).__name__ + ": " + str(e)[:100]})
            continue
        edges = [(e.from_path, e.to_path) for e in g.deps]
        if cyc(edges) and len(out["cyclic"]) < 3:
            out["cyclic"].append({"tree": dump(root), "edges": [[e.from_path, e.to_path, int(e.edge_type)] for e in g.deps]})
        if it < payload.get("sample", 0):
            out["sample"].append({"tree": dump(root), "refs": sorted(refs.items()), "nodes": sorted(str(n.path) for n in g.fnodes),
                                  "edges": sorted([str(e.from_path), str(e.to_path), {1: "solid", 2: "dotted", 3: "dashed"}[int(e.edge_type)]] for e in g.deps)})
    # wide batch (own random stream, so that the trees above do not move): a function with 5..12 sub-interactions, some of them shared with
    # (= dependencies of) their siblings' sub-trees - the fan-out of a kept function is a dimension of its own
    rng = random.Random(payload["seed"] * 17 + 3)
    out["wide_trees"], out["widest"] = 0, 0
    for it in range(0 if "unsupported" in out else max(40, payload["n"] // 10)):
        pool, counter = [], [0]
        root = gen(rng.choice([2, 3]), pool, counter, widths=(0, 1, 2, 2), top=list(range(5, 13)))
        refs = {n.store_path: n.fun_return_sig for n in pool if n.store_path}
        out["trees"] += 1
        out["wide_trees"] += 1
        out["widest"] = max(out["widest"], len(root.parsed_body))
        try:
            g = call_structure(root, refs)
        except BaseException as e:  # noqa
            if len(out["errors"]) < 3:
                out["errors"].append({"tree": dump(root), "error": type(e).__name__ + ": " + str(e)[:100]})
            continue
        edges = [(e.from_path, e.to_path) for e in g.deps]
        if cyc(edges) and len(out["cyclic"]) < 3:
            out["cyclic"].append({"tree": dump(root), "edges": [[e.from_path, e.to_path, int(e.edge_type)] for e in g.deps]})
        if it < max(30, payload.get("sample", 0) // 4):
            out["sample"].append({"tree": dump(root), "refs": sorted(refs.items()), "nodes": sorted(str(n.path) for n in g.fnodes),
                                  "edges": sorted([str(e.from_path), str(e.to_path), {1: "solid", 2: "dotted", 3: "dashed"}[int(e.edge_type)]] for e in g.deps)})
    # second batch: a kept node may take the path of an earlier kept node, under its own signature (one path analysed under
    # several signatures); only: the tables of the evaluation are left as they are
    rng = random.Random(payload["seed"] * 31 + 7)
    for it in range(0 if "unsupported" in out else payload["n"] // 4):
        pool, counter = [], [0]
        root = gen(rng.choice([2, 3]), pool, counter)
        kept = [n for n in pool if n.store_path]
        if len(kept) < 2:
            continue
        # rebuild the tree with some kept nodes renamed to the path of another kept node
        ren = {}
        for n in kept[1:]:
            if rng.random() < 0.3:
                ren[n.fun_return_sig] = rng.choice([m.store_path for m in kept if m is not n])
        if not ren:
            continue
        memo = {}

        def rebuild(x):
            if x.fun_return_sig not in memo:
                memo[x.fun_return_sig] = mk(x.fun_return_sig, ren.get(x.fun_return_sig, x.store_path), len(x.arg_input.named_args), [rebuild(c) for c in x.parsed_body], x.indirect_deps)
            return memo[x.fun_return_sig]
        root = rebuild(root)
        out["trees_two_signatures"] += 1
        refs = {}
        for n in memo.values():
            if n.store_path:
                refs.setdefault(n.store_path, n.fun_return_sig)
        try:
            call_structure(root, refs)
        except BaseException as e:  # noqa
            pass        # (what the graph of such a tree is: F23)
    print("@@RESULT@@" + json.dumps(out))


if __name__ == "__main__":
    main()
