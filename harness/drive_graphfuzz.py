"""Search support for C18: random interaction trees - with shared sub-trees (one function reached from several places),
run-time-argument nodes and loads - are given to the REAL dds._plotting._structure; reports cycles and returns the graphs
of a sample for comparison with the Coq model.  stdin: {"n": int, "seed": int, "sample": int}"""
import json
import random
import sys
from collections import OrderedDict


def main():
    payload = json.load(sys.stdin)
    from dds.structures import FunctionInteractions, FunctionArgContext
    from dds._plotting import _structure
    rng = random.Random(payload["seed"])

    def mk(sig, path, nargs, children, loads):
        named = OrderedDict((f"a{i}", None) for i in range(nargs))
        return FunctionInteractions(FunctionArgContext(named, None), "b" + sig, sig, [], list(children), path, None, list(loads))

    def gen(depth, pool, counter):
        if pool and rng.random() < 0.3:
            return rng.choice(pool)
        counter[0] += 1
        sig = f"s{counter[0]}"
        nch = 0 if depth == 0 else rng.choice([0, 1, 2, 2, 3])
        kept_before = [n.store_path for n in pool if n.store_path]
        children = [gen(depth - 1, pool, counter) for _ in range(nch)]
        path = f"/p{sig[1:]}" if rng.random() < 0.6 else None
        loads = [rng.choice(kept_before)] if path and kept_before and rng.random() < 0.25 else []
        node = mk(sig, path, rng.choice([0, 0, 1]), children, loads)
        pool.append(node)
        return node

    def cyc(edges):
        adj = {}
        for a, b in edges:
            adj.setdefault(a, set()).add(b)
        state = {}

        def dfs(u):
            state[u] = 1
            for v in adj.get(u, ()):
                if state.get(v) == 1 or (state.get(v) is None and dfs(v)):
                    return True
            state[u] = 2
            return False
        return any(state.get(u) is None and dfs(u) for u in list(adj))

    def dump(x):
        return [x.fun_return_sig, x.store_path, len(x.arg_input.named_args), list(x.indirect_deps), [dump(c) for c in x.parsed_body]]
    out = {"trees": 0, "cyclic": [], "errors": [], "sample": [], "shared": 0}
    for it in range(payload["n"]):
        pool, counter = [], [0]
        root = gen(rng.choice([2, 3, 4]), pool, counter)
        refs = {n.store_path: n.fun_return_sig for n in pool if n.store_path}
        out["trees"] += 1
        try:
            g = _structure(root, dict(refs))
        except BaseException as e:  # noqa
            if len(out["errors"]) < 3:
                out["errors"].append({"tree": dump(root), "error": type(e).__name__ + ": " + str(e)[:100]})
            continue
        edges = [(e.from_path, e.to_path) for e in g.deps]
        if cyc(edges) and len(out["cyclic"]) < 3:
            out["cyclic"].append({"tree": dump(root), "edges": [[e.from_path, e.to_path, int(e.edge_type)] for e in g.deps]})
        if it < payload.get("sample", 0):
            out["sample"].append({"tree": dump(root), "refs": sorted(refs.items()), "nodes": sorted(str(n.path) for n in g.fnodes),
                                  "edges": sorted([str(e.from_path), str(e.to_path), {1: "solid", 2: "dotted", 3: "dashed"}[int(e.edge_type)]] for e in g.deps)})
    print("@@RESULT@@" + json.dumps(out))


if __name__ == "__main__":
    main()
